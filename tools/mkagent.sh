#!/bin/bash
# tools/mkagent.sh <name>: private copy of /verif and worktree of /repo for a build agent
set -e
n=$1
mkdir -p /tmp/ag/$n
rm -rf /tmp/ag/$n/verif
git -C /repo worktree remove --force /tmp/ag/$n/repo 2>/dev/null || true
git -C /repo worktree add --detach /tmp/ag/$n/repo HEAD >/dev/null 2>&1
rsync -a --exclude .git --exclude .build --exclude replays /verif/ /tmp/ag/$n/verif/
find /tmp/ag/$n/verif/coq -name '*.vo*' -o -name '*.glob' -o -name '.*.aux' | xargs rm -f
rm -f /tmp/ag/$n/verif/coq/Makefile /tmp/ag/$n/verif/coq/.Makefile.d /tmp/ag/$n/verif/coq/Makefile.conf
echo "/tmp/ag/$n ready (export VERIF_REPO=/tmp/ag/$n/repo)"
