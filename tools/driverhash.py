#!/usr/bin/env python3
"""sha256 over every .v under coq/{model,spec,base,wire,extract} and ocaml/driver.ml: what the extracted driver is built from."""
import hashlib, os, sys
ROOT = os.path.dirname(os.path.dirname(os.path.abspath(__file__)))
def driver_hash():
    hh = hashlib.sha256()
    for d in ("model", "spec", "base", "wire", "extract"):
        for root, dirs, files in os.walk(os.path.join(ROOT, "coq", d)):
            dirs.sort()
            for f in sorted(files):
                if f.endswith(".v"):
                    hh.update(f.encode()); hh.update(open(os.path.join(root, f), "rb").read())
    hh.update(open(os.path.join(ROOT, "ocaml", "driver.ml"), "rb").read())
    return hh.hexdigest()
if __name__ == "__main__":
    print(driver_hash())
