#!/bin/bash
# tools/mkstrengthen.sh <Cxx> <n>... : private workspace /tmp/ag/S<Cxx> (copy of /verif + worktree of /repo) for a
# build agent that has to strengthen check Cxx against the seeded changes <n>... that it missed (or caught only as
# "no-failing-input-found"); writes the brief to /tmp/ag/prompts/S<Cxx>.txt.
set -e
pid=$1; shift
ws=S$pid
/verif/tools/mkagent.sh $ws >/dev/null
mkdir -p /tmp/ag/$ws/seeds /tmp/ag/prompts
list=""
for n in "$@"; do
  src=/tmp/seed/$pid/out/$n
  [ -d "$src" ] || src=/verif/seeded/$pid-$n
  mkdir -p /tmp/ag/$ws/seeds/$n
  cp -r $src/* /tmp/ag/$ws/seeds/$n/
  t=$(python3 -c "import json,sys;print(json.load(open('$src/meta.json')).get('title',''))" 2>/dev/null)
  list="$list
  - seeds/$n/ (patch.diff, meta.json, demo*): $t"
done
cat > /tmp/ag/prompts/$ws.txt <<EOF
You maintain the check for property $pid in a verification suite for junegunn/fzf whose technique is machine-checked proof in Coq 8.16 (hand-written executable Gallina models + theorems, tied to the Go code by a correspondence run). Read first, in your workspace: AGENT_GUIDE.md, the §5 entry of $pid in DESIGN.md (and §1.4), manifest.d/$pid.json, harness/cmd/harness/$(echo $pid | tr 'C' 'c')*.go, coq/Properties/$pid.v and the spec/model/wire files it imports. The property text is the line with "id": "$pid" in properties.jsonl (given and fixed).

WORKSPACE (private): /tmp/ag/$ws/verif (a copy of the framework) and /tmp/ag/$ws/repo (a scratch git worktree of fzf). Work ONLY there (never touch /repo or /verif). For every shell call: \`export VERIF_REPO=/tmp/ag/$ws/repo GOFLAGS=-mod=mod GOPROXY=off GOSUMDB=off GOTOOLCHAIN=local\`. First \`cd /tmp/ag/$ws/verif && ./setup.sh\` (several minutes: full Coq build), then \`./check $pid\` (must print OK).

THE PROBLEM. An independent adversary, who saw only the property text, wrote realistic changes to fzf that break property $pid, compile, and pass fzf's own unit tests. Our check MISSED these (printed OK), or caught them only through a broken model correspondence and ended with "no-failing-input-found" instead of a concrete failing input of the property:$list
Apply one with \`git -C /tmp/ag/$ws/repo apply /tmp/ag/$ws/seeds/N/patch.diff\`, run \`./check $pid\`, undo with \`git -C /tmp/ag/$ws/repo checkout -- .\` (never leave it applied; never use git stash). meta.json says what breaks and what is needed to see it; demo* shows it on the real binary.

YOUR TASK: strengthen the check GENERICALLY so that the REGION of behaviour each change lives in is covered — extend the generators (input shapes, option combinations, action sequences, timing), add the missing spec checks on the implementation's output (Kind "spec": these are what give a VIOLATION with a concrete replay), and extend the Coq spec/model/wire (and theorems, closed, no axioms) where the behaviour is not modelled yet and can be. Do not special-case the seed's literal input, do not key on anything in the patch; a different bug in the same region must be caught too. Requirements:
 1. With each seed applied, \`./check $pid\` prints \`VIOLATION property=$pid replay=...\` whose replay holds a concrete failing input (not only "no-failing-input-found"), for VERIF_SEED=1, 2 and 3.
 2. On the clean scratch repo \`./check $pid\` prints OK for VERIF_SEED=1..5, and \`./check $pid --tier thorough\` prints OK once. NEVER a false alarm: if a new check fires on the clean tree, decide by the property text whether fzf is wrong (then tell me: exact input, expected vs actual — do not hide it, do not fix fzf) or your check is wrong (then fix the check). Timing-dependent observations must be stated as eventually-properties with generous deadlines and retried before reporting.
 3. The quick tier stays fast (target: at most ~30 s slower than now). Every random choice comes from c.Rng (replayable). Replays must work: \`./check $pid --replay replays/<file>\` reproduces.
 4. Never loosen or remove an existing check. Keep the conventions of AGENT_GUIDE.md (op numbers $pid*100+k via coq/wire/W_*.v; tools/gen.py regenerates Dispatch.v/_CoqProject/MANIFEST.json; hooks only as a NEW add-only file with \`//go:build verif\` in the scratch repo — tell me its path and content).
 5. If a change cannot be observed by any executable check in this sandbox (say why precisely), say so instead of faking coverage.
Also add one minimised corpus case per seed under corpus/$pid/ (it must PASS on the clean tree and fail with the seed), and update manifest.d/$pid.json's note if what is covered changed.

FINAL REPORT (short): per seed: caught or not, by which check name, on which seeds; what you added (generators / spec checks / Coq definitions and theorems); timings of quick and thorough; the exact list of new/changed files relative to /tmp/ag/$ws/verif (and any hook file in the repo); anything about fzf itself that looks like a genuine defect on the clean tree.
EOF
echo "/tmp/ag/prompts/$ws.txt"
