#!/bin/bash
# tools/integrate2.sh <ws> <DESIGN-built-marker-prefix|-> file... : copy the files a strengthen agent names from /tmp/ag/<ws>/verif
ws=$1; shift
A=/tmp/ag/$ws/verif
for f in "$@"; do mkdir -p $(dirname /verif/$f); cp $A/$f /verif/$f && echo "copied $f"; done
