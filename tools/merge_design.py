#!/usr/bin/env python3
"""tools/merge_design.py <ws> <Cxx>: take the §5 section of property Cxx from /tmp/ag/<ws>/verif/DESIGN.md into /verif/DESIGN.md."""
import sys,re
ws,pid=sys.argv[1],sys.argv[2]
def section(text):
    m=re.search(r'^### %s .*?(?=^### |^-{20,}\n|^## )'%pid, text, re.S|re.M)
    return m
a=open('/tmp/ag/%s/verif/DESIGN.md'%ws).read(); s=open('/verif/DESIGN.md').read()
ma,ms=section(a),section(s)
assert ma and ms
if ma.group(0)==ms.group(0): print('identical'); sys.exit(0)
s=s[:ms.start()]+ma.group(0)+s[ms.end():]
open('/verif/DESIGN.md','w').write(s); print('merged section',pid,len(ma.group(0)),'chars')
