#!/usr/bin/env python3
"""tools/seedprompts.py <first_n> <Cxx>... : write /tmp/seed/prompts/<Cxx>.txt and create the scratch worktree
/tmp/seed/<Cxx>/repo for a seed agent (the adversary that writes property-breaking changes).

The agent is given ONLY the property text (from properties.jsonl), its own worktree and -- from round 3 on -- a
'focus' line that names mechanisms of fzf (not of /verif) we want it to look at, so that the rounds do not
all land in the same functions.  Nothing from /verif is shown to it.  Results: /tmp/seed/<Cxx>/out/<n>/.
"""
import json, subprocess, os, sys

TMPL = '''You are helping to evaluate a verification suite for junegunn/fzf (a Go command-line fuzzy finder) by playing the adversary: write a realistic, subtle CHANGE to fzf's source that BREAKS the property below while the code still compiles and the existing unit tests still pass.

Your scratch git worktree of fzf: /tmp/seed/{pid}/repo (work ONLY there; never touch /repo or anything under /verif — you must not read /verif at all). Put your results under /tmp/seed/{pid}/out/. Environment for every shell call: `export GOFLAGS=-mod=mod GOPROXY=off GOSUMDB=off GOTOOLCHAIN=local` (no network). Build: `cd /tmp/seed/{pid}/repo && go build ./... && go test -vet=off -count=1 ./...` (the suite has 90 tests and takes seconds). Files named verif_hooks*.go (build tag `verif`) are test hooks: ignore them, do not edit them.

THE PROPERTY ({pid}: {title})
{statement}
It must hold: {quant}
Why the existing tests cannot settle it: {why}
Relevant code: {files}

WHAT I WANT: TWO independent changes (each a separate small patch against the clean worktree), each of which
 - is the kind of mistake or "optimisation" a maintainer could plausibly commit (a boundary condition, an off-by-one, a wrong variable, a dropped guard, an aliasing/sharing shortcut, a cache key that forgets a component, a reordering of two steps, a fast path that is not quite equivalent ...), 1–15 changed lines, no dead giveaway names or comments;
 - compiles, and `go test -vet=off -count=1 ./...` still passes completely (verify this!);
 - really violates the property as stated, observably through fzf's API or command-line behaviour;
 - needs something SPECIFIC to manifest — a particular input shape, size, interleaving, multi-step sequence of operations, option combination, or two cooperating sites that each look fine alone — NOT something that ordinary use or a trivial smoke test would expose at once. The two changes must be in different functions/mechanisms.
FOCUS for this round (other parts of the code have been covered already): {focus}
For each change N in {{{n1},{n2}}} write:
 - /tmp/seed/{pid}/out/N/patch.diff — `git diff` output against the clean worktree (applies with `git apply`);
 - /tmp/seed/{pid}/out/N/demo.sh (or demo_test.go + instructions) — a self-contained demonstration that FAILS (non-zero exit / failing test) on the changed tree and PASSES on the clean tree; it may build the fzf binary from the worktree (`go build -o /tmp/seed/{pid}/fzf .`) and drive it non-interactively (`fzf --filter`, `--listen` with curl-like raw sockets via bash/python3, a pty via `script`, tmux is installed), or be a Go test file to drop into a package directory; state exactly how to run it and make it take the repo path as $1 (default /tmp/seed/{pid}/repo). The demo must be deterministic enough to give the same verdict three times in a row on each tree;
 - /tmp/seed/{pid}/out/N/meta.json — {{"property":"{pid}","title":"...one line...","what_breaks":"...","needs_to_manifest":"...the specific input/sequence/timing...","files_changed":[...],"ran":"commands you ran and their outcome on clean and changed tree"}}.
Check each demo yourself on BOTH trees. Do NOT use `git stash` (stash refs are shared between worktrees): use `git diff > file`, `git checkout -- .`, `git apply file`. Leave the worktree clean at the end (`git checkout -- . && git clean -fd` inside /tmp/seed/{pid}/repo, but keep /tmp/seed/{pid}/out). Final message: a 5-line summary per change.
'''

FOCUS = {
 "C01": "the extended-search term parser and its decisions in src/pattern.go (inverse terms, OR groups `a | b`, escaped spaces, smart-case and normalisation decisions, --nth restricted matching in MatchItem / transformed tokens) — NOT the result cache and NOT the exact-substring matcher.",
 "C02": "FuzzyMatchV1 (forward and backward scans), PrefixMatch / SuffixMatch / EqualMatch and their whitespace trimming, the non-ASCII / normalisation path (normalizeRune, runes representation) — NOT trySkip and NOT the boundary check of exactMatchNaive.",
 "C03": "the bonus computation (charClassOf*, bonusFor / bonusAt / bonusMatrix, scheme initialisation in Init), calculateScore used by FuzzyMatchV1 and the exact matcher, first-character multiplier and consecutive-bonus propagation in FuzzyMatchV2 — NOT the row initialisation of the V2 matrix and NOT asciiFuzzyIndex.",
 "C04": "buildItemResult and the rank criteria (byLength / byBegin / byEnd / byPathname / byChunk, the tiebreak index, --tac), compareRanks, the sort routines in result.go, Merger.mergedGet / cached merge with several sorted lists — NOT the pass-through branch of Merger.Get and NOT the copy in Matcher.scan.",
 "C05": "slab allocation (util.Slab, alloc16 / alloc32 and the offsets they return), results with and without positions in FuzzyMatchV1 / ExactMatchNaive / the anchored matchers, the bounds handed to the second phase of FuzzyMatchV2 (minIdx / maxIdx / lastIdx, the F array) — NOT the backtrace tie decision and NOT asciiFuzzyIndex.",
 "C06": "--read0 and custom delimiters, CR/LF trimming, --header-lines, item index assignment, ChunkList.Push at the chunk-size boundary, readChannel / readFiles / ReadSource paths — NOT the leftover buffer of Reader.feed and NOT ChunkList.Snapshot's --tail arithmetic.",
 "C07": "--print0, --accept-nth, --expect with and without a match, --select-1 / --exit-0, filter mode (--filter with --no-sort / --tac / --print-query), output ordering of multi-selections — NOT the with-nth original-record shortcut and NOT the early return of Terminal.output.",
 "C08": "Matcher.Reset / cancellation while a search is running, the revision checks on EvtSearchFin / EvtSearchProgress in src/core.go, reload-sync and --sync, Terminal.UpdateList / UpdateCount gating, the progress/delay logic — NOT the partition copy in Matcher.scan and NOT the denylist revision guard.",
 "C09": "word motions and deletions (backward-kill-word, unix-word-rubout, kill-word, forward-word with --delimiter-like word separators), cursor clamping after deletions, yank, transform-query / change-query, toggle-all and the --multi limit, history next/previous interplay with the cursor — NOT kill-line's yank copy and NOT select-all.",
 "C10": "the regular-expression and literal-string delimiter tokenizers, ParseRange / range edge cases (`..`, `2..-1`, negative indexes beyond the field count), joinTokens / StripLastDelimiter / trailing delimiter handling — NOT Transform's prefix offset and NOT the AWK whitespace classification.",
 "C11": "256-colour and 24-bit colour parameters (38;5;n, 38;2;r;g;b, colon-separated forms), attribute-off codes (22 23 24 25 27 28 29, 39, 49), offsets with multi-byte characters, unterminated / truncated sequences, OSC 8 terminated by BEL versus ST, nextAnsiEscapeSequence / matchOperatingSystemCommand / matchControlSequence — NOT the no-ESC fast path and NOT the bare-reset hyperlink state.",
 "C12": "quoteEntry and its escaping of quotes/backslashes, {+} versus {} with several selections, {q} {n} {+n} {fzf:query} / {fzf:action} placeholders, flag parsing of the placeholder regex (+ s r f combinations), escaped placeholders `\\{}`, the temp-file placeholders {f} {+f} content — NOT the per-item field memo and NOT escapeSingleQuote in proxy.go.",
 "C13": "ChunkCache (Add / Lookup / Search thresholds and what it stores), Item colours pointer with --ansi, per-worker slabs in the matcher, lists shared between mergers (a merger built from a previous merger's lists), Chars byte/rune representation switching — NOT Reader.feed's buffer and NOT --tail trimming.",
 "C14": "temp-file removal on specific paths (execute-silent, become, transform, preview with {f}, reload started and cancelled), terminal-mode restoration on a particular exit path (--height with --no-clear, error exit after the renderer is initialised, SIGTERM during execute), tiny-window arithmetic in wrap / gap / multi-line trimming / header and footer windows, escape-sequence and mouse-event decoding in src/tui/light.go — NOT KillCommand and NOT getScrollbar.",
 "C15": "horizontal trimming and ellipsis (trimLeft / trimRight with wide characters, --hscroll-off, --keep-right, --no-hscroll), highlight offsets after tab expansion (--tabstop), pointer / marker / gutter widths, --wrap continuation rows, header lines and --header-first placement — NOT printList's visible-count computation and NOT the info re-print decision.",
 "C16": "request-line parsing (method, path, HTTP version), Content-Length edge cases (negative, huge, duplicate, non-numeric), the maximum body size, GET query parameters (limit / offset) and the JSON answer, response status lines — NOT the API-key check position and NOT the body cut to Content-Length.",
 "C17": "key-name parsing (parseKeyChords: modifiers, literal `,` and `:`, case), the action-argument delimiters of --bind, unbind / rebind / toggle-bind, layering of FZF_DEFAULT_OPTS_FILE, FZF_DEFAULT_OPTS and argv, --color specs, size / percent parsing for --height, --preview-window, --margin / --padding — NOT maskActionContents and NOT applyPreset.",
 "C18": "History.next / previous cursor bounds, handling of empty lines and of consecutive duplicates, the format written to the file (newline termination, what happens to modified entries), the interplay `modify an old entry, move, then append` — NOT History.override's equal-text case and NOT the size cap in append.",
 "C19": "symbolic-link following, --walker-skip matched against base names versus paths, trimPath, several --walker-root values and the `.` root, the `dir` option (directories listed, trailing separator), the order in which directories and files are emitted — NOT the ignores slice partition and NOT the hidden-name test.",
 "C20": "the preview request key / de-duplication (item, query, scroll offset, window size), the scroll-offset spec (`+{2}-/2`, `~3`), follow mode, change-preview / change-preview-window / toggle-preview while a command runs, the version check that discards output of a cancelled command, the delay before a running command's partial output is shown — NOT KillCommand and NOT the selection version.",
}


def covered(pid):
    import glob
    ts = []
    for d in sorted(glob.glob('/verif/seeded/%s-*/meta.json' % pid)):
        try:
            ts.append(json.load(open(d)).get('title', '').strip())
        except Exception:
            pass
    return ts


def main():
    n1 = int(sys.argv[1])
    if n1 >= 5:  # from round 4 on: any mechanism the property touches EXCEPT the ones earlier rounds already changed
        for pid in sys.argv[2:]:
            FOCUS[pid] = ("any mechanism, option or code path the property reaches that is NOT one of these, which earlier rounds "
                          "already changed (their one-line titles): " + ' || '.join(covered(pid)) +
                          " — look for the less obvious places: rarely used options and actions, error and boundary paths, "
                          "platform-independent helper functions shared by several features, interactions of two options.")
    props = {json.loads(l)['id']: json.loads(l) for l in open('/verif/properties.jsonl')}
    head = subprocess.check_output(['git', '-C', '/repo', 'rev-parse', 'HEAD']).decode().strip()
    os.makedirs('/tmp/seed/prompts', exist_ok=True)
    for pid in sys.argv[2:]:
        p = props[pid]
        os.makedirs('/tmp/seed/%s/out' % pid, exist_ok=True)
        subprocess.call(['git', '-C', '/repo', 'worktree', 'remove', '--force', '/tmp/seed/%s/repo' % pid], stderr=subprocess.DEVNULL)
        subprocess.check_call(['git', '-C', '/repo', 'worktree', 'add', '--detach', '/tmp/seed/%s/repo' % pid, head],
                              stdout=subprocess.DEVNULL, stderr=subprocess.DEVNULL)
        open('/tmp/seed/prompts/%s.txt' % pid, 'w').write(TMPL.format(
            pid=pid, title=p['title'], statement=p['statement'], quant=p['quantifier']['text'], why=p['why_tests_cant'],
            files=', '.join(p['anchors']['files']), focus=FOCUS[pid], n1=n1, n2=n1 + 1))
        print('/tmp/seed/prompts/%s.txt' % pid)


if __name__ == '__main__':
    main()
