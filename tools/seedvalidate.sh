#!/bin/bash
# tools/seedvalidate.sh <Cxx> <n> [extra check ids...]
# 1. confirm in a scratch worktree: demo passes on the clean tree, change builds, existing tests pass, demo fails with the change
# 2. run our check(s) against the change applied to /repo (undone straight afterwards)
# 3. keep it as /verif/seeded/<Cxx>-<n>/ {patch.diff, demo*, meta.json (+ our verdict)}
pid=$1; n=$2; shift 2
src=/tmp/seed/$pid/out/$n
export GOFLAGS=-mod=mod GOPROXY=off GOSUMDB=off GOTOOLCHAIN=local
sv=/tmp/sv-$pid-$n
git -C /repo worktree remove --force $sv 2>/dev/null; git -C /repo worktree add --detach $sv HEAD >/dev/null 2>&1 || exit 2
cleanup() { git -C /repo worktree remove --force $sv 2>/dev/null; rm -rf $sv; }
trap cleanup EXIT
demo=$src/demo.sh
[ -f "$demo" ] || { echo "no demo.sh"; exit 2; }
( cd $sv && timeout 600 bash $demo $sv >/tmp/sv-clean.log 2>&1 ); rc_clean=$?
( cd $sv && git checkout -q -- . && git clean -fdq && git apply $src/patch.diff ) || { echo "PATCH DOES NOT APPLY"; exit 3; }
( cd $sv && go build ./... ) || { echo "DOES NOT BUILD"; exit 3; }
( cd $sv && go test -vet=off -count=1 ./... >/tmp/sv-tests.log 2>&1 ); rc_tests=$?
( cd $sv && timeout 600 bash $demo $sv >/tmp/sv-mut.log 2>&1 ); rc_mut=$?
echo "demo on clean tree: rc=$rc_clean ; existing tests with change: rc=$rc_tests ; demo with change: rc=$rc_mut"
if [ $rc_clean -ne 0 ] || [ $rc_tests -ne 0 ] || [ $rc_mut -eq 0 ]; then echo "NOT CONFIRMED"; tail -n 5 /tmp/sv-clean.log; tail -n 5 /tmp/sv-tests.log; tail -n 5 /tmp/sv-mut.log; exit 4; fi
cleanup; trap - EXIT
verdict=$(/verif/tools/seedtest.sh $pid $src/patch.diff "$@")
echo "$verdict"
d=/verif/seeded/$pid-$n; mkdir -p $d
cp $src/patch.diff $d/; cp $src/demo* $d/ 2>/dev/null
python3 - "$src/meta.json" "$d/meta.json" "$verdict" "$rc_clean $rc_tests $rc_mut" <<'PY'
import json,sys
try: m=json.load(open(sys.argv[1]))
except Exception as e: m={"note":"meta.json unreadable: %s"%e}
m["confirmed_by_us"]={"demo_rc_clean_tree":int(sys.argv[4].split()[0]),"existing_tests_rc_with_change":int(sys.argv[4].split()[1]),"demo_rc_with_change":int(sys.argv[4].split()[2]),
  "how":"tools/seedvalidate.sh: scratch worktree of /repo HEAD; demo.sh on clean tree, git apply patch.diff, go build, go test -vet=off -count=1 ./..., demo.sh again"}
m["our_checks_verdict"]=sys.argv[3].strip().split("\n")
json.dump(m,open(sys.argv[2],"w"),indent=1,ensure_ascii=False)
PY
