#!/bin/bash
# tools/seedtest.sh <Cxx> <patch.diff> [more check ids...] : apply a seeded change to /repo, run the check(s), undo it.
pid=$1; patch=$2; shift 2
cd /repo || exit 2
if [ -n "$(git status --porcelain)" ]; then echo "/repo not clean"; exit 2; fi
git apply "$patch" || { echo "patch does not apply"; exit 2; }
trap 'git -C /repo checkout -- . ; git -C /repo clean -fdq' EXIT
export GOFLAGS=-mod=mod GOPROXY=off GOSUMDB=off GOTOOLCHAIN=local
if ! go build ./... 2>/tmp/seedbuild.log; then echo "DOES NOT BUILD"; cat /tmp/seedbuild.log | head; exit 3; fi
if ! go test -vet=off -count=1 ./... >/tmp/seedtest.log 2>&1; then echo "EXISTING TESTS FAIL"; grep -E "^(---|FAIL)" /tmp/seedtest.log | head; fi
cd /verif
for p in $pid "$@"; do
  out=$(./check $p 2>/dev/null | grep -v KNOWN-FINDING)
  echo "[$p] $out"
done
