#!/bin/bash
# tools/integrate.sh <workspace> : copy an agent's NEW files into /verif and its new hook files into /repo (uncommitted);
# list files that exist on both sides and differ (manual review).
ws=/tmp/ag/$1
cd $ws/verif || exit 1
for f in $(find coq/spec coq/model coq/proofs coq/Properties coq/wire coq/gen harness/cmd manifest.d corpus -type f \
           \( -name '*.v' -o -name '*.go' -o -name '*.json' -o -name '*.txt' -o -name '*.sh' \) 2>/dev/null); do
  case "$f" in coq/wire/Dispatch.v|coq/gen/Generated.v) continue;; esac
  if [ ! -e /verif/$f ]; then mkdir -p /verif/$(dirname $f); cp $f /verif/$f; echo "NEW  $f";
  elif ! cmp -s $f /verif/$f; then echo "DIFF $f"; fi
done
cd $ws/repo && for f in $(git status --porcelain | awk '{print $2}'); do
  if [ ! -e /repo/$f ]; then mkdir -p /repo/$(dirname $f); cp $f /repo/$f; echo "HOOK $f"; else echo "REPO-DIFF $f"; fi
done
