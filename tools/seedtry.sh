#!/bin/bash
# tools/seedtry.sh <Cxx> <patch.diff> [VERIF_SEED] : quick iteration helper -- apply a seeded change to a private scratch
# worktree (not /repo) and run the check against it through VERIF_REPO.  The recorded verdicts come from seedtest.sh.
pid=$1; patch=$2; seed=${3:-1}
w=/tmp/seedtry-$$
git -C /repo worktree add --detach $w HEAD >/dev/null 2>&1 || exit 2
trap 'git -C /repo worktree remove --force '$w' 2>/dev/null; rm -rf '$w EXIT
git -C $w apply "$patch" || { echo "patch does not apply"; exit 2; }
cd /verif && VERIF_SEED=$seed VERIF_REPO=$w ./check $pid 2>/dev/null | grep -v KNOWN-FINDING | tail -1
