(* Wire glue for C08, search string (ops 804, 805):
   804: [text0, [[0,x] search(x) | [1,n] action leaving the line = n ...]] -> [line, query in effect (SPEC), 1 if a search string is in force]
   805: the same through the MODEL of terminal.go (tq_run / tq_Input) *)
From Fzf Require Import Prelude Val SearchStrSpec SearchStrModel.
Open Scope Z_scope.

Definition as_qact (v : val) : qact :=
  if as_int (arg v 0) =? 0 then QSearch (as_str (arg v 1)) else QEdit (as_str (arg v 1)).

Definition dispatch_searchstr (op : Z) (a : val) : option val :=
  let t0 := as_str (arg a 0) in
  let h := map as_qact (as_list (arg a 1)) in
  if op =? 804 then
    Some (VL [ vstr (line_after t0 h); vstr (query_in_effect t0 h);
               vbool (match search_str t0 h with Some _ => true | None => false end) ])
  else if op =? 805 then
    let s := tq_run (mkTq t0 None) h in
    Some (VL [ vstr (tq_input s); vstr (tq_Input s); vbool (match tq_over s with Some _ => true | None => false end) ])
  else None.
