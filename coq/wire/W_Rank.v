(* Wire glue for C04 (ops 4xx): universal value -> rank/merger spec and model functions.
   Evaluated both by vm_compute (cases.v) and by the extracted OCaml driver. *)
From Fzf Require Import Prelude Val RankSpec RankModel MergerModel CriteriaSpec CriteriaModel.
Open Scope Z_scope.

(* unicode.IsSpace above 127: the harness sends the list of such runes occurring in the case *)
Definition sp_of (table : list Z) : Z -> bool := fun c => existsb (Z.eqb c) table.

Definition crit_of (z : Z) : crit :=
  if z =? 0 then ByScore else if z =? 1 then ByChunk else if z =? 2 then ByLength
  else if z =? 3 then ByBegin else if z =? 4 then ByEnd else ByPathname.

Definition as_offsets (v : val) : list (Z * Z) := map (fun o => (as_int (arg o 0), as_int (arg o 1))) (as_list v).

Definition vints (l : list Z) : val := VL (map VI l).

Definition vres {A} (f : A -> val) (r : res A) : val := match r with Ok a => f a | Err _ => verr end.

Definition vpoints (p : points) : val := let '(p0, p1, p2, p3) := p in vints [p0; p1; p2; p3].
Definition as_points (v : val) : points := (as_int (arg v 0), as_int (arg v 1), as_int (arg v 2), as_int (arg v 3)).
(* result on the wire: [index, [p0 p1 p2 p3]] *)
Definition as_result (v : val) : result := mkResult (as_int (arg v 0)) (as_points (arg v 1)).
Definition vresult (r : result) : val := VL [VI (r_index r); vpoints (r_points r)].

(* the spec view of a model result: key = points[3], points[2], points[1], points[0] *)
Definition ritem_of (r : result) : ritem :=
  let '(p0, p1, p2, p3) := r_points r in mkRItem (r_index r) [p3; p2; p1; p0].

(* 401 spec key: [crits, text, offsets, score, sptable] *)
Definition d_key (a : val) : val :=
  vints (key (sp_of (as_str (arg a 4))) (map crit_of (as_str (arg a 0))) (as_str (arg a 1)) (as_offsets (arg a 2)) (as_int (arg a 3))).

(* 402 model buildResult: [crits, text, offsets, score, sptable, index] -> [p0 p1 p2 p3] *)
Definition d_build (a : val) : val :=
  vres (fun r => vpoints (r_points r))
       (build_result (RankSpec.is_space (sp_of (as_str (arg a 4)))) (as_str (arg a 0))
                     (mkItem (as_int (arg a 5)) (as_str (arg a 1))) (as_offsets (arg a 2)) (as_int (arg a 3))).

(* 403 compareRanks: [resA, resB, tac] -> [generic, x86, spec rank_lt] *)
Definition d_compare (a : val) : val :=
  let x := as_result (arg a 0) in let y := as_result (arg a 1) in let tac := as_bool (arg a 2) in
  VL [vbool (compare_ranks x y tac); vbool (compare_ranks_x86 x y tac); vbool (rank_ltb tac (ritem_of x) (ritem_of y))].

Definition as_results (v : val) : list result := map as_result (as_list v).
Definition less_of (tac : bool) : result -> result -> bool := fun a b => compare_ranks a b tac.
Definition idres (r : result) : result := r.

(* 404 NewMerger + probes: [lists, sorted, tac, probes] -> [length, [index ...]] (verr on a model error) *)
Definition d_merger (a : val) : val :=
  let tac := as_bool (arg a 2) in
  let mg := new_merger result result (map as_results (as_list (arg a 0))) (as_bool (arg a 1)) tac in
  VL [VI (merger_length _ _ mg);
      vres (fun xs => vints (map r_index xs)) (probes result result idres (less_of tac) 100 mg (as_str (arg a 3)))].

(* 405 PassMerger + probes: [chunks (lists of item indexes), tac, chunk_size, probes] *)
Definition d_pass (a : val) : val :=
  let mg := pass_merger Z Z (as_strs (arg a 0)) (as_bool (arg a 1)) in
  VL [VI (merger_length _ _ mg);
      vres vints (probes Z Z (fun x => x) (fun _ _ => false) (as_int (arg a 2)) mg (as_str (arg a 3)))].

(* 406 sliceChunks: [partitions, nchunks] -> slices of chunk ordinals *)
Definition d_slices (a : val) : val :=
  vres (fun ss => VL (map vints ss))
       (slice_chunks (as_int (arg a 0)) (map Z.of_nat (seq 0 (as_nat (arg a 1))))).

(* lines on the wire: [index, text, matched, offsets, score] *)
Definition as_line (v : val) : line :=
  mkLine (as_int (arg v 0)) (as_str (arg v 1))
         (if as_bool (arg v 2) then Some (as_offsets (arg v 3), as_int (arg v 4)) else None).

(* 407 spec results (n log n variant, proved equal): [crits, sort, positive, tac, tail, sptable, lines] -> indexes
   408 the same through the insertion sort of the definition *)
Definition d_results (fast : bool) (a : val) : val :=
  let f := if fast then results_fast else results in
  vints (f (sp_of (as_str (arg a 5))) (map crit_of (as_str (arg a 0))) (as_bool (arg a 1)) (as_bool (arg a 2))
           (as_bool (arg a 3)) (as_nat (arg a 4)) (map as_line (as_list (arg a 6)))).

(* 409 sort.Sort(ByRelevance/ByRelevanceTac): [results, tac] -> indexes *)
Definition d_sort (a : val) : val :=
  vints (map r_index (sort_results (less_of (as_bool (arg a 1))) (as_results (arg a 0)))).

(* 410 Matcher.scan + probes. items on the wire: [index, matched, [p0..p3]];
   [partitions, sort, tac, pat_empty, pat_sortable, chunk_size, chunks, probes] -> [length, [index...]] *)
Definition witem := (Z * option result)%type.
Definition as_witem (v : val) : witem :=
  (as_int (arg v 0), if as_bool (arg v 1) then Some (mkResult (as_int (arg v 0)) (as_points (arg v 2))) else None).
Definition d_scan (a : val) : val :=
  let tac := as_bool (arg a 2) in
  let chunks := map (fun c => map as_witem (as_list c)) (as_list (arg a 6)) in
  let mkr := fun (it : witem) => mkResult (fst it) (0, 0, 0, 0) in
  match scan witem result (less_of tac) snd (as_int (arg a 0)) (as_bool (arg a 1)) tac (as_bool (arg a 3)) (as_bool (arg a 4)) chunks with
  | Ok mg => VL [VI (merger_length _ _ mg);
                 vres (fun xs => vints (map r_index xs)) (probes witem result mkr (less_of tac) (as_int (arg a 5)) mg (as_str (arg a 7)))]
  | Err _ => verr
  end.

(* 411 the order alone: [sorted, tac, fast, items [index, key]] -> indexes in result order *)
Definition as_ritem (v : val) : ritem := mkRItem (as_int (arg v 0)) (as_str (arg v 1)).
Definition d_order (a : val) : val :=
  let sorted := as_bool (arg a 0) in let tac := as_bool (arg a 1) in
  let l := map as_ritem (as_list (arg a 3)) in
  vints (map ri_index (if as_bool (arg a 2) then (if sorted then ranked_fast tac l else input_order tac l)
                       else result_order sorted tac l)).

(* options on the wire: [kind, payload]; kind 0 --scheme (string), 1 --tiebreak (string), 2 sort on/off, 3 tac on/off *)
Definition as_copt (v : val) : copt :=
  let k := as_int (arg v 0) in
  if k =? 0 then OScheme (as_str (arg v 1))
  else if k =? 1 then OTiebreak (as_str (arg v 1))
  else if k =? 2 then OSort (as_bool (arg v 1))
  else OTac (as_bool (arg v 1)).
Definition scheme_code (s : scheme) : Z := match s with SDefault => 0 | SPath => 1 | SHistory => 2 end.

(* 412 spec: the configured scheme / criteria / sort / tac of a command line: [walker, options] ->
   [1, scheme (0 default 1 path 2 history), criteria, sort, tac], or [0] when the command line is rejected *)
Definition d_configured (a : val) : val :=
  match configured (as_bool (arg a 0)) (map as_copt (as_list (arg a 1))) with
  | Some c => VL [VI 1; VI (scheme_code (cf_scheme c)); vints (map crit_code (cf_criteria c));
                  vbool (cf_sort c); vbool (cf_tac c)]
  | None => VL [VI 0]
  end.

(* 413 model of ParseOptions: [walker, options] -> [scheme name, criteria, Sort, tac] (verr on an error) *)
Definition d_parse_options (a : val) : val :=
  vres (fun st => VL [vstr (o_scheme st); vints (o_criteria st); VI (o_sort st); vbool (o_tac st)])
       (parse_options (as_bool (arg a 0)) (map as_copt (as_list (arg a 1)))).

(* 414 spec: the criteria of one --tiebreak value: string -> [1, criteria] or [0] *)
Definition d_tiebreak (a : val) : val :=
  match tiebreak_criteria (as_str a) with
  | Some cs => VL [VI 1; vints (map crit_code cs)]
  | None => VL [VI 0]
  end.

Definition dispatch_rank (op : Z) (a : val) : option val :=
  if op =? 401 then Some (d_key a)
  else if op =? 402 then Some (d_build a)
  else if op =? 403 then Some (d_compare a)
  else if op =? 404 then Some (d_merger a)
  else if op =? 405 then Some (d_pass a)
  else if op =? 406 then Some (d_slices a)
  else if op =? 407 then Some (d_results true a)
  else if op =? 408 then Some (d_results false a)
  else if op =? 409 then Some (d_sort a)
  else if op =? 410 then Some (d_scan a)
  else if op =? 411 then Some (d_order a)
  else if op =? 412 then Some (d_configured a)
  else if op =? 413 then Some (d_parse_options a)
  else if op =? 414 then Some (d_tiebreak a)
  else None.
