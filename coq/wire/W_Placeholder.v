(* Wire glue for C12 (ops 12xx): universal value -> shell spec / placeholder model functions.
   Evaluated both by vm_compute (cases.v) and by the extracted OCaml driver. *)
From Fzf Require Import Prelude Val ShellSpec PlusSpec PlaceholderModel PlusListModel.
Open Scope Z_scope.

Definition vopt_words (o : option (list str)) : val :=
  match o with None => VL [] | Some ws => VL [vstrs ws] end.

Definition as_item (v : val) : item := (as_int (arg v 0), as_str (arg v 1)).
Definition as_optstr (v : val) : option str := match as_list v with [] => None | d :: _ => Some (as_str d) end.

(* [delim, printsep, forcePlus, query, current, selected, action, prompt, fish] *)
Definition as_params (v : val) : params :=
  mkP (as_optstr (arg v 0)) (as_str (arg v 1)) (as_bool (arg v 2)) (as_str (arg v 3))
      (map as_item (as_list (arg v 4))) (map as_item (as_list (arg v 5)))
      (as_str (arg v 6)) (as_str (arg v 7)) (as_bool (arg v 8)).

Definition as_seg (v : val) : seg :=
  if as_int (arg v 0) =? 0 then SLit (as_str (arg v 1)) else SWords (as_strs (arg v 1)).

Definition v_outp (o : outp) : val :=
  match o with
  | OText s => VL [VI 0; vstr s]
  | OWords l => VL [VI 1; VL (map (fun ev => VL [vstr (fst ev); vstr (snd ev)]) l)]
  end.

Definition v_piece (p : piece) : val :=
  match p with
  | PLit t => VL [VI 0; vstr t]
  | PEsc m => VL [VI 1; vstr m]
  | PPh m => VL [VI 2; vstr m]
  end.

Definition v_item (it : item) : val := VL [VI (fst it); vstr (snd it)].
Definition as_optitem (v : val) : option item := match as_list v with [] => None | x :: _ => Some (as_item x) end.

Definition dispatch_placeholder (op : Z) (a : val) : option val :=
  (* 1201: model replacePlaceholder: [params, template, temps] -> [command, [file contents]] *)
  if op =? 1201 then
    Some (match replace_placeholder (as_params (arg a 0)) (as_str (arg a 1)) (as_strs (arg a 2)) with
          | Ok (out, files) => VL [vstr out; vstrs files]
          | Err _ => verr
          end)
  (* 1202: spec sh_words: line -> [] | [[word...]] *)
  else if op =? 1202 then Some (vopt_words (sh_words (as_str a)))
  (* 1203: spec template_words: [seg...], seg = [0, text] | [1, [word...]] -> [] | [[word...]] *)
  else if op =? 1203 then Some (vopt_words (template_words (map as_seg (as_list a))))
  (* 1204: model, structured: [params, template, temps] -> [outp...] *)
  else if op =? 1204 then
    Some (match replace_structured (as_params (arg a 0)) (as_str (arg a 1)) (as_strs (arg a 2)) with
          | Ok (outs, _) => VL (map v_outp outs)
          | Err _ => verr
          end)
  (* 1205: model escapeSingleQuote *)
  else if op =? 1205 then Some (vstr (escape_single_quote (as_str a)))
  (* 1206: model quoteEntry: [fish, s] *)
  else if op =? 1206 then Some (vstr (quote_entry (as_bool (arg a 0)) (as_str (arg a 1))))
  (* 1207: model runTmux argument string: [fzf, [arg...]] *)
  else if op =? 1207 then Some (vstr (tmux_arg_str (as_str (arg a 0)) (as_strs (arg a 1))))
  (* 1208: model runProxy export line: [name, value] *)
  else if op =? 1208 then Some (vstr (export_line (as_str (arg a 0)) (as_str (arg a 1))))
  (* 1209: model scanner: template -> pieces *)
  else if op =? 1209 then Some (VL (map v_piece (scan (as_str a) O [])))
  (* 1210: model buildPlusList ; Terminal.replacePlaceholder: [params, cur (0 or 1 item), selected, template, temps]
           -> [valid, command, [file contents]]  (the items inside params are ignored) *)
  else if op =? 1210 then
    Some (match terminal_expand (as_params (arg a 0)) (as_optitem (arg a 1)) (map as_item (as_list (arg a 2)))
                                (as_str (arg a 3)) (as_strs (arg a 4)) with
          | Ok (valid, (out, files)) => VL [vbool valid; vstr out; vstrs files]
          | Err _ => verr
          end)
  (* 1211: model buildPlusList: [template, forcePlus, cur, selected] -> [valid, [current...], [selected...]] *)
  else if op =? 1211 then
    Some (let '(valid, (c, s)) := build_plus_list (as_str (arg a 0)) (as_bool (arg a 1)) (as_optitem (arg a 2))
                                                  (map as_item (as_list (arg a 3))) in
          VL [vbool valid; VL (map v_item c); VL (map v_item s)])
  (* 1212: the files ONE placeholder writes when expanded on its own: [params, placeholder] -> [content...] *)
  else if op =? 1212 then
    Some (match own_files (as_params (arg a 0)) (PPh (as_str (arg a 1))) with
          | Ok fs => vstrs fs
          | Err _ => verr
          end)
  (* 1213: spec plus_items: [cur, selected] -> [item...] *)
  else if op =? 1213 then
    Some (VL (map v_item (plus_items (as_optitem (arg a 0)) (map as_item (as_list (arg a 1))))))
  (* 1214: spec file_text: [separator, [value...]] -> text *)
  else if op =? 1214 then Some (vstr (file_text (as_str (arg a 0)) (as_strs (arg a 1))))
  else None.
