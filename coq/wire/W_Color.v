(* Wire glue for C17, colour part (ops 1721-1722). *)
From Fzf Require Import Prelude Val BindSpec BindModel ColorSpec ColorModel W_Bind.
Open Scope Z_scope.

(* theme = (coloured, ((name colour attributes) ...)) *)
Definition dec_slot (v : val) : str * cattr := (as_str (arg v 0), (as_int (arg v 1), as_int (arg v 2))).
Definition dec_theme (v : val) : theme := (as_bool (arg v 0), map dec_slot (as_list (arg v 1))).
Definition enc_slot (e : str * cattr) : val := VL [vstr (fst e); VI (fst (snd e)); VI (snd (snd e))].
Definition enc_theme (t : theme) : val := VL [vbool (fst t); VL (map enc_slot (snd t))].

(* model side: (0 spec) = --color[=spec], (1 _) = --no-color *)
Definition dec_item (v : val) : Z * str := (as_int (arg v 0), as_str (arg v 1)).

(* spec side: (0 ((word ...) ...)) = --color=entries, (1) = --color, (2) = --no-color *)
Definition dec_copt (v : val) : copt :=
  let k := as_int (arg v 0) in
  if k =? 0 then OColor (map as_strs (as_list (arg v 1)))
  else if k =? 1 then OColorEmpty else ONoColor.

Definition copt_ok (o : copt) : bool := match o with OColor es => entries_ok es | _ => true end.
Definition copt_word (o : copt) : Z * str :=
  match o with
  | OColor es => (0, render_entries es)
  | OColorEmpty => (0, [])
  | ONoColor => (1, [])
  end.
Definition copt_item (o : copt) : val := VL [VI (fst (copt_word o)); vstr (snd (copt_word o))].

Definition dispatch_color (op : Z) (a : val) : option val :=
  if op =? 1721 then
    Some (enc_out enc_theme (color_opts (map dec_theme (as_list (arg a 0))) (dec_theme (arg a 1)) (map dec_item (as_list (arg a 2)))))
  else if op =? 1722 then
    (* the options as written down, whether the writing is faithful, their documented meaning (spec),
       and what the model of the parser makes of the written form *)
    let os := map dec_copt (as_list (arg a 2)) in
    let bases := map dec_theme (as_list (arg a 0)) in
    let t0 := dec_theme (arg a 1) in
    Some (VL [VL (map copt_item os); vbool (forallb copt_ok os);
              match copts_denote bases t0 os with
              | Some t => VL [enc_theme t]
              | None => VL []
              end;
              enc_out enc_theme (color_opts bases t0 (map copt_word os))])
  else None.
