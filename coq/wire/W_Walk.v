(* Wire glue for C19 (ops 19xx): universal value -> walker model/spec functions.
   Evaluated both by vm_compute (cases.v) and by the extracted OCaml driver.

   entry  ::= [kind, name, [entry...]]     kind 0 File, 1 Dir, 2 SymFile, 3 SymDir (list = target content)
   opts   ::= [file, dir, follow, hidden]
   roots  ::= [[root, [entry...]] ...]
   gent   ::= [kind, name, id]             kind 0 GFile, 1 GDir, 2 GSymFile, 3 GSymDir (id = directory number)
   gworld ::= [[id, [gent...]] ...]
   uentry ::= [kind, name, [uentry...], rd]   kinds as entry; rd = 0: the directory (the link's target) cannot be read
   uroots ::= [[root, [uentry...], rd] ...]   rd = 0: the root directory itself cannot be read *)
From Fzf Require Import Prelude Val WalkSpec WalkModel WalkLinkSpec WalkErrSpec WalkErrModel.
Open Scope Z_scope.

Fixpoint as_entry (v : val) : entry :=
  match v with
  | VL (VI k :: nm :: VL ch :: _) =>
      if k =? 1 then Dir (as_str nm) (map as_entry ch)
      else if k =? 3 then SymDir (as_str nm) (map as_entry ch)
      else if k =? 2 then SymFile (as_str nm)
      else File (as_str nm)
  | VL (VI k :: nm :: _) => if k =? 2 then SymFile (as_str nm) else File (as_str nm)
  | _ => File []
  end.

Definition as_opts (v : val) : wopts :=
  mkOpts (as_bool (arg v 0)) (as_bool (arg v 1)) (as_bool (arg v 2)) (as_bool (arg v 3)).

Definition as_root (v : val) : str * list entry := (as_str (arg v 0), map as_entry (as_list (arg v 1))).
Definition as_roots (v : val) : list (str * list entry) := map as_root (as_list v).

Definition as_kind (z : Z) : kind :=
  if z =? 1 then KDir else if z =? 2 then KSymFile else if z =? 3 then KSymDir else KFile.

(* 1901 model: [opts, ignores, roots] -> [1, [pushed...]] | verr *)
Definition d_model (a : val) : val :=
  match read_files (as_opts (arg a 0)) (as_strs (arg a 1)) (as_roots (arg a 2)) with
  | Ok l => VL [VI 1; vstrs l]
  | Err _ => verr
  end.

(* 1902 spec: [opts, ignores, roots] -> [listed...] *)
Definition d_spec (a : val) : val :=
  vstrs (listing_roots (as_opts (arg a 0)) (as_strs (arg a 1)) (as_roots (arg a 2))).

(* 1904 callback: [opts, ignores, path, kind] -> [[pushed...], skipdir] | verr *)
Definition d_fn (a : val) : val :=
  match walk_fn (as_opts (arg a 0)) (split_ignores (as_strs (arg a 1))) (as_str (arg a 2)) (as_kind (as_int (arg a 3))) with
  | Ok (l, act) => VL [vstrs l; vbool (match act with SkipDir => true | Continue => false end)]
  | Err _ => verr
  end.

(* 1906 finite unfolding of a world with link cycles: [fuel, [ids on the way...], id, gworld] -> [1, [entry...]] | verr *)
Definition as_gent (v : val) : gent :=
  let k := as_int (arg v 0) in
  if k =? 1 then GDir (as_str (arg v 1)) (as_nat (arg v 2))
  else if k =? 3 then GSymDir (as_str (arg v 1)) (as_nat (arg v 2))
  else if k =? 2 then GSymFile (as_str (arg v 1))
  else GFile (as_str (arg v 1)).
Definition as_gworld (v : val) : gworld :=
  map (fun b => (as_nat (arg b 0), map as_gent (as_list (arg b 1)))) (as_list v).

Fixpoint of_entry (e : entry) : val :=
  match e with
  | File nm => VL [VI 0; vstr nm; VL []]
  | Dir nm ch => VL [VI 1; vstr nm; VL (map of_entry ch)]
  | SymFile nm => VL [VI 2; vstr nm; VL []]
  | SymDir nm tg => VL [VI 3; vstr nm; VL (map of_entry tg)]
  end.

Definition d_unfold (a : val) : val :=
  let g := as_gworld (arg a 3) in
  match unfold (as_nat (arg a 0)) g (map as_nat (as_list (arg a 1))) (content g (as_nat (arg a 2))) with
  | Some t => VL [VI 1; VL (map of_entry t)]
  | None => verr
  end.

(* trees with unreadable directories (spec/WalkErrSpec.v, model/WalkErrModel.v) *)
Fixpoint as_uentry (v : val) : uentry :=
  match v with
  | VL (VI k :: nm :: VL ch :: rd :: _) =>
      if k =? 1 then UDir (as_str nm) (as_bool rd) (map as_uentry ch)
      else if k =? 3 then USymDir (as_str nm) (as_bool rd) (map as_uentry ch)
      else if k =? 2 then USymFile (as_str nm)
      else UFile (as_str nm)
  | VL (VI k :: nm :: _) => if k =? 2 then USymFile (as_str nm) else UFile (as_str nm)
  | _ => UFile []
  end.
Definition as_uroot (v : val) : uroot :=
  (as_str (arg v 0), as_bool (arg v 2), map as_uentry (as_list (arg v 1))).
Definition as_uroots (v : val) : list uroot := map as_uroot (as_list v).

(* 1907 model with unreadable directories: [opts, ignores, uroots] -> [1, [pushed...], noerr] | verr *)
Definition d_model_e (a : val) : val :=
  match read_files_e (as_opts (arg a 0)) (as_strs (arg a 1)) (as_uroots (arg a 2)) with
  | Ok (l, noerr) => VL [VI 1; vstrs l; vbool noerr]
  | Err _ => verr
  end.

(* 1908 spec with unreadable directories: [opts, ignores, uroots] -> [listed...] *)
Definition d_spec_e (a : val) : val :=
  vstrs (listing_unreadable (as_opts (arg a 0)) (as_strs (arg a 1)) (as_uroots (arg a 2))).

(* 1909 the visible tree: [uentry...] -> [entry...] *)
Definition d_visible (a : val) : val := VL (map (fun v => of_entry (visible (as_uentry v))) (as_list a)).

Definition dispatch_walk (op : Z) (a : val) : option val :=
  if op =? 1901 then Some (d_model a)
  else if op =? 1902 then Some (d_spec a)
  else if op =? 1903 then Some (vstr (trim_path (as_str a)))
  else if op =? 1904 then Some (d_fn a)
  else if op =? 1905 then Some (vstr (display (as_str a)))
  else if op =? 1906 then Some (d_unfold a)
  else if op =? 1907 then Some (d_model_e a)
  else if op =? 1908 then Some (d_spec_e a)
  else if op =? 1909 then Some (d_visible a)
  else None.
