(* Wire glue for C17, bind part (ops 1701-1706). *)
From Fzf Require Import Prelude Val BindSpec BindModel.
Open Scope Z_scope.

Definition enc_key (k : key) : val :=
  match k with
  | KRune r => VL [VI 0; VI r; VL []]
  | KCtrl i => VL [VI 1; VI i; VL []]
  | KNamed n => VL [VI 2; VI 0; vstr n]
  | KF n => VL [VI 3; VI n; VL []]
  | KAlt r => VL [VI 4; VI r; VL []]
  | KCtrlAlt r => VL [VI 5; VI r; VL []]
  end.

Definition enc_action (a : action) : val := VL [vstr (fst a); vstr (snd a)].
Definition enc_keymap (m : keymap) : val :=
  VL (map (fun e => VL [enc_key (fst e); VL (map enc_action (snd e))]) m).

Definition enc_out {A} (f : A -> val) (r : res (outcome A)) : val :=
  match r with
  | Err _ => verr
  | Ok (Bad e) => VL [VI 0; VI e]
  | Ok (Good a) => VL [VI 1; f a]
  end.

Definition dec_act (v : val) : act :=
  if as_int (arg v 0) =? 0 then ASimple (as_str (arg v 1))
  else AArg (as_str (arg v 1))
            (if as_int (arg v 2) =? 0 then FColon else FPair (as_int (arg v 2)) (as_int (arg v 3)))
            (as_str (arg v 4)).
Definition dec_pair (v : val) : bpair := (as_strs (arg v 0), map dec_act (as_list (arg v 1))).
Definition dec_bind (v : val) : bind := map dec_pair (as_list v).

Definition dispatch_bind (op : Z) (a : val) : option val :=
  if op =? 1701 then Some (enc_out enc_keymap (parse_keymaps [] (as_strs a)))
  else if op =? 1702 then
    let bd := dec_bind a in Some (VL [vstr (render bd); vbool (wf_bind bd); enc_keymap (denote [] bd)])
  else if op =? 1703 then Some (match mask_action_contents (as_str a) with Ok m => VL [vstr m] | Err _ => verr end)
  else if op =? 1704 then Some (enc_out (fun l => VL (map enc_action l)) (parse_single_action_list (as_str a)))
  else if op =? 1705 then Some (enc_out (fun l => VL (map enc_key l)) (Ok (parse_key_chords (as_str a))))
  else if op =? 1706 then
    let ks := as_strs a in
    Some (VL [vstr (join COMMA ks); vbool (nonemptyb ks && forallb key_spelling_ok ks); VL (map enc_key (keys_denote ks))])
  else None.
