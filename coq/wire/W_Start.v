(* Wire glue for C14, commands that cannot be started (ops 1409-1411): reader hand-shake spec / model, coordinator model. *)
From Fzf Require Import Prelude Val StartSpec StartModel.
Open Scope Z_scope.

Definition rev_code (e : rev) : Z :=
  match e with RLock => 0 | RUnlock => 1 | RSend => 2 | RFeed => 3 | RFin false => 4 | RFin true => 5 | RRemove => 6 end.

Definition as_src (k : Z) : src :=
  if k =? 1 then SChan else if k =? 2 then SInitCmd else if k =? 3 then STtyDefaultCmd else if k =? 4 then STtyWalker else SStdin.

Definition fin_failed (tr : list rev) : bool := existsb (fun e => match e with RFin true => true | _ => false end) tr.

Definition as_cev (v : val) : cev :=
  let t := as_int (arg v 0) in
  if t =? 0 then CSearchNew (if as_bool (arg v 1) then Some (mkCmd (as_bool (arg v 2)) (as_bool (arg v 3))) else None)
  else if t =? 1 then CReadNew
  else if t =? 2 then CReadFin
  else CQuit.

Definition dispatch_start (op : Z) (a : val) : option val :=
  if op =? 1409 then
    (* [kind (0 restart, 1 channel, 2 start:reload, 3 default command, 4 walker, 5 stdin), ready, start_ok, wait_ok, walk_ok]
       -> [trace, observation, EvtReadFin carries the command, spec verdict on the model's trace] *)
    let k := as_int (arg a 0) in
    let ready := if k =? 0 then true else as_bool (arg a 1) in
    let c := mkCmd (as_bool (arg a 2)) (as_bool (arg a 3)) in
    let tr := if k =? 0 then restart_trace c else read_source (as_src k) ready c (as_bool (arg a 4)) in
    Some (VL [VL (map (fun e => VI (rev_code e)) tr); VL (map VI (observation ready tr)); vbool (fin_failed tr);
              vbool (handshake_okb ready tr)])
  else if op =? 1410 then
    (* [ready, observation of a REAL run] -> spec verdict *)
    Some (vbool (observation_okb (as_bool (arg a 0)) (map as_int (as_list (arg a 1)))))
  else if op =? 1411 then
    (* a history of coordinator events with fzf's reader -> [blocked, stopped, mutex held, leaked goroutines, reading] *)
    let st := c_run restart_trace c0 (map as_cev (as_list a)) in
    Some (VL [vbool (c_blocked st); vbool (c_stop st); vbool (c_held st); vnat (c_leaked st); vbool (c_reading st)])
  else None.
