(* Wire glue for C15 (ops 15xx): universal value -> render model/spec functions. *)
From Fzf Require Import Prelude Val RenderSpec RenderModel RenderDynModel RenderGhostSpec RenderGhostModel.
Open Scope Z_scope.

Definition as_layout (v : val) : layout :=
  let z := as_int v in if z =? 0 then LDefault else if z =? 1 then LReverse else LReverseList.
Definition as_info (v : val) : info_style :=
  let z := as_int v in if z =? 0 then IDefault else if z =? 1 then IInline else if z =? 2 then IHidden else IInlineRight.
(* [w, h, layout, info, sep, [header...], [hlines...], multi, tabstop] *)
Definition as_cfg (v : val) : cfg :=
  mkCfg (as_nat (arg v 0)) (as_nat (arg v 1)) (as_layout (arg v 2)) (as_info (arg v 3)) (as_bool (arg v 4))
        (as_strs (arg v 5)) (as_strs (arg v 6)) (as_int (arg v 7)) (Nat.max 1 (as_nat (arg v 8))).
Definition as_match (v : val) : nat * str := (as_nat (arg v 0), as_str (arg v 1)).
Definition as_nats (v : val) : list nat := map as_nat (as_list v).
(* [query, [[index, text]...], total, cy, off, [selected index...]] *)
Definition as_view (v : val) : view :=
  mkView (as_str (arg v 6)) (as_str (arg v 0)) (map as_match (as_list (arg v 1))) (as_nat (arg v 2)) (as_nat (arg v 3)) (as_nat (arg v 4))
         (as_nats (arg v 5)).
Definition as_reqs (v : val) : reqs :=
  mkReqs (as_bool (arg v 0)) (as_bool (arg v 1)) (as_bool (arg v 2)) (as_bool (arg v 3)) (as_bool (arg v 4)).
(* [query, matches, total, cy, sel, reqs, prompt] *)
Definition as_upd (v : val) : upd :=
  mkUpd (as_str (arg v 6)) (as_str (arg v 0)) (map as_match (as_list (arg v 1))) (as_nat (arg v 2)) (as_nat (arg v 3)) (as_nats (arg v 4))
        (as_reqs (arg v 5)).

Definition as_mrows (v : val) : mrows :=
  mkMR (as_bool (arg v 0)) (as_bool (arg v 1)) (as_str (arg v 2)) (as_str (arg v 3)).

Definition vrows (rs : list row) : val := VL (map vstr rs).
Definition as_rows (v : val) : list row := map as_str (as_list v).

(* 1503: [cfg, view0, [upd...]] -> after the first full redraw and after every step: [cy, off, physical screen] *)
Fixpoint d_run (c : cfg) (t : term) (us : list upd) : list val :=
  VL [vnat (t_cy t); vnat (t_off t); vrows (physical c (t_screen t))] ::
  match us with
  | [] => []
  | u :: r => d_run c (step c t u) r
  end.

(* [visible, [--header line...], [--header-lines line...]] *)
Definition as_hdr (v : val) : hdr := mkHdr (as_bool (arg v 0)) (as_strs (arg v 1)) (as_strs (arg v 2)).
Definition as_dupd (v : val) : dupd := mkDU (as_hdr (arg v 0)) (as_upd (arg v 1)).
(* 1508: the machine of RenderDynModel; every screen is laid out for the header in force at that point *)
Fixpoint d_run_d (c0 : cfg) (h : hdr) (d : dterm) (dus : list dupd) : list val :=
  VL [vnat (t_cy (d_t d)); vnat (t_off (d_t d)); vrows (physical (with_hdr c0 h) (t_screen (d_t d)))] ::
  match dus with
  | [] => []
  | du :: r => d_run_d c0 (du_hdr du) (step_d c0 d du) r
  end.

Definition dispatch_render (op : Z) (a : val) : option val :=
  if op =? 1501 then   (* [count, maxl, scrolloff, cy, off] -> [cy', off'] *)
    let '(cy, off) := constrain (as_nat (arg a 0)) (as_nat (arg a 1)) (as_nat (arg a 2)) (as_nat (arg a 3)) (as_nat (arg a 4)) in
    Some (VL [vnat cy; vnat off])
  else if op =? 1502 then Some (vrows (render (as_cfg (arg a 0)) (as_view (arg a 1))))
  else if op =? 1503 then Some (VL (d_run (as_cfg (arg a 0)) (start (as_cfg (arg a 0)) (as_view (arg a 1))) (map as_upd (as_list (arg a 2)))))
  else if op =? 1504 then   (* spec on a captured screen: [cfg, view, rows] -> failing clauses *)
    Some (VL (map VI (check_faithful (as_cfg (arg a 0)) (as_view (arg a 1)) (as_rows (arg a 2)))))
  else if op =? 1505 then Some (vnat (max_items (as_cfg a)))
  else if op =? 1506 then   (* multi-row items: [cfg, [wrap, multiline, sign, marks], view, rows] -> [] or [6, best offset, differing rows] *)
    Some (VL (map VI (check_mrows (as_cfg (arg a 0)) (as_mrows (arg a 1)) (as_view (arg a 2)) (as_rows (arg a 3)))))
  else if op =? 1507 then   (* [cfg, mode, view] -> [[window row, expected text] per list slot] for offset v_off *)
    let c := as_cfg (arg a 0) in let v := as_view (arg a 2) in
    let ar := mrows_area c (as_mrows (arg a 1)) v (v_off v) in
    Some (VL (map (fun i => VL [vnat (list_row c i); vstr (nth i ar [])]) (seq 0 (max_items c))))
  else if op =? 1508 then   (* [cfg, hdr0, view0, [[hdr, upd]...]] -> as 1503, the header changing along the history *)
    let c0 := as_cfg (arg a 0) in let h0 := as_hdr (arg a 1) in
    Some (VL (d_run_d c0 h0 (start_d c0 h0 (as_view (arg a 2))) (map as_dupd (as_list (arg a 3)))))
  else if op =? 1509 then   (* spec with a ghost text: [cfg, view ++ [ghost, cursor], rows] -> failing clauses (2, 4 judged for the ghost; 7) *)
    Some (VL (map VI (check_faithful_g (as_cfg (arg a 0)) (as_str (arg (arg a 1) 7)) (as_view (arg a 1)) (as_rows (arg a 2)))))
  else if op =? 1510 then   (* [cfg, view ++ [ghost, cursor]] -> the full render with the ghost text, the query split at the cursor *)
    Some (vrows (render_g (as_cfg (arg a 0)) (as_str (arg (arg a 1) 7)) (as_nat (arg (arg a 1) 8)) (as_view (arg a 1))))
  else None.
