(* Wire glue for C02/C03/C05 (ops 2xx): algo model and the spec checkers evaluated on an answer. *)
From Fzf Require Import Prelude Val AlgoSpec AlgoModel.
Open Scope Z_scope.

(* char ops from a finite table sent by the harness: [rune; lower; class; norm; space] per non-ASCII rune *)
Fixpoint tbl_find (t : list (list Z)) (r : Z) : option (list Z) :=
  match t with
  | [] => None
  | e :: t' => match e with k :: _ => if k =? r then Some e else tbl_find t' r | [] => tbl_find t' r end
  end.
Definition ops_of (t : list (list Z)) : char_ops :=
  mkOps (fun r => match tbl_find t r with Some [_; l; _; _; _] => l | _ => r end)
        (fun r => match tbl_find t r with Some [_; _; c; _; _] => c | _ => cNonWord end)
        (fun r => match tbl_find t r with Some [_; _; _; n; _] => n | _ => r end)
        (fun r => match tbl_find t r with Some [_; _; _; _; s] => negb (s =? 0) | _ => false end).

Definition scheme_of (z : Z) : scheme :=
  if z =? 1 then scheme_path else if z =? 2 then scheme_history else scheme_default.

Definition v_mres (r : res mres) : val :=
  match r with
  | Err _ => verr
  | Ok NoMatch => VL []
  | Ok (Match s e sc pos) =>
      VL [vnat s; vnat e; VI sc; match pos with Some p => VL (map vnat p) | None => VI (-1) end]
  end.

Record acall := mkCall { a_fn : Z; a_cs : bool; a_nm : bool; a_fwd : bool; a_bytes : bool; a_wp : bool;
                         a_cap : option Z; a_sc : scheme; a_text : list Z; a_pat : list Z; a_co : char_ops }.

Definition as_call (a : val) : acall :=
  mkCall (as_int (arg a 0)) (as_bool (arg a 1)) (as_bool (arg a 2)) (as_bool (arg a 3)) (as_bool (arg a 4))
         (as_bool (arg a 5)) (let c := as_int (arg a 6) in if c <? 0 then None else Some c)
         (scheme_of (as_int (arg a 7))) (as_str (arg a 8)) (as_str (arg a 9))
         (ops_of (map as_str (as_list (arg a 10)))).

Definition run_model (c : acall) : res mres :=
  let co := a_co c in let sc := a_sc c in
  let f := a_fn c in
  if f =? 1 then fuzzy_v1 co sc (a_cs c) (a_nm c) (a_fwd c) (a_bytes c) (a_text c) (a_pat c) (a_wp c)
  else if f =? 2 then fuzzy_v2 co sc (a_cs c) (a_nm c) (a_fwd c) (a_bytes c) (a_text c) (a_pat c) (a_wp c) (a_cap c)
  else if f =? 3 then exact_match co sc (a_cs c) (a_nm c) (a_fwd c) false (a_bytes c) (a_text c) (a_pat c)
  else if f =? 4 then exact_match co sc (a_cs c) (a_nm c) (a_fwd c) true (a_bytes c) (a_text c) (a_pat c)
  else if f =? 5 then prefix_match co sc (a_cs c) (a_nm c) (a_text c) (a_pat c)
  else if f =? 6 then suffix_match co sc (a_cs c) (a_nm c) (a_text c) (a_pat c)
  else equal_match co sc (a_cs c) (a_nm c) (a_text c) (a_pat c).

(* ---- spec checkers on an answer (answer encoded like v_mres) ---- *)

Fixpoint insert_nat (x : nat) (l : list nat) : list nat :=
  match l with [] => [x] | y :: r => if Nat.leb x y then x :: l else y :: insert_nat x r end.
Definition sort_nat (l : list nat) : list nat := fold_right insert_nat [] l.

Fixpoint seq_from (s : nat) (n : nat) : list nat := match n with O => [] | S n' => s :: seq_from (S s) n' end.

(* failure codes:  1 range  2 positions not a witness  3 positions outside range  4 reported no-match but a witness exists
   5 occurrence/anchor wrong  6 score differs from the documented model  7 match reported but none exists *)
Definition check_answer (c : acall) (ans : val) : list Z :=
  let co := a_co c in let sc := a_sc c in
  let cs := a_cs c in let nm := a_nm c in
  let text := a_text c in let pat := a_pat c in
  let f := a_fn c in
  let n := length text in let m := length pat in
  match as_list ans with
  | [] =>   (* no match *)
      if (f =? 1) || (f =? 2) then (if subseq_b co cs nm text pat then [4] else [])
      else if f =? 3 then (if substr_b co cs nm text pat then [4] else [])
      else if f =? 4 then (if boundary_substr_b co sc cs nm text pat then [4] else [])
      else if f =? 5 then (match prefix_spec co cs nm text pat with Some _ => [4] | None => [] end)
      else if f =? 6 then (match suffix_spec co cs nm text pat with Some _ => [4] | None => [] end)
      else (match equal_spec co cs nm text pat with Some _ => [4] | None => [] end)
  | vs :: ve :: vsc :: vpos :: _ =>
      let s := as_nat vs in let e := as_nat ve in let score := as_int vsc in
      let range_bad := negb (Nat.leb s e && Nat.leb e n) in
      let r1 := if range_bad then [1] else [] in
      let r2 :=
        if Nat.eqb m 0 then (if Nat.eqb s e then [] else [5])   (* empty pattern: an empty range; terms are never empty *)
        else if (f =? 1) || (f =? 2) then
          (if subseq_b co cs nm text pat then [] else [7]) ++
          match vpos with
          | VL ps =>
              let pos := sort_nat (map as_nat ps) in
              (if witness co cs nm text pat pos then [] else [2]) ++
              (if forallb (fun p => Nat.leb s p && Nat.ltb p e) pos then [] else [3])
          | VI _ => []
          end
        else if f =? 3 then (if occurs_at co cs nm text pat s && Nat.eqb e (s + m) then [] else [5])
        else if f =? 4 then (if boundary_at co sc cs nm text pat s && Nat.eqb e (s + m) then [] else [5])
        else if f =? 5 then (match prefix_spec co cs nm text pat with Some s' => if Nat.eqb s s' && Nat.eqb e (s + m) then [] else [5] | None => [7] end)
        else if f =? 6 then (match suffix_spec co cs nm text pat with Some s' => if Nat.eqb s s' && Nat.eqb e (s + m) then [] else [5] | None => [7] end)
        else (match equal_spec co cs nm text pat with Some s' => if Nat.eqb s s' && Nat.eqb e (s + m) then [] else [5] | None => [7] end) in
      let r3 :=
        if Nat.eqb m 0 then (if score =? 0 then [] else [6])
        else if f =? 2 then
          (* V2 with M >= 2 and no V1 fallback: the naive whole-line DP *)
          if Nat.leb 1 m && negb (match a_cap c with Some cap => cap <? Z.of_nat n * Z.of_nat m | None => false end) then
            match naive_dp co sc cs nm (a_fwd c) text pat with
            | Some (h, e') => if (h =? score) && Nat.eqb e e' then [] else [6]
            | None => [6]
            end
          else []
        else if f =? 1 then
          match vpos with
          | VL ps => if align_score co sc text (sort_nat (map as_nat ps)) =? score then [] else [6]
          | VI _ => []
          end
        else if (f =? 3) || (f =? 5) || (f =? 6) then
          (if align_score co sc text (seq_from s m) =? score then [] else [6])
        else if f =? 7 then (if equal_score sc m =? score then [] else [6])
        else [] in
      r1 ++ r2 ++ r3
  | _ => [1]
  end.

Definition dispatch_algo (op : Z) (a : val) : option val :=
  if op =? 201 then Some (v_mres (run_model (as_call a)))
  else if op =? 202 then Some (VL (map VI (check_answer (as_call (arg a 0)) (arg a 1))))
  else if op =? 203 then
    let c := as_call a in
    Some (match naive_dp (a_co c) (a_sc c) (a_cs c) (a_nm c) (a_fwd c) (a_text c) (a_pat c) with
          | Some (h, e) => VL [VI h; vnat e] | None => VL [] end)
  else None.
