(* Wire glue for C11 (ops 11xx): universal value -> ANSI model/spec functions. *)
From Fzf Require Import Prelude Val AnsiSpec AnsiModel AnsiNthSpec AnsiNthModel.
Open Scope Z_scope.

Definition v_span (r : res (option (nat * nat))) : val :=
  match r with
  | Ok (Some (a, b)) => VL [vnat a; vnat b]
  | Ok None => VL [VI (-1); VI (-1)]
  | Err _ => verr
  end.

Definition v_url (u : option url) : val :=
  match u with None => VL [] | Some u => VL [vstr (u_uri u); vstr (u_params u)] end.
Definition v_state (s : astate) : val := VL [VI (fg s); VI (bg s); VI (attr s); VI (lbg s); v_url (aurl s)].
Definition v_state_opt (s : option astate) : val := match s with None => VL [] | Some s => VL [v_state s] end.

Definition as_url (v : val) : option url :=
  match as_list v with
  | u :: p :: _ => Some (mkUrl (as_str u) (as_str p))
  | _ => None
  end.
Definition as_state (v : val) : astate :=
  mkA (as_int (arg v 0)) (as_int (arg v 1)) (as_int (arg v 2)) (as_int (arg v 3)) (as_url (arg v 4)).
Definition as_state_opt (v : val) : option astate :=
  match as_list v with [] => None | s :: _ => Some (as_state s) end.

Definition v_off (o : aoff) : val := VL [vnat (o_b o); vnat (o_e o); v_state (o_col o)].

Definition v_extract (r : res (str * option (list aoff) * option astate)) : val :=
  match r with
  | Ok (t, offs, st') =>
      VL [vstr t; match offs with None => VL [] | Some l => VL [VL (map v_off l)] end; v_state_opt st']
  | Err _ => verr
  end.
Definition d_extract (s : str) (st : option astate) : val := v_extract (extract_color s st).

Definition d_interpret (code : str) (st : option astate) : val :=
  match interpret_code code st with
  | Ok (s, _) => v_state s
  | Err _ => verr
  end.

(* numbers -> spec colours / attributes (inverse of enc_*, used only to feed the spec) *)
Definition dec_colour (z : Z) : colour :=
  if z =? -1 then CDefault
  else if z <? 16777216 then CIdx z
  else CRGB ((z / 65536) mod 256) ((z / 256) mod 256) (z mod 256).
Definition dec_attrs (z : Z) : attrs :=
  mkAttrs (Z.testbit z 0) (Z.testbit z 1) (Z.testbit z 2) (Z.testbit z 3) (Z.testbit z 4) (Z.testbit z 6) (Z.testbit z 7).
Definition as_sgr (v : val) : sgr :=
  mkSgr (dec_colour (as_int (arg v 0))) (dec_colour (as_int (arg v 1))) (dec_attrs (as_int (arg v 2))).
Definition v_sgr (s : sgr) : val := VL [VI (enc_colour (s_fg s)); VI (enc_colour (s_bg s)); VI (enc_attrs (s_at s))].

(* omitted or given number: [] / [n];  xsgr: [plain parameters; [] | [sub-parameters of the last one]] *)
Definition as_optz (v : val) : option Z := match as_list v with [] => None | n :: _ => Some (as_int n) end.
Definition as_xsgr (v : val) : xsgr :=
  mkX (map as_optz (as_list (arg v 0)))
      (match as_list (arg v 1) with [] => None | subs :: _ => Some (map as_optz (as_list subs)) end).

Definition as_item (v : val) : item :=
  let t := as_int (arg v 0) in
  if t =? 0 then IText (as_str (arg v 1))
  else if t =? 1 then ISgr (as_str (arg v 1))
  else if t =? 3 then ISgrX (as_xsgr (arg v 1))
  else IOther.

Definition dispatch_ansi (op : Z) (a : val) : option val :=
  if op =? 1101 then Some (v_span (next_ansi (as_str a)))
  else if op =? 1102 then Some (v_span (Ok (first_match (as_str a))))
  else if op =? 1103 then Some (d_extract (as_str (arg a 0)) (as_state_opt (arg a 1)))
  else if op =? 1104 then Some (vstr (strip_spec (as_str a)))
  else if op =? 1105 then Some (d_interpret (as_str (arg a 0)) (as_state_opt (arg a 1)))
  else if op =? 1106 then Some (VL [v_sgr (sgr_apply (as_str (arg a 0)) (as_sgr (arg a 1))); vbool (sgr_wf (as_str (arg a 0)))])
  else if op =? 1107 then Some (VL [vnat (rune_len (as_str a)); vnat (last_rune_len (rev (as_str a))); vnat (rune_count (as_str a))])
  else if op =? 1108 then Some (vnat (kept_runes (as_str a)))
  else if op =? 1109 then Some (VL (map v_sgr (term_chars (map as_item (as_list (arg a 0))) (as_sgr (arg a 1)))))
  else if op =? 1110 then Some (VL [v_sgr (sgr_xapply (as_xsgr (arg a 0)) (as_sgr (arg a 1))); vbool (sgr_xwf (as_xsgr (arg a 0)))])
  (* fields of a line / lines of a stream shown out of context (--with-nth):
     1111 spec: [pieces (lists of items); state; selected piece numbers] -> colour of every character shown
     1112 model of the core.go loop: [tokens; selected token numbers; loop start state; line state] -> text, spans, state
     1113 model of ansiState.ToString   1114 spec: parameters that re-create a state, and whether it is in the domain *)
  else if op =? 1111 then
    Some (VL (map v_sgr (shown_chars (map as_nat (as_list (arg a 2)))
                                     (map (fun p => map as_item (as_list p)) (as_list (arg a 0))) (as_sgr (arg a 1)))))
  else if op =? 1112 then
    Some (v_extract (nth_display (as_strs (arg a 0)) (map as_nat (as_list (arg a 1)))
                                 (as_state_opt (arg a 2)) (as_state_opt (arg a 3))))
  else if op =? 1113 then Some (vstr (state_to_string (as_state a)))
  else if op =? 1114 then Some (VL [vstr (restore_params (as_sgr a)); vbool (sgr_ok (as_sgr a))])
  else None.
