(* Wire glue for C17, option part (ops 1711-1713). *)
From Fzf Require Import Prelude Val BindSpec BindModel OptionSpec OptionModel W_Bind.
Open Scope Z_scope.

Definition dec_env (a : val) : env :=
  mkEnv (fun s => mem_str s (as_strs (arg a 0))) (fun s => mem_str s (as_strs (arg a 1))) (as_bool (arg a 2)).

Definition enc_cfg (c : cfg) : val :=
  VL [VL (map (fv c) (seq 0 NOBSERVABLE)); enc_keymap (kmap c); VL (map enc_key (expect c))].

(* 1712: the documented effect of one occurrence "name value" of a value-taking option:
   the (field, value) pairs it assigns, or () when the value is not in the option's grammar *)
Definition option_effect (name value : str) : val :=
  match assoc_str name opt_table with
  | Some (KReq fs p) =>
      match run_parser p value with
      | Some vals => VL (map (fun fvp => VL [vnat (fst fvp); snd fvp]) (combine fs vals))
      | None => VL []
      end
  | Some (KFlag ws) => VL (map (fun fvp => VL [vnat (fst fvp); snd fvp]) ws)
  | Some KTmux => match parse_tmux value with
                  | Some t => VL [VL [vnat F_TMUX; vsome t]; VL [vnat F_HAFTER; Fv]]
                  | None => VL []
                  end
  | _ => VL []
  end.

Definition dispatch_option (op : Z) (a : val) : option val :=
  if op =? 1711 then
    Some (enc_out enc_cfg (parse_all (dec_env a) (as_strs (arg a 3)) (as_strs (arg a 4)) (as_strs (arg a 5))))
  else if op =? 1712 then Some (option_effect (as_str (arg a 0)) (as_str (arg a 1)))
  else if op =? 1713 then Some (VL (map vnat (writes (as_str a))))
  else None.
