(* Wire glue for C20 (ops 20xx): universal value -> preview model/spec functions. *)
From Fzf Require Import Prelude Val PreviewSpec PreviewModel PreviewWindowSpec PreviewWindowModel.
Open Scope Z_scope.

Definition as_tmpl (v : val) : tmpl :=
  mkT (as_int (arg v 0)) (as_bool (arg v 1)) (as_bool (arg v 2)) (as_bool (arg v 3)).
Definition as_ui (v : val) : uistate :=
  mkU (as_int (arg v 0)) (as_str (arg v 1)) (map as_int (as_list (arg v 2))).
Definition as_pol (v : val) : policy :=
  mkPol (as_bool (arg v 0))
        (let m := as_int (arg v 1) in if m =? 0 then ExitNoWait else if m =? 1 then ExitWaitsRunning else ExitWaitsStopped)
        (as_bool (arg v 2)).   (* absent = false: finishChan after cmd.Wait(), the tree *)

Definition vopt {A} (f : A -> val) (o : option A) : val := match o with None => VL [] | Some x => VL [f x] end.
Definition vints (l : list Z) : val := VL (map VI l).
Definition vargs (a : args) : val := VL [VI (a_id a); VI (a_item a); vopt vints (a_plus a); vopt vstr (a_query a)].
Definition as_opt {A} (f : val -> A) (v : val) : option A := match as_list v with [] => None | x :: _ => Some (f x) end.
Definition as_args (v : val) : args :=
  mkA (as_int (arg v 0)) (as_int (arg v 1)) (as_opt (fun x => map as_int (as_list x)) (arg v 2)) (as_opt as_str (arg v 3)).
Definition as_seen (v : val) : seen_cmd := mkSeen (as_args (arg v 0)) (as_bool (arg v 1)) (as_strs (arg v 2)).

Definition as_label (v : val) : label :=
  let t := as_int (arg v 0) in
  if t =? 0 then LMove (as_int (arg v 1))
  else if t =? 1 then LQuery (as_str (arg v 1))
  else if t =? 2 then LSel (map as_int (as_list (arg v 1)))
  else if t =? 3 then LChangePreview (as_tmpl (arg v 1))
  else if t =? 4 then LRefresh
  else if t =? 5 then LToggle
  else if t =? 6 then LRender
  else if t =? 7 then LDisplay
  else if t =? 8 then LTake
  else if t =? 9 then LSpawn
  else if t =? 10 then LReap
  else if t =? 11 then LTick
  else if t =? 12 then LTimer
  else if t =? 13 then LKill
  else if t =? 14 then LPoll
  else if t =? 15 then LOutput (as_str (arg v 1))
  else if t =? 16 then LChildExit
  else if t =? 17 then LExit
  else if t =? 18 then LQuitPub
  else if t =? 20 then LHideWin
  else if t =? 21 then LShowWin
  else if t =? 22 then LCloseOut
  else LProcEnd.

Definition vproc (p : proc) : val :=
  VL [match expand_req (p_req p) with Ok a => vargs a | Err _ => verr end; vbool (p_alive p); vstrs (p_out p); vnat (p_ver p)].

(* observables of a state: commands started (oldest first), flags, what the window shows *)
Definition observe (pol : policy) (s : state) : val :=
  VL [VL (map vproc (rev (s_tab s)));
      VL [vbool (s_visible s); vbool (quiescent pol s); vbool (stable pol s); vbool (s_ended s); vbool (box_empty s);
          vbool (s_clean s)];
      vstrs (s_shown s); vnat (s_shown_ver s); vnat (s_pver s);
      match expand_req (build_req (s_tmpl s) (s_ui s)) with Ok a => vargs a | Err _ => verr end].

(* after a user label: the render loop looks, a running command is cancelled and reaped, the newest request
   is picked up, its command runs to completion (instant commands), everything is displayed *)
Definition settle : list label :=
  [LRender; LPoll; LTimer; LKill; LChildExit; LReap; LDisplay; LTake; LSpawn; LOutput [111]; LTick; LChildExit; LReap; LDisplay].

Fixpoint canonical (ls : list label) : list label :=
  match ls with
  | [] => []
  | l :: r => l :: settle ++ canonical r
  end.

(* the same with commands that print a line, close their output and go on running until they are killed *)
Definition settle_closing : list label :=
  [LRender; LPoll; LTimer; LKill; LReap; LDisplay; LTake; LSpawn; LOutput [111]; LCloseOut; LDisplay].
Fixpoint canonical_closing (ls : list label) : list label :=
  match ls with
  | [] => []
  | l :: r => l :: settle_closing ++ canonical_closing r
  end.
(* 2007: like 2001 with closing, never-ending commands: [pol, tmpl, ui, [label...]] -> observables *)
Definition d_canonical_closing (pol : policy) (t : tmpl) (u : uistate) (ls : list label) : val :=
  observe pol (run pol (settle_closing ++ canonical_closing ls) (init t u)).

(* 2001: canonical run of user labels: [pol, tmpl, ui, [label...]] -> observables (every request gets started) *)
Definition d_canonical (pol : policy) (t : tmpl) (u : uistate) (ls : list label) : val :=
  observe pol (run pol (settle ++ canonical ls) (init t u)).

(* 2002: spec on an observed session: [tmpl, ui, [seen_cmd...]] ->
   [expansion, caught_up, no_stale_alive, at_most_one, none_alive] *)
Definition d_spec (t : tmpl) (u : uistate) (cs : list seen_cmd) : val :=
  VL [vargs (expansion t u); vbool (caught_up t u cs); vbool (no_stale_alive t u cs); vbool (at_most_one cs);
      vbool (none_alive cs)].

(* 2003: strict run of an arbitrary schedule: [pol, tmpl, ui, [label...]] -> [ok, observables] *)
Definition d_strict (pol : policy) (t : tmpl) (u : uistate) (ls : list label) : val :=
  match run_strict pol ls (init t u) with
  | Some s => VL [VI 1; observe pol s]
  | None => VL [VI 0; observe pol (run pol ls (init t u))]
  end.

(* 2005: spec of the part of the output the window shows: [sum, denom, height, headers, n, [seen line numbers]] ->
   [requested_offset, final_offset, [expected line numbers], ok] *)
Definition d_scroll_spec (sum denom height headers n : Z) (seen : list Z) : val :=
  let req := requested_offset sum denom height headers in
  let off := final_offset req headers n in
  VL [VI req; VI off; vints (visible_lines n height headers off); vbool (shows_requested_part sum denom height headers n seen)].

Definition as_slabel (v : val) : slabel :=
  let t := as_int v in
  if t =? 0 then GLine else if t =? 1 then GTick else if t =? 2 then GEof else RDisplay.

(* a schedule in run-length form: [[label, count]...] *)
Fixpoint repl {A} (n : nat) (x : A) : list A := match n with O => [] | S k => x :: repl k x end.
Definition as_sched (v : val) : list slabel :=
  flat_map (fun p => repl (as_nat (arg p 1)) (as_slabel (arg p 0))) (as_list v).

Definition as_gate (v : val) : gate :=
  let m := as_int v in if m =? 0 then GateNone else if m =? 1 then GateGe else GateGt.

(* 2006: the scroll machine on a schedule: [req, headers, w0, [[label, count]...], gate (0 none, 1 >=, 2 >)] ->
   [done, lost, edge, lines in the window, offset of the window] *)
Definition d_scroll_run (g : gate) (req headers w0 : Z) (sched : list slabel) : val :=
  let s := srun g req headers sched (sinit req w0) in
  VL [vbool (sdone s); vbool (k_lost s); vbool (k_edge s); VI (k_wn s); VI (k_woff s)].

(* 2008: spec of a state no command belongs to: [tmpl, ui, [seen_cmd...], rows of the window that hold text] ->
   [has_command, none_alive, window_blank, no_command_state_ok] *)
Definition d_noline_spec (t : tmpl) (u : uistate) (cs : list seen_cmd) (rows : nat) : val :=
  VL [vbool (has_command t u); vbool (none_alive cs); vbool (window_blank rows); vbool (no_command_state_ok t u cs rows)].

(* 2009: the window machine: [height, follow, [[version, number of lines, offset]...]] (line k of an output is [k]) ->
   [rows of the window that hold text, offset, filled] *)
Definition mk_lines (n : nat) : list str := map (fun k => [Z.of_nat k]) (seq 1 n).
Definition as_presult (v : val) : presult := mkPR (as_nat (arg v 0)) (mk_lines (as_nat (arg v 1))) (as_int (arg v 2)).
Definition d_window_run (h : nat) (optf : bool) (rs : list presult) : val :=
  let s := wrun h optf rs (winit h) in
  VL [vnat (length (filter (fun r => match r with Some _ => true | None => false end) (w_rows s))); VI (w_off s);
      vbool (m_filled s)].

Definition dispatch_preview (op : Z) (a : val) : option val :=
  if op =? 2001 then
    Some (d_canonical (as_pol (arg a 0)) (as_tmpl (arg a 1)) (as_ui (arg a 2)) (map as_label (as_list (arg a 3))))
  else if op =? 2002 then
    Some (d_spec (as_tmpl (arg a 0)) (as_ui (arg a 1)) (map as_seen (as_list (arg a 2))))
  else if op =? 2003 then
    Some (d_strict (as_pol (arg a 0)) (as_tmpl (arg a 1)) (as_ui (arg a 2)) (map as_label (as_list (arg a 3))))
  else if op =? 2004 then
    Some (vbool (explains (map as_args (as_list (arg a 0))) (map as_args (as_list (arg a 1)))))
  else if op =? 2005 then
    Some (d_scroll_spec (as_int (arg a 0)) (as_int (arg a 1)) (as_int (arg a 2)) (as_int (arg a 3)) (as_int (arg a 4))
                        (map as_int (as_list (arg a 5))))
  else if op =? 2006 then
    Some (d_scroll_run (as_gate (arg a 4)) (as_int (arg a 0)) (as_int (arg a 1)) (as_int (arg a 2)) (as_sched (arg a 3)))
  else if op =? 2007 then
    Some (d_canonical_closing (as_pol (arg a 0)) (as_tmpl (arg a 1)) (as_ui (arg a 2)) (map as_label (as_list (arg a 3))))
  else if op =? 2008 then
    Some (d_noline_spec (as_tmpl (arg a 0)) (as_ui (arg a 1)) (map as_seen (as_list (arg a 2))) (as_nat (arg a 3)))
  else if op =? 2009 then
    Some (d_window_run (as_nat (arg a 0)) (as_bool (arg a 1)) (map as_presult (as_list (arg a 2))))
  else None.
