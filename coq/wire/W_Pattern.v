(* Wire glue for C01 (ops 1xx): pattern model (parse_terms, build_pattern, match_item, filter) and the
   query spec (query_groups, sat_query) evaluated on lines. *)
From Fzf Require Import Prelude Val AlgoSpec AlgoModel QuerySpec PatternModel W_Algo.
Open Scope Z_scope.

Definition case_of_z (z : Z) : case_mode := if z =? 1 then CaseIgnore else if z =? 2 then CaseRespect else CaseSmart.

(* [fuzzy; v2; extended; case; normalize; forward; slabCap] *)
Definition as_popts (v : val) : popts :=
  mkP (as_bool (arg v 0)) (as_bool (arg v 1)) (as_bool (arg v 2)) (case_of_z (as_int (arg v 3)))
      (as_bool (arg v 4)) (as_bool (arg v 5)) (let c := as_int (arg v 6) in if c <? 0 then None else Some c).

Definition z_of_ttype (t : ttype) : Z :=
  match t with termFuzzy => 0 | termExact => 1 | termExactBoundary => 2 | termPrefix => 3 | termSuffix => 4 | termEqual => 5 end.
Definition z_of_kind (k : kind) : Z :=
  match k with KFuzzy => 0 | KExact => 1 | KBoundary => 2 | KPrefix => 3 | KSuffix => 4 | KEqual => 5 end.

Definition v_term (t : term) : val := VL [VI (z_of_ttype (tm_typ t)); vbool (tm_inv t); vstr (tm_text t); vbool (tm_cs t); vbool (tm_nm t)].
Definition v_sterm (t : sterm) : val := VL [VI (z_of_kind (t_kind t)); vbool (t_inv t); vstr (t_text t); vbool (t_cs t); vbool (t_nm t)].
Definition v_sets (s : list termSet) : val := VL (map (fun ts => VL (map v_term ts)) s).
Definition v_groups (s : list (list sterm)) : val := VL (map (fun ts => VL (map v_sterm ts)) s).

Definition v_mitem (r : res (option mitem)) : val :=
  match r with
  | Err _ => verr
  | Ok None => VL []
  | Ok (Some (offs, score, pos)) =>
      VL [VL (map (fun se => VL [vnat (fst se); vnat (snd se)]) offs); VI score;
          match pos with Some p => VL (map vnat p) | None => VI (-1) end]
  end.

Definition dispatch_pattern (op : Z) (a : val) : option val :=
  if op =? 101 then          (* model parseTerms: [popts, table, str] *)
    let co := ops_of (map as_str (as_list (arg a 1))) in
    Some (match parse_terms co (as_popts (arg a 0)) (as_str (arg a 2)) with Ok s => v_sets s | Err _ => verr end)
  else if op =? 102 then     (* spec groups over tokens of the string as given (no trimming): [popts, table, str] *)
    let co := ops_of (map as_str (as_list (arg a 1))) in
    Some (v_groups (groups co (qopts_of (as_popts (arg a 0))) (tokens (as_str (arg a 2)))))
  else if op =? 103 then     (* model BuildPattern + MatchItem: [popts, scheme, table, query, line, withPos] *)
    let co := ops_of (map as_str (as_list (arg a 2))) in
    let sc := scheme_of (as_int (arg a 1)) in
    Some (v_mitem (do p <- build_pattern co (as_popts (arg a 0)) (as_str (arg a 3));
                   match_item co sc p (as_str (arg a 4)) (as_bool (arg a 5))))
  else if op =? 104 then     (* spec sat_query on each line: [popts, scheme, table, query, lines] *)
    let co := ops_of (map as_str (as_list (arg a 2))) in
    let sc := scheme_of (as_int (arg a 1)) in
    let o := qopts_of (as_popts (arg a 0)) in
    let q := as_str (arg a 3) in
    Some (VL (map (fun l => vbool (sat_query co sc o q l)) (as_strs (arg a 4))))
  else if op =? 105 then     (* model verdict on each line: [popts, scheme, table, query, lines] *)
    let co := ops_of (map as_str (as_list (arg a 2))) in
    let sc := scheme_of (as_int (arg a 1)) in
    Some (match build_pattern co (as_popts (arg a 0)) (as_str (arg a 3)) with
          | Err _ => verr
          | Ok p => VL (map (fun l => match match_item co sc p l false with
                                      | Ok (Some _) => VI 1 | Ok None => VI 0 | Err _ => VI (-1) end)
                            (as_strs (arg a 4)))
          end)
  else if op =? 106 then     (* model BuildPattern: [popts, table, query] -> [cs, nm, text, sets] *)
    let co := ops_of (map as_str (as_list (arg a 1))) in
    Some (match build_pattern co (as_popts (arg a 0)) (as_str (arg a 2)) with
          | Err _ => verr
          | Ok p => VL [vbool (pat_cs p); vbool (pat_nm p); vstr (pat_text p); v_sets (pat_sets p)]
          end)
  else if op =? 107 then     (* spec query_groups (with trimming): [popts, table, query] *)
    let co := ops_of (map as_str (as_list (arg a 1))) in
    Some (v_groups (query_groups co (qopts_of (as_popts (arg a 0))) (as_str (arg a 2))))
  else None.
