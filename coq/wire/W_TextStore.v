(* Wire glue for C13, item text memory and the display side (ops 133x). *)
From Fzf Require Import Prelude Val TextStoreModel DisplaySpec.
Open Scope Z_scope.

Definition as_pop (v : val) : pop :=
  let t := as_int (arg v 0) in
  if t =? 0 then PSub (as_nat (arg v 1)) (as_nat (arg v 2)) (as_nat (arg v 3))
  else if t =? 1 then PApp (as_nat (arg v 1)) (as_str (arg v 2))
  else if t =? 2 then PAppS (as_nat (arg v 1)) (as_nat (arg v 2))
  else PSet (as_nat (arg v 1)) (as_nat (arg v 2)) (as_int (arg v 3)).

Definition v_read (m : tmem) (s : slice) : val :=
  match sl_read m s with Ok t => vstr t | Err _ => verr end.
Definition v_line (m : tmem) (s : slice) : val :=
  match sl_cap m s with Ok c => VL [v_read m s; vnat c] | Err _ => verr end.

(* 1330: [inBytes; text; cap; which; wrap; multiLine; maxLines; wrapCols; signW; tabstop; prog; copying]
   the item's array holds `text` followed by cap - len(text) spare elements; which = 0 Chars.Lines, 1 Terminal.itemLines.
   -> [item text afterwards; overflow; lines as returned [content; cap]; registers at the end] *)
Definition d_textmem (a : val) : val :=
  let text := as_str (arg a 1) in
  let cap := as_nat (arg a 2) in
  let m0 : tmem := [text ++ repeat 0 (cap - length text)] in
  let ch := mkChars (as_bool (arg a 0)) (mkSl 0 0 (length text)) in
  let wrap := as_bool (arg a 4) in
  let ml := as_bool (arg a 5) in
  let mx := as_int (arg a 6) in
  let wc := as_int (arg a 7) in
  let sw := as_int (arg a 8) in
  let ts := as_int (arg a 9) in
  let copying := as_bool (arg a 11) in
  let r := if as_int (arg a 3) =? 0 then chars_lines simple_ovf copying m0 ch ml mx wc sw ts
           else item_lines simple_ovf copying m0 ch wrap ml mx wc sw ts in
  match r with
  | Err _ => verr
  | Ok (m1, lines, ov) =>
      match prun m1 lines (map as_pop (as_list (arg a 10))) with
      | Err _ => verr
      | Ok (m2, regs) =>
          VL [match chars_text m2 ch with Ok t => vstr t | Err _ => verr end;
              vbool ov; VL (map (v_line m1) lines); VL (map (v_read m2) regs)]
      end
  end.

Definition as_rep (v : val) : Z * str := (as_int (arg v 0), as_str (arg v 1)).

Definition dispatch_textstore (op : Z) (a : val) : option val :=
  if op =? 1330 then Some (d_textmem a)
  else if op =? 1331 then Some (VL (map VI (changed_items (as_strs (arg a 0)) (map as_rep (as_list (arg a 1))))))
  else if op =? 1332 then Some (VL (map VI (substr_filter (as_str (arg a 0)) (as_int (arg a 1)) (as_strs (arg a 2)))))
  else None.
