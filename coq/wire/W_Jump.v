(* Wire glue for C14, jump mode (op 1413): the labels of one frame (fzf's guard and the `<=` variant), what the frame
   reads of the label string with the spec's verdict, and the row picked by a key. *)
From Fzf Require Import Prelude Val JumpSpec JumpModel.
Open Scope Z_scope.

Definition v_labels (r : res (list (option str))) : val :=
  match r with
  | Ok l => VL (map (fun o => match o with Some s => vstr s | None => VL [] end) l)
  | Err _ => verr
  end.

Definition dispatch_jump (op : Z) (a : val) : option val :=
  if op =? 1413 then
    (* [labels, pointerLen, visible, key, rows, count, offset] ->
       [labels of the frame, every read inside the label string, the `<=` variant is defined, picked cy or []] *)
    let labels := as_str (arg a 0) in
    let p := as_nat (arg a 1) in
    let visible := as_nat (arg a 2) in
    Some (VL [v_labels (jump_frame labels p visible);
              vbool (forallb (jread_safeb (length labels)) (jump_reads_with Nat.ltb (length labels) visible));
              vbool (is_ok (jump_frame_le labels p visible));
              match jump_pick labels (as_int (arg a 3)) (as_nat (arg a 4)) (as_nat (arg a 5)) (as_nat (arg a 6)) with
              | Some cy => VL [vnat cy] | None => VL [] end])
  else None.
