(* Wire glue for C13, searching while a reloaded input is being appended (ops 135x). *)
From Fzf Require Import Prelude Val DisplaySpec ReloadSpec CoordRevModel.
Open Scope Z_scope.

Definition as_rrep (v : val) : Z * str := (as_int (arg v 0), as_str (arg v 1)).

(* 1351: the SPEC on one observed state: [query; lines of the current generation; n; totalCount; matchCount; reported]
   -> [ok; the filter of lines[:n]; reported indexes whose text is not the line read at that index] *)
Definition d_published (a : val) : val :=
  let q := as_str (arg a 0) in
  let lines := as_strs (arg a 1) in
  let n := as_int (arg a 2) in
  let rep := map as_rrep (as_list (arg a 5)) in
  VL [vbool (published_ok q lines n (as_int (arg a 3)) (as_int (arg a 4)) rep);
      VL (map VI (published_filter q lines n));
      VL (map VI (published_changed lines n rep))].

(* 1352: the MODEL of the coordinator's labelling: [relabel; events] with [0] push | [1] EvtReadNew | [2] EvtReadFin |
   [3; cmd (0 none, 1 reload, 2 reload-sync); changed] -> [[gen; count; rev] per request, oldest first; clash] *)
Definition as_cevent (v : val) : cevent :=
  let t := as_int (arg v 0) in
  if t =? 0 then CPush else if t =? 1 then CReadNew else if t =? 2 then CReadFin
  else CSearchNew (let c := as_int (arg v 1) in if c =? 0 then None else Some (c =? 2)) (as_bool (arg v 2)).

Definition d_coordrev (a : val) : val :=
  let s := c_run (as_bool (arg a 0)) c_init (map as_cevent (as_list (arg a 1))) in
  VL [VL (map (fun r => VL [vnat (sr_gen r); vnat (sr_count r); vnat (sr_rev r)]) (rev (c_posted s)));
      vbool (labels_clash (c_posted s))].

Definition dispatch_reload (op : Z) (a : val) : option val :=
  if op =? 1351 then Some (d_published a)
  else if op =? 1352 then Some (d_coordrev a)
  else None.
