(* Wire glue for C14 (ops 14xx): universal value -> terminal-mode spec, renderer life-cycle model,
   constrain model/spec, temp-file ledger model, --tmux proxy file model. *)
From Fzf Require Import Prelude Val TermSpec TermModel.
Open Scope Z_scope.

Definition vmodes (m : modes) : val :=
  VL [vbool (m_1000 m); vbool (m_1002 m); vbool (m_1003 m); vbool (m_1006 m); vbool (m_1015 m); vbool (m_2004 m);
      vbool (m_1049 m); vbool (m_25 m); vbool (m_7 m); vbool (m_saved m); vbool (m_orphan m); vstr (m_others m)].

Definition vev (e : mev) : val :=
  match e with MSet n => VL [VI 0; VI n] | MReset n => VL [VI 1; VI n] | MSave => VL [VI 2; VI 0] | MRestore => VL [VI 3; VI 0] end.

Definition as_cfg (v : val) : cfg :=
  mkCfg (as_bool (arg v 0)) (as_bool (arg v 1)) (as_bool (arg v 2)) (as_bool (arg v 3)) (as_int (arg v 4))
        (as_bool (arg v 5)) (as_bool (arg v 6)).

Definition as_lop (v : val) : lop :=
  let t := as_int (arg v 0) in
  if t =? 0 then LFrame (as_str (arg v 1)) (as_int (arg v 2))
  else if t =? 1 then LHide
  else if t =? 2 then LShow
  else LSuspend (as_bool (arg v 1)) (as_bool (arg v 2)) (as_str (arg v 3)).

Definition as_tev (v : val) : tev :=
  let t := as_int (arg v 0) in
  let a := arg v 1 in let b := arg v 2 in let c := arg v 3 in
  if t =? 0 then TScroll (as_nat a)
  else if t =? 1 then TExecute (as_bool a) (as_bool b) (as_nat c)
  else if t =? 2 then TPreviewStart (as_nat a) (as_bool b)
  else if t =? 3 then TPreviewDone
  else if t =? 4 then TReloadAct (as_bool a) (as_nat b)
  else if t =? 5 then TActionsEnd
  else if t =? 6 then TCoordTake
  else if t =? 7 then TReadFin
  else if t =? 8 then TBecome (as_bool a) (as_nat b)
  else TExit.

Definition vres2 (r : res (Z * Z)) : val := match r with Ok (a, b) => VL [VI a; VI b] | Err _ => verr end.

Definition dispatch_term (op : Z) (a : val) : option val :=
  if op =? 1401 then Some (VL [vmodes (net_effect (as_str a) m0); vbool (closed (as_str a))])
  else if op =? 1402 then Some (VL (map vev (events (as_str a))))
  else if op =? 1403 then
    let st := run_lifecycle (as_cfg (arg a 0)) (map as_lop (as_list (arg a 1))) in
    Some (VL [vstr (r_out st); vbool (r_raw st); vbool (nonemptyb (r_queued st))])
  else if op =? 1404 then
    Some (vres2 (constrain (as_int (arg a 0)) (as_int (arg a 1)) (as_int (arg a 2)) (as_int (arg a 3)) (as_int (arg a 4))))
  else if op =? 1405 then
    Some (vbool (view_in_boundsb (as_int (arg a 0)) (as_int (arg a 1)) (as_int (arg a 2)) (as_int (arg a 3))))
  else if op =? 1406 then
    let st := t_run t0 (map as_tev (as_list a)) in
    Some (VL [vnat (length (t_ledger st)); vbool (t_exited st)])
  else if op =? 1407 then
    (* the bytes Init alone writes/queues: [out, queued] *)
    let c := as_cfg a in let st := r_init c (init_state c) in
    Some (VL [vstr (r_out st); vstr (r_queued st)])
  else if op =? 1408 then
    (* runProxy: [stdin_tty, out_ok, in_ok, builder_ok, child status, exiterr, inner_become, ttyin_ok]
       -> [files while the popup is open, files left, exit status (-1: exec), exec'd, spec verdict on the files left] *)
    let e := mkPenv (as_bool (arg a 0)) (as_bool (arg a 1)) (as_bool (arg a 2)) (as_bool (arg a 3)) (as_int (arg a 4))
                    (as_bool (arg a 5)) (as_bool (arg a 6)) (as_bool (arg a 7)) in
    let r := run_proxy e in
    Some (VL [VL (map (fun f => VI (pfile_code f)) (pr_live r)); VL (map (fun f => VI (pfile_code f)) (pr_left r));
              VI (pr_code r); vbool (pr_exec r); vbool (proxy_clean (pr_left r))])
  else None.
