(* Wire glue for C18 (ops 18xx): universal value -> history model/spec functions.
   Evaluated both by vm_compute (cases.v) and by the extracted OCaml driver. *)
From Fzf Require Import Prelude Val HistorySpec HistoryModel HistoryProcSpec HistoryProcModel HistoryLoopSpec HistoryLoopModel.
Open Scope Z_scope.

Definition vfs (f : fs) : val := match f with None => VL [] | Some d => VL [vstr d] end.
Definition as_fs (v : val) : fs := match as_list v with [] => None | d :: _ => Some (as_str d) end.

Definition as_sop (v : val) : sop :=
  let t := as_int (arg v 0) in
  if t =? 0 then Edit (as_str (arg v 1)) else if t =? 1 then Prev else Next.

Definition as_session (v : val) : session := mkSession (map as_sop (as_list (arg v 0))) (as_bool (arg v 1)).

(* 1801: sessions with full observation: [max, file, [session...]] ->
   [[file_after, seen, input] per session] *)
Fixpoint d_sessions (max : nat) (file : fs) (ss : list session) : list val :=
  match ss with
  | [] => []
  | s :: r =>
      match run_session max file s with
      | Ok (f', seen, inp) => VL [vfs f'; vstrs seen; vstr inp] :: d_sessions max f' r
      | Err _ => [verr]
      end
  end.

(* 1802: spec: [max, file, [q...]] -> stored entries after submitting qs *)
Definition d_spec_stored (max : nat) (file : fs) (qs : list str) : val :=
  vstrs (stored_after max (entries (match file with None => [] | Some d => d end)) qs).

(* 1804: navigation SPEC (array of texts with a cursor): [entries, ops] -> strings shown by each previous/next *)
Fixpoint spec_nav_run (n : nav) (ops : list sop) : list str :=
  match ops with
  | [] => []
  | o :: r =>
      let n' := nav_step n (match o with Edit s => NEdit s | Prev => NPrev | Next => NNext end) in
      match o with
      | Edit _ => spec_nav_run n' r
      | _ => nv_text n' (nv_cur n') :: spec_nav_run n' r
      end
  end.
Definition spec_nav (es : list str) (ops : list sop) : list str :=
  spec_nav_run (mkNav (fun i => nth i es []) (length es) (length es)) ops.


(* ---- process level (HistoryProcSpec / HistoryProcModel) ---- *)
Definition as_hopt (v : val) : hopt :=
  let t := as_int (arg v 0) in
  if t =? 0 then HFile (as_str (arg v 1)) else if t =? 1 then HNoFile
  else if t =? 2 then HSize (as_nat (arg v 1)) else HOther.
Definition as_layers (v : val) : list (list hopt) := map (fun l => map as_hopt (as_list l)) (as_list v).
Definition as_ending (v : val) : ending :=
  let t := as_int v in
  if t =? 0 then EndAccept true else if t =? 1 then EndAccept false
  else if t =? 2 then EndPrintQuery else if t =? 3 then EndBecome else EndAbort.
Definition as_psession (v : val) : psession :=
  mkP (as_layers (arg v 0)) (map as_sop (as_list (arg v 1))) (as_ending (arg v 2)).
Definition vcfg (c : hcfg) : val := match c with None => VL [] | Some (p, n) => VL [vstr p; vnat n] end.
Definition as_cfg (v : val) : hcfg :=
  match as_list v with p :: n :: _ => Some (as_str p, as_nat n) | _ => None end.
Fixpoint fsys_of (l : list val) : fsys :=
  match l with
  | [] => fun _ => None
  | e :: r => fs_upd (fsys_of r) (as_str (arg e 0)) (as_fs (arg e 1))
  end.

(* 1805: runs of the program: [[[path, file]...], [[layers, ops, ending]...]] ->
   [[[file_after per path], config in effect, seen, query at the end] per run] *)
Fixpoint d_psessions (paths : list str) (F : fsys) (ss : list psession) : list val :=
  match ss with
  | [] => []
  | s :: r =>
      match run_psession F s with
      | Ok (F', c, seen, inp) =>
          VL [VL (map (fun p => vfs (F' p)) paths); vcfg c; vstrs seen; vstr inp] :: d_psessions paths F' r
      | Err _ => [verr]
      end
  end.

(* ---- the action loop of one run (HistoryLoopSpec / HistoryLoopModel) ---- *)
Definition vending (e : ending) : val :=
  VI (match e with EndAccept true => 0 | EndAccept false => 1 | EndPrintQuery => 2 | EndBecome => 3 | EndAbort => 4 end).
(* a step: [0, s] edit, [1] previous, [2] next, [5, ending, has_item] attempt *)
Definition as_pstep (v : val) : pstep sop :=
  if as_int (arg v 0) =? 5 then PTry (as_ending (arg v 1)) (as_bool (arg v 2)) else PDo (as_sop v).
Definition as_lsession (v : val) : lsession :=
  mkL (as_layers (arg v 0)) (map as_pstep (as_list (arg v 1))) (as_ending (arg v 2)).
Definition vsop (o : sop) : val :=
  match o with Edit s => VL [VI 0; vstr s] | Prev => VL [VI 1] | Next => VL [VI 2] end.

(* 1808: runs of the program, action by action: [[[path, file]...], [[layers, steps, ending]...]] ->
   [[[file_after per path], config in effect, seen, query at the end, the ending that took place] per run] *)
Fixpoint d_lsessions (paths : list str) (F : fsys) (ss : list lsession) : list val :=
  match ss with
  | [] => []
  | s :: r =>
      match run_lsession F s with
      | Ok (F', c, seen, inp, e) =>
          VL [VL (map (fun p => vfs (F' p)) paths); vcfg c; vstrs seen; vstr inp; vending e] :: d_lsessions paths F' r
      | Err _ => [verr]
      end
  end.

Definition dispatch_history (op : Z) (a : val) : option val :=
  if op =? 1801 then Some (VL (d_sessions (as_nat (arg a 0)) (as_fs (arg a 1)) (map as_session (as_list (arg a 2)))))
  else if op =? 1802 then Some (d_spec_stored (as_nat (arg a 0)) (as_fs (arg a 1)) (as_strs (arg a 2)))
  else if op =? 1803 then Some (vstrs (entries (as_str a)))
  else if op =? 1804 then Some (vstrs (spec_nav (as_strs (arg a 0)) (map as_sop (as_list (arg a 1)))))
  else if op =? 1805 then
    Some (VL (d_psessions (map (fun e => as_str (arg e 0)) (as_list (arg a 0))) (fsys_of (as_list (arg a 0)))
                          (map as_psession (as_list (arg a 1)))))
  (* 1806: SPEC: layers -> [what the concatenated option list asks for, no size in an earlier layer than a file] *)
  else if op =? 1806 then
    Some (VL [vcfg (eff_config (concat (as_layers a))); vbool (layered_ok false (as_layers a))])
  (* 1807: SPEC: [config, ending, query, path, entries before] -> entries after the run *)
  else if op =? 1807 then
    Some (vstrs (proc_step (as_cfg (arg a 0)) (as_ending (arg a 1)) (as_str (arg a 2)) (as_str (arg a 3)) (as_strs (arg a 4))))
  else if op =? 1808 then
    Some (VL (d_lsessions (map (fun e => as_str (arg e 0)) (as_list (arg a 0))) (fsys_of (as_list (arg a 0)))
                          (map as_lsession (as_list (arg a 1)))))
  (* 1809: SPEC: [steps, ending] -> [the plain steps the session amounts to, the ending it amounts to] *)
  else if op =? 1809 then
    let x := amounts_to (map as_pstep (as_list (arg a 0))) (as_ending (arg a 1)) in
    Some (VL [VL (map vsop (fst x)); vending (snd x)])
  else None.
