(* Wire glue for C10 (ops 10xx): universal value -> tokenizer model / field spec.
   Evaluated both by vm_compute (cases.v) and by the extracted OCaml driver. *)
From Fzf Require Import Prelude Val FieldSpec TokenModel.
Open Scope Z_scope.

Definition vtok (t : token) : val := VL [vstr (t_text t); VI (t_prefix t)].
Definition vtoks (ts : list token) : val := VL (map vtok ts).
Definition as_tok (v : val) : token := mkTok (as_str (arg v 0)) (as_int (arg v 1)).
Definition as_toks (v : val) : list token := map as_tok (as_list v).

Definition as_loc (v : val) : nat * nat := (as_nat (arg v 0), as_nat (arg v 1)).
Definition as_locs (v : val) : list (nat * nat) := map as_loc (as_list v).

(* regex table: [[text, [[s,e]...]] ...]; texts not in the table have no occurrence *)
Fixpoint rx_lookup (tbl : list (str * list (nat * nat))) (s : str) : list (nat * nat) :=
  match tbl with
  | [] => []
  | (k, v) :: r => if str_eqb k s then v else rx_lookup r s
  end.
Definition as_rx (v : val) : str -> list (nat * nat) :=
  rx_lookup (map (fun e => (as_str (arg e 0), as_locs (arg e 1))) (as_list v)).

(* delimiter: [0] awk | [1, sep] literal | [2, table] regex *)
Definition as_delim (v : val) : delimiter :=
  let k := as_int (arg v 0) in
  if k =? 1 then DStr (as_str (arg v 1))
  else if k =? 2 then DRegex (as_rx (arg v 1))
  else DAwk.

Definition as_range (v : val) : range := (as_int (arg v 0), as_int (arg v 1)).
Definition as_ranges (v : val) : list range := map as_range (as_list v).
Definition vrange (r : range) : val := VL [VI (fst r); VI (snd r)].

(* fexpr: [0, n] | [1, a?, b?] with x? = [] or [x] *)
Definition as_optz (v : val) : option Z :=
  match as_list v with [] => None | x :: _ => Some (as_int x) end.
Definition as_fexpr (v : val) : fexpr :=
  if as_int (arg v 0) =? 0 then FIdx (as_int (arg v 1)) else FRange (as_optz (arg v 1)) (as_optz (arg v 2)).

(* matcher table: [[text, [] | [s, e, [pos...]]] ...]; the outcome of algo.*Match on each text is an input *)
Fixpoint mf_lookup (tbl : list (str * option (nat * nat * list nat))) (s : str) : option (nat * nat * list nat) :=
  match tbl with
  | [] => None
  | (k, v) :: r => if str_eqb k s then v else mf_lookup r s
  end.
Definition as_match_fn (v : val) : match_fn :=
  mf_lookup (map (fun e => (as_str (arg e 0),
                            match as_list (arg e 1) with
                            | [] => None
                            | _ => Some (as_nat (arg (arg e 1) 0), as_nat (arg (arg e 1) 1),
                                         map as_nat (as_list (arg (arg e 1) 2)))
                            end)) (as_list v)).

(* the delimiter as the stripping spec sees it *)
Definition as_dspec (v : val) : dspec :=
  match as_delim v with DAwk => DSAwk | DStr sep => DSLiteral sep | DRegex rx => DSRegexp rx end.

Definition as_fexprs (v : val) : list fexpr := map as_fexpr (as_list v).

(* template part: [0, text] | [1] ({n}) | [2, [expr...]] (spec) / [2, [range...]] (model) *)
Definition as_tpart (v : val) : tpart :=
  let k := as_int (arg v 0) in
  if k =? 0 then TLit (as_str (arg v 1)) else if k =? 1 then TIndex else TFields (as_fexprs (arg v 1)).
Definition as_nth_part (v : val) : nth_part :=
  let k := as_int (arg v 0) in
  if k =? 0 then PStr (as_str (arg v 1)) else if k =? 1 then PIndex else PNth (as_ranges (arg v 1)).

Definition vres {A} (f : A -> val) (r : res A) : val := match r with Ok a => f a | Err _ => verr end.

(* positions of a match: [] = no match | [s, e, [pos...]] *)
Definition vmatch (m : option (Z * Z * list Z)) : val :=
  match m with
  | None => VL []
  | Some (s, e, pos) => VL [VI s; VI e; VL (map VI pos)]
  end.

Definition dispatch_token (op : Z) (a : val) : option val :=
  (* ---- model ---- *)
  if op =? 1001 then Some (vres vtoks (tokenize (as_str (arg a 0)) (as_delim (arg a 1))))
  else if op =? 1002 then
    (* numbers are returned as decimal numerals: int64 extremes do not fit the driver's 63-bit ints *)
    Some (match parse_range (as_str a) with
          | Some r => VL [VL [vstr (itoa (fst r)); vstr (itoa (snd r))]]
          | None => VL [] end)
  else if op =? 1003 then Some (vres vtoks (transform (as_toks (arg a 0)) (as_ranges (arg a 1))))
  else if op =? 1004 then
    Some (vres vtoks (transform_input (as_str (arg a 0)) (as_ranges (arg a 1)) (as_delim (arg a 2))))
  else if op =? 1005 then Some (vstr (ranges_to_string (as_ranges a)))
  else if op =? 1006 then Some (vres vstr (strip_last_delimiter (as_str (arg a 0)) (as_delim (arg a 1))))
  else if op =? 1007 then
    Some (vres vstr (accept_nth (as_str (arg a 0)) (as_ranges (arg a 1)) (as_delim (arg a 2))))
  else if op =? 1008 then
    Some (vres vmatch (nth_match (as_match_fn (arg a 3)) (as_str (arg a 0)) (as_ranges (arg a 1)) (as_delim (arg a 2))))
  else if op =? 1009 then
    Some (let (ts, pl) := awk_tokenizer (as_str a) in VL [vstrs ts; VI pl])
  (* ---- spec ---- *)
  else if op =? 1010 then
    Some (vbool (partition_ok (as_str (arg a 0)) (as_str (arg a 1)) (as_strs (arg a 2))
                              (map as_nat (as_list (arg a 3)))))
  else if op =? 1011 then Some (VL [vstr (awk_lead (as_str a)); vstrs (awk_fields (as_str a))])
  else if op =? 1012 then Some (vstrs (split_after (as_str (arg a 0)) (as_str (arg a 1))))
  else if op =? 1013 then
    Some (let locs := as_locs (arg a 0) in let line := as_str (arg a 1) in
          VL [vbool (locs_wfb 0 (length line) locs); vstrs (split_by locs line)])
  else if op =? 1014 then
    (* [expr, fields, start] -> [selected text, start offset of the selection, number of selected fields] *)
    Some (let e := as_fexpr (arg a 0) in let fs := as_strs (arg a 1) in
          VL [vstr (select_text e fs); vnat (select_start e (as_nat (arg a 2)) fs);
              vnat (length (select_fields e fs))])
  else if op =? 1015 then
    Some (vbool (inside_selection (as_fexpr (arg a 0)) (as_nat (arg a 2)) (as_strs (arg a 1))
                                  (as_nat (arg a 3)) (as_nat (arg a 4))))
  else if op =? 1016 then Some (vstr (print_fexpr (as_fexpr a)))
  (* [delim, text] -> text without its last delimiter and trailing white space *)
  else if op =? 1017 then Some (vstr (output_text (as_dspec (arg a 0)) (as_str (arg a 1))))
  (* [delim, exprs, fields] -> the texts --nth searches *)
  else if op =? 1018 then
    Some (vstrs (search_texts (as_dspec (arg a 0)) (as_fexprs (arg a 1)) (as_strs (arg a 2))))
  (* [delim, parts, fields, index, accept] -> rendered template (accept = 1: --accept-nth output) *)
  else if op =? 1019 then
    Some (let d := as_dspec (arg a 0) in
          let s := render_template d (as_strs (arg a 2)) (as_int (arg a 3)) (map as_tpart (as_list (arg a 1))) in
          vstr (if as_int (arg a 4) =? 1 then output_text d s else s))
  (* [delim, preserve, exprs, fields] -> what {EXPR,...} stands for in a command (before quoting) *)
  else if op =? 1020 then
    Some (vstr (placeholder_text (as_dspec (arg a 0)) (as_bool (arg a 1)) (as_fexprs (arg a 2)) (as_strs (arg a 3))))
  (* ---- model (second part) ---- *)
  (* [parts, line, delim, index, accept] *)
  else if op =? 1021 then
    Some (let parts := map as_nth_part (as_list (arg a 0)) in
          vres vstr (if as_int (arg a 4) =? 1
                     then accept_nth_template parts (as_str (arg a 1)) (as_delim (arg a 2)) (as_int (arg a 3))
                     else with_nth_template parts (as_str (arg a 1)) (as_delim (arg a 2)) (as_int (arg a 3))))
  (* [line, ranges, delim, preserve] *)
  else if op =? 1022 then
    Some (vres vstr (placeholder_fields (as_str (arg a 0)) (as_ranges (arg a 1)) (as_delim (arg a 2)) (as_bool (arg a 3))))
  else None.
