(* Wire glue for C13 / C08 (ops 13xx): chunk store, chunk cache, matcher loop/scan, oracle.
   Items are identified by their index (Z); a pattern arrives with the table of the items it
   matches and their rank keys (computed by the real fzf pattern on the harness side):
   that table is the `matchf` parameter of the models. *)
From Fzf Require Import Prelude Val SearchSpec ChunkStoreModel CacheModel MatcherModel.
Open Scope Z_scope.

Record wpat := mkWPat { wp_text : str; wp_ckey : str; wp_cacheable : bool; wp_sortable : bool;
                        wp_empty : bool; wp_tab : list (Z * Z); wp_gen : nat }.

Fixpoint tab_find (t : list (Z * Z)) (x : Z) : option Z :=
  match t with
  | [] => None
  | (k, v) :: r => if k =? x then Some v else tab_find r x
  end.
Definition w_matchf (p : wpat) (x : Z) : option Z := tab_find (wp_tab p) x.
Definition w_idx (x : Z) : Z := x.

Definition as_pair (v : val) : Z * Z := (as_int (arg v 0), as_int (arg v 1)).
Definition as_wpat (v : val) : wpat :=
  mkWPat (as_str (arg v 0)) (as_str (arg v 1)) (as_bool (arg v 2)) (as_bool (arg v 3)) (as_bool (arg v 4))
         (map as_pair (as_list (arg v 5))) (as_nat (arg v 6)).
Definition vints (l : list Z) : val := VL (map VI l).
Definition as_ints (v : val) : list Z := map as_int (as_list v).
Definition vopt (o : option (list Z)) : val := match o with None => VL [] | Some l => VL [vints l] end.

(* ---- 1301 / 1302: chunk list ---- *)
Definition as_cop (v : val) : cop Z :=
  let t := as_int (arg v 0) in
  if t =? 0 then CPush (as_int (arg v 1)) else if t =? 1 then CReject else if t =? 2 then CClear
  else CSnap (as_nat (arg v 1)).
Definition as_lop (v : val) : lop Z :=
  let t := as_int (arg v 0) in
  if t =? 0 then LPush (as_int (arg v 1)) else if t =? 1 then LReject else if t =? 2 then LClear
  else LSnap (as_nat (arg v 1)).

Definition v_cells (r : res (list (list Z))) : val :=
  match r with Ok cs => VL (map vints cs) | Err _ => verr end.

(* per snapshot: count, changed, cells read at snapshot time, cells read through the FINAL store;
   then the chunks of the list itself at the end *)
Definition d_chunklist (ops : list (cop Z)) : val :=
  (fix go (cl : clist Z) (ops : list (cop Z)) (acc : list (list nat * nat * bool * val)) {struct ops} : val :=
     match ops with
     | [] =>
         VL [VL (map (fun e => let '(ids, cnt, chg, at_time) := e in
                               VL [vnat cnt; vbool chg; at_time; v_cells (deref_all (cl_store cl) ids)]) (rev acc));
             v_cells (deref_all (cl_store cl) (cl_chunks cl))]
     | o :: r =>
         match o with
         | CSnap t =>
             match snapshot cl t with
             | Ok s => go (sn_cl s) r ((sn_ids s, sn_count s, sn_changed s,
                                        v_cells (deref_all (cl_store (sn_cl s)) (sn_ids s))) :: acc)
             | Err _ => verr
             end
         | _ => match cstep1 cl o with Ok cl' => go cl' r acc | Err _ => verr end
         end
     end) cl_empty ops [].

(* ---- 1303: chunk cache op sequence (results are item indexes) ---- *)
Fixpoint d_cache (c : cache Z) (ops : list val) : list val :=
  match ops with
  | [] => []
  | o :: r =>
      let t := as_int (arg o 0) in
      if t =? 0 then d_cache (cache_add c (as_nat (arg o 2)) (as_nat (arg o 1)) (as_str (arg o 3)) (as_ints (arg o 4))) r
      else if t =? 1 then vopt (cache_lookup c (as_nat (arg o 2)) (as_nat (arg o 1)) (as_str (arg o 3))) :: d_cache c r
      else if t =? 2 then vopt (cache_search c (as_nat (arg o 2)) (as_nat (arg o 1)) (as_str (arg o 3))) :: d_cache c r
      else if t =? 3 then d_cache (cache_retire c (map as_nat (as_list (arg o 1)))) r
      else if t =? 5 then d_cache (cache_add_gen (Some (as_nat (arg o 5))) c (as_nat (arg o 2)) (as_nat (arg o 1)) (as_str (arg o 3)) (as_ints (arg o 4))) r
      else if t =? 6 then d_cache (cache_invalidate c) r
      else if t =? 7 then vnat (c_gen c) :: d_cache c r
      else d_cache (cache_clear c) r
  end.

(* ---- matcher ---- *)
Definition wreq := @request Z wpat.
Definition wchunk := (nat * list Z)%type.
Definition wenv (rl : rules) (tac : bool) (parts : nat) : penv Z wpat :=
  mkEnv w_idx w_matchf wp_text wp_ckey wp_gen wp_cacheable wp_sortable wp_empty rl tac parts.

Fixpoint chunk_find (t : list wchunk) (id : nat) : wchunk :=
  match t with
  | [] => (id, [])
  | (i, xs) :: r => if Nat.eqb i id then (i, xs) else chunk_find r id
  end.
Definition as_chunk (v : val) : wchunk := (as_nat (arg v 0), as_ints (arg v 1)).
Definition pat_nth (ps : list wpat) (n : nat) : wpat := nth n ps (mkWPat [] [] false false true [] 0).
Definition as_req (ps : list wpat) (ct : list wchunk) (v : val) : wreq :=
  mkReq (map (fun i => chunk_find ct (as_nat i)) (as_list (arg v 0))) (pat_nth ps (as_nat (arg v 1)))
        (as_bool (arg v 2)) (as_bool (arg v 3)) (as_int (arg v 4), as_int (arg v 5)).

Definition v_pub (E : penv Z wpat) (m : @merger Z) : val :=
  VL [vbool (mg_final m); vnat (merger_count m); vints (merger_view E m)].

Definition as_rules (cfg : val) : rules :=
  let f := as_int (arg cfg 5) in      (* bit 0 prevCount, bit 1 sequence, bit 2 generation; 7 = the code as it is *)
  mkRules (Z.odd f) (Z.odd (f / 2)) (Z.odd (f / 4)).
Definition as_env (cfg : val) : penv Z wpat := wenv (as_rules cfg) (as_bool (arg cfg 1)) (as_nat (arg cfg 2)).

(* 1310: Loop driven event by event, no interference inside a scan: [cfg; pats; chunk table; entries]
   cfg = [sort0; tac; partitions; major0; minor0; rules].  entry = [req; cancel] (post, then one iteration)
   or [[]; 2] (Invalidate).  One answer per request entry: [] or [final; count; view] *)
Definition d_loop (a : val) : val :=
  let cfg := arg a 0 in
  let E := as_env cfg in
  let ps := map as_wpat (as_list (arg a 1)) in
  let ct := map as_chunk (as_list (arg a 2)) in
  (fix go (st : @lstate Z wpat) (its : list val) : val :=
     match its with
     | [] => VL []
     | it :: r =>
         if as_int (arg it 1) =? 2 then
           match lstep E st EInvalidate with Ok st1 => go st1 r | Err _ => verr end
         else
         let req := as_req ps ct (arg it 0) in
         let n := length (l_pubs st) in
         match lstep E st (EPost (as_bool (arg it 1)) req) with
         | Err _ => verr
         | Ok st1 =>
             match lstep E st1 (EIter true (fair_sched E (r_chunks req))) with
             | Err _ => verr
             | Ok st2 =>
                 let out := match l_pubs st2 with
                            | (_, m) :: _ => if Nat.ltb n (length (l_pubs st2)) then v_pub E m else VL []
                            | [] => VL []
                            end in
                 match go st2 r with VL l => VL (out :: l) | v => v end
             end
         end
     end)
    (linit (as_bool (arg cfg 0)) (as_int (arg cfg 3), as_int (arg cfg 4)))
    (as_list (arg a 3)).

(* 1311: direct scans sharing one ChunkCache: [cfg; pats; chunk table; [req; reset_pending]...]
   reset_pending: a reqReset is posted before the scan starts; [[]; 2] = Invalidate.  The matcher's
   sort/revision follow the request (as Loop does before calling scan); mergerCache is bypassed by
   giving every iteration a fresh matcher state around the shared chunk cache. *)
Definition d_scans (a : val) : val :=
  let cfg := arg a 0 in
  let E := as_env cfg in
  let ps := map as_wpat (as_list (arg a 1)) in
  let ct := map as_chunk (as_list (arg a 2)) in
  (fix go (c : cache (Z * Z)) (its : list val) : val :=
     match its with
     | [] => VL []
     | it :: r =>
         if as_int (arg it 1) =? 2 then go (cache_invalidate c) r else
         let req := as_req ps ct (arg it 0) in
         let ms := mkM (negb (r_sort req)) (r_rev req) [] 0%nat c in
         let sched := (if as_bool (arg it 1) then [LPost true req] else []) ++ fair_sched E (r_chunks req) in
         match loop_body E ms box_empty req sched with
         | Err _ => verr
         | Ok (ms', _, pub) =>
             let out := match pub with Some m => v_pub E (set_final m false) | None => VL [] end in
             match go (m_cache ms') r with VL l => VL (out :: l) | v => v end
         end
     end) cache_new (as_list (arg a 3)).

(* 1312: both mailbox slots occupied before the loop runs: [cfg; pats; chunk table; reqRetry; reqReset; retry_posted_last]
   -> the publication under the rules of cfg when the map iteration ends with the retry slot / with the reset slot *)
Definition d_twoslot (a : val) : val :=
  let cfg := arg a 0 in
  let E := as_env cfg in
  let ps := map as_wpat (as_list (arg a 1)) in
  let ct := map as_chunk (as_list (arg a 2)) in
  let ra := as_req ps ct (arg a 3) in
  let rb := as_req ps ct (arg a 4) in
  let st0 : @lstate Z wpat := linit (as_bool (arg cfg 0)) (as_int (arg cfg 3), as_int (arg cfg 4)) in
  let posts := if as_bool (arg a 5) then [EPost true rb; EPost false ra] else [EPost false ra; EPost true rb] in
  let run (pick : bool) :=
    match lrun E st0 (posts ++ [EIter pick (fair_sched E (r_chunks ra) ++ fair_sched E (r_chunks rb))]) with
    | Ok st => match l_pubs st with (_, m) :: _ => v_pub E m | [] => VL [] end
    | Err _ => verr
    end in
  VL [run false; run true].

(* 1313: Pattern.Match sequences against one ChunkCache: [pats; chunk table; ops; rules]
   op = [0; pat; chunk] match | [1] Invalidate | [2] Clear.  One answer per match: item indexes *)
Definition d_pmatch (a : val) : val :=
  let ps := map as_wpat (as_list (arg a 0)) in
  let ct := map as_chunk (as_list (arg a 1)) in
  let E := as_env (VL [VI 0; VI 0; VI 1; VI 0; VI 0; arg a 3]) in
  VL ((fix go (c : cache (Z * Z)) (ops : list val) : list val :=
     match ops with
     | [] => []
     | o :: r =>
         let t := as_int (arg o 0) in
         if t =? 0 then
           let '(ms, c') := pattern_match E c (pat_nth ps (as_nat (arg o 1))) (chunk_find ct (as_nat (arg o 2))) in
           vints (map fst ms) :: go c' r
         else if t =? 1 then go (cache_invalidate c) r
         else go (cache_clear c) r
     end) cache_new (as_list (arg a 2))).

(* 1320: the sequential oracle: [sort; tac; pat; items] -> item indexes top to bottom *)
Definition d_oracle (a : val) : val :=
  let p := as_wpat (arg a 2) in
  vints (oracle w_idx w_matchf wp_empty wp_sortable (as_bool (arg a 0)) (as_bool (arg a 1)) p (as_ints (arg a 3))).

(* 1321: sliceChunks: [partitions; n] -> sizes of the slices of n chunks *)
Definition d_slices (a : val) : val :=
  VL (map (fun l => vnat (length l)) (slice_chunks (wenv rules_fixed false (as_nat (arg a 0))) (repeat tt (as_nat (arg a 1))))).

Definition dispatch_matcher (op : Z) (a : val) : option val :=
  if op =? 1301 then Some (d_chunklist (map as_cop (as_list a)))
  else if op =? 1302 then Some (VL (map vints (live [] (map as_lop (as_list a)))))
  else if op =? 1303 then Some (VL (d_cache cache_new (as_list a)))
  else if op =? 1310 then Some (d_loop a)
  else if op =? 1311 then Some (d_scans a)
  else if op =? 1312 then Some (d_twoslot a)
  else if op =? 1313 then Some (d_pmatch a)
  else if op =? 1320 then Some (d_oracle a)
  else if op =? 1321 then Some (d_slices a)
  else None.
