(* Wire glue for C13, the loading side with several pushers (ops 134x).  A line is identified by a number. *)
From Fzf Require Import Prelude Val SearchSpec LoaderSpec ChunkStoreModel LoaderModel.
Open Scope Z_scope.

Definition v_item (x : Z * Z) : val := VL [VI (fst x); VI (snd x)].
Definition v_items (l : list (Z * Z)) : val := VL (map v_item l).

Definition as_label (v : val) : llabel :=
  if as_int (arg v 0) =? 0 then LdPush (as_nat (arg v 1)) else LdSnap (as_nat (arg v 1)).
Definition as_sop (v : val) : sop Z :=
  if as_int (arg v 0) =? 0 then SLine (as_int (arg v 1)) else SSnap (as_nat (arg v 1)).

Definition v_flat (r : res (list (list (Z * Z)))) : val :=
  match r with Ok cs => v_items (concat cs) | Err _ => verr end.
Definition v_lens (r : res (list (list (Z * Z)))) : val :=
  match r with Ok cs => VL (map (fun c => vnat (length c)) cs) | Err _ => verr end.

(* 1340: the MODEL: [h; queues; schedule] with label [0; p] = the Push of pusher p is committed, [1; t] = Snapshot(t)
   -> [[count; changed; items read through the FINAL store; chunk lengths] per snapshot, oldest first;
       items of the list itself; its chunk lengths; header; itemIndex] *)
Definition d_loader (a : val) : val :=
  let h := as_nat (arg a 0) in
  let qs := map (fun q => map as_int (as_list q)) (as_list (arg a 1)) in
  match ld_run h (ld_init qs) (map as_label (as_list (arg a 2))) with
  | Err _ => verr
  | Ok st =>
      let s := cl_store (ls_cl st) in
      VL [VL (map (fun r => VL [vnat (sn_count r); vbool (sn_changed r);
                                v_flat (deref_all s (sn_ids r)); v_lens (deref_all s (sn_ids r))]) (rev (ls_snaps st)));
          v_flat (deref_all s (cl_chunks (ls_cl st))); v_lens (deref_all s (cl_chunks (ls_cl st)));
          VL (map VI (b_header (ls_b st))); VI (b_next (ls_b st))]
  end.

(* 1342: the SPEC: ONE reader on a sequential trace: [h; trace] with [0; line] | [1; tail]
   -> [snapshots, oldest first; the list at the end; header] *)
Definition d_reader (a : val) : val :=
  let h := as_nat (arg a 0) in
  let tr := map as_sop (as_list (arg a 1)) in
  let ops := reader_lops h 0 0 tr in
  VL [VL (map v_items (live [] ops)); v_items (live_end [] ops); VL (map VI (fst (load_seq h (lines_of tr))))].

Definition dispatch_loader (op : Z) (a : val) : option val :=
  if op =? 1340 then Some (d_loader a)
  else if op =? 1341 then Some (VL (map VI (numbering_gaps (map as_int (as_list a)))))
  else if op =? 1342 then Some (d_reader a)
  else None.
