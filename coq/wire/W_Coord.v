(* Wire glue for C08 (ops 8xx): universal value -> coordinator model.
   801: [query0, sort0, nth0, [label...]] -> observation of the state after the schedule.
   Labels: [0,start,n] LPush of the items start..start+n-1 | [1] LPoll | [2] LFin | [3,[prim...]] LUi |
           [4] LCoordRead | [5] LCoordSearch | [6] LCoordFin | [7] LTake | [8] LPublish | [9] LCancel |
           [10] = drain_labels (all internal steps that remain once user and producer stopped).
   Prims:  [0,q] query becomes q | [1] toggle-sort | [2,[ix...]] exclude | [3,n] change-nth | [4,c,sync] reload |
           [5] toggle-search | [6] enable-search | [7] disable-search. *)
From Fzf Require Import Prelude Val CoordSpec CoordModel.
Open Scope Z_scope.

Definition as_prim (v : val) : prim :=
  let t := as_int (arg v 0) in
  if t =? 0 then PSetQuery (as_str (arg v 1))
  else if t =? 1 then PToggleSort
  else if t =? 2 then PExclude (map as_int (as_list (arg v 1)))
  else if t =? 3 then PChangeNth (as_int (arg v 1))
  else if t =? 4 then PReload (as_int (arg v 1)) (as_bool (arg v 2))
  else if t =? 5 then PToggleSearch
  else if t =? 6 then PEnableSearch
  else PDisableSearch.

Fixpoint zseq (start : Z) (n : nat) : list Z :=
  match n with O => [] | S n => start :: zseq (start + 1) n end.

Definition as_labels (v : val) : list label :=
  let t := as_int (arg v 0) in
  if t =? 0 then [LPush (zseq (as_int (arg v 1)) (as_nat (arg v 2)))]
  else if t =? 1 then [LPoll]
  else if t =? 2 then [LFin]
  else if t =? 3 then [LUi (map as_prim (as_list (arg v 1)))]
  else if t =? 4 then [LCoordRead]
  else if t =? 5 then [LCoordSearch]
  else if t =? 6 then [LCoordFin]
  else if t =? 7 then [LTake]
  else if t =? 8 then [LPublish]
  else if t =? 9 then [LCancel]
  else drain_labels.

Fixpoint zlist_eqb (a b : list Z) : bool :=
  match a, b with
  | [], [] => true
  | x :: a, y :: b => Z.eqb x y && zlist_eqb a b
  | _, _ => false
  end.

Definition vopt (o : option Z) : val := match o with Some z => VI z | None => VI (-1) end.

Definition observe (s : st) : val :=
  let m := t_merger s in
  VL [ vbool (quiescent s); vstr (effq s); vstr (t_input s); vbool (t_sort s); VI (t_nth s);
       VL (map VI (g_deny s)); vnat (t_count s); vnat (length (cl s));
       VL [ vbool (zlist_eqb (r_items m) (cl s)); vnat (length (r_items m)); vstr (r_query m); vbool (r_sort m);
            VI (r_nth m); VL (map VI (r_deny m)); vbool (r_final m); vnat (major (r_rev m)) ];
       vopt (g_started s); vopt (g_cmd s); vbool (t_paused s) ].

(* 803: exploration of the model itself: [query0, sort0, nth0, [label...]] ->
        [quiescent s -> conclusion of coordinator_quiescent at s ; quiescent (drain s) ; conclusion at drain s ;
         sequence number / major revision on display never decreased along the run] *)
Definition uptodate_b (s : st) : bool :=
  let m := t_merger s in
  zlist_eqb (r_items m) (cl s) && str_eqb (r_query m) (effq s) && Bool.eqb (r_sort m) (t_sort s) &&
  Z.eqb (r_nth m) (t_nth s) && zlist_eqb (r_deny m) (g_deny s) && r_final m && Nat.eqb (t_count s) (length (cl s)).

Fixpoint run_mono (s : st) (ls : list label) : st * bool :=
  match ls with
  | [] => (s, true)
  | l :: r =>
      let s' := step s l in
      let ok := Nat.leb (r_id (t_merger s)) (r_id (t_merger s')) && Nat.leb (major (r_rev (t_merger s))) (major (r_rev (t_merger s'))) in
      let (sf, okr) := run_mono s' r in (sf, ok && okr)
  end.

Definition explore (q : str) (so : bool) (n : nthv) (ls : list label) : val :=
  let (s, mono) := run_mono (init q so n) ls in
  let d := run s drain_labels in
  VL [ vbool (implb (quiescent s) (uptodate_b s)); vbool (quiescent d); vbool (uptodate_b d); vbool mono ].

Definition dispatch_coord (op : Z) (a : val) : option val :=
  if op =? 801 then
    Some (observe (run (init (as_str (arg a 0)) (as_bool (arg a 1)) (as_int (arg a 2)))
                       (flat_map as_labels (as_list (arg a 3)))))
  else if op =? 802 then   (* the same under the pre-fix rules (overwrite, toggle-search assignment): regression only *)
    Some (observe (run_r (mkRules false false) (init (as_str (arg a 0)) (as_bool (arg a 1)) (as_int (arg a 2)))
                       (flat_map as_labels (as_list (arg a 3)))))
  else if op =? 803 then
    Some (explore (as_str (arg a 0)) (as_bool (arg a 1)) (as_int (arg a 2)) (flat_map as_labels (as_list (arg a 3))))
  else None.
