(* Wire glue for C16 (ops 16xx): universal value -> HTTP model/spec functions.
   Evaluated both by vm_compute (cases.v) and by the extracted OCaml driver. *)
From Fzf Require Import Prelude Val HttpSpec HttpModel.
Open Scope Z_scope.

(* verdict of the action parser: [0] accepted, [1] no action, [2, msg] error *)
Definition as_verdict (v : val) : verdict :=
  let t := as_int (arg v 0) in
  if t =? 0 then VAccept else if t =? 1 then VEmpty else VError (as_str (arg v 1)).

Definition vopt_str (o : option str) : val := match o with None => VL [] | Some b => VL [vstr b] end.

Definition v_outcome (o : outcome) : val :=
  VL [VI (o_code o); vstr (o_resp o); vopt_str (o_actions o);
      (* 64-bit values travel as (high, low) 32-bit halves: the OCaml driver's int is 63 bits wide *)
      match o_get o with
      | None => VL []
      | Some (l, f) => VL [VI (l / 4294967296); VI (l mod 4294967296); VI (f / 4294967296); VI (f mod 4294967296)]
      end].

Definition v_start (r : start_res) : val :=
  match r with
  | StartRefusedNoKey => VL [VI 0]
  | StartListen h p => VL [VI 1; vstr h; VI p]
  | StartBadAddress LAddrInvalid => VL [VI 2]
  | StartBadAddress _ => VL [VI 3]
  end.

Definition dispatch_http (op : Z) (a : val) : option val :=
  if op =? 1601 then   (* [key, state, verdict, ready, chunks] -> [code, response, [actions], [limit_hi, limit_lo, offset_hi, offset_lo]] *)
    Some (match handle (as_str (arg a 0)) (as_str (arg a 1)) (fun _ => as_verdict (arg a 2)) (as_bool (arg a 3))
                       (as_strs (arg a 4)) with
          | Ok o => v_outcome o
          | Err _ => verr
          end)
  else if op =? 1602 then   (* [key, chunks] -> [] | [body handed to the action parser] *)
    Some (match pending_body (as_str (arg a 0)) (as_strs (arg a 1)) with
          | Ok o => vopt_str o
          | Err _ => verr
          end)
  else if op =? 1603 then   (* spec: response bytes -> status code, -1 when not well-formed *)
    Some (VI (match wf_response (as_str a) with Some c => c | None => -1 end))
  else if op =? 1604 then   (* spec: [key, stream] -> [] | [action list of a well-formed authorised POST] *)
    Some (vopt_str (spec_body (as_str (arg a 0)) (as_str (arg a 1))))
  else if op =? 1605 then   (* spec: [key, stream] -> key occurs in the stream *)
    Some (vbool (infixb (as_str (arg a 0)) (as_str (arg a 1))))
  else if op =? 1606 then   (* [address, key] -> start decision *)
    Some (v_start (start_decision (as_str (arg a 0)) (as_str (arg a 1))))
  else if op =? 1607 then   (* spec: request line -> [] | [query] when it is a GET *)
    Some (vopt_str (get_match (as_str a)))
  else if op =? 1608 then   (* chunks -> the handler saw the end of the input before answering *)
    Some (match waits_for_close (as_strs a) with Ok b => vbool b | Err _ => verr end)
  else if op =? 1609 then   (* spec: stream -> [] | [limit_hi, limit_lo, offset_hi, offset_lo] its request line asks for *)
    Some (match spec_get_request (as_str a) with
          | None => VL []
          | Some (l, f) => VL [VI (l / 4294967296); VI (l mod 4294967296); VI (f / 4294967296); VI (f mod 4294967296)]
          end)
  else if op =? 1610 then   (* spec: [items, limit_hi, limit_lo, offset_hi, offset_lo] -> the window of items a GET is shown.
                               Both numbers are cut down to the length of the list first (spec_window_clamp: same window),
                               so that no unary number of the size of 2^63 is ever built. *)
    Some (let items := as_strs (arg a 0) in
          let n := Z.of_nat (length items) in
          let l := as_int (arg a 1) * 4294967296 + as_int (arg a 2) in
          let f := as_int (arg a 3) * 4294967296 + as_int (arg a 4) in
          VL (map vstr (spec_window items (Z.min l n) (Z.min f n))))
  else if op =? 1611 then   (* spec: response bytes -> [] | [body] *)
    Some (vopt_str (response_body (as_str a)))
  else if op =? 1612 then   (* spec: key -> can any header present it (no white space at its ends)? *)
    Some (vbool (key_presentable (as_str a)))
  else if op =? 1613 then   (* spec: stream -> the key the complete request presents *)
    Some (vstr (spec_presented_key (as_str a)))
  else if op =? 1614 then   (* [address, FZF_API_KEY, state, verdict, ready, chunks] -> [] (no listener) | [outcome of the connection] *)
    Some (match serve (as_str (arg a 0)) (as_str (arg a 1)) (as_str (arg a 2)) (fun _ => as_verdict (arg a 3))
                      (as_bool (arg a 4)) (as_strs (arg a 5)) with
          | Ok None => VL []
          | Ok (Some o) => VL [v_outcome o]
          | Err _ => verr
          end)
  else None.
