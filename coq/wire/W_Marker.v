(* Wire glue for C17, --marker-multi-line (op 1731). *)
From Fzf Require Import Prelude Val BindModel MarkerSpec MarkerModel W_Bind.
Open Scope Z_scope.

(* argument: ((text width) ...), the grapheme clusters of the value with their display widths *)
Definition dec_cluster (v : val) : cluster := (as_str (arg v 0), as_nat (arg v 1)).

Definition dispatch_marker (op : Z) (a : val) : option val :=
  if op =? 1731 then
    Some (VL [enc_out (fun parts => VL (map (fun p => vstr (text p)) parts)) (marker_multi (map dec_cluster (as_list a)));
              vbool (marker_width_ok (map dec_cluster (as_list a)))])
  else None.
