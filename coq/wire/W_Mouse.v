(* Wire glue for C14, mouse histories (op 1412): the model of the list part of the mouse handler and the spec's verdict. *)
From Fzf Require Import Prelude Val MouseSpec MouseModel.
Open Scope Z_scope.

Definition as_geom (v : val) : geom :=
  mkGeom (as_int (arg v 0)) (as_int (arg v 1)) (as_int (arg v 2)) (as_int (arg v 3)) (as_int (arg v 4)) (as_int (arg v 5)) (as_int (arg v 6)).

Definition as_mev (v : val) : mev :=
  mkMev (as_int (arg v 0)) (as_int (arg v 1)) (as_bool (arg v 2)) (as_bool (arg v 3)) (as_int (arg v 4)).

Definition v_outcome (o : outcome) : val := match o with Stop => VL [] | Row i => VL [VI i] end.

Definition dispatch_mouse (op : Z) (a : val) : option val :=
  if op =? 1412 then
    (* [[top,left,height,width,min,layout,lines], [[x,y,down,taken,barlen]...]] -> [outcomes, every outcome safe] *)
    let g := as_geom (arg a 0) in
    let os := mouse_run g mst0 (map as_mev (as_list (arg a 1))) in
    Some (VL [VL (map v_outcome os); vbool (forallb (safeb g) os)])
  else None.
