(* Wire glue for C09 (ops 9xx): universal value -> editor/cursor/selection model and spec.
   Encodings
     item   = [index, text]
     cfg    = [multi, cycle, default_layout, inputless, track, maxitems, scrolloff, fileword, [alnum code points]]
     st     = [input, cx, yanked, [item...], cy, offset, [selected item...]]
     sparam = [multi, cycle, flip, page, noinput, fileword, [alnum code points]]
     sstate = [before (nearest first), after, kill, [item...], pos, [selected item...]]
     act    = [tag, arg...] with the tags of as_act below
   901 [cfg, st, [act...]]        -> [st']            model run (verr on a model error)
   902 [sparam, sstate, [act...]] -> sstate'          spec run
   903 [cfg, st]                  -> [item...]        model output()
   904 [[sel item...], [current item] | []] -> [item...]   spec output
   905 [multi, count, pos, [current idx] | [], [match idx...], [sel idx...]] -> [cursor_ok, sel_ok]
   sessions with a changing --multi limit (xact = act | [41, k, n]: change-multi with k = 0 no argument,
   k = 1 the number n, k = 2 an argument that is not a number):
   906 [cfg, st, [xact...]]        -> [st', multi']     model session run (verr on a model error); multi' = t.multi afterwards
   907 [sparam, sstate, [xact...]] -> [sstate', multi'] spec session run; multi' = the limit in force afterwards  *)
From Fzf Require Import Prelude Val EditSpec EditModel EditMultiSpec EditMultiModel.
Open Scope Z_scope.

Definition as_item (v : val) : item := (as_int (arg v 0), as_str (arg v 1)).
Definition vitem (it : item) : val := VL [VI (fst it); vstr (snd it)].
Definition as_items (v : val) : list item := map as_item (as_list v).
Definition vitems (l : list item) : val := VL (map vitem l).

Definition as_table (v : val) : Z -> bool := let t := map as_int (as_list v) in fun c => existsb (Z.eqb c) t.

Definition as_cfg (v : val) : cfg :=
  mkCfg (as_int (arg v 0)) (as_bool (arg v 1)) (as_bool (arg v 2)) (as_bool (arg v 3)) (as_bool (arg v 4))
        (as_int (arg v 5)) (as_int (arg v 6)) (as_bool (arg v 7)).
Definition as_st (v : val) : st :=
  mkSt (as_str (arg v 0)) (as_nat (arg v 1)) (as_str (arg v 2)) (as_items (arg v 3))
       (as_int (arg v 4)) (as_int (arg v 5)) (as_items (arg v 6)).
Definition vst (s : st) : val :=
  VL [vstr (s_input s); vnat (s_cx s); vstr (s_yanked s); vitems (s_res s); VI (s_cy s); VI (s_offset s); vitems (s_sel s)].

Definition as_act (v : val) : act :=
  let t := as_int (arg v 0) in
  if t =? 0 then AChar (as_int (arg v 1)) else if t =? 1 then APut (as_str (arg v 1))
  else if t =? 2 then ABackwardDeleteChar else if t =? 3 then ADeleteChar
  else if t =? 4 then ABackwardChar else if t =? 5 then AForwardChar
  else if t =? 6 then ABeginningOfLine else if t =? 7 then AEndOfLine
  else if t =? 8 then AKillLine else if t =? 9 then AUnixLineDiscard
  else if t =? 10 then AUnixWordRubout else if t =? 11 then ABackwardKillWord
  else if t =? 12 then ABackwardWord else if t =? 13 then AForwardWord
  else if t =? 14 then AKillWord else if t =? 15 then AYank
  else if t =? 16 then AClearQuery else if t =? 17 then ACancel
  else if t =? 18 then AChangeQuery (as_str (arg v 1)) else if t =? 19 then AReplaceQuery
  else if t =? 20 then AUp else if t =? 21 then ADown
  else if t =? 22 then AFirst else if t =? 23 then ALast
  else if t =? 24 then APos (as_int (arg v 1))
  else if t =? 25 then APageUp else if t =? 26 then APageDown
  else if t =? 27 then AHalfPageUp else if t =? 28 then AHalfPageDown
  else if t =? 29 then AToggle else if t =? 30 then AToggleIn else if t =? 31 then AToggleOut
  else if t =? 32 then ASelect else if t =? 33 then ADeselect
  else if t =? 34 then ASelectAll else if t =? 35 then ADeselectAll
  else if t =? 36 then AToggleAll else if t =? 37 then AClearSelection
  else if t =? 38 then ATruncate else if t =? 39 then ARender
  else AUpdate (as_items (arg v 1)) (as_bool (arg v 2)).

Definition as_sparams (v : val) : sparams :=
  mkSP (as_int (arg v 0)) (as_bool (arg v 1)) (as_bool (arg v 2)) (as_int (arg v 3)) (as_bool (arg v 4)).
Definition spec_isw (v : val) : Z -> bool :=
  if as_bool (arg v 5) then (fun x => negb (x =? PATHSEP)) else as_table (arg v 6).
Definition as_sstate (v : val) : sstate :=
  mkSS (mkZip (as_str (arg v 0)) (as_str (arg v 1)) (as_str (arg v 2))) (as_items (arg v 3)) (as_int (arg v 4)) (as_items (arg v 5)).
Definition vsstate (s : sstate) : val :=
  VL [vstr (zb (ss_zip s)); vstr (za (ss_zip s)); vstr (zk (ss_zip s)); vitems (ss_res s); VI (ss_pos s); vitems (ss_sel s)].

Definition as_optz (v : val) : option Z := match as_list v with [] => None | x :: _ => Some (as_int x) end.

Definition as_xact (v : val) : xact :=
  if as_int (arg v 0) =? 41 then
    XChangeMulti (let k := as_int (arg v 1) in if k =? 0 then CMNone else if k =? 1 then CMNum (as_int (arg v 2)) else CMBad)
  else XA (as_act v).

Definition dispatch_edit (op : Z) (a : val) : option val :=
  if op =? 901 then
    Some (match run (as_table (arg (arg a 0) 8)) (as_cfg (arg a 0)) (as_st (arg a 1)) (map as_act (as_list (arg a 2))) with
          | Ok s => VL [vst s] | Err _ => verr end)
  else if op =? 902 then
    Some (vsstate (srun (spec_isw (arg a 0)) (as_sparams (arg a 0)) (as_sstate (arg a 1)) (map as_act (as_list (arg a 2)))))
  else if op =? 903 then
    Some (match output (as_st (arg a 1)) with Ok l => vitems l | Err _ => verr end)
  else if op =? 904 then
    Some (vitems (spec_output (as_items (arg a 0)) (match as_list (arg a 1) with [] => None | x :: _ => Some (as_item x) end)))
  else if op =? 905 then
    Some (VL [vbool (obs_cursor_ok (as_int (arg a 1)) (as_int (arg a 2)) (as_optz (arg a 3)) (map as_int (as_list (arg a 4))));
              vbool (obs_sel_ok (as_int (arg a 0)) (map as_int (as_list (arg a 5))))])
  else if op =? 906 then
    Some (match xrun (as_table (arg (arg a 0) 8)) (as_cfg (arg a 0), as_st (arg a 1)) (map as_xact (as_list (arg a 2))) with
          | Ok cs => VL [vst (snd cs); VI (c_multi (fst cs))] | Err _ => verr end)
  else if op =? 907 then
    Some (let ps := xsrun (spec_isw (arg a 0)) (as_sparams (arg a 0), as_sstate (arg a 1)) (map as_xact (as_list (arg a 2))) in
          VL [vsstate (snd ps); VI (sp_multi (fst ps))])
  else None.
