(* Wire glue for C06 (ops 6xx): universal value -> reader / chunk-list model and record spec.
   Evaluated both by vm_compute (cases.v) and by the extracted OCaml driver. *)
From Fzf Require Import Prelude Val FieldSpec RecordSpec RecordNthSpec ReaderModel ChunkModel InputModel.
Open Scope Z_scope.

Definition as_nats (v : val) : list nat := map as_nat (as_list v).
Definition vitem (it : item) : val := VL [vnat (fst it); vstr (snd it)].
Definition vres_strs (r : res (list str)) : val := match r with Ok l => vstrs l | Err _ => verr end.

(* 601 model: [bufsz, slabsz, read0, trimCR, stream, cuts] -> records read back after the whole stream *)
Definition d_feed (a : val) : val :=
  vres_strs (feed_records (as_nat (arg a 0)) (as_nat (arg a 1)) (delim_of (as_bool (arg a 2)))
                          (as_bool (arg a 3)) (as_str (arg a 4)) (as_nats (arg a 5))).

(* 602 spec: [read0, stream] -> split_records *)
Definition d_split (a : val) : val :=
  vstrs (split_records (delim_of (as_bool (arg a 0))) (as_str (arg a 1))).

(* 603 model: [chunk_size, [op...]] with op = [0, accept, x] | [1, tail] | [2]
   -> [[final chunks], [[chunks, count, changed] per snapshot]]; items are integers *)
Definition as_clop (v : val) : @clop Z :=
  let t := as_int (arg v 0) in
  if t =? 0 then Push (as_bool (arg v 1)) (as_int (arg v 2))
  else if t =? 1 then Snapshot (as_nat (arg v 1)) else Clear.
Definition vchunks (cs : @chunklist Z) : val := VL (map (fun c => VL (map VI c)) cs).
Definition d_clops (a : val) : val :=
  match run_ops (as_nat (arg a 0)) [] (map as_clop (as_list (arg a 1))) with
  | Ok (cs, obs) =>
      VL [vchunks cs; VL (map (fun o : clobs => let '(ret, cnt, ch) := o in VL [vchunks ret; vnat cnt; vbool ch]) obs)]
  | Err _ => verr
  end.

(* 604 model: [bufsz, slabsz, chunk_size, read0, hl, tail, stream, cuts] -> [header, [[index, text]...]] *)
Definition d_pipeline (a : val) : val :=
  match pipeline (as_nat (arg a 0)) (as_nat (arg a 1)) (as_nat (arg a 2)) (as_bool (arg a 3))
                 (as_nat (arg a 4)) (as_nat (arg a 5)) (as_str (arg a 6)) (as_nats (arg a 7)) with
  | Ok (h, its) => VL [vstrs h; VL (map vitem its)]
  | Err _ => verr
  end.

(* 605 spec: [read0, hl, tail, stream] -> [header, searchable items] *)
Definition d_searchable (a : val) : val :=
  let read0 := as_bool (arg a 0) in
  let hl := as_nat (arg a 1) in
  let s := as_str (arg a 3) in
  VL [vstrs (header_of hl (split_records (delim_of read0) s));
      VL (map vitem (searchable read0 hl (as_nat (arg a 2)) s))].

(* 606 spec: [tail, [x...]] -> keep_tail (integers) *)
Definition d_keep_tail (a : val) : val :=
  VL (map VI (keep_tail (as_nat (arg a 0)) (map as_int (as_list (arg a 1))))).

(* 607 model: [bufsz, slabsz, chunk_size, read0, sort, tac, sync, hl, tail, stream, cuts] -> [header, [[index, text]...]]
   (--filter '' through whichever path core.go takes) *)
Definition d_filter_run (a : val) : val :=
  match filter_run (as_nat (arg a 0)) (as_nat (arg a 1)) (as_nat (arg a 2))
                   (mkF (as_bool (arg a 3)) (as_bool (arg a 4)) (as_bool (arg a 5)) (as_bool (arg a 6))
                        (as_nat (arg a 7)) (as_nat (arg a 8)))
                   (as_str (arg a 9)) (as_nats (arg a 10)) with
  | Ok (h, its) => VL [vstrs h; VL (map vitem its)]
  | Err _ => verr
  end.

(* 608 spec: [read0, tac, hl, tail, stream] -> [header, listing] *)
Definition d_filter_listing (a : val) : val :=
  let read0 := as_bool (arg a 0) in
  let hl := as_nat (arg a 2) in
  let s := as_str (arg a 4) in
  VL [vstrs (header_of hl (split_records (delim_of read0) s));
      VL (map vitem (filter_listing read0 (as_bool (arg a 1)) hl (as_nat (arg a 3)) s))].

(* 609 model: [bufsz, slabsz, chunk_size, read0, hl, tail, [[sync, stream, cuts, news]...]] -> [[[index, text]...] per load] *)
Definition as_load (v : val) : load :=
  mkL (as_bool (arg v 0)) (as_str (arg v 1)) (as_nats (arg v 2)) (as_nats (arg v 3)).
Definition vviews (vs : list (list item)) : val := VL (map (fun v => VL (map vitem v)) vs).
Definition d_session (a : val) : val :=
  match run_session (as_nat (arg a 0)) (as_nat (arg a 1)) (as_nat (arg a 2)) (as_bool (arg a 3))
                    (as_nat (arg a 4)) (as_nat (arg a 5)) cinit (map as_load (as_list (arg a 6))) with
  | Ok vs => vviews vs
  | Err _ => verr
  end.

(* 610 spec: [read0, hl, tail, [stream...]] -> [[[index, text]...] per stream] *)
Definition d_session_views (a : val) : val :=
  vviews (session_views (as_bool (arg a 0)) (as_nat (arg a 1)) (as_nat (arg a 2)) (as_strs (arg a 3))).

(* 611 spec: [read0, tac, hl, tail, delim, scope, query, stream] -> query_listing (characters are runes)
   delim = [] (AWK) | [sep];  scope = [0] whole record | [1, [expr...]] --nth | [2, [expr...]] --with-nth;
   expr = [0, n] | [1, a?, b?] with x? = [] or [x] *)
Definition as_optz6 (v : val) : option Z :=
  match as_list v with [] => None | x :: _ => Some (as_int x) end.
Definition as_fexpr6 (v : val) : fexpr :=
  if as_int (arg v 0) =? 0 then FIdx (as_int (arg v 1)) else FRange (as_optz6 (arg v 1)) (as_optz6 (arg v 2)).
Definition as_fdelim (v : val) : fdelim :=
  match as_list v with [] => FAwk | x :: _ => FLit (as_str x) end.
Definition as_scope (v : val) : scope :=
  let k := as_int (arg v 0) in
  if k =? 1 then SNth (map as_fexpr6 (as_list (arg v 1)))
  else if k =? 2 then SWithNth (map as_fexpr6 (as_list (arg v 1)))
  else SWhole.
Definition d_query_listing (a : val) : val :=
  VL (map vitem (query_listing (as_bool (arg a 0)) (as_bool (arg a 1)) (as_nat (arg a 2)) (as_nat (arg a 3))
                               (as_fdelim (arg a 4)) (as_scope (arg a 5)) (as_str (arg a 6)) (as_str (arg a 7)))).

Definition dispatch_record (op : Z) (a : val) : option val :=
  if op =? 601 then Some (d_feed a)
  else if op =? 602 then Some (d_split a)
  else if op =? 603 then Some (d_clops a)
  else if op =? 604 then Some (d_pipeline a)
  else if op =? 605 then Some (d_searchable a)
  else if op =? 606 then Some (d_keep_tail a)
  else if op =? 607 then Some (d_filter_run a)
  else if op =? 608 then Some (d_filter_listing a)
  else if op =? 609 then Some (d_session a)
  else if op =? 610 then Some (d_session_views a)
  else if op =? 611 then Some (d_query_listing a)
  else None.
