(* Wire glue for C12, second part (ops 1215..): which shell runs a command (spec + NewExecutor model), the export lines
   of the re-launch script (runProxy model) and the environment spec. *)
From Fzf Require Import Prelude Val ShellSpec ExecSpec PlaceholderModel ExecModel.
Open Scope Z_scope.

Definition vopt_ws (o : option (list str)) : val :=
  match o with None => VL [] | Some ws => VL [vstrs ws] end.

Definition dispatch_exec (op : Z) (a : val) : option val :=
  (* 1215: spec: [$SHELL, --with-shell] -> [running shell, runs_fish] *)
  if op =? 1215 then
    Some (VL [vstr (running_shell (as_str (arg a 0)) (as_str (arg a 1)));
              vbool (runs_fish (as_str (arg a 0)) (as_str (arg a 1)))])
  (* 1216: model NewExecutor: [$SHELL, --with-shell] -> [shell, [arg...], fish escaper] *)
  else if op =? 1216 then
    Some (match new_executor (as_str (arg a 0)) (as_str (arg a 1)) with
          | Ok x => VL [vstr (x_shell x); vstrs (x_args x); vbool (x_fish x)]
          | Err _ => verr
          end)
  (* 1217: spec shell_reads: [$SHELL, --with-shell, line] -> [] | [[word...]] *)
  else if op =? 1217 then
    Some (vopt_ws (shell_reads (as_str (arg a 0)) (as_str (arg a 1)) (as_str (arg a 2))))
  (* 1218: model runProxy export loop: [entry...] -> [[line...], needBash] *)
  else if op =? 1218 then
    Some (match proxy_exports (as_strs a) with
          | Ok (lines, nb) => VL [vstrs lines; vbool nb]
          | Err _ => verr
          end)
  (* 1219: spec: entry -> [exportable, name, [] | [value]] *)
  else if op =? 1219 then
    Some (VL [vbool (exportable (as_str a)); vstr (entry_name (as_str a));
              match entry_value (as_str a) with Some v => VL [vstr v] | None => VL [] end])
  (* 1220: spec export_effect: line -> [] | [[assignment word...]] *)
  else if op =? 1220 then Some (vopt_ws (export_effect (as_str a)))
  (* 1221: model Executor.QuoteEntry under $SHELL / --with-shell: [$SHELL, --with-shell, s] -> quoted *)
  else if op =? 1221 then
    Some (match executor_quote (as_str (arg a 0)) (as_str (arg a 1)) (as_str (arg a 2)) with
          | Ok q => vstr q
          | Err _ => verr
          end)
  (* 1222: model WriteTemporaryFile of the script: [[entry...], command] -> [text, needBash] *)
  else if op =? 1222 then
    Some (match proxy_script (as_strs (arg a 0)) (as_str (arg a 1)) with
          | Ok (t, nb) => VL [vstr t; vbool nb]
          | Err _ => verr
          end)
  else None.
