(* Wire glue for C12, third part (ops 1223..): what an input line is to a placeholder (spec item_text) and the model of
   the reader's item construction ; Item.AsString ; buildPlusList ; Terminal.replacePlaceholder. *)
From Fzf Require Import Prelude Val AnsiSpec AnsiModel ShellSpec PlusSpec ItemViewSpec PlaceholderModel PlusListModel ItemViewModel
  W_Placeholder.
Open Scope Z_scope.

(* a line as the reader met it: [ordinal, bytes, [] | [text shown under --with-nth]]  (no state carried into it) *)
Definition as_rline (v : val) : rline :=
  ((None, match as_list (arg v 2) with [] => None | d :: _ => Some (as_str d) end), (as_int (arg v 0), as_str (arg v 1))).

Definition dispatch_itemview (op : Z) (a : val) : option val :=
  (* 1223: spec item_text: [ansi, line] -> text *)
  if op =? 1223 then Some (vstr (item_text (as_bool (arg a 0)) (as_str (arg a 1))))
  (* 1224: model read_line (each line) ; view_terminal_expand:
           [ansi, coloured, params, cur (0 or 1 line), selected lines, template, temps] -> [valid, command, [file contents]] *)
  else if op =? 1224 then
    let ansi := as_bool (arg a 0) in
    let col := as_bool (arg a 1) in
    Some (match
            (do c <- match as_list (arg a 3) with
                     | [] => Ok None
                     | x :: _ => do it <- read_line ansi col (as_rline x); Ok (Some it)
                     end;
             do s <- map_res (read_line ansi col) (map as_rline (as_list (arg a 4)));
             view_terminal_expand ansi col (as_params (arg a 2)) c s (as_str (arg a 5)) (as_strs (arg a 6)))
          with
          | Ok (valid, (out, files)) => VL [vbool valid; vstr out; vstrs files]
          | Err _ => verr
          end)
  else None.
