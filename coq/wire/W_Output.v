(* Wire glue for C07 (ops 7xx): universal value -> output model/spec functions.
   Evaluated both by vm_compute (cases.v) and by the extracted OCaml driver.
   The model's Section variables are instantiated from finite tables sent by the harness:
     strip table  [[s, strip s] ...]   (the implementation's own extractColor, an oracle; C11)
     rt table     [[s, rt s] ...]      (util.ToChars(s).ToString(); identity when absent)
     match bits   [b0 b1 ...]          (by item index; from an independent run / direct reasoning)
   The --with-nth display transformer is not sent: it cannot reach the output (theorem
   filter_prints_original holds for every transformer), matching is supplied by index. *)
From Fzf Require Import Prelude Val OutputSpec OutputModel.
Open Scope Z_scope.

Fixpoint tbl_lookup (tbl : list (str * str)) (s : str) : str :=
  match tbl with
  | [] => s
  | (k, v) :: r => if str_eqb k s then v else tbl_lookup r s
  end.
Definition as_tbl (v : val) : list (str * str) := map (fun p => (as_str (arg p 0), as_str (arg p 1))) (as_list v).
Definition as_bits (v : val) : list bool := map as_bool (as_list v).
Definition match_by_index (bits : list bool) (it : item) : bool := nth (it_index it) bits false.

Definition as_oopts (v : val) : oopts :=
  mkOopts (as_bool (arg v 0)) (as_bool (arg v 1)) (as_bool (arg v 2)) (as_bool (arg v 3))
          (as_bool (arg v 4)) (as_bool (arg v 5)) (as_bool (arg v 6)).

(* 701: filter mode. [flags, query, records, strip_tbl, rt_tbl, match_bits, sortable] -> [stdout, code] *)
Definition d_filter (a : val) : val :=
  let o := as_oopts (arg a 0) in
  let r := filter_mode (tbl_lookup (as_tbl (arg a 3))) (tbl_lookup (as_tbl (arg a 4))) (fun _ s => s)
                       (match_by_index (as_bits (arg a 5))) (fun l => l) (as_bool (arg a 6))
                       o (as_str (arg a 1)) (as_strs (arg a 2)) in
  VL [vstr (fst r); VI (snd r)].

(* 702: filter spec verdict on the implementation's output.
   [flags, query, records, strip_tbl, match_bits, sorted, stdout, code] -> [out_ok, exit_ok] *)
Definition d_filter_spec (a : val) : val :=
  let o := as_oopts (arg a 0) in
  let bits := as_bits (arg a 4) in
  let r := filter_verdict (o_print_query o) (o_print0 o) (o_ansi o) (o_tac o) (as_bool (arg a 5))
                          (as_str (arg a 1)) (tbl_lookup (as_tbl (arg a 3))) (fun i _ => nth i bits false)
                          (as_strs (arg a 2)) (as_str (arg a 6)) (as_int (arg a 7)) in
  VL [vbool (fst r); vbool (snd r)].

(* accept-nth: [] none | [0, [[b,e]...]] ranges | [1, [part...]] template; part = [0,str] | [1] | [2,[[b,e]...]] *)
Definition as_ranges (v : val) : list range := map (fun p => new_range (as_int (arg p 0)) (as_int (arg p 1))) (as_list v).
Definition as_part (v : val) : nth_part :=
  let t := as_int (arg v 0) in
  if t =? 0 then PStr (as_str (arg v 1)) else if t =? 1 then PIndex else PNth (as_ranges (arg v 1)).
Definition as_nth_fn (v : val) : option nth_fn :=
  match as_list v with
  | [] => None
  | t :: x :: _ => Some (if as_int t =? 0 then NthRanges (as_ranges x) else NthTemplate (map as_part (as_list x)))
  | _ => None
  end.
Definition as_delim (v : val) : delim := match as_list v with [] => DAwk | s :: _ => DStr (as_str s) end.

(* [ansi, print0, print_query, expect, multi, accept_nth, delim] *)
Definition as_topts (v : val) : topts :=
  mkTopts (as_bool (arg v 0)) (as_bool (arg v 1)) (as_bool (arg v 2)) (as_bool (arg v 3))
          (as_nat (arg v 4)) (as_nth_fn (arg v 5)) (as_delim (arg v 6)).

Definition pick_items (items : list item) (idx : list nat) : list item :=
  concat (map (fun i => match get items i with Ok it => [it] | Err _ => [] end) idx).

Definition as_action (items : list item) (v : val) : action :=
  let t := as_int (arg v 0) in
  if t =? 0 then AToggle else if t =? 1 then ASelect else if t =? 2 then ADeselect
  else if t =? 3 then ASelectAll else if t =? 4 then ADeselectAll else if t =? 5 then AToggleAll
  else if t =? 6 then AClearSelection else if t =? 7 then AToggleDown else if t =? 8 then AToggleUp
  else if t =? 9 then AUp else if t =? 10 then ADown else if t =? 11 then AFirst else if t =? 12 then ALast
  else if t =? 13 then APos (as_int (arg v 1)) else if t =? 14 then APrint (as_str (arg v 1))
  else if t =? 15 then AUpdate (as_str (arg v 1)) (pick_items items (map as_nat (as_list (arg v 2)))) (as_int (arg v 3))
  else if t =? 16 then AAccept else if t =? 17 then AAcceptNonEmpty else if t =? 18 then AAcceptOrPrintQuery
  else if t =? 19 then APrintQuery else if t =? 20 then AAbort else if t =? 21 then AFatal
  else AExpect (as_str (arg v 1)).

(* 703: interactive run.
   [parse_ok, topts, with_nth, select1, exit0, query, records, merger(idx), actions, strip_tbl, rt_tbl]
   -> [0] still running | [1, stdout, code] *)
Definition d_interactive (a : val) : val :=
  let o := as_topts (arg a 1) in
  let strip := tbl_lookup (as_tbl (arg a 9)) in
  let rt := tbl_lookup (as_tbl (arg a 10)) in
  let oo := mkOopts (to_ansi o) (as_bool (arg a 2)) (to_print0 o) (to_print_query o) false false false in
  let records := as_strs (arg a 6) in
  let items := build_items strip (fun _ s => s) oo 0 records in
  let merger := pick_items items (map as_nat (as_list (arg a 7))) in
  match interactive strip rt (as_bool (arg a 0)) o (as_bool (arg a 3)) (as_bool (arg a 4)) (as_str (arg a 5))
                    merger (length records) (map (as_action items) (as_list (arg a 8))) with
  | Ok (Running _) => VL [VI 0]
  | Ok (Exited out code) => VL [VI 1; vstr out; VI code]
  | Err _ => verr
  end.

(* spec events: [0,i] toggle [1,i] select [2,i] deselect [3,[..]] select-all [4,[..]] deselect-all
   [5,[..]] toggle-all [6] clear [7,str] print *)
Definition as_event (v : val) : sel_event :=
  let t := as_int (arg v 0) in
  let l := map as_nat (as_list (arg v 1)) in
  if t =? 0 then SToggle (as_nat (arg v 1)) else if t =? 1 then SSelect (as_nat (arg v 1))
  else if t =? 2 then SDeselect (as_nat (arg v 1)) else if t =? 3 then SSelectAll l
  else if t =? 4 then SDeselectAll l else if t =? 5 then SToggleAll l
  else if t =? 6 then SClear else SPrint (as_str (arg v 1)).

Definition as_ending (v : val) : ending :=
  let t := as_int v in
  if t =? 0 then EAccept else if t =? 1 then EPrintQuery else if t =? 2 then EAbort else EError.

(* 704: session spec. [print0, print_query, expect, ansi, records, strip_tbl, limit, events, current(-1 = none),
   ending, query, key, awk_field (0 = whole record)] -> [stdout, code] *)
Definition d_session_spec (a : val) : val :=
  let records := as_strs (arg a 4) in
  let strip := tbl_lookup (as_tbl (arg a 5)) in
  let ansi := as_bool (arg a 3) in
  let field := as_nat (arg a 12) in
  let present := fun i =>
    let s := shown ansi strip (nth i records []) in
    match field with
    | O => s
    | S k => trim_right (nth k (awk_fields s) [])
    end in
  let cur := let c := as_int (arg a 8) in if c <? 0 then None else Some (Z.to_nat c) in
  let r := session_result (terminator (as_bool (arg a 0))) (as_bool (arg a 1)) (as_str (arg a 10))
                          (as_bool (arg a 2)) (as_str (arg a 11)) present (as_nat (arg a 6))
                          (map as_event (as_list (arg a 7))) cur (as_ending (arg a 9)) in
  VL [vstr (fst r); VI (snd r)].

(* spec-level delimiter: [] AWK | [0, sep] literal | [1, set, run] one byte of the set / a maximal run of them *)
Definition as_field_delim (v : val) : field_delim :=
  match as_list v with
  | [] => FAwk
  | t :: x :: r => if as_int t =? 0 then FStr (as_str x)
                   else FSet (as_str x) (match r with y :: _ => as_bool y | [] => false end)
  | _ => FAwk
  end.
(* spec-level --accept-nth, the user's pairs as they are (same encoding as for the model, no new_range) *)
Definition as_fexprs (v : val) : list fexpr := map (fun p => (as_int (arg p 0), as_int (arg p 1))) (as_list v).
Definition as_tpart (v : val) : tpart :=
  let t := as_int (arg v 0) in
  if t =? 0 then TLit (as_str (arg v 1)) else if t =? 1 then TIndex else TFields (as_fexprs (arg v 1)).
Definition as_accept_expr (v : val) : option accept_expr :=
  match as_list v with
  | t :: x :: _ => Some (if as_int t =? 0 then AFields (as_fexprs x) else ATemplate (map as_tpart (as_list x)))
  | _ => None
  end.

(* 705: session spec with --accept-nth in general.  [print0, print_query, expect, ansi, records, strip_tbl, limit,
   events, current(-1 = none), ending, query, key, field_delim, accept_expr] -> [stdout, code] *)
Definition d_session_spec_fields (a : val) : val :=
  let records := as_strs (arg a 4) in
  let strip := tbl_lookup (as_tbl (arg a 5)) in
  let ansi := as_bool (arg a 3) in
  let d := as_field_delim (arg a 12) in
  let acc := as_accept_expr (arg a 13) in
  let present := fun i =>
    let s := shown ansi strip (nth i records []) in
    match acc with
    | None => s
    | Some e => accept_text d e i s
    end in
  let cur := let c := as_int (arg a 8) in if c <? 0 then None else Some (Z.to_nat c) in
  let r := session_result (terminator (as_bool (arg a 0))) (as_bool (arg a 1)) (as_str (arg a 10))
                          (as_bool (arg a 2)) (as_str (arg a 11)) present (as_nat (arg a 6))
                          (map as_event (as_list (arg a 7))) cur (as_ending (arg a 9)) in
  VL [vstr (fst r); VI (snd r)].

(* 706: what --accept-nth prints for one record.  [field_delim, accept_expr, index, output form] -> text *)
Definition d_accept_text (a : val) : val :=
  match as_accept_expr (arg a 1) with
  | Some e => vstr (accept_text (as_field_delim (arg a 0)) e (as_nat (arg a 2)) (as_str (arg a 3)))
  | None => vstr (as_str (arg a 3))
  end.

Definition dispatch_output (op : Z) (a : val) : option val :=
  if op =? 701 then Some (d_filter a)
  else if op =? 702 then Some (d_filter_spec a)
  else if op =? 703 then Some (d_interactive a)
  else if op =? 704 then Some (d_session_spec a)
  else if op =? 705 then Some (d_session_spec_fields a)
  else if op =? 706 then Some (d_accept_text a)
  else None.
