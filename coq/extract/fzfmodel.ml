
(** val negb : bool -> bool **)

let negb = function
| true -> false
| false -> true

type nat =
| O
| S of nat

(** val fst : ('a1 * 'a2) -> 'a1 **)

let fst = function
| (x, _) -> x

(** val snd : ('a1 * 'a2) -> 'a2 **)

let snd = function
| (_, y) -> y

(** val length : 'a1 list -> nat **)

let rec length = function
| [] -> O
| _ :: l' -> S (length l')

(** val app : 'a1 list -> 'a1 list -> 'a1 list **)

let rec app l m =
  match l with
  | [] -> m
  | a :: l1 -> a :: (app l1 m)

(** val add : nat -> nat -> nat **)

let rec add n m =
  match n with
  | O -> m
  | S p -> S (add p m)

(** val sub : nat -> nat -> nat **)

let rec sub n m =
  match n with
  | O -> n
  | S k -> (match m with
            | O -> n
            | S l -> sub k l)

module Nat =
 struct
  (** val eqb : nat -> nat -> bool **)

  let rec eqb n m =
    match n with
    | O -> (match m with
            | O -> true
            | S _ -> false)
    | S n' -> (match m with
               | O -> false
               | S m' -> eqb n' m')

  (** val leb : nat -> nat -> bool **)

  let rec leb n m =
    match n with
    | O -> true
    | S n' -> (match m with
               | O -> false
               | S m' -> leb n' m')

  (** val ltb : nat -> nat -> bool **)

  let ltb n m =
    leb (S n) m
 end

(** val nth : nat -> 'a1 list -> 'a1 -> 'a1 **)

let rec nth n l default =
  match n with
  | O -> (match l with
          | [] -> default
          | x :: _ -> x)
  | S m -> (match l with
            | [] -> default
            | _ :: t -> nth m t default)

(** val removelast : 'a1 list -> 'a1 list **)

let rec removelast = function
| [] -> []
| a :: l0 -> (match l0 with
              | [] -> []
              | _ :: _ -> a :: (removelast l0))

(** val rev : 'a1 list -> 'a1 list **)

let rec rev = function
| [] -> []
| x :: l' -> app (rev l') (x :: [])

(** val map : ('a1 -> 'a2) -> 'a1 list -> 'a2 list **)

let rec map f = function
| [] -> []
| a :: t -> (f a) :: (map f t)

(** val filter : ('a1 -> bool) -> 'a1 list -> 'a1 list **)

let rec filter f = function
| [] -> []
| x :: l0 -> if f x then x :: (filter f l0) else filter f l0

(** val skipn : nat -> 'a1 list -> 'a1 list **)

let rec skipn n l =
  match n with
  | O -> l
  | S n0 -> (match l with
             | [] -> []
             | _ :: l0 -> skipn n0 l0)

type positive =
| XI of positive
| XO of positive
| XH

type z =
| Z0
| Zpos of positive
| Zneg of positive

module Pos =
 struct
  (** val eqb : positive -> positive -> bool **)

  let rec eqb p q =
    match p with
    | XI p0 -> (match q with
                | XI q0 -> eqb p0 q0
                | _ -> false)
    | XO p0 -> (match q with
                | XO q0 -> eqb p0 q0
                | _ -> false)
    | XH -> (match q with
             | XH -> true
             | _ -> false)

  (** val iter_op : ('a1 -> 'a1 -> 'a1) -> positive -> 'a1 -> 'a1 **)

  let rec iter_op op p a =
    match p with
    | XI p0 -> op a (iter_op op p0 (op a a))
    | XO p0 -> iter_op op p0 (op a a)
    | XH -> a

  (** val to_nat : positive -> nat **)

  let to_nat x =
    iter_op add x (S O)
 end

module Z =
 struct
  (** val eqb : z -> z -> bool **)

  let eqb x y =
    match x with
    | Z0 -> (match y with
             | Z0 -> true
             | _ -> false)
    | Zpos p -> (match y with
                 | Zpos q -> Pos.eqb p q
                 | _ -> false)
    | Zneg p -> (match y with
                 | Zneg q -> Pos.eqb p q
                 | _ -> false)

  (** val to_nat : z -> nat **)

  let to_nat = function
  | Zpos p -> Pos.to_nat p
  | _ -> O
 end

type err =
| OutOfRange
| OutOfFuel
| BadInput
| Panic

type 'a res =
| Ok of 'a
| Err of err

(** val bind : 'a1 res -> ('a1 -> 'a2 res) -> 'a2 res **)

let bind r f =
  match r with
  | Ok a -> f a
  | Err e -> Err e

(** val get : 'a1 list -> nat -> 'a1 res **)

let rec get l n =
  match l with
  | [] -> Err OutOfRange
  | x :: t -> (match n with
               | O -> Ok x
               | S n0 -> get t n0)

(** val set_nth : 'a1 list -> nat -> 'a1 -> 'a1 list res **)

let rec set_nth l n v =
  match l with
  | [] -> Err OutOfRange
  | x :: t ->
    (match n with
     | O -> Ok (v :: t)
     | S n0 -> bind (set_nth t n0 v) (fun t' -> Ok (x :: t')))

type str = z list

(** val last_n : nat -> 'a1 list -> 'a1 list **)

let last_n n l =
  skipn (sub (length l) n) l

(** val nonemptyb : 'a1 list -> bool **)

let nonemptyb = function
| [] -> false
| _ :: _ -> true

(** val drop_while : ('a1 -> bool) -> 'a1 list -> 'a1 list **)

let rec drop_while p l = match l with
| [] -> []
| x :: t -> if p x then drop_while p t else l

(** val concat_map_sep : z -> str list -> str **)

let rec concat_map_sep sep = function
| [] -> []
| l :: r ->
  (match r with
   | [] -> l
   | _ :: _ -> app l (sep :: (concat_map_sep sep r)))

type val0 =
| VI of z
| VL of val0 list

(** val vstr : str -> val0 **)

let vstr s =
  VL (map (fun x -> VI x) s)

(** val vstrs : str list -> val0 **)

let vstrs l =
  VL (map vstr l)

(** val verr : val0 **)

let verr =
  VL ((VI (Zneg XH)) :: ((VI (Zneg XH)) :: ((VI (Zneg XH)) :: [])))

(** val as_int : val0 -> z **)

let as_int = function
| VI z0 -> z0
| VL _ -> Z0

(** val as_nat : val0 -> nat **)

let as_nat v =
  Z.to_nat (as_int v)

(** val as_bool : val0 -> bool **)

let as_bool v =
  negb (Z.eqb (as_int v) Z0)

(** val as_list : val0 -> val0 list **)

let as_list = function
| VI _ -> []
| VL l -> l

(** val as_str : val0 -> str **)

let as_str v =
  map as_int (as_list v)

(** val as_strs : val0 -> str list **)

let as_strs v =
  map as_str (as_list v)

(** val arg : val0 -> nat -> val0 **)

let arg v n =
  nth n (as_list v) (VI Z0)

(** val nL : z **)

let nL =
  Zpos (XO (XI (XO XH)))

(** val split_nl_aux : str -> str -> str list **)

let rec split_nl_aux cur = function
| [] -> (rev cur) :: []
| c :: r ->
  if Z.eqb c nL
  then (rev cur) :: (split_nl_aux [] r)
  else split_nl_aux (c :: cur) r

(** val split_nl : str -> str list **)

let split_nl s =
  split_nl_aux [] s

(** val is_nl : z -> bool **)

let is_nl c =
  Z.eqb c nL

(** val trim_nl : str -> str **)

let trim_nl s =
  rev (drop_while is_nl (rev (drop_while is_nl s)))

(** val entries : str -> str list **)

let entries file =
  match trim_nl file with
  | [] -> []
  | z0 :: l -> split_nl (z0 :: l)

(** val strip_empty : str list -> str list **)

let strip_empty es =
  drop_while (fun e -> negb (nonemptyb e)) es

(** val submitted : str list -> str list **)

let submitted qs =
  filter nonemptyb qs

(** val stored_after : nat -> str list -> str list -> str list **)

let stored_after n es0 qs =
  strip_empty (last_n n (app es0 (submitted qs)))

type hist = { h_lines : str list; h_modified : (nat * str) list; h_max : 
              nat; h_cursor : nat }

type fs = str option

(** val go_trim_nl : str -> str **)

let go_trim_nl =
  trim_nl

(** val go_split_nl : str -> str list **)

let go_split_nl =
  split_nl

(** val last_str : str list -> str res **)

let last_str ls = match ls with
| [] -> Err OutOfRange
| _ :: _ -> get ls (sub (length ls) (S O))

(** val new_history : fs -> nat -> (hist * fs) res **)

let new_history file max =
  let data = match file with
             | Some d -> d
             | None -> [] in
  let lines = go_split_nl (go_trim_nl data) in
  bind (last_str lines) (fun l ->
    let lines0 = if nonemptyb l then app lines ([] :: []) else lines in
    Ok ({ h_lines = lines0; h_modified = []; h_max = max; h_cursor =
    (sub (length lines0) (S O)) }, (Some data)))

(** val h_append : hist -> fs -> str -> (hist * fs) res **)

let h_append h file line = match line with
| [] -> Ok (h, file)
| _ :: _ ->
  (match h.h_lines with
   | [] -> Err OutOfRange
   | _ :: _ ->
     let lines = app (removelast h.h_lines) (line :: []) in
     let lines0 =
       if Nat.ltb h.h_max (length lines)
       then skipn (sub (length lines) h.h_max) lines
       else lines
     in
     let lines1 = app lines0 ([] :: []) in
     Ok ({ h_lines = lines1; h_modified = h.h_modified; h_max = h.h_max;
     h_cursor = h.h_cursor }, (Some (concat_map_sep nL lines1))))

(** val assoc : nat -> (nat * str) list -> str option **)

let rec assoc k = function
| [] -> None
| p :: r -> let (k', v) = p in if Nat.eqb k k' then Some v else assoc k r

(** val h_override : hist -> str -> hist res **)

let h_override h s =
  let n = length h.h_lines in
  if Nat.eqb h.h_cursor (sub n (S O))
  then bind (set_nth h.h_lines h.h_cursor s) (fun ls -> Ok { h_lines = ls;
         h_modified = h.h_modified; h_max = h.h_max; h_cursor = h.h_cursor })
  else if Nat.ltb h.h_cursor (sub n (S O))
       then Ok { h_lines = h.h_lines; h_modified = ((h.h_cursor,
              s) :: h.h_modified); h_max = h.h_max; h_cursor = h.h_cursor }
       else Ok h

(** val h_current : hist -> str res **)

let h_current h =
  match assoc h.h_cursor h.h_modified with
  | Some s -> Ok s
  | None -> get h.h_lines h.h_cursor

(** val h_previous : hist -> (hist * str) res **)

let h_previous h =
  let h' =
    if Nat.ltb O h.h_cursor
    then { h_lines = h.h_lines; h_modified = h.h_modified; h_max = h.h_max;
           h_cursor = (sub h.h_cursor (S O)) }
    else h
  in
  bind (h_current h') (fun s -> Ok (h', s))

(** val h_next : hist -> (hist * str) res **)

let h_next h =
  let h' =
    if Nat.ltb h.h_cursor (sub (length h.h_lines) (S O))
    then { h_lines = h.h_lines; h_modified = h.h_modified; h_max = h.h_max;
           h_cursor = (S h.h_cursor) }
    else h
  in
  bind (h_current h') (fun s -> Ok (h', s))

type sop =
| Edit of str
| Prev
| Next

type sess = { s_hist : hist; s_input : str; s_seen : str list }

(** val sess_step : sess -> sop -> sess res **)

let sess_step st = function
| Edit s -> Ok { s_hist = st.s_hist; s_input = s; s_seen = st.s_seen }
| Prev ->
  bind (h_override st.s_hist st.s_input) (fun h ->
    bind (h_previous h) (fun hs -> Ok { s_hist = (fst hs); s_input =
      (snd hs); s_seen = ((snd hs) :: st.s_seen) }))
| Next ->
  bind (h_override st.s_hist st.s_input) (fun h ->
    bind (h_next h) (fun hs -> Ok { s_hist = (fst hs); s_input = (snd hs);
      s_seen = ((snd hs) :: st.s_seen) }))

(** val sess_steps : sess -> sop list -> sess res **)

let rec sess_steps st = function
| [] -> Ok st
| o :: r -> bind (sess_step st o) (fun st' -> sess_steps st' r)

type session = { ss_ops : sop list; ss_submit : bool }

(** val run_session : nat -> fs -> session -> ((fs * str list) * str) res **)

let run_session max file s =
  bind (new_history file max) (fun hf ->
    bind
      (sess_steps { s_hist = (fst hf); s_input = []; s_seen = [] } s.ss_ops)
      (fun st ->
      if s.ss_submit
      then bind (h_append st.s_hist (snd hf) st.s_input) (fun hf' -> Ok
             (((snd hf'), (rev st.s_seen)), st.s_input))
      else Ok (((snd hf), (rev st.s_seen)), st.s_input)))

(** val vfs : fs -> val0 **)

let vfs = function
| Some d -> VL ((vstr d) :: [])
| None -> VL []

(** val as_fs : val0 -> fs **)

let as_fs v =
  match as_list v with
  | [] -> None
  | d :: _ -> Some (as_str d)

(** val as_sop : val0 -> sop **)

let as_sop v =
  let t = as_int (arg v O) in
  if Z.eqb t Z0
  then Edit (as_str (arg v (S O)))
  else if Z.eqb t (Zpos XH) then Prev else Next

(** val as_session : val0 -> session **)

let as_session v =
  { ss_ops = (map as_sop (as_list (arg v O))); ss_submit =
    (as_bool (arg v (S O))) }

(** val d_sessions : nat -> fs -> session list -> val0 list **)

let rec d_sessions max file = function
| [] -> []
| s :: r ->
  (match run_session max file s with
   | Ok a ->
     let (p, inp) = a in
     let (f', seen) = p in
     (VL
     ((vfs f') :: ((vstrs seen) :: ((vstr inp) :: [])))) :: (d_sessions max
                                                              f' r)
   | Err _ -> verr :: [])

(** val d_spec_stored : nat -> fs -> str list -> val0 **)

let d_spec_stored max file qs =
  vstrs
    (stored_after max (entries (match file with
                                | Some d -> d
                                | None -> [])) qs)

(** val dispatch : z -> val0 -> val0 **)

let dispatch op a =
  if Z.eqb op (Zpos (XI (XO (XO (XI (XO (XO (XO (XO (XI (XI XH)))))))))))
  then VL
         (d_sessions (as_nat (arg a O)) (as_fs (arg a (S O)))
           (map as_session (as_list (arg a (S (S O))))))
  else if Z.eqb op (Zpos (XO (XI (XO (XI (XO (XO (XO (XO (XI (XI XH)))))))))))
       then d_spec_stored (as_nat (arg a O)) (as_fs (arg a (S O)))
              (as_strs (arg a (S (S O))))
       else if Z.eqb op (Zpos (XI (XI (XO (XI (XO (XO (XO (XO (XI (XI
                 XH)))))))))))
            then vstrs (entries (as_str a))
            else verr
