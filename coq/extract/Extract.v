(* Extraction: ExtrOcamlBasic only; Z/positive/nat/N stay inductive. *)
From Coq Require Import Extraction ExtrOcamlBasic.
From Fzf Require Import Prelude Val Dispatch.
Extraction Language OCaml.
Extraction "fzfmodel.ml" dispatch.
