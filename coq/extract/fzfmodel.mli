
val negb : bool -> bool

type nat =
| O
| S of nat

val fst : ('a1 * 'a2) -> 'a1

val snd : ('a1 * 'a2) -> 'a2

val length : 'a1 list -> nat

val app : 'a1 list -> 'a1 list -> 'a1 list

val add : nat -> nat -> nat

val sub : nat -> nat -> nat

module Nat :
 sig
  val eqb : nat -> nat -> bool

  val leb : nat -> nat -> bool

  val ltb : nat -> nat -> bool
 end

val nth : nat -> 'a1 list -> 'a1 -> 'a1

val removelast : 'a1 list -> 'a1 list

val rev : 'a1 list -> 'a1 list

val map : ('a1 -> 'a2) -> 'a1 list -> 'a2 list

val filter : ('a1 -> bool) -> 'a1 list -> 'a1 list

val skipn : nat -> 'a1 list -> 'a1 list

type positive =
| XI of positive
| XO of positive
| XH

type z =
| Z0
| Zpos of positive
| Zneg of positive

module Pos :
 sig
  val eqb : positive -> positive -> bool

  val iter_op : ('a1 -> 'a1 -> 'a1) -> positive -> 'a1 -> 'a1

  val to_nat : positive -> nat
 end

module Z :
 sig
  val eqb : z -> z -> bool

  val to_nat : z -> nat
 end

type err =
| OutOfRange
| OutOfFuel
| BadInput
| Panic

type 'a res =
| Ok of 'a
| Err of err

val bind : 'a1 res -> ('a1 -> 'a2 res) -> 'a2 res

val get : 'a1 list -> nat -> 'a1 res

val set_nth : 'a1 list -> nat -> 'a1 -> 'a1 list res

type str = z list

val last_n : nat -> 'a1 list -> 'a1 list

val nonemptyb : 'a1 list -> bool

val drop_while : ('a1 -> bool) -> 'a1 list -> 'a1 list

val concat_map_sep : z -> str list -> str

type val0 =
| VI of z
| VL of val0 list

val vstr : str -> val0

val vstrs : str list -> val0

val verr : val0

val as_int : val0 -> z

val as_nat : val0 -> nat

val as_bool : val0 -> bool

val as_list : val0 -> val0 list

val as_str : val0 -> str

val as_strs : val0 -> str list

val arg : val0 -> nat -> val0

val nL : z

val split_nl_aux : str -> str -> str list

val split_nl : str -> str list

val is_nl : z -> bool

val trim_nl : str -> str

val entries : str -> str list

val strip_empty : str list -> str list

val submitted : str list -> str list

val stored_after : nat -> str list -> str list -> str list

type hist = { h_lines : str list; h_modified : (nat * str) list; h_max : 
              nat; h_cursor : nat }

type fs = str option

val go_trim_nl : str -> str

val go_split_nl : str -> str list

val last_str : str list -> str res

val new_history : fs -> nat -> (hist * fs) res

val h_append : hist -> fs -> str -> (hist * fs) res

val assoc : nat -> (nat * str) list -> str option

val h_override : hist -> str -> hist res

val h_current : hist -> str res

val h_previous : hist -> (hist * str) res

val h_next : hist -> (hist * str) res

type sop =
| Edit of str
| Prev
| Next

type sess = { s_hist : hist; s_input : str; s_seen : str list }

val sess_step : sess -> sop -> sess res

val sess_steps : sess -> sop list -> sess res

type session = { ss_ops : sop list; ss_submit : bool }

val run_session : nat -> fs -> session -> ((fs * str list) * str) res

val vfs : fs -> val0

val as_fs : val0 -> fs

val as_sop : val0 -> sop

val as_session : val0 -> session

val d_sessions : nat -> fs -> session list -> val0 list

val d_spec_stored : nat -> fs -> str list -> val0

val dispatch : z -> val0 -> val0
