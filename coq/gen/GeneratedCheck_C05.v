(* Data-layer obligations for C05 (character classes, scheme parameters, normalisation range: the hypotheses of the matcher theorems): what the code says NOW
   (Generated.v, printed by harness/cmd/gendata from /repo's working tree) equals the documented
   constants and tables the spec is written with. Recompiled on every run. *)
From Coq Require Import List ZArith Bool.
From Fzf Require Import Prelude AlgoSpec.
From FzfGen Require Import Generated.
Import ListNotations.
Open Scope Z_scope.

Definition classes : list Z := [0; 1; 2; 3; 4; 5; 6].
Definition ascii : list Z := map Z.of_nat (seq 0 128).
Definition matrix_of (sc : scheme) : list (list Z) := map (fun i => map (fun j => bonus_for sc i j) classes) classes.

Lemma c05_scoring_constants :
  g_scoreMatch = scoreMatch /\ g_scoreGapStart = scoreGapStart /\ g_scoreGapExtension = scoreGapExt /\
  g_bonusBoundary = bonusBoundary /\ g_bonusNonWord = bonusNonWord /\ g_bonusCamel123 = bonusCamel /\
  g_bonusConsecutive = bonusConsecutive /\ g_bonusFirstCharMultiplier = 2.
Proof. vm_compute. repeat split; reflexivity. Qed.

Lemma c05_scheme_parameters :
  (g_default_bw, g_default_bd, g_default_init, g_default_delims) =
    (s_bw scheme_default, s_bd scheme_default, s_init scheme_default, s_delims scheme_default) /\
  (g_path_bw, g_path_bd, g_path_init, g_path_delims) =
    (s_bw scheme_path, s_bd scheme_path, s_init scheme_path, s_delims scheme_path) /\
  (g_history_bw, g_history_bd, g_history_init, g_history_delims) =
    (s_bw scheme_history, s_bd scheme_history, s_init scheme_history, s_delims scheme_history).
Proof. vm_compute. repeat split; reflexivity. Qed.

(* the pre-computed matrix and the function it caches agree, and both are the documented bonus *)
Lemma c05_bonus_matrix_default : g_default_bonus_matrix = matrix_of scheme_default /\ g_default_bonus_for = matrix_of scheme_default.
Proof. vm_compute. split; reflexivity. Qed.
Lemma c05_bonus_matrix_path : g_path_bonus_matrix = matrix_of scheme_path /\ g_path_bonus_for = matrix_of scheme_path.
Proof. vm_compute. split; reflexivity. Qed.
Lemma c05_bonus_matrix_history : g_history_bonus_matrix = matrix_of scheme_history /\ g_history_bonus_for = matrix_of scheme_history.
Proof. vm_compute. split; reflexivity. Qed.

Lemma c05_ascii_classes :
  g_default_ascii_class = map (ascii_class scheme_default) ascii /\
  g_path_ascii_class = map (ascii_class scheme_path) ascii /\
  g_history_ascii_class = map (ascii_class scheme_history) ascii.
Proof. vm_compute. repeat split; reflexivity. Qed.

(* accent normalisation: the table only has keys in [0xC0, 0x2184] and ASCII values, so normalizeRune is
   the identity below U+00C0 (hypothesis H_norm_ascii of the matcher theorems) and idempotent; and
   normalizeRune itself is "table lookup, else identity" on every rune probed (0 .. 0x21FF) *)
Fixpoint assocZ (k : Z) (t : list (Z * Z)) : option Z :=
  match t with [] => None | (a, b) :: r => if a =? k then Some b else assocZ k r end.
Definition norm_doc (r : Z) : Z := match assocZ r g_normalized with Some v => v | None => r end.

Lemma c05_normalized_table_range :
  forallb (fun kv => (192 <=? fst kv) && (fst kv <=? 8580) && (0 <? snd kv) && (snd kv <? 128)) g_normalized = true.
Proof. vm_compute. reflexivity. Qed.

Lemma c05_normalize_rune_is_table_lookup :
  g_normalize_rune_0_21ff = map norm_doc (map Z.of_nat (seq 0 8704)).
Proof. vm_compute. reflexivity. Qed.

Lemma c05_sizes : g_slab16Size = 102400 /\ g_slab32Size = 2048 /\ g_chunkSize = 100 /\ g_maxPatternLength = 1000.
Proof. vm_compute. repeat split; reflexivity. Qed.
