(* Data-layer obligations for C07: the exit statuses the code uses NOW (Generated.v, printed by
   harness/cmd/gendata from /repo's working tree, constants.go) are the documented ones the spec is
   written with, and the ones the model uses. Recompiled on every run. *)
From Coq Require Import List ZArith Bool.
From Fzf Require Import Prelude OutputSpec OutputModel.
From FzfGen Require Import Generated.
Open Scope Z_scope.

Lemma c07_exit_codes_documented :
  g_ExitOk = EXIT_OK /\ g_ExitNoMatch = EXIT_NOMATCH /\ g_ExitError = EXIT_ERROR /\ g_ExitInterrupt = EXIT_INTERRUPT.
Proof. vm_compute. repeat split; reflexivity. Qed.

Lemma c07_exit_codes_model :
  g_ExitOk = ExitOk /\ g_ExitNoMatch = ExitNoMatch /\ g_ExitError = ExitError /\ g_ExitInterrupt = ExitInterrupt.
Proof. vm_compute. repeat split; reflexivity. Qed.
