(* C06 — every input record becomes exactly one item, in order, unaltered.
   Statements only; proofs live in proofs/ReaderProofs.v and proofs/ChunkProofs.v.

   Vocabulary (spec/RecordSpec.v): split_records d s = the records of stream s under delimiter d
   (a final unterminated piece is a record iff non-empty); items_of / header_of = numbering after
   --header-lines; keep_tail = --tail; searchable = all three together.
   Model (model/ReaderModel.v, model/ChunkModel.v): Reader.feed with explicit slab memory and the
   buffer sizes as parameters, ChunkList Push/Snapshot/Clear/CountItems with chunkSize as a parameter,
   the item builder of core.go.
   model/InputModel.v: how core.go's Run puts them together - the two --filter paths (collect-then-scan and
   streaming, each with its own Reader) and the interactive coordinator (restart on reload / reload-sync,
   snapshots on EvtReadNew / EvtReadFin).
   cuts_ok cuts: the reads the OS delivers — any byte counts, with fewer than 100 consecutive
   (0,nil) reads (the code gives up after 100). *)
From Fzf Require Import Prelude RecordSpec ReaderModel ChunkModel InputModel ReaderProofs ChunkProofs InputProofs.
From Fzf Require Import FieldSpec RecordNthSpec RecordNthProofs.
Open Scope Z_scope.

(* The spec is the reading of a stream: writing records rs (delimiter-free), each terminated, followed by
   an unterminated tail, and splitting again gives rs plus the tail iff it is non-empty. *)
Theorem split_records_join : forall d rs tl,
  Forall (delim_free d) rs -> delim_free d tl ->
  split_records d (terminated d rs ++ tl) = rs ++ match tl with [] => [] | _ => [tl] end.
Proof. exact split_records_join_proof. Qed.
Print Assumptions split_records_join.

(* ★ For every stream, every way of cutting it into reads, every delimiter and all buffer / slab sizes >= 1:
   feed never fails, and the contents of the pushed slices, READ BACK FROM MEMORY AFTER THE WHOLE STREAM
   (so no slab region was overwritten), are exactly the records of the stream, in order, byte-identical,
   empty records included, final unterminated record iff non-empty.  (trimCR = false: not Windows.) *)
Theorem feed_chunking_invariant : forall bufsz slabsz d s cuts,
  (1 <= bufsz)%nat -> (1 <= slabsz)%nat -> cuts_ok cuts ->
  feed_records bufsz slabsz d false s cuts = Ok (split_records d s).
Proof. exact feed_chunking_invariant_proof. Qed.
Print Assumptions feed_chunking_invariant.

(* ★ feed is total on the domain (no out-of-range slice, no exhausted fuel), with the memory made explicit *)
Theorem feed_total : forall bufsz slabsz d s cuts,
  (1 <= bufsz)%nat -> (1 <= slabsz)%nat -> cuts_ok cuts ->
  exists m items, feed bufsz slabsz d false s cuts = Ok (m, items) /\
                  deref_all m items = Ok (split_records d s).
Proof.
  intros bufsz slabsz d s cuts Hb Hs Hc.
  pose proof (feed_chunking_invariant_proof bufsz slabsz d s cuts Hb Hs Hc) as H.
  unfold feed_records in H. destruct (feed bufsz slabsz d false s cuts) as [[m items]|e]; [|discriminate].
  exists m, items. split; [reflexivity|exact H].
Qed.
Print Assumptions feed_total.

(* ★ --header-lines=N: the first N records go to the header, the rest become items numbered 0,1,2,.. in order;
   the chunk list built by these pushes satisfies its invariant *)
Theorem header_lines : forall size hl recs, (1 <= size)%nat ->
  exists st cs, ingest size hl (mkB [] O) [] recs = Ok (st, cs) /\ chunklist_inv size cs /\
    b_header st = header_of hl recs /\ concat cs = items_of hl recs.
Proof. exact header_lines_proof. Qed.
Print Assumptions header_lines.

(* ★ CountItems' arithmetic (first + chunkSize*(n-2) + last) is the number of items, given the invariant *)
Theorem count_items_correct : forall (A : Type) size (cs : @chunklist A), (1 <= size)%nat ->
  chunklist_inv size cs -> count_items size cs = Ok (length (concat cs)).
Proof. intros A size cs H. exact (count_items_correct_proof size H cs). Qed.
Print Assumptions count_items_correct.

(* ★ Snapshot(tail) never fails; it returns, and leaves in the list, exactly the last `tail` items
   (all of them when tail = 0 or tail >= count), items themselves — hence their indexes — unchanged;
   the returned count is their number; `changed` iff something was dropped; the invariant is kept. *)
Theorem tail_keeps_last : forall (A : Type) size tail (cs : @chunklist A), (1 <= size)%nat ->
  chunklist_inv size cs ->
  exists cs', snapshot size tail cs =
              Ok (cs', cs', length (concat cs'), (0 <? tail)%nat && (tail <? length (concat cs))%nat) /\
    chunklist_inv size cs' /\ concat cs' = keep_tail tail (concat cs).
Proof. intros A size tail cs H. exact (snapshot_ok size H tail cs). Qed.
Print Assumptions tail_keeps_last.

(* ★ every history of Push (accepted or refused by the builder) / Snapshot(any tail) / Clear runs without
   failure and keeps the invariant, in the list and in every returned snapshot, whose count is exact *)
Theorem chunklist_inv_preserved : forall (A : Type) size (ops : list (@clop A)), (1 <= size)%nat ->
  exists cs obs, run_ops size [] ops = Ok (cs, obs) /\ chunklist_inv size cs /\
    Forall (fun o : @clobs A => let '(ret, cnt, _) := o in chunklist_inv size ret /\ cnt = length (concat ret)) obs.
Proof. intros A size ops H. exact (chunklist_inv_preserved_proof size H ops [] (inv_nil size)). Qed.
Print Assumptions chunklist_inv_preserved.

(* ☆ reader / snapshot interleavings: with a fixed --tail T, however Push, Snapshot(T) and Clear interleave,
   a Snapshot(T) returns exactly the last T of the items accepted since the last Clear *)
Theorem interleaved_snapshots_keep_last : forall (A : Type) size T (ops : list (@clop A)), (1 <= size)%nat ->
  tails_are T ops ->
  exists cs obs ret cnt ch, run_ops size [] (ops ++ [Snapshot T]) = Ok (cs, obs) /\
    last obs ([], O, false) = (ret, cnt, ch) /\ obs <> [] /\
    concat ret = keep_tail T (pushed [] ops) /\ cnt = length (concat ret).
Proof. intros A size T ops H. exact (interleaved_snapshots_keep_last_proof size H T ops). Qed.
Print Assumptions interleaved_snapshots_keep_last.

(* ☆ the whole input path of --filter mode (feed -> builder -> Push -> one Snapshot(tail)): for all sizes,
   streams and cut lists the header is the first hl records and the searchable items are the last `tail`
   of the remaining records, numbered from the start of the stream after the header *)
Theorem pipeline_correct : forall bufsz slabsz size read0 hl tail s cuts,
  (1 <= bufsz)%nat -> (1 <= slabsz)%nat -> (1 <= size)%nat -> cuts_ok cuts ->
  pipeline bufsz slabsz size read0 hl tail s cuts =
  Ok (header_of hl (split_records (delim_of read0) s), searchable read0 hl tail s).
Proof. exact pipeline_correct_proof. Qed.
Print Assumptions pipeline_correct.

(* ☆ --filter mode, empty query: whichever path core.go takes (collecting: default / --tac / --sync; streaming:
   --no-sort alone) the header is the first hl records and the listing is the searchable items in stream order
   (newest first under --tac).  The streaming path never takes a snapshot; it is not chosen when --tail is given
   (fix d7ddb0d; the former rule is refuted below: filter_streaming_tail_refuted_old). *)
Theorem filter_mode_paths : forall bufsz slabsz size o s cuts,
  (1 <= bufsz)%nat -> (1 <= slabsz)%nat -> (1 <= size)%nat -> cuts_ok cuts ->
  filter_run bufsz slabsz size o s cuts =
  Ok (header_of (f_hl o) (split_records (delim_of (f_read0 o)) s),
      filter_listing (f_read0 o) (f_tac o) (f_hl o) (f_tail o) s).
Proof. exact filter_mode_paths_proof. Qed.
Print Assumptions filter_mode_paths.

(* REGRESSION WITNESS (defect repaired in /repo d7ddb0d): with the former rule `fzf --filter Q --no-sort --tail N`
   took the streaming path and listed ALL records, not the last N (core.go: "Streaming filter is inherently not
   compatible with --tail").  a\nb\nc\n with --tail 1 listed a, b, c. *)
Theorem filter_streaming_tail_refuted_old : exists o s cuts,
  streaming_rule_old o = true /\ cuts_ok cuts /\
  filter_listing (f_read0 o) (f_tac o) (f_hl o) (f_tail o) s = [(2%nat, [99])] /\
  filter_run_with streaming_rule_old 8 16 4 o s cuts = Ok ([], [(0%nat, [97]); (1%nat, [98]); (2%nat, [99])]) /\
  filter_run 8 16 4 o s cuts = Ok ([], [(2%nat, [99])]).
Proof.
  exists (mkF false false false false 0 1), [97; 10; 98; 10; 99; 10], [6%nat].
  repeat split; vm_compute; reflexivity.
Qed.
Print Assumptions filter_streaming_tail_refuted_old.

(* ☆ interactive sessions: the input is replaced any number of times (reload: the list follows the new stream
   as it arrives; reload-sync: the old list stays until the new stream has been read), records reach the
   builder in any batches, a snapshot (with --tail trimming) after each batch.  After every source has been
   read completely the list is the reading of THAT stream alone: header lines diverted again, items numbered
   from the start of that stream, last `tail` kept - whatever was loaded before. *)
Theorem reload_session_numbering : forall bufsz slabsz size read0 hl tail (ls : list load),
  (1 <= bufsz)%nat -> (1 <= slabsz)%nat -> (1 <= size)%nat ->
  Forall (fun l => cuts_ok (l_cuts l)) ls ->
  run_session bufsz slabsz size read0 hl tail cinit ls =
  Ok (session_views read0 hl tail (map l_stream ls)).
Proof. intros. apply reload_session_numbering_proof; assumption. Qed.
Print Assumptions reload_session_numbering.

(* FINDING (Windows only; trimCR = util.IsWindows(), not reachable on this platform): with \r trimming the
   result DOES depend on how the stream is cut — the check `slice[len-2] == '\r'` looks at the current read
   only, so "a\r\n" delivered as "a\r" + "\n" keeps the \r.  The chunking invariant is false of the faithful
   model for trimCR = true. *)
Theorem feed_chunking_invariant_windows_refuted : exists bufsz slabsz s cuts1 cuts2,
  (1 <= bufsz)%nat /\ (1 <= slabsz)%nat /\ cuts_ok cuts1 /\ cuts_ok cuts2 /\
  feed_records bufsz slabsz NLB true s cuts1 = Ok [[97]] /\
  feed_records bufsz slabsz NLB true s cuts2 = Ok [[97; 13]].
Proof.
  exists 8%nat, 16%nat, [97; 13; 10], [3%nat], [2%nat; 1%nat].
  repeat split; try lia; vm_compute; reflexivity.
Qed.
Print Assumptions feed_chunking_invariant_windows_refuted.

(* ---- non-vacuity ---- *)
(* a stream with an empty record and an unterminated tail, read with (0,nil) reads in between, through a
   4-byte read buffer and 6-byte slabs: three slabs are used, one record straddles two reads *)
Example c06_nonvacuous_feed :
  let s := [97;98;10;10;99;100;101;10;102] in
  let cuts := [1;0;0;2;3]%nat in
  cuts_ok cuts /\
  feed_records 4 6 NLB false s cuts = Ok [[97;98]; []; [99;100;101]; [102]] /\
  exists m items, feed 4 6 NLB false s cuts = Ok (m, items) /\ length m = 5%nat /\
                  map sl_buf items = [1; 0; 3; 4]%nat.
Proof.
  split; [reflexivity|]. split; [vm_compute; reflexivity|].
  eexists _, _. split; [vm_compute; reflexivity|]. split; reflexivity.
Qed.

(* 99 consecutive (0,nil) reads are inside the domain, 100 are not (the code stops reading) *)
Example c06_cuts_domain :
  cuts_ok (1%nat :: repeat 0%nat 99 ++ [1%nat]) /\ ~ cuts_ok (1%nat :: repeat 0%nat 100 ++ [1%nat]) /\
  feed_records 4 6 NLB false [97;10;98;10] (1%nat :: repeat 0%nat 100 ++ [1%nat]) = Ok [[97]].
Proof. split; [vm_compute; reflexivity|]. split; [vm_compute; discriminate|vm_compute; reflexivity]. Qed.

(* a chunk list with chunkSize 3: a refused push, a full middle chunk, a tail trim inside a chunk, pushes
   after the trim (first chunk partial), a second trim *)
Example c06_nonvacuous_chunklist :
  let ops := [Push true 1; Push true 2; Push false 9; Push true 3; Push true 4; Push true 5; Push true 6;
              Push true 7; Snapshot 4; Push true 8] in
  tails_are 4 ops /\ pushed [] ops = [1;2;3;4;5;6;7;8] /\
  run_ops 3 [] (ops ++ [Snapshot 4]) =
    Ok ([[5;6];[7;8]], [([[4;5;6];[7]], 4%nat, true); ([[5;6];[7;8]], 4%nat, true)]) /\
  chunklist_inv 3 [[5;6];[7;8]].
Proof.
  split; [repeat constructor|]. split; [reflexivity|]. split; [vm_compute; reflexivity|].
  split; cbn; repeat constructor.
Qed.

Example c06_nonvacuous_pipeline :
  pipeline 4 6 2 false 1 2 [97;98;10;10;99;100;101;10;102] [1;0;2]%nat
  = Ok ([[97;98]], [(1%nat, [99;100;101]); (2%nat, [102])]).
Proof. vm_compute. reflexivity. Qed.

(* the streaming filter path (--no-sort) and the collecting path under --tac, NUL-delimited records holding
   newlines, one header line: same records, reversed listing under --tac *)
Example c06_nonvacuous_filter_paths :
  let s := [97;10;98;0;99;0;0;100;10;101] in
  streaming_filter (mkF true false false false 1 0) = true /\
  filter_run 4 6 2 (mkF true false false false 1 0) s [3;0;2]%nat
    = Ok ([[97;10;98]], [(0%nat, [99]); (1%nat, []); (2%nat, [100;10;101])]) /\
  streaming_filter (mkF true false true false 1 2) = false /\
  filter_run 4 6 2 (mkF true false true false 1 2) s [3;0;2]%nat
    = Ok ([[97;10;98]], [(2%nat, [100;10;101]); (1%nat, [])]).
Proof. repeat split; vm_compute; reflexivity. Qed.

(* a session: 5 records, then reload-sync with 3 records in two batches, then reload with 4 records, --tail 2,
   one header line, chunk size 2: every list is numbered from the start of its own stream *)
Example c06_nonvacuous_session :
  let l1 := mkL false [49;10;50;10;51;10;52;10;53;10] [4;0;3]%nat [2]%nat in
  let l2 := mkL true [97;10;98;10;99;10] [] [1;1]%nat in
  let l3 := mkL false [120;10;121;10;122;10;119] [2]%nat [3]%nat in
  Forall (fun l => cuts_ok (l_cuts l)) [l1; l2; l3] /\
  run_session 4 6 2 false 1 2 cinit [l1; l2; l3] =
    Ok [[(2%nat, [52]); (3%nat, [53])]; [(0%nat, [98]); (1%nat, [99])]; [(1%nat, [122]); (2%nat, [119])]].
Proof. split; [repeat constructor|vm_compute; reflexivity]. Qed.

(* ---- every record is its OWN item: what is derived from an item's content (--nth fields, --with-nth text)
   is derived from that record alone (spec/RecordNthSpec.v).  These are statements about the SPEC
   query_listing, which the check evaluates on the output of `fzf --filter Q [--nth|--with-nth ES] [-d SEP]`
   through every filter path; the per-item token cache of pattern.go is not modelled. ---- *)

(* an item is listed iff it is searchable and its own record is found *)
Theorem query_listing_in : forall read0 tac hl tail d sc q s it,
  In it (query_listing read0 tac hl tail d sc q s) <->
  In it (filter_listing read0 tac hl tail s) /\ found d sc q (snd it) = true.
Proof. exact query_listing_in_proof. Qed.
Print Assumptions query_listing_in.

Theorem query_listing_tac : forall read0 hl tail d sc q s,
  query_listing read0 true hl tail d sc q s = rev (query_listing read0 false hl tail d sc q s).
Proof. exact query_listing_tac_proof. Qed.
Print Assumptions query_listing_tac.

(* it extends filter_listing: the empty query on the whole record lists every searchable item *)
Theorem query_listing_empty : forall read0 tac hl tail d s,
  query_listing read0 tac hl tail d SWhole [] s = filter_listing read0 tac hl tail s.
Proof. exact query_listing_empty_proof. Qed.
Print Assumptions query_listing_empty.

(* record-locality: writing delimiter-free records rs one after the other, the records listed are exactly those
   found on their own, in order - no record's verdict depends on any other record of the stream *)
Theorem query_listing_record_local : forall read0 d sc q rs,
  Forall (delim_free (delim_of read0)) rs ->
  map snd (query_listing read0 false 0 0 d sc q (terminated (delim_of read0) rs)) = filter (found d sc q) rs.
Proof. exact query_listing_record_local_proof. Qed.
Print Assumptions query_listing_record_local.

(* "a x\nb y\nc x\nd z\n" with --nth 2 and query x: records 0 and 2; with --with-nth 1 and query b: record 1;
   "k,x,\n,,x\n" with -d , --nth 2 and query x: record 0 only (in record 1 the x is in field 3) *)
Example c06_nonvacuous_query_listing :
  let s := [97;32;120;10; 98;32;121;10; 99;32;120;10; 100;32;122;10] in
  query_listing false false 0 0 FAwk (SNth [FIdx 2]) [120] s = [(0%nat, [97;32;120]); (2%nat, [99;32;120])] /\
  query_listing false true 0 0 FAwk (SNth [FIdx 2]) [120] s = [(2%nat, [99;32;120]); (0%nat, [97;32;120])] /\
  query_listing false false 0 0 FAwk (SWithNth [FIdx 1]) [98] s = [(1%nat, [98;32;121])] /\
  query_listing false false 0 0 (FLit [44]) (SNth [FIdx 2]) [120] [107;44;120;44;10; 44;44;120;10]
    = [(0%nat, [107;44;120;44])].
Proof. repeat split; vm_compute; reflexivity. Qed.
