(* C16 — the --listen endpoint is robust and enforces its access rules.
   Statements only; proofs live in proofs/HttpProofs.v.
   `chunks` is the sequence of writes of the client (ANY bytes, ANY segmentation, closed or silent at
   ANY point); `key` the configured FZF_API_KEY ([] = none); `state`, `parse`, `ready` are oracles:
   the JSON of the getHandler, the verdict of parseSingleActionList, the action channel taking the list. *)
From Fzf Require Import Prelude HttpSpec HttpModel HttpProofs HttpDumpProofs HttpKeyProofs.
Open Scope Z_scope.

(* No byte stream wedges or crashes the handler: it always produces an outcome (the fuel computed from the
   input suffices, no checked access fails). *)
Theorem total : forall key state parse ready chunks,
  exists o, handle key state parse ready chunks = Ok o.
Proof. exact total_proof. Qed.
Print Assumptions total.

(* Every answer is well-formed HTTP: status line with code 200/400/401/503 and its reason phrase, header
   lines, blank line, and a body of exactly Content-Length bytes (no Content-Length: no body). *)
Theorem response_wf : forall key state parse ready chunks o,
  handle key state parse ready chunks = Ok o ->
  wf_response (o_resp o) = Some (o_code o) /\ known_code (o_code o).
Proof. exact response_wf_proof. Qed.
Print Assumptions response_wf.

(* With a key configured, a request (POST or GET alike) that does not present exactly that key gets no
   action executed and no state: the answer is the 401, or a 400 if it was refused before the key mattered. *)
Theorem auth : forall key state parse ready chunks o,
  key <> [] -> handle key state parse ready chunks = Ok o ->
  provided_key chunks <> Ok (Some key) ->
  o_actions o = None /\ o_get o = None /\
  match provided_key chunks with
  | Ok (Some _) => o = unauthorized
  | _ => o_code o = 400
  end.
Proof. exact auth_proof. Qed.
Print Assumptions auth.

(* The same at the level of bytes, independent of how headers are scanned: if the key does not occur in
   the stream, nothing is executed and nothing revealed, whatever the framing. *)
Theorem auth_stream : forall key state parse ready chunks o,
  key <> [] -> ~ infix key (concat chunks) ->
  handle key state parse ready chunks = Ok o ->
  o_actions o = None /\ o_get o = None /\ (o_code o = 400 \/ o_code o = 401).
Proof. exact auth_stream_proof. Qed.
Print Assumptions auth_stream.

(* GET never changes state: an answered GET delivers no action, and whatever delivers actions starts
   with "POST / HTTP". *)
Theorem get_no_actions : forall key state parse ready chunks o,
  handle key state parse ready chunks = Ok o ->
  (o_get o <> None -> o_actions o = None) /\
  (parse [] <> VAccept -> forall b, o_actions o = Some b -> prefixb S_POST (concat chunks) = true).
Proof. exact get_no_actions_proof. Qed.
Print Assumptions get_no_actions.

(* A POST body is executed exactly as that action list (post_is_bind_parse), and only if the COMPLETE
   stream is a well-formed authorised POST: request line, header lines, blank line, Content-Length in
   1..1 MiB, at least that many body bytes, right key; b = those bytes with line ends trimmed; the parser
   accepts b.  Segmentation and buffering can therefore never make fzf execute anything else than what
   the stream says.  (The parser oracle must not accept the empty list; the real one answers VEmpty.) *)
Theorem accept_sound : forall key state parse ready chunks o b,
  parse [] <> VAccept ->
  handle key state parse ready chunks = Ok o -> o_actions o = Some b ->
  spec_accepts key parse (concat chunks) = Some b.
Proof. exact accept_sound_proof. Qed.
Print Assumptions accept_sound.

(* Malformed, oversized, incomplete or unauthorised requests are rejected without side effects: unless the
   stream is an acceptable POST or a GET got answered, the status is 400 or 401 and nothing is executed. *)
Theorem malformed_rejected : forall key state parse ready chunks o,
  parse [] <> VAccept ->
  handle key state parse ready chunks = Ok o ->
  spec_accepts key parse (concat chunks) = None -> o_get o = None ->
  (o_code o = 400 \/ o_code o = 401) /\ o_actions o = None.
Proof. exact malformed_rejected_proof. Qed.
Print Assumptions malformed_rejected.

(* A listener on anything but localhost / 127.0.0.1 refuses to start without a key. *)
Theorem remote_needs_key : forall a host port,
  parse_listen_address a = LOk host port -> is_local host = false ->
  start_decision a [] = StartRefusedNoKey /\
  (forall key h p, start_decision a key = StartListen h p -> key <> []).
Proof. exact remote_needs_key_proof. Qed.
Print Assumptions remote_needs_key.

(* The key a request presents - whatever its framing - is the value of a header with the white space around it
   removed (strings.TrimSpace, which is idempotent): it never begins or ends with white space. *)
Theorem presented_trimmed : forall chunks k,
  provided_key chunks = Ok (Some k) -> trim_space k = k.
Proof. exact presented_trimmed_proof. Qed.
Print Assumptions presented_trimmed.

(* A configured key that nobody can present - white space at either end, blank-only keys included - is still a
   configured key: every request is refused (401, or 400), nothing is executed, nothing revealed. *)
Theorem unpresentable_key_refused : forall key state parse ready chunks o,
  key <> [] -> key_presentable key = false ->
  handle key state parse ready chunks = Ok o ->
  o_actions o = None /\ o_get o = None /\ (o_code o = 400 \/ o_code o = 401).
Proof. exact unpresentable_key_refused_proof. Qed.
Print Assumptions unpresentable_key_refused.

(* startHttpServer as a whole (serve = the start decision, then the handler holding the value of FZF_API_KEY byte
   for byte): with the variable set to anything but the empty string, a request that does not present exactly
   that value gets nothing executed and nothing revealed. *)
Theorem configured_key_enforced : forall a envkey state parse ready chunks o,
  envkey <> [] ->
  serve a envkey state parse ready chunks = Ok (Some o) ->
  provided_key chunks <> Ok (Some envkey) ->
  o_actions o = None /\ o_get o = None /\ (o_code o = 400 \/ o_code o = 401).
Proof. exact configured_key_enforced_proof. Qed.
Print Assumptions configured_key_enforced.

(* A listener on anything but localhost / 127.0.0.1, whatever FZF_API_KEY holds: a request that gets an action
   executed or the state revealed has presented exactly the value of the variable, and that value is neither
   empty nor does it begin or end with white space (a blank-only value serves nobody). *)
Theorem remote_listener_exact_key : forall a host port envkey state parse ready chunks o,
  parse_listen_address a = LOk host port -> is_local host = false ->
  serve a envkey state parse ready chunks = Ok (Some o) ->
  o_actions o <> None \/ o_get o <> None ->
  envkey <> [] /\ provided_key chunks = Ok (Some envkey) /\ key_presentable envkey = true.
Proof. exact remote_listener_exact_key_proof. Qed.
Print Assumptions remote_listener_exact_key.

(* An answered GET hands the getHandler exactly the limit and offset the request line at the start of the
   stream asks for, and neither is negative (the request-line pattern lets no sign through and Atoi bounds
   them by 2^63-1): no framing, segmentation or number, however large, yields anything else. *)
Theorem get_request_params : forall key state parse ready chunks o gp,
  handle key state parse ready chunks = Ok o -> o_get o = Some gp ->
  spec_get_request (concat chunks) = Some gp /\
  0 <= fst gp <= INT_MAX /\ 0 <= snd gp <= INT_MAX.
Proof. exact get_request_params_proof. Qed.
Print Assumptions get_request_params.

(* The copy loops of Terminal.dumpStatus (the real getHandler), every access checked: with an offset that is
   not negative no index is outside the list - whatever the list and the limit - and what is shown is the
   window [offset, offset+limit) of the list. *)
Theorem dump_window : forall (A : Type) (items : list A) limit offset,
  0 <= offset -> dump_items items limit offset = Ok (spec_window items limit offset).
Proof. exact dump_window_proof. Qed.
Print Assumptions dump_window.

(* Together: no GET request can make the status dump index outside its lists (the panic that would take
   the whole process down); it is shown the window its request line asks for. *)
Theorem get_dump_total : forall key state parse ready chunks o limit offset (A : Type) (items : list A),
  handle key state parse ready chunks = Ok o -> o_get o = Some (limit, offset) ->
  dump_items items limit offset = Ok (spec_window items limit offset) /\
  spec_get_request (concat chunks) = Some (limit, offset).
Proof.
  intros key state parse ready chunks o limit offset A items H G.
  destruct (get_request_params_proof _ _ _ _ _ _ _ H G) as (S & _ & F).
  split; [apply dump_window_proof; exact (proj1 F)|exact S].
Qed.
Print Assumptions get_dump_total.

(* The body of the answer to a GET is the state the getHandler returned, byte for byte (the time-out object
   when it returned nothing); nothing in it is interpreted. *)
Theorem get_answer_verbatim : forall key state parse ready chunks o,
  handle key state parse ready chunks = Ok o -> o_get o <> None ->
  (state <> [] -> o_code o = 200 /\ response_body (o_resp o) = Some (state ++ [10])) /\
  (state = [] -> o_code o = 503 /\ response_body (o_resp o) = Some (M_TIMEOUT_JSON ++ [10])).
Proof. exact get_answer_verbatim_proof. Qed.
Print Assumptions get_answer_verbatim.

(* A body the action parser refuses is answered 400 with the parser's message, byte for byte, and nothing
   is executed. *)
Theorem error_reflected : forall key state parse ready chunks o b m,
  handle key state parse ready chunks = Ok o ->
  pending_body key chunks = Ok (Some b) -> parse b = VError m ->
  o_code o = 400 /\ o_actions o = None /\ response_body (o_resp o) = Some (m ++ [10]).
Proof. exact error_reflected_proof. Qed.
Print Assumptions error_reflected.

(* FINDING (refutes "segmentation never changes the outcome"): the same bytes are executed when written at
   once and answered 400 when the first write ends inside the header block. Only the harmless direction
   holds (accept_sound). Full statement that is FALSE of the faithful model:
     forall c1 c2, concat c1 = concat c2 -> handle k s p r c1 = handle k s p r c2. *)
Theorem segmentation_invariance_refuted :
  exists key state parse ready c1 c2 o1 o2,
    concat c1 = concat c2 /\
    handle key state parse ready c1 = Ok o1 /\ handle key state parse ready c2 = Ok o2 /\
    o_actions o1 = Some [117;112] /\ o_code o1 = 200 /\ o_actions o2 = None /\ o_code o2 = 400.
Proof. exact segmentation_invariance_refuted_proof. Qed.
Print Assumptions segmentation_invariance_refuted.

(* FINDING (refutes "a complete request is answered at once"): an acceptable POST whose body ends with
   CRLF exactly at Content-Length is answered only once the client closes or the 10 s deadline expires
   (first witness); the same request with body "up" is answered at once (second). Full statement that is
   FALSE of the faithful model:  spec_body key (concat [c]) = Some b -> waits_for_close [c] = Ok false. *)
Theorem complete_request_answered_at_once_refuted :
  exists chunks b, spec_body [] (concat chunks) = Some b /\ waits_for_close chunks = Ok true /\
                   waits_for_close seg_req_whole = Ok false.
Proof. exact complete_request_answered_at_once_refuted_proof. Qed.
Print Assumptions complete_request_answered_at_once_refuted.

(* non-vacuity: a keyed POST in three writes is executed; the same with a one-byte-short key is the 401;
   a keyed GET with parameters is answered; a non-local address without key is refused. *)
Example c16_nonvacuous :
  let key := [115;101;99] in                                   (* "sec" *)
  let parse := fun b : str => match b with [] => VEmpty | _ => VAccept end in
  let post k := [[80;79;83;84;32;47;32;72;84;84;80;47;49;46;49;13;10];                       (* POST / HTTP/1.1 *)
                 [88;45;65;80;73;45;75;101;121;58;32] ++ k ++ [13;10] ++                     (* X-API-Key: k *)
                 [67;111;110;116;101;110;116;45;76;101;110;103;116;104;58;32;52;13;10;13;10]; (* Content-Length: 4, blank *)
                 [117;112;13;10]] in                                                          (* up CRLF *)
  let get := [[71;69;84;32;47;63;108;105;109;105;116;61;53;32;72;84;84;80;47;49;46;49;13;10;  (* GET /?limit=5 HTTP/1.1 *)
               120;45;97;112;105;45;107;101;121;58;115;101;99;13;10;13;10]] in                 (* x-api-key:sec, blank *)
  parse [] <> VAccept /\ key <> [] /\
  (exists o, handle key [123;125] parse true (post key) = Ok o /\ o_actions o = Some [117;112] /\ o_code o = 200) /\
  spec_accepts key parse (concat (post key)) = Some [117;112] /\
  provided_key (post [115;101]) = Ok (Some [115;101]) /\
  handle key [123;125] parse true (post [115;101]) = Ok unauthorized /\
  (exists o, handle key [123;125] parse true get = Ok o /\ o_get o = Some (5, 0) /\ o_code o = 200) /\
  parse_listen_address [48;46;48;46;48;46;48;58;48] = LOk [48;46;48;46;48;46;48] 0 /\         (* 0.0.0.0:0 *)
  is_local [48;46;48;46;48;46;48] = false.
Proof.
  cbv zeta. split; [discriminate|]. split; [discriminate|].
  split; [eexists; split; [vm_compute; reflexivity|split; reflexivity]|].
  split; [vm_compute; reflexivity|]. split; [vm_compute; reflexivity|]. split; [vm_compute; reflexivity|].
  split; [eexists; split; [vm_compute; reflexivity|split; reflexivity]|].
  split; vm_compute; reflexivity.
Qed.

(* non-vacuity of the GET theorems: a GET with both parameters, the second one beyond 2^63-1 (ignored: the
   default 0 stays), is answered; the window of a five-element list for limit 2, offset 3; the hypothesis of
   dump_window is needed (a negative offset indexes in front of the list); a state and a parser message
   containing '%' come back unchanged. *)
Example c16_get_nonvacuous :
  let parse := fun b : str => match b with [] => VEmpty | _ => VError [37;100] end in        (* "%d" *)
  let get := [[71;69;84;32;47;63;108;105;109;105;116;61;50;38;111;102;102;115;101;116;61;     (* GET /?limit=2&offset= *)
               49;56;52;52;54;55;52;52;48;55;51;55;48;57;53;53;49;54;49;53;                   (* 18446744073709551615 *)
               32;72;84;84;80;47;49;46;49;13;10;13;10]] in                                    (*  HTTP/1.1, blank *)
  let post := [[80;79;83;84;32;47;32;72;84;84;80;47;49;46;49;13;10;                           (* POST / HTTP/1.1 *)
                67;111;110;116;101;110;116;45;76;101;110;103;116;104;58;32;49;13;10;13;10;120]] in (* Content-Length: 1, blank, x *)
  (exists o, handle [] [49;48;48;37] parse true get = Ok o /\ o_get o = Some (2, 0) /\
             response_body (o_resp o) = Some [49;48;48;37;10]) /\                              (* "100%" *)
  spec_get_request (concat get) = Some (2, 0) /\
  dump_items [10;11;12;13;14] 2 3 = Ok [13;14] /\ spec_window [10;11;12;13;14] 2 3 = [13;14] /\
  dump_items [10;11;12] 100 (-1) = Err OutOfRange /\
  pending_body [] post = Ok (Some [120]) /\
  (exists o, handle [] [123;125] parse true post = Ok o /\ o_code o = 400 /\
             response_body (o_resp o) = Some [37;100;10]).
Proof.
  cbv zeta.
  split; [eexists; split; [vm_compute; reflexivity|split; vm_compute; reflexivity]|].
  split; [vm_compute; reflexivity|]. split; [vm_compute; reflexivity|]. split; [vm_compute; reflexivity|].
  split; [vm_compute; reflexivity|]. split; [vm_compute; reflexivity|].
  eexists; split; [vm_compute; reflexivity|split; vm_compute; reflexivity].
Qed.

(* non-vacuity of the key theorems: a listener on 0.0.0.0 whose FZF_API_KEY is one blank exists (the variable is
   not empty) and answers a key-less GET, and a GET presenting a blank, with the 401; with the key "sec" the GET
   presenting it is served, and what it presented is that key; " sec" is not presentable, "sec" is. *)
Example c16_key_nonvacuous :
  let parse := fun b : str => match b with [] => VEmpty | _ => VAccept end in
  let addr := [48;46;48;46;48;46;48;58;48] in                                                  (* 0.0.0.0:0 *)
  let get k := [[71;69;84;32;47;32;72;84;84;80;47;49;46;49;13;10] ++                           (* GET / HTTP/1.1 *)
                [88;45;65;80;73;45;75;101;121;58] ++ k ++ [13;10;13;10]] in                     (* X-API-Key:k, blank *)
  let bare := [[71;69;84;32;47;32;72;84;84;80;47;49;46;49;13;10;13;10]] in
  serve addr [32] [123;125] parse true bare = Ok (Some unauthorized) /\
  serve addr [32] [123;125] parse true (get [32]) = Ok (Some unauthorized) /\
  serve addr [] [123;125] parse true bare = Ok None /\
  key_presentable [32] = false /\ key_presentable [32;115;101;99] = false /\ key_presentable [115;101;99] = true /\
  (exists o, serve addr [115;101;99] [123;125] parse true (get [32;115;101;99;9]) = Ok (Some o) /\
             o_get o = Some (100, 0) /\ o_code o = 200) /\
  provided_key (get [32;115;101;99;9]) = Ok (Some [115;101;99]) /\
  spec_presented_key (concat (get [32;115;101;99;9])) = [115;101;99].
Proof.
  cbv zeta. split; [vm_compute; reflexivity|]. split; [vm_compute; reflexivity|]. split; [vm_compute; reflexivity|].
  split; [vm_compute; reflexivity|]. split; [vm_compute; reflexivity|]. split; [vm_compute; reflexivity|].
  split; [eexists; split; [vm_compute; reflexivity|split; reflexivity]|].
  split; vm_compute; reflexivity.
Qed.
