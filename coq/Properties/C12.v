(* C12 — placeholders expand to shell words that evaluate back to the original text.
   Statements only; proofs live in proofs/PlaceholderProofs.v.
   sh_words (spec/ShellSpec.v) is POSIX word splitting restricted to blanks, '...' and \c: any other
   unquoted metacharacter gives None.  All theorems are for the sh dialect (p_fish = false); the fish
   dialect is modelled (esc_fish) but excluded from the claim. Raw (r) and file (f) placeholders are
   unquoted by documentation: they appear as OText (spliced text), never as OWords. *)
From Fzf Require Import Prelude ShellSpec PlusSpec PlaceholderModel PlaceholderProofs PlusListModel PlusListProofs.
From Fzf Require Import ExecSpec ExecModel ExecProofs.
Open Scope Z_scope.

(* QuoteEntry: ANY list of byte strings (quotes, blanks, newlines, $, `, \, globs ...), each quoted and joined by
   blanks, is read back by the shell as exactly that list: one word per string, nothing executed. *)
Theorem quote_roundtrip : forall ws : list str,
  sh_words (join_sp (map (quote_entry false) ws)) = Some ws.
Proof. exact quote_roundtrip_proof. Qed.
Print Assumptions quote_roundtrip.

(* replacePlaceholder, any template / items / query / delimiter / flags: the command line is the concatenation of
   what each piece of the template became (outs); and whenever the template, read with every quoted placeholder
   standing for its list of values (seg_of: {} {+} {N} {q} {q:N} {n} {fzf:prompt,query} -> one word per item),
   is a line of plain shell words ws, the shell reads the expansion as exactly ws.
   Values never leak into syntax: the hypothesis speaks only about the template's own literal text (and r / f /
   {fzf:action} splices), the conclusion holds for all item texts and queries. *)
Theorem expansion_roundtrip : forall p tmpl temps out files, p_fish p = false ->
  replace_placeholder p tmpl temps = Ok (out, files) ->
  exists outs, replace_structured p tmpl temps = Ok (outs, files) /\ out = concat (map render outs) /\
    forall ws, template_words (map seg_of outs) = Some ws -> sh_words out = Some ws.
Proof. exact expansion_roundtrip_proof. Qed.
Print Assumptions expansion_roundtrip.

(* {} alone: one word per item (current, or the selection under forcePlus), each equal to the item text *)
Theorem braces_is_item_text : forall p temps, p_fish p = false ->
  exists out, replace_placeholder p t_braces temps = Ok (out, []) /\
    sh_words out = Some (map snd (if p_force_plus p then p_selected p else p_current p)).
Proof. exact braces_is_item_text_proof. Qed.
Print Assumptions braces_is_item_text.

(* {+}: every selected item, in selection order, one word each *)
Theorem plus_selection_order : forall p temps, p_fish p = false ->
  exists out, replace_placeholder p t_plus temps = Ok (out, []) /\
    sh_words out = Some (map snd (p_selected p)).
Proof. exact plus_selection_order_proof. Qed.
Print Assumptions plus_selection_order.

(* {q}: one word, the query *)
Theorem query_is_query : forall p temps, p_fish p = false ->
  exists out, replace_placeholder p t_query temps = Ok (out, []) /\ sh_words out = Some [p_query p].
Proof. exact query_is_query_proof. Qed.
Print Assumptions query_is_query.

(* {n}: the item's ordinal in decimal, one plain word (independent of the item text and of the dialect) *)
Theorem number_is_ordinal : forall p temps idx text,
  p_force_plus p = false -> p_current p = [(idx, text)] -> idx <> min_int32 ->
  replace_placeholder p t_number temps = Ok (itoa idx, []) /\
  sh_words (itoa idx) = Some [itoa idx] /\
  (0 <= idx -> dec_value (itoa idx) = Some idx).
Proof. exact number_is_ordinal_proof. Qed.
Print Assumptions number_is_ordinal.

(* an escaped placeholder \{...} is left literal (without the backslash) and the rest expands as if it stood alone *)
Theorem escaped_literal : forall p m post temps,
  match_at (m ++ post) = Some (length m) ->
  replace_placeholder p (c_bs :: m ++ post) temps =
    match replace_placeholder p post temps with Ok (o, f) => Ok (m ++ o, f) | Err e => Err e end.
Proof. exact escaped_literal_proof. Qed.
Print Assumptions escaped_literal.

(* the scanner cuts the template into pieces that partition it: nothing of the template is lost or duplicated *)
Theorem scan_partition : forall t, concat (map piece_src (scan t O [])) = t.
Proof. exact scan_partition_proof. Qed.
Print Assumptions scan_partition.

(* runTmux: the re-quoted argument string is read back as the original arguments plus the two appended flags *)
Theorem tmux_args_roundtrip : forall fzf args,
  sh_words (tmux_arg_str fzf args) = Some (fzf :: args ++ [w_no_tmux; w_no_height]).
Proof. exact tmux_args_roundtrip_proof. Qed.
Print Assumptions tmux_args_roundtrip.

(* runProxy: `export NAME='value'` is the two words export and NAME=value, for every value *)
Theorem env_export_roundtrip : forall name value, valid_identifier name = true ->
  sh_words (export_line name value) = Some [export_word; name ++ 61 :: value].
Proof. exact env_export_roundtrip_proof. Qed.
Print Assumptions env_export_roundtrip.

(* ---- the running finder: buildPlusList, then replacePlaceholder (execute*, transform*, preview, become, reload) ----
   State of the finder as an expansion sees it: the item under the cursor and the selected items in selection order. *)

(* buildPlusList is transparent: with an item under the cursor, for EVERY template, selection and forcePlus, the finder's
   expansion is replacePlaceholder on current = the cursor item and selected = plus_items (the selection in selection
   order; the cursor item when nothing is selected), and it is always valid.  In particular the number of selected
   items (0, 1, many) and the position of the cursor relative to them make no difference. *)
Theorem buildpluslist_transparent : forall p c sel tmpl temps,
  terminal_expand p (Some c) sel tmpl temps =
    (do x <- replace_placeholder (with_items p [c] (plus_items (Some c) sel)) tmpl temps; Ok (true, x)).
Proof. exact buildpluslist_transparent_proof. Qed.
Print Assumptions buildpluslist_transparent.

(* hence the round trip holds in the finder, with {} standing for the cursor item and {+} for plus_items *)
Theorem terminal_expansion_roundtrip : forall p c sel tmpl temps v out files, p_fish p = false ->
  terminal_expand p (Some c) sel tmpl temps = Ok (v, (out, files)) ->
  v = true /\
  exists outs, replace_structured (with_items p [c] (plus_items (Some c) sel)) tmpl temps = Ok (outs, files) /\
    out = concat (map render outs) /\
    forall ws, template_words (map seg_of outs) = Some ws -> sh_words out = Some ws.
Proof. exact terminal_expansion_roundtrip_proof. Qed.
Print Assumptions terminal_expansion_roundtrip.

(* {+} covers every selected item, in selection order, one word each (the cursor item when nothing is selected) *)
Theorem plus_covers_selection : forall p c sel temps, p_fish p = false ->
  exists out, terminal_expand p (Some c) sel t_plus temps = Ok (true, (out, [])) /\
    sh_words out = Some (map snd (plus_items (Some c) sel)).
Proof. exact plus_covers_selection_proof. Qed.
Print Assumptions plus_covers_selection.

(* {} is the cursor item whatever is selected *)
Theorem braces_is_cursor_item : forall p c sel temps, p_fish p = false -> p_force_plus p = false ->
  exists out, terminal_expand p (Some c) sel t_braces temps = Ok (true, (out, [])) /\
    sh_words out = Some [snd c].
Proof. exact braces_is_cursor_item_proof. Qed.
Print Assumptions braces_is_cursor_item.

(* ---- temp files of f-placeholders ---- *)

(* the files a template writes are, in order, the files each of its placeholders writes when it is expanded on its own:
   no placeholder's file depends on the other placeholders of the template (same range, other flags, or not) *)
Theorem files_per_placeholder : forall p tmpl temps out files,
  replace_placeholder p tmpl temps = Ok (out, files) ->
  exists fss, map_res (own_files p) (scan tmpl O []) = Ok fss /\ files = concat fss.
Proof. exact files_per_placeholder_proof. Qed.
Print Assumptions files_per_placeholder.

(* {+f}: the file holds the text of every selected item in selection order, each followed by the print separator *)
Theorem plus_file_holds_selection : forall p name rest,
  replace_placeholder p t_plus_file (name :: rest) =
    Ok (name, [file_text (p_printsep p) (map snd (p_selected p))]).
Proof. exact plus_file_holds_selection_proof. Qed.
Print Assumptions plus_file_holds_selection.

(* {f} {+f} in ONE template, in the running finder: two files, the cursor item in the first, the selection in the second *)
Theorem terminal_file_and_plus_file : forall p c sel n1 n2 rest, p_force_plus p = false ->
  terminal_expand p (Some c) sel t_file_plus_file (n1 :: n2 :: rest) =
    Ok (true, (n1 ++ c_sp :: n2,
        [file_text (p_printsep p) [snd c]; file_text (p_printsep p) (map snd (plus_items (Some c) sel))])).
Proof. exact terminal_file_and_plus_file_proof. Qed.
Print Assumptions terminal_file_and_plus_file.

(* STRETCH, NOT PART OF THE CLAIM: the fish dialect of QuoteEntry round-trips through fish_words, a reading of the
   fish manual (single quotes: only \' and \\ are escapes) that could not be validated: fish is not installed. *)
Theorem quote_roundtrip_fish : forall ws : list str,
  fish_words (join_sp (map (quote_entry true) ws)) = Some ws.
Proof. exact quote_roundtrip_fish_proof. Qed.
Print Assumptions quote_roundtrip_fish.

(* ---- which shell reads the expansion ($SHELL, --with-shell) ---- *)

(* NewExecutor, for EVERY value of $SHELL and of --with-shell: it never fails, the shell it starts is the one the
   documentation names (the first word of --with-shell, else $SHELL, else sh), and the escaper it carries is the one of
   THAT shell (fish's exactly when its file name is fish) - never the one of a $SHELL that --with-shell overrides. *)
Theorem executor_dialect_follows_running_shell : forall env_shell with_shell,
  exists x, new_executor env_shell with_shell = Ok x /\
            x_shell x = running_shell env_shell with_shell /\
            x_fish x = runs_fish env_shell with_shell.
Proof. exact new_executor_dialect_proof. Qed.
Print Assumptions executor_dialect_follows_running_shell.

(* hence QuoteEntry of that executor, for any strings, is read back by the shell that runs the command as exactly those
   strings (sh_words for a POSIX shell; fish_words, the unvalidated reading of the fish manual, for fish) *)
Theorem executor_quote_roundtrip : forall env_shell with_shell (ws : list str),
  exists x, new_executor env_shell with_shell = Ok x /\
            shell_reads env_shell with_shell (join_sp (map (quote_entry (x_fish x)) ws)) = Some ws.
Proof. exact executor_quote_roundtrip_proof. Qed.
Print Assumptions executor_quote_roundtrip.

(* ---- the re-launch script of fzf --tmux: the loop of runProxy over os.Environ() ---- *)

(* every entry NAME=value whose name a shell can hold (TMUX_PANE excepted, by design) has a line in the script that the
   shell reads as `export` followed by exactly the ORIGINAL ENTRY: the value arrives whole, whatever it contains
   (further '=' signs, quotes, $, backticks, newlines, nothing at all) *)
Theorem relaunch_env_roundtrip : forall environ lines nb,
  proxy_exports environ = Ok (lines, nb) ->
  forall e, In e environ -> exportable e = true ->
  exists l, In l lines /\ export_effect l = Some [e].
Proof. exact relaunch_env_roundtrip_proof. Qed.
Print Assumptions relaunch_env_roundtrip.

(* an exported bash function BASH_FUNC_name%%=body is re-defined as `name body`, re-exported, and the script goes to bash *)
Theorem relaunch_bash_function : forall environ lines nb name body,
  proxy_exports environ = Ok (lines, nb) ->
  (forall c, In c name -> c <> 61) ->
  In (m_bash_func ++ name ++ m_pct2 ++ 61 :: body) environ ->
  In (name ++ body) lines /\ In (m_export_f ++ name) lines /\ nb = true.
Proof. exact relaunch_bash_function_proof. Qed.
Print Assumptions relaunch_bash_function.

(* the loop does not fail on an environment made of NAME=value entries (on an entry WITHOUT '=' whose text is an
   identifier the Go code indexes pair[1] out of range: see c12_relaunch_entry_without_eq below) *)
Theorem relaunch_total : forall environ,
  (forall e, In e environ -> entry_value e <> None) -> exists r, proxy_exports environ = Ok r.
Proof. exact relaunch_total_proof. Qed.
Print Assumptions relaunch_total.

(* ---- non-vacuity ---- *)

(* template  echo {} x{+}y {q} {n} \{}  ; current item  it's $(id) `x`;rm  ; selected  a b / c'd / newline ; query  "q" \  *)
Definition ex_params : params :=
  mkP None [10] false [34;113;34;32;92]
      [(7, [105;116;39;115;32;36;40;105;100;41;32;96;120;96;59;114;109])]
      [(1, [97;32;98]); (2, [99;39;100]); (3, [10])] [] [62;32] false.
Definition ex_template : str :=
  [101;99;104;111;32;123;125;32;120;123;43;125;121;32;123;113;125;32;123;110;125].

(* the hypotheses of expansion_roundtrip are satisfiable: the template reads as plain shell words, and the
   conclusion gives the hostile texts back verbatim, glued to the literal x / y exactly where the template says *)
Example c12_nonvacuous :
  exists out outs,
    replace_placeholder ex_params ex_template [] = Ok (out, []) /\
    replace_structured ex_params ex_template [] = Ok (outs, []) /\
    template_words (map seg_of outs) =
      Some [[101;99;104;111]; [105;116;39;115;32;36;40;105;100;41;32;96;120;96;59;114;109];
            [120;97;32;98]; [99;39;100]; [10;121]; [34;113;34;32;92]; [55]] /\
    sh_words out = template_words (map seg_of outs).
Proof. eexists. eexists. vm_compute. repeat split. Qed.

(* the hypothesis can also fail: a placeholder inside the template's own quotes is not shell-neutral *)
Example c12_not_neutral :
  exists outs, replace_structured ex_params [39;123;125;39] [] = Ok (outs, []) /\
               template_words (map seg_of outs) = None.
Proof. eexists. vm_compute. split; reflexivity. Qed.

Example c12_escaped_nonvacuous :
  match_at ([123;43;125] ++ [32;120]) = Some (length [123;43;125]) /\
  replace_placeholder ex_params (c_bs :: [123;43;125] ++ [32;120]) [] = Ok ([123;43;125;32;120], []).
Proof. vm_compute. split; reflexivity. Qed.

Example c12_tmux_env_nonvacuous :
  sh_words (tmux_arg_str [102;122;102] [[45;45;113;61;105;116;39;115]]) =
    Some [[102;122;102]; [45;45;113;61;105;116;39;115]; w_no_tmux; w_no_height] /\
  valid_identifier [80;65;84;72] = true.
Proof. vm_compute. split; reflexivity. Qed.

(* the finder: ONE selected item (index 1) and the cursor on another one (index 7): {+} is the selected item, {} the
   cursor item; nothing selected: {+} is the cursor item *)
Example c12_terminal_nonvacuous :
  terminal_expand ex_params (Some (7, [99;117;114])) [(1, [115;39;101;108])] [123;43;125;32;123;125] [] =
    Ok (true, ([39;115;39;92;39;39;101;108;39;32;39;99;117;114;39], [])) /\
  terminal_expand ex_params (Some (7, [99;117;114])) [] [123;43;125] [] = Ok (true, ([39;99;117;114;39], [])) /\
  terminal_expand ex_params None [] [123;43;125] [] = Ok (false, ([], [])).
Proof. vm_compute. repeat split. Qed.

Example c12_files_nonvacuous :
  replace_placeholder ex_params [123;102;125;32;123;43;110;102;125;32;123;43;102;125] [[65];[66];[67]] =
    Ok ([65;32;66;32;67],
        [[105;116;39;115;32;36;40;105;100;41;32;96;120;96;59;114;109;10];
         [49;10;50;10;51;10];
         [97;32;98;10;99;39;100;10;10;10]]).
Proof. vm_compute. reflexivity. Qed.

(* $SHELL = /usr/bin/fish with --with-shell "bash -c": bash runs the command, POSIX quoting; $SHELL = /bin/sh with
   --with-shell "/usr/local/bin/fish -c": fish; no --with-shell: $SHELL decides; nothing set: sh *)
Example c12_dialect_nonvacuous :
  runs_fish [47;117;115;114;47;98;105;110;47;102;105;115;104] [98;97;115;104;32;45;99] = false /\
  running_shell [47;117;115;114;47;98;105;110;47;102;105;115;104] [98;97;115;104;32;45;99] = [98;97;115;104] /\
  runs_fish [47;98;105;110;47;115;104] [47;117;115;114;47;108;111;99;97;108;47;98;105;110;47;102;105;115;104;32;45;99] = true /\
  runs_fish [47;117;115;114;47;98;105;110;47;102;105;115;104] [] = true /\
  running_shell [] [32;32] = s_sh /\
  executor_quote [47;117;115;114;47;98;105;110;47;102;105;115;104] [115;104;32;45;99] [97;92;98;39;99] =
    Ok [39;97;92;98;39;92;39;39;99;39].
Proof. vm_compute. repeat split. Qed.

(* environment  KV=key=value  T=trailing=  E=  Q=it's  TMUX_PANE=%0  1x=y : the first four are exported whole, the value of KV
   keeps its second '=', TMUX_PANE and the name a shell cannot hold are left out *)
Example c12_relaunch_nonvacuous :
  exists lines,
    proxy_exports [[75;86;61;107;101;121;61;118;97;108;117;101]; [84;61;116;114;97;105;108;105;110;103;61]; [69;61];
                   [81;61;105;116;39;115]; [84;77;85;88;95;80;65;78;69;61;37;48]; [49;120;61;121]] = Ok (lines, false) /\
    exportable [75;86;61;107;101;121;61;118;97;108;117;101] = true /\
    map export_effect lines =
      [None; None; None;
       Some [[75;86;61;107;101;121;61;118;97;108;117;101]]; Some [[84;61;116;114;97;105;108;105;110;103;61]];
       Some [[69;61]]; Some [[81;61;105;116;39;115]]].
Proof. eexists. vm_compute. repeat split. Qed.

(* an environment entry without '=' (possible through execve, not through a shell): the faithful model fails where the Go
   code evaluates pair[1] - observed on the binary as `panic: index out of range [1] with length 1` in runProxy *)
Example c12_relaunch_entry_without_eq : proxy_exports [[70;79;79]] = Err OutOfRange.
Proof. vm_compute. reflexivity. Qed.

(* ---- what an input line is to a placeholder: --ansi, --with-nth, colours on or off (strengthened, seed C12-8) ----
   item_text ansi line = the line, under --ansi the line without its control sequences (AnsiSpec.strip_spec).  The reader
   (core.go) is modelled with its three ansiProcessor closures and its two item constructors (without --with-nth: the
   item's text is what ansiProcessor keeps; with --with-nth: the text is the fields SHOWN - any string, a parameter -
   and origText holds the raw line), Item.AsString, and Terminal.replacePlaceholder's stripAnsi = t.ansi. *)
From Fzf Require Import AnsiSpec AnsiModel ItemViewSpec ItemViewModel ItemViewProofs.

(* for EVERY line, --ansi on or off, coloured theme or not, any state carried from the line before, --with-nth or not and
   whatever text is shown for it: the string replacePlaceholder's closures work on is item_text of the line *)
Theorem placeholder_text_is_item_text : forall ansi col carried shown index data it,
  read_item ansi col carried shown index data = Ok it ->
  seen_item (terminal_strip_ansi ansi col) it = Ok (index, item_text ansi data).
Proof. exact placeholder_text_is_item_text_proof. Qed.
Print Assumptions placeholder_text_is_item_text.

(* hence the finder's expansion over lines read under any such options IS the expansion over item_text of the lines *)
Theorem view_transparent : forall ansi col p (c : rline) rc (sel : list rline) rsel tmpl temps,
  read_line ansi col c = Ok rc ->
  map_res (read_line ansi col) sel = Ok rsel ->
  view_terminal_expand ansi col p (Some rc) rsel tmpl temps =
    terminal_expand p (Some (line_item ansi (snd c))) (map (fun l => line_item ansi (snd l)) sel) tmpl temps.
Proof. exact view_transparent_proof. Qed.
Print Assumptions view_transparent.

(* and the round trip holds with {} standing for item_text of the cursor line and {+} for item_text of the selected lines *)
Theorem view_expansion_roundtrip : forall ansi col p (c : rline) rc (sel : list rline) rsel tmpl temps v out files,
  p_fish p = false ->
  read_line ansi col c = Ok rc ->
  map_res (read_line ansi col) sel = Ok rsel ->
  view_terminal_expand ansi col p (Some rc) rsel tmpl temps = Ok (v, (out, files)) ->
  let ci := line_item ansi (snd c) in
  let si := map (fun l => line_item ansi (snd l)) sel in
  v = true /\
  exists outs, replace_structured (with_items p [ci] (plus_items (Some ci) si)) tmpl temps = Ok (outs, files) /\
    out = concat (map render outs) /\
    forall ws, template_words (map seg_of outs) = Some ws -> sh_words out = Some ws.
Proof. exact view_expansion_roundtrip_proof. Qed.
Print Assumptions view_expansion_roundtrip.

(* {} is the text of the cursor line: under --ansi without its control sequences, whatever the theme and --with-nth *)
Theorem braces_is_line_text : forall ansi col p (c : rline) rc (sel : list rline) rsel temps,
  p_fish p = false -> p_force_plus p = false ->
  read_line ansi col c = Ok rc ->
  map_res (read_line ansi col) sel = Ok rsel ->
  exists out, view_terminal_expand ansi col p (Some rc) rsel t_braces temps = Ok (true, (out, [])) /\
    sh_words out = Some [item_text ansi (snd (snd c))].
Proof. exact braces_is_line_text_proof. Qed.
Print Assumptions braces_is_line_text.

Theorem plus_is_selected_line_texts : forall ansi col p (c : rline) rc (sel : list rline) rsel temps,
  p_fish p = false ->
  read_line ansi col c = Ok rc ->
  map_res (read_line ansi col) sel = Ok rsel ->
  exists out, view_terminal_expand ansi col p (Some rc) rsel t_plus temps = Ok (true, (out, [])) /\
    sh_words out = Some (map snd (plus_items (Some (line_item ansi (snd c))) (map (fun l => line_item ansi (snd l)) sel))).
Proof. exact plus_is_selected_line_texts_proof. Qed.
Print Assumptions plus_is_selected_line_texts.

(* the line  ESC[31m r ESC[m ' s  (red "r", then "'s") read with --ansi, a colourless theme and --with-nth showing "X":
   {} is read back by the shell as the one word  r's *)
Example c12_view_nonvacuous :
  exists rc out,
    read_line true false ((None, Some [88]), (0, [27;91;51;49;109;114;27;91;109;39;115])) = Ok rc /\
    view_terminal_expand true false (mkP None [10] false [] [] [] [] [] false) (Some rc) [] t_braces [] = Ok (true, (out, [])) /\
    sh_words out = Some [[114;39;115]] /\
    item_text true [27;91;51;49;109;114;27;91;109;39;115] = [114;39;115] /\
    item_text false [27;91;51;49;109;114] = [27;91;51;49;109;114].
Proof.
  do 2 eexists. split; [vm_compute; reflexivity|]. split; [vm_compute; reflexivity|].
  vm_compute. repeat split.
Qed.
