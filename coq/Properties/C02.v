(* C02 — every reported match has a genuine witness; non-match means none exists; matching never crashes.
   Statements only; proofs in proofs/{AlgoBasics,PrefilterProofs,V1Proofs,OccursBasics,AnchoredProofs,ExactProofs,V2*}.v.
   All theorems hold for EVERY text and pattern (any length), every char_ops (Go's unicode tables are parameters)
   and every scheme satisfying the stated inequalities (the three shipped schemes do: GeneratedCheck). *)
From Fzf Require Import Prelude AlgoSpec AlgoModel AlgoBasics PrefilterProofs V1Proofs OccursBasics AnchoredProofs ExactProofs.
From Fzf Require Import V2Facts V2ScanBasics V2ScanPhase2 V2ScanProofs V2Glue V2Final.
Open Scope Z_scope.

(* the spec's decidable subsequence test means "a witness exists" *)
Theorem subseq_means_witness : forall co cs nm text pat,
  subseq_b co cs nm text pat = true <-> exists pos, witness co cs nm text pat pos = true.
Proof. exact subseq_b_iff_witness. Qed.
Print Assumptions subseq_means_witness.

(* ---- FuzzyMatchV1 (both directions, both representations, with/without positions) ---- *)
Theorem v1_sound : forall co sc cs nm fwd ib text pat wp s e score pos,
  fuzzy_v1 co sc cs nm fwd ib text pat wp = Ok (Match s e score pos) -> pat <> [] ->
  (s <= e <= length text)%nat /\ subseq_b co cs nm text pat = true /\
  (forall ps, pos = Some ps ->
     witness co cs nm text pat ps = true /\ Forall (fun p => (s <= p < e)%nat) ps /\ score = align_score co sc text ps).
Proof. exact v1_sound_proof. Qed.
Print Assumptions v1_sound.

Theorem v1_complete : forall co sc cs nm fwd ib text pat wp,
  (ib = true -> Forall (fun c => 0 <= c < 128) text) -> (forall c, c < 192 -> co_norm co c = c) ->
  fuzzy_v1 co sc cs nm fwd ib text pat wp = Ok NoMatch -> subseq_b co cs nm text pat = false.
Proof. exact v1_complete_proof. Qed.
Print Assumptions v1_complete.

Theorem v1_total : forall co sc cs nm fwd ib text pat wp, exists r, fuzzy_v1 co sc cs nm fwd ib text pat wp = Ok r.
Proof. exact v1_total_proof. Qed.
Print Assumptions v1_total.

(* ---- the ASCII pre-filter shared by V1, V2 and exact matching never loses a match ---- *)
Theorem ascii_prefilter_sound : forall co cs nm, (forall c, c < 192 -> co_norm co c = c) ->
  forall is_bytes text pat, (is_bytes = true -> Forall (fun c => 0 <= c < 128) text) ->
  (ascii_fuzzy_index is_bytes text pat cs = Ok None -> subseq_b co cs nm text pat = false) /\
  (forall lo hi, pat <> [] -> ascii_fuzzy_index is_bytes text pat cs = Ok (Some (lo, hi)) ->
     (lo <= hi)%nat /\ (hi <= length text)%nat /\
     (subseq_b co cs nm text pat = true -> subseq_b co cs nm (firstn (hi - lo) (skipn lo text)) pat = true)).
Proof.
  intros co cs nm Hn ib text pat Ha. split.
  - exact (afi_none_sound co cs nm Hn ib text pat Ha).
  - intros lo hi Hp. exact (afi_window_sound co cs nm Hn ib text pat lo hi Hp Ha).
Qed.
Print Assumptions ascii_prefilter_sound.

(* ---- FuzzyMatchV2 (any scratch capacity incl. the V1 fallback and a nil slab) ---- *)
(* reported as not matching only if no witness exists *)
Theorem v2_complete : forall co sc cs nm fwd ib text pat wp cap,
  (ib = true -> Forall (fun c => 0 <= c < 128) text) -> (forall c, c < 192 -> co_norm co c = c) ->
  fuzzy_v2 co sc cs nm fwd ib text pat wp cap = Ok NoMatch -> subseq_b co cs nm text pat = false.
Proof. exact v2_complete_closed. Qed.
Print Assumptions v2_complete.

(* a reported match means a witness exists *)
Theorem v2_match_has_witness : forall co sc cs nm fwd ib text pat wp cap s e score pos,
  (forall c, c < 192 -> co_norm co c = c) ->
  fuzzy_v2 co sc cs nm fwd ib text pat wp cap = Ok (Match s e score pos) -> pat <> [] ->
  exists ps, witness co cs nm text pat ps = true.
Proof.
  intros co sc cs nm fwd ib text pat wp cap s e score pos Hn H Hp.
  apply subseq_b_iff_witness. exact (v2_match_subseq_closed co sc cs nm fwd ib text pat wp cap s e score pos Hn H Hp).
Qed.
Print Assumptions v2_match_has_witness.

(* every reported match is a genuine witness inside the reported range (M = 1, M >= 2, and the V1 fallback;
   V2 proper lists positions in descending order, the fallback in ascending order) *)
Theorem v2_sound : forall co sc cs nm fwd ib text pat cap s e score ps,
  0 <= s_bw sc /\ 0 <= s_bd sc -> (ib = true -> Forall (fun c => 0 <= c < 128) text) ->
  (forall c, c < 192 -> co_norm co c = c) -> pat <> [] ->
  fuzzy_v2 co sc cs nm fwd ib text pat true cap = Ok (Match s e score (Some ps)) ->
  (s <= e <= length text)%nat /\
  witness co cs nm text pat (if v2_fallback text pat cap then ps else rev ps) = true /\
  Forall (fun p => (s <= p < e)%nat) ps.
Proof. exact v2_sound_final_sharp. Qed.
Print Assumptions v2_sound.

(* without positions: a non-empty range inside the line *)
Theorem v2_range : forall co sc cs nm fwd ib text pat cap s e score pos,
  0 <= s_bw sc /\ 0 <= s_bd sc -> (ib = true -> Forall (fun c => 0 <= c < 128) text) ->
  (forall c, c < 192 -> co_norm co c = c) -> pat <> [] ->
  fuzzy_v2 co sc cs nm fwd ib text pat false cap = Ok (Match s e score pos) ->
  pos = None /\ (s < e <= length text)%nat.
Proof. exact v2_range_final. Qed.
Print Assumptions v2_range.

(* FuzzyMatchV2 never crashes: no index out of range, for any text, pattern, flags and scratch capacity *)
Theorem v2_total : forall co sc cs nm fwd ib text pat wp cap,
  0 <= s_bw sc /\ 0 <= s_bd sc -> (ib = true -> Forall (fun c => 0 <= c < 128) text) ->
  (forall c, c < 192 -> co_norm co c = c) ->
  exists r, fuzzy_v2 co sc cs nm fwd ib text pat wp cap = Ok r.
Proof. exact v2_total_final. Qed.
Print Assumptions v2_total.

(* one-character patterns: the reported position holds the character, range = that position, positions = [it] *)
Theorem v2_single_sound : forall co sc cs nm fwd ib text p wp cap s e score pos,
  scheme_nonneg sc -> (forall c, c < 192 -> co_norm co c = c) ->
  (forall c, cap = Some c -> Z.of_nat (length text) <= c) ->
  fuzzy_v2 co sc cs nm fwd ib text [p] wp cap = Ok (Match s e score pos) ->
  e = S s /\ (s < length text)%nat /\ fold co cs nm (nth s text 0) = p /\ pos = (if wp then Some [s] else None).
Proof.
  intros co sc cs nm fwd ib text p wp cap s e score pos Hs Hn Hc H.
  destruct (v2_single_sound_proof co sc cs nm fwd ib text p wp cap s e score pos Hs Hn Hc H) as [A [B [C [D _]]]].
  repeat split; assumption.
Qed.
Print Assumptions v2_single_sound.

(* beyond the pre-allocated scratch memory V2 IS V1 (whose theorems are above) *)
Theorem v2_fallback_is_v1 : forall co sc cs nm fwd ib text pat wp cap,
  pat <> [] -> (length pat <= length text)%nat -> cap < Z.of_nat (length text) * Z.of_nat (length pat) ->
  fuzzy_v2 co sc cs nm fwd ib text pat wp (Some cap) = fuzzy_v1 co sc cs nm fwd ib text pat wp.
Proof. exact v2_fallback_proof. Qed.
Print Assumptions v2_fallback_is_v1.

(* ---- ExactMatchNaive / ExactMatchBoundary ---- *)
Theorem exact_sound : forall co sc cs nm fwd boundary is_bytes text pat s e score pos,
  exact_match co sc cs nm fwd boundary is_bytes text pat = Ok (Match s e score pos) -> pat <> [] ->
  e = (s + length pat)%nat /\ (e <= length text)%nat /\ occurs_at co cs nm text pat s = true /\
  (boundary = true -> boundary_at co sc cs nm text pat s = true) /\
  (boundary = false -> score = align_score co sc text (seq s (length pat))).
Proof. exact exact_sound_proof. Qed.
Print Assumptions exact_sound.

Theorem exact_complete : forall co sc cs nm fwd is_bytes text pat,
  (is_bytes = true -> Forall (fun c => 0 <= c < 128) text) -> (forall c, 0 <= c < 128 -> co_norm co c = c) ->
  0 <= s_bw sc -> 0 <= s_bd sc ->
  exact_match co sc cs nm fwd false is_bytes text pat = Ok NoMatch -> substr_b co cs nm text pat = false.
Proof. exact exact_complete_proof. Qed.
Print Assumptions exact_complete.

Theorem boundary_complete : forall co sc cs nm fwd is_bytes text pat,
  (is_bytes = true -> Forall (fun c => 0 <= c < 128) text) -> (forall c, 0 <= c < 128 -> co_norm co c = c) ->
  bonusBoundary <= s_bw sc -> bonusBoundary <= s_bd sc -> (forall c, 0 <= co_class co c) ->
  exact_match co sc cs nm fwd true is_bytes text pat = Ok NoMatch -> boundary_substr_b co sc cs nm text pat = false.
Proof. exact exact_boundary_complete_proof. Qed.
Print Assumptions boundary_complete.

Theorem exact_total : forall co sc cs nm fwd boundary is_bytes text pat,
  exists r, exact_match co sc cs nm fwd boundary is_bytes text pat = Ok r.
Proof. exact exact_total_proof. Qed.
Print Assumptions exact_total.

(* ---- PrefixMatch / SuffixMatch / EqualMatch: the answer IS the documented anchored occurrence ---- *)
Theorem prefix_exact : forall co sc cs nm text pat r, pat <> [] -> prefix_match co sc cs nm text pat = Ok r ->
  match r with
  | NoMatch => prefix_spec co cs nm text pat = None
  | Match s e score _ => prefix_spec co cs nm text pat = Some s /\ e = (s + length pat)%nat /\
                         score = align_score co sc text (seq s (length pat))
  end.
Proof. exact prefix_sound_complete_proof. Qed.
Print Assumptions prefix_exact.

Theorem suffix_exact : forall co sc cs nm text pat r, pat <> [] -> suffix_match co sc cs nm text pat = Ok r ->
  match r with
  | NoMatch => suffix_spec co cs nm text pat = None
  | Match s e score _ => suffix_spec co cs nm text pat = Some s /\ e = (s + length pat)%nat /\
                         score = align_score co sc text (seq s (length pat))
  end.
Proof. exact suffix_sound_complete_proof. Qed.
Print Assumptions suffix_exact.

Theorem equal_exact : forall co sc cs nm text pat r, pat <> [] ->
  (nm = true -> Forall (fun p => co_norm co p = p) pat) -> equal_match co sc cs nm text pat = Ok r ->
  match r with
  | NoMatch => equal_spec co cs nm text pat = None
  | Match s e score _ => equal_spec co cs nm text pat = Some s /\ e = (s + length pat)%nat /\
                         score = equal_score sc (length pat)
  end.
Proof. exact equal_sound_complete_proof. Qed.
Print Assumptions equal_exact.

Theorem anchored_total : forall co sc cs nm text pat,
  (exists r, prefix_match co sc cs nm text pat = Ok r) /\ (exists r, suffix_match co sc cs nm text pat = Ok r) /\
  (exists r, equal_match co sc cs nm text pat = Ok r).
Proof.
  intros. split; [apply prefix_total_proof|split; [apply suffix_total_proof|apply equal_total_proof]].
Qed.
Print Assumptions anchored_total.

(* non-vacuity: the side conditions are met by the three shipped schemes and by a concrete char_ops *)
Example c02_hypotheses_satisfiable :
  Forall (fun sc => bonusBoundary <= s_bw sc /\ bonusBoundary <= s_bd sc) [scheme_default; scheme_path; scheme_history] /\
  (let co := mkOps (fun c => c) (fun _ => cNonWord) (fun c => c) (fun _ => false) in
   (forall c, c < 192 -> co_norm co c = c) /\ (forall c, 0 <= co_class co c) /\
   fuzzy_v1 co scheme_default false false true true [102;111;111;45;66;97;114] [102;98;114] true
     = Ok (Match 0 7 (align_score co scheme_default [102;111;111;45;66;97;114] [0;4;6]%nat) (Some [0;4;6]%nat))).
Proof.
  split; [repeat constructor; cbn; unfold bonusBoundary; lia|].
  cbn zeta. split; [reflexivity|]. split; [intros; cbn; unfold cNonWord; lia|]. vm_compute. reflexivity.
Qed.
