(* C01 — filtering is exact: the lines shown are the lines satisfying the query.
   Statements only; proofs live in proofs/PatternProofs.v.
   Vocabulary: spec/QuerySpec.v (tokens, groups, classify, sat_query), model/PatternModel.v (parse_terms,
   build_pattern, match_item, filter_model = pattern.go), spec/AlgoSpec.v (the per-kind predicates).
   [matchers_decide co sc] (proofs/PatternProofs.v) is the interface to C02: each matcher of algo.go never fails and
   answers NoMatch exactly when the AlgoSpec predicate of its kind is false (+ normalising twice = once). *)
From Fzf Require Import Prelude AlgoSpec AlgoModel QuerySpec PatternModel PatternProofs PatternInst PatternFinal.
Open Scope Z_scope.

(* parseTerms computes the documented grammar: for EVERY string without a literal TAB and every option
   combination, its result is `classify` applied over the OR-`groups` of the blank-separated `tokens`
   (escaped blanks, stray operators, empty leftovers, leading/trailing/double bars included). *)
Theorem parse_meets_grammar : forall co o s, no_tab s ->
  parse_terms co o s = Ok (map (map term_of) (groups co (qopts_of o) (tokens s))).
Proof. exact parse_meets_grammar_proof. Qed.
Print Assumptions parse_meets_grammar.

(* BuildPattern (extended mode): never fails; the pattern's term sets are the groups of the query. *)
Theorem build_pattern_ext : forall co o q, p_extended o = true -> no_tab q ->
  build_pattern co o q =
  Ok (mkPat o true (p_normalize o) (trim q) (map (map term_of) (query_groups co (qopts_of o) q))).
Proof. exact build_pattern_ext_proof. Qed.
Print Assumptions build_pattern_ext.

(* MatchItem reports a match iff the line satisfies the query — every query (extended or not), every line,
   every combination of --exact / +x / case mode / --literal / --algo / direction / withPos / slab. *)
Theorem match_iff_sat : forall co sc, matchers_decide co sc -> forall o q line wp, domain o q -> line_ok line ->
  exists p m, build_pattern co o q = Ok p /\ match_item co sc p line wp = Ok m /\
              (m <> None <-> sat_query co sc (qopts_of o) q line = true).
Proof. exact match_iff_sat_pk. Qed.
Print Assumptions match_iff_sat.

(* Filtering a list keeps exactly the satisfying lines, in input order (so: as a set under sorting, as a list under +s). *)
Theorem filter_exact : forall co sc, matchers_decide co sc -> forall o q lines, domain o q -> Forall line_ok lines ->
  exists p, build_pattern co o q = Ok p /\
            filter_model co sc p lines = Ok (filter (sat_query co sc (qopts_of o) q) lines).
Proof. exact filter_exact_pk. Qed.
Print Assumptions filter_exact.

(* The interface to C02 is discharged: every matcher of algo.go (V1, V2 for every scratch capacity, exact, boundary,
   prefix, suffix, equal) decides its predicate, under facts about Go's tables that GeneratedCheck_C01 verifies
   for the real code on every run. *)
Theorem matchers_decide_holds : forall co sc,
  (forall c, c < 192 -> co_norm co c = c) -> (forall c, co_norm co (co_norm co c) = co_norm co c) ->
  bonusBoundary <= s_bw sc -> bonusBoundary <= s_bd sc -> (forall c, 0 <= co_class co c) ->
  matchers_decide co sc.
Proof. exact matchers_decide_closed. Qed.
Print Assumptions matchers_decide_holds.

(* ... so filtering IS exact, unconditionally on the matchers: for every option combination (incl. --algo, --exact,
   --no-extended, case mode, --literal, scheme), every query in the domain and every list of lines. *)
Theorem filter_exact_closed : forall co sc,
  (forall c, c < 192 -> co_norm co c = c) -> (forall c, co_norm co (co_norm co c) = co_norm co c) ->
  bonusBoundary <= s_bw sc -> bonusBoundary <= s_bd sc -> (forall c, 0 <= co_class co c) ->
  forall o q lines, domain o q -> Forall line_ok lines ->
  exists p, build_pattern co o q = Ok p /\
            filter_model co sc p lines = Ok (filter (sat_query co sc (qopts_of o) q) lines).
Proof.
  intros co sc H1 H2 H3 H4 H5. exact (filter_exact_pk co sc (matchers_decide_closed co sc H1 H2 H3 H4 H5)).
Qed.
Print Assumptions filter_exact_closed.

(* ... hence no matching line is ever dropped and no non-matching line is ever shown. *)
Theorem filter_no_drop_no_add : forall co sc, matchers_decide co sc -> forall o q lines, domain o q -> Forall line_ok lines ->
  exists p kept, build_pattern co o q = Ok p /\ filter_model co sc p lines = Ok kept /\
    forall l, In l kept <-> In l lines /\ sat_query co sc (qopts_of o) q l = true.
Proof. exact filter_no_drop_no_add_pk. Qed.
Print Assumptions filter_no_drop_no_add.

(* The empty query (or blanks only) keeps every line whatsoever — no assumption on matchers or line. *)
Theorem empty_query_all : forall co sc o q line wp,
  Forall (fun c => c = 32) q -> (p_extended o = false -> q = []) ->
  exists p m, build_pattern co o q = Ok p /\ match_item co sc p line wp = Ok (Some m).
Proof. exact empty_query_all_proof. Qed.
Print Assumptions empty_query_all.

(* Smart case and accent folding are decided per term: every term of the built pattern stems from one token
   of the query, and its caseSensitive / normalize flags are functions of that token alone. *)
Theorem smart_case_per_term : forall co o q p ts t, p_extended o = true -> no_tab q ->
  build_pattern co o q = Ok p -> In ts (pat_sets p) -> In t ts ->
  exists tok, In tok (tokens q) /\
              tm_cs t = case_of co (p_case o) tok /\ tm_nm t = norm_of co (p_normalize o) tok.
Proof. exact smart_case_per_term_proof. Qed.
Print Assumptions smart_case_per_term.

(* (stretch) BuildPattern's trimming is invisible in the token list: sat_query is a function of the raw query. *)
Theorem tokens_trim : forall q, tokens (trim q) = tokens q.
Proof. exact tokens_trim_proof. Qed.
Print Assumptions tokens_trim.

(* ---- non-vacuity ---- *)
(* a small char_ops: É (201) lower-cases to é (233); é normalises to e (101) *)
Definition c01_co := mkOps (fun c => if c =? 201 then 233 else c) (fun _ => cLetter)
                           (fun c => if c =? 233 then 101 else c) (fun _ => false).
Definition c01_o := mkP true true true CaseSmart true true (Some 102400).

(*   'ab | ^Cd$ !\ x  | | é     ->   ('ab OR ^Cd$)  AND  (!" x" OR "|")  AND  é    (a bar right after a bar is a term) *)
Definition c01_q : str := [39;97;98; 32; 124; 32; 94;67;100;36; 32; 33;92;32;120; 32;32; 124; 32; 124; 32; 233].

Example c01_parse_nonvacuous :
  no_tab c01_q /\
  parse_terms c01_co c01_o c01_q =
  Ok [[mkTerm termExact false [97;98] false true; mkTerm termEqual false [67;100] true true];
      [mkTerm termExact true [32;120] false true; mkTerm termFuzzy false [124] false true];
      [mkTerm termFuzzy false [233] false false]].
Proof. split; [apply no_tab_b; reflexivity|vm_compute; reflexivity]. Qed.

(* the hypotheses of match_iff_sat / filter_exact are met, and both verdicts occur *)
Definition c01_q2 : str := [39;97;98; 32; 124; 32; 94;67;100;36; 32; 33;120; 32; 101].       (* 'ab | ^Cd$ !x e *)
Definition c01_l1 : str := [32;67;100;32].                 (* " Cd "    : no 'e'            -> dropped *)
Definition c01_l2 : str := [122;65;66;32;201].             (* "zAB É"   : ab, no x, É ~ e   -> kept *)
Example c01_match_nonvacuous :
  domain c01_o c01_q2 /\ Forall line_ok [c01_l1; c01_l2] /\
  (do p <- build_pattern c01_co c01_o c01_q2; filter_model c01_co scheme_default p [c01_l1; c01_l2]) = Ok [c01_l2] /\
  filter (sat_query c01_co scheme_default (qopts_of c01_o) c01_q2) [c01_l1; c01_l2] = [c01_l2].
Proof.
  split; [intros _; apply no_tab_b; reflexivity|].
  split; [apply Forall_cons; [apply line_ok_b; reflexivity|apply Forall_cons; [apply line_ok_b; reflexivity|apply Forall_nil]]|].
  split; vm_compute; reflexivity.
Qed.

(* each clause of matchers_decide holds on a concrete call (the full clauses are C02's theorems) *)
Example c01_matchers_instance :
  let co := c01_co in let sc := scheme_default in
  let text := [122;65;66;32;201] in
  matcher_ok (fuzzy_v1 co sc false true true false text [122;98] false) (subseq_b co false true text [122;98]) /\
  matcher_ok (fuzzy_v2 co sc false true true false text [122;101] false None) (subseq_b co false true text [122;101]) /\
  matcher_ok (exact_match co sc false true true false false text [97;98]) (substr_b co false true text [97;98]) /\
  matcher_ok (exact_match co sc false true true true false text [97;98]) (boundary_substr_b co sc false true text [97;98]) /\
  matcher_ok (prefix_match co sc false true text [122;97]) (is_some (prefix_spec co false true text [122;97])) /\
  matcher_ok (suffix_match co sc false true text [32;101]) (is_some (suffix_spec co false true text [32;101])) /\
  matcher_ok (equal_match co sc false true text [122;97;98;32;101]) (is_some (equal_spec co false true text [122;97;98;32;101])) /\
  (forall c, co_norm co (co_norm co c) = co_norm co c).
Proof.
  cbv zeta. repeat split; try (eexists; split; [vm_compute; reflexivity|split; (discriminate || reflexivity)]).
  intro c. cbn. destruct (c =? 233) eqn:E; [reflexivity|now rewrite E].
Qed.
