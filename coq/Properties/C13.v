(* C13 - loading and searching run concurrently without interfering
   (and the deterministic core of C08: the matcher request loop and its caches).
   Statements only; proofs live in proofs/ChunkStoreProofs.v, CacheProofs.v, MatcherProofs.v.

   Matching one item is a parameter of everything below (`e_matchf E p x = Some key`): the theorems hold for
   every matching function; the assumptions the chunk cache needs about it are stated where used
   (`monotone`, `key_determines`). *)
From Coq Require Import Permutation Sorted.
(* the pattern layer (C01) is imported first, so that nothing below changes its meaning *)
From Fzf Require Import AlgoSpec AlgoModel QuerySpec PatternModel PatternKeyModel PatternProofs PatternFinal
                        PatternMonoBasics PatternMonotone PatternMonoExamples.
From Fzf Require Import Prelude RankSpec RankModel MergerModel RankProofs MergerProofs.
From Fzf Require Import SearchSpec ChunkStoreModel CacheModel MatcherModel ChunkStoreProofs CacheProofs MatcherProofs ViewProofs.
Open Scope Z_scope.

(* ================= chunk list / chunk store ================= *)

(* Whatever is done to the list after a snapshot was taken (pushes, rejected pushes, clears, further snapshots with or
   without --tail), dereferencing the snapshot through the store yields the same cells - items and counts - as
   when it was taken.  The list is any list reachable from the empty one. *)
Theorem snapshot_immutable : forall (item : Type) (before : list (cop item)) (tail : nat) (after : list (cop item))
    (cl : clist item) (r : snap_result item) (cl' : clist item),
  crun1 cl_empty before = Ok cl -> snapshot cl tail = Ok r -> crun1 (sn_cl r) after = Ok cl' ->
  exists cells, deref_all (cl_store (sn_cl r)) (sn_ids r) = Ok cells /\
                deref_all (cl_store cl') (sn_ids r) = Ok cells.
Proof. exact snapshot_immutable_proof. Qed.

(* cache_only_full_chunks, store half: a cell that holds chunkSize items is never written again. *)
Theorem full_never_mutated : forall (item : Type) (before after : list (cop item)) (cl cl' : clist item) id c,
  crun1 cl_empty before = Ok cl -> get (cl_store cl) id = Ok c -> length c = chunk_size ->
  crun1 cl after = Ok cl' -> get (cl_store cl') id = Ok c.
Proof. exact full_never_mutated_proof. Qed.

(* cache_only_full_chunks, cache half: whatever Add / AddIfCurrent inserts belongs to a FULL chunk, has at most
   queryCacheMax results and a non-empty key. *)
Theorem cache_only_full_chunks : forall (R : Type) g (c : cache R) clen id key l e,
  In e (c_entries (cache_add_gen g c clen id key l)) -> ~ In e (c_entries c) ->
  clen = chunk_size /\ (length l <= query_cache_max)%nat /\ key <> [].
Proof. exact cache_add_only_full_proof. Qed.

(* shape_reachable: every chunk list reachable from the empty one by Push / rejected Push / Clear / Snapshot(tail)
   satisfies the store invariant and the SHAPE invariant: every chunk but the first and the last is full
   (after a --tail trim the first may be partial: the trim loop only ever cuts the first kept chunk). *)
Theorem shape_reachable : forall (item : Type) (ops : list (cop item)) (cl : clist item),
  crun1 cl_empty ops = Ok cl -> inv item cl /\ shape item cl.
Proof. exact shape_reachable_proof. Qed.

(* counts_consistent: the count returned with a snapshot of ANY reachable list, with or without --tail, is the
   number of items the snapshot dereferences to (CountItems' formula first + chunkSize*(n-2) + last is exact because
   the snapshot has the shape above). *)
Theorem counts_consistent : forall (item : Type) (before : list (cop item)) tail (cl : clist item) (r : snap_result item) cells,
  crun1 cl_empty before = Ok cl -> snapshot cl tail = Ok r ->
  deref_all (cl_store (sn_cl r)) (sn_ids r) = Ok cells ->
  sn_count r = length (concat cells) /\ mid_full (map (@length item) cells).
Proof. exact counts_consistent_proof. Qed.

(* ================= chunk cache as used by Pattern.Match ================= *)
Section Statements.
  Context {item pat : Type}.
  Variable E : penv item pat.
  Variable content : nat -> list item.   (* the items of the FULL chunk with a given identity (full_never_mutated) *)

  (* narrowing_sound: matching only the candidates Search returns = matching the whole chunk. *)
  Theorem narrowing_sound : forall (c : cache (item * Z)) (p' : pat) id xs space,
    monotone E -> cache_inv E content c -> e_pgen E p' = c_gen c -> chunk_ok content (id, xs) ->
    cache_search c (length xs) id (e_ckey E p') = Some space ->
    match_items E p' (map fst space) = match_items E p' xs.
  Proof. exact (narrowing_sound_proof E content). Qed.

  (* cache_inv is preserved by Pattern.Match (Lookup / Search / matchChunk / AddIfCurrent), whose answer is the
     uncached one - the cache is unobservable.  `gen_ok`: the pattern is of the cache's generation, or the cache
     is empty (a pattern built before Invalidate, still being matched by a worker). *)
  Theorem cache_inv_preserved : forall (c : cache (item * Z)) (p : pat) ch,
    rules_are_fixed E -> monotone E -> key_determines E -> cache_inv E content c -> gen_ok E p c -> chunk_ok content ch ->
    fst (pattern_match E c p ch) = match_items E p (snd ch) /\
    cache_inv E content (snd (pattern_match E c p ch)) /\ gen_ok E p (snd (pattern_match E c p ch)) /\
    c_gen (snd (pattern_match E c p ch)) = c_gen c.
  Proof. exact (pattern_match_sound E content). Qed.

  (* stale_add_ignored: a pattern built under an older cache generation leaves the cache exactly as it is. *)
  Theorem stale_add_ignored : forall (c : cache (item * Z)) (p : pat) ch,
    rules_are_fixed E -> e_pgen E p <> c_gen c -> snd (pattern_match E c p ch) = c.
  Proof. exact (stale_add_ignored_proof E). Qed.

  (* ================= scan ================= *)
  (* scan_all_or_nothing: for EVERY schedule (interleaving of worker steps with their cache reads/writes, count
     receptions, posts of new requests, cache invalidations; complete or not), scan has either not returned, or
     returned "cancelled" with nothing - and then a reset request is in the mailbox -, or returned the complete
     partition results of exactly the request's chunks; the cache invariant holds throughout. *)
  Theorem scan_all_or_nothing : forall (p : pat) (sorted : bool) (c : cache (item * Z)) (b : box) chunks sched,
    rules_are_fixed E -> monotone E -> key_determines E ->
    cache_inv E content c -> gen_ok E p c -> Forall (chunk_ok content) chunks ->
    let st := srun E p sorted (sinit E c b chunks) sched in
    cache_inv E content (s_cache st) /\ gen_ok E p (s_cache st) /\
    match s_phase st with
    | PRet (Some outs) => outs = lists_spec E p sorted (map snd chunks)
    | PRet None => box_has_reset (s_box st) = true
    | _ => True
    end.
  Proof. intros p sorted c b chunks sched H1 H2 H3. exact (scan_all_or_nothing_proof E content p sorted H1 H2 H3 c b chunks sched). Qed.

  (* ================= Loop ================= *)
  (* loop_fresh / publish_matches_request: for EVERY event history (posts, invalidations, iterations with arbitrary
     scan schedules) in which each served request is coherent with the earlier ones (`hist_ok`: within a revision
     equal counts mean equal contents, one query string is one pattern, full chunks keep their items, pattern
     generations do not go backwards), every merger ever published is the uncached sequential scan of the very
     request it was published for (with that request's pattern, sort flag, revision and final flag). *)
  Theorem loop_fresh : forall es st st',
    rules_are_fixed E -> monotone E -> key_determines E ->
    linv E content st -> hist_ok E content st es -> lrun E st es = Ok st' ->
    linv E content st' /\ forall r m, In (r, m) (l_pubs st') -> m = set_final (scan_spec E r) (r_final r).
  Proof. intros es st st' H1 H2 H3. exact (loop_fresh_proof E content H1 H2 H3 es st st'). Qed.

  (* what such a merger contains: exactly the matches of the request's own snapshot (as a permutation when the
     partitions were sorted; literally, in input order, when not) *)
  Theorem publish_matches_request : forall (r : request) f,
    match mg_body (set_final (scan_spec E r) f) with
    | MPass xss => e_empty E (r_pat r) = true /\ concat xss = snapshot_items r
    | MLists lists sorted =>
        (r_chunks r = [] \/ e_empty E (r_pat r) = false) /\
        (r_chunks r <> [] -> sorted = (r_sort r && e_sortable E (r_pat r))%bool) /\
        Permutation (concat lists) (matches_of (e_matchf E) (r_pat r) (snapshot_items r)) /\
        (sorted = false -> concat lists = matches_of (e_matchf E) (r_pat r) (snapshot_items r))
    end.
  Proof. exact (fresh_contents_proof E). Qed.

  (* publish_view: what such a merger SHOWS, top to bottom (merger_view: the rank order of everything it holds when
     sorted, the concatenation otherwise, reversed under tac where Merger.Get reverses), is the sequential oracle
     of its own request - rank order when sorting is on and the query has a positive term, input order otherwise,
     all items for the empty query.  Bridging assumption for the ranked case: item indexes identify items
     (`idx_injective`: Item.Index() is the ordinal of the input line), which makes the order behind compareRanks
     (`rank_strict`) a strict TOTAL order; compareRanks itself (`rank_before`) is sound for it unconditionally. *)
  Theorem publish_view : forall (r : request) f, idx_injective E ->
    merger_view E (set_final (scan_spec E r) f) =
    oracle (e_idx E) (e_matchf E) (e_empty E) (e_sortable E) (r_sort r) (e_tac E) (r_pat r) (snapshot_items r).
  Proof. exact (publish_view_proof E). Qed.

  (* publish_view_ranked: the same through C04's model of merger.go (MergerModel, used unchanged; its theorem
     merge_is_global_sort is generic in `less`): for a fresh ranked merger, ANY sequence of in-range Get(i) calls on
     NewMerger(lists, sorted, tac) - the lazy k-way merge with cursors - never fails and returns, at every position,
     the item the oracle has there. *)
  Theorem publish_view_ranked : forall (I : Type) (mk : I -> item * Z) (chunk_size : Z)
      (r : request) f lists (idxs : list Z),
    idx_injective E -> mg_body (set_final (scan_spec E r) f) = MLists lists true ->
    in_range (zlength (concat lists)) idxs ->
    exists xs, probes I (item * Z)%type mk (rank_before (e_idx E) (e_tac E)) chunk_size
                      (new_merger I (item * Z)%type lists true (e_tac E)) idxs = Ok xs /\
               Forall2 (fun i x => get (oracle (e_idx E) (e_matchf E) (e_empty E) (e_sortable E) (r_sort r) (e_tac E)
                                               (r_pat r) (snapshot_items r)) (Z.to_nat i) = Ok (fst x)) idxs xs.
  Proof. exact (publish_view_ranked_proof E). Qed.

  (* the bridge itself *)
  Theorem rank_order_bridge : forall tac,
    less_sound (rank_strict E tac) (rank_before (e_idx E) tac) /\
    (idx_injective E -> strict_total (rank_strict E tac)).
  Proof. intro tac. split; [apply rank_before_sound | apply rank_strict_total]. Qed.

  (* last_request_wins: for every history, once the mailbox is empty the newest publication belongs to the LAST
     request that was posted (with loop_fresh: and is its fresh scan). *)
  Theorem last_request_wins : forall es sort rev st r,
    rules_are_fixed E ->
    lrun E (linit sort rev) es = Ok st -> box_is_empty (l_box st) = true ->
    posted E (linit sort rev) es None = Some r -> exists m rest, l_pubs st = (r, m) :: rest.
  Proof. intros es sort rev st r H. exact (last_request_wins_proof E H es sort rev st r). Qed.
End Statements.

Print Assumptions snapshot_immutable.
Print Assumptions full_never_mutated.
Print Assumptions cache_only_full_chunks.
Print Assumptions shape_reachable.
Print Assumptions counts_consistent.
Print Assumptions narrowing_sound.
Print Assumptions cache_inv_preserved.
Print Assumptions stale_add_ignored.
Print Assumptions scan_all_or_nothing.
Print Assumptions loop_fresh.
Print Assumptions publish_matches_request.
Print Assumptions publish_view.
Print Assumptions publish_view_ranked.
Print Assumptions rank_order_bridge.
Print Assumptions last_request_wins.

(* ================= the assumptions about the matching function, for fzf's own Pattern ================= *)
(* `monotone` and `key_determines` were assumptions of the theorems above.  For fzf's own patterns they are theorems.

   [fz_env co sc o cin tac parts] (proofs/PatternMonotone.v) is the environment in which
     a pattern is a query (ANY string of runes, a literal TAB included) + the cache generation it was built under;
     an item is an index + ANY string of runes;
     e_matchf p x   = Pattern.MatchItem of C01's model of pattern.go (BuildPattern + parseTerms + extendedMatch /
                      basicMatch over the matchers of algo.go) on the whole line: Some score when it matches;
     e_cacheable p  = Pattern.cacheable as BuildPattern's loop computes it (model/PatternKeyModel.v) from its `cacheable`
                      argument [cin] (opts.Filter == nil);   e_ckey p = Pattern.CacheKey() (buildCacheKey);
     the search options [o] (--exact, --algo, +x, case mode, --literal, slab size) are those of the session.
   Hypotheses, all about Go's character tables / the scoring scheme, none about fzf's code:
     the four of C01's matchers_decide_holds (normalizeRune is the identity below U+00C0, bonuses, classes), and
     [fold_laws co]: six laws relating unicode.ToLower and normalizeRune (see proofs/PatternMonoBasics.v) - e.g.
     "normalisation never turns an upper-case letter into a lower-case one", "neither function produces a TAB".
     They hold for every rune 0..0x10FFFF of Go's tables (checked on every run by the harness: c13mono.go). *)
Theorem monotone_of_fzf_patterns : forall (co : char_ops) (sc : scheme) (o : popts) (cin tac : bool) (parts : nat),
  fold_laws co -> (forall c, c < 192 -> co_norm co c = c) ->
  bonusBoundary <= s_bw sc -> bonusBoundary <= s_bd sc -> (forall c, 0 <= co_class co c) ->
  (p_extended o = true \/ basic_law co) ->
  monotone (fz_env co sc o cin tac parts).
Proof.
  intros co sc o cin tac parts HL H1 H2 H3 H4 H5. apply monotone_fzf; [exact HL| |exact H5].
  apply matchers_decide_closed; auto. apply (fl_idem co HL).
Qed.

Theorem key_determines_of_fzf_patterns : forall (co : char_ops) (sc : scheme) (o : popts) (cin tac : bool) (parts : nat),
  fold_laws co -> key_determines (fz_env co sc o cin tac parts).
Proof. exact key_determines_fzf. Qed.

(* ... and nothing narrower than the code's `cacheable` was assumed: in extended mode the model's flag is true exactly
   when BuildPattern was told so and every group of the parsed query is ONE positive term of the session's plain
   kind (fuzzy, or exact under --exact); such a term is its whole token, folded (classify_plain). *)
Theorem fzf_cacheable_exact : forall (co : char_ops) (o : popts) (cin : bool) (p : fzpat), p_extended o = true ->
  (fz_prop co o (pat_cacheable cin) false p = true <->
   cin = true /\ forall g, In g (gs_of co o (fq p)) ->
                 exists t, g = [t] /\ t_inv t = false /\ t_kind t = plain_kind (qopts_of o)).
Proof. exact cacheable_exact. Qed.

(* Hence, under extended-search mode, Pattern.Match through the ChunkCache IS the uncached filter and keeps the cache
   invariant, with no assumption left about the matching function (cache_inv_preserved, instantiated). *)
Theorem fzf_cache_unobservable : forall (co : char_ops) (sc : scheme) (o : popts) (cin tac : bool) (parts : nat)
    (content : nat -> list fzitem) (c : cache (fzitem * Z)) (p : fzpat) ch,
  let E := fz_env co sc o cin tac parts in
  fold_laws co -> (forall c, c < 192 -> co_norm co c = c) ->
  bonusBoundary <= s_bw sc -> bonusBoundary <= s_bd sc -> (forall c, 0 <= co_class co c) ->
  p_extended o = true ->
  cache_inv E content c -> gen_ok E p c -> chunk_ok content ch ->
  fst (pattern_match E c p ch) = match_items E p (snd ch) /\
  cache_inv E content (snd (pattern_match E c p ch)) /\ gen_ok E p (snd (pattern_match E c p ch)) /\
  c_gen (snd (pattern_match E c p ch)) = c_gen c.
Proof.
  intros co sc o cin tac parts content c p ch E HL H1 H2 H3 H4 He Hinv Hgen Hok.
  apply (pattern_match_sound E content); auto.
  - reflexivity.
  - apply monotone_of_fzf_patterns; auto.
  - apply key_determines_of_fzf_patterns; auto.
Qed.

(* FINDING.  Under --no-extended (+x) `monotone` is FALSE, for a character table that agrees with Go's on
   U+0130 (İ: ToLower = i, normalizeRune = I) and U+00E9 (é -> e) and satisfies every hypothesis above:
   the pattern text is not normalised under +x, so the query "İ" (case-sensitive by smart case, accent-folding because
   its lower-casing has no accent) matches nothing, while "İé" (an accent: compared literally) matches the line "İé";
   the cache key "İ" is a proper prefix of the key "İé", so Search narrows "İé" to the (empty) cached result of "İ". *)
Theorem monotone_basic_refuted :
  let E := fz_env mono_co scheme_default (mono_o false) true false 8 in
  let p := mkFzPat [304] 0 in
  let p' := mkFzPat [304; 233] 0 in
  let x := mk_item 0 [304; 233] eq_refl in
  fold_laws mono_co /\ matchers_decide mono_co scheme_default /\
  sub_query E p' p /\ e_matchf E p' x <> None /\ e_matchf E p x = None /\ ~ monotone E.
Proof. exact monotone_basic_refuted_proof. Qed.

Print Assumptions monotone_of_fzf_patterns.
Print Assumptions key_determines_of_fzf_patterns.
Print Assumptions fzf_cacheable_exact.
Print Assumptions fzf_cache_unobservable.
Print Assumptions monotone_basic_refuted.

(* non-vacuity: the hypotheses are satisfiable together (mono_co, the default scheme), "ab" is cacheable, its key is a
   proper prefix of the keys of "abc" and of the non-cacheable "'abC", all three match "xabCx" *)
Example monotone_of_fzf_patterns_nonvacuous :
  let E := fz_env mono_co scheme_default (mono_o true) true false 8 in
  let p := mkFzPat [97; 98] 0 in
  let p1 := mkFzPat [97; 98; 99] 0 in
  let p2 := mkFzPat [39; 97; 98; 67] 0 in
  let x := mk_item 7 [120; 97; 98; 67; 120] eq_refl in
  fold_laws mono_co /\ matchers_decide mono_co scheme_default /\
  sub_query E p1 p /\ sub_query E p2 p /\
  e_cacheable E p2 = false /\ e_ckey E p2 = [97; 98; 67] /\
  e_matchf E p2 x <> None /\ e_matchf E p1 x <> None /\ e_matchf E p x <> None.
Proof. exact mono_nonvacuous_proof. Qed.

(* "ab c" and " ab  c " are different patterns (mergerCache keys differ) with the same cache key "ab\tc" *)
Example key_determines_of_fzf_patterns_nonvacuous :
  let E := fz_env mono_co scheme_default (mono_o true) true false 8 in
  let p1 := mkFzPat [97; 98; 32; 99] 0 in
  let p2 := mkFzPat [32; 97; 98; 32; 32; 99; 32] 0 in
  let x := mk_item 7 [99; 97; 120; 98] eq_refl in
  e_pgen E p1 = e_pgen E p2 /\ e_cacheable E p1 = true /\ e_cacheable E p2 = true /\
  e_ckey E p1 = [97; 98; 9; 99] /\ e_ckey E p2 = [97; 98; 9; 99] /\
  e_pkey E p1 <> e_pkey E p2 /\ e_matchf E p1 x = e_matchf E p2 x /\ e_matchf E p1 x <> None.
Proof. exact keydet_nonvacuous_proof. Qed.

(* the law --no-extended would need is false of mono_co exactly where it is false of Go's table *)
Example basic_law_fails_at_U0130 : ~ basic_law mono_co.
Proof. exact mono_co_not_basic. Qed.

(* UNPROVED (nothing of C13's theorem list is left open; what remains is assumed, and named where used):
   UNPROVED hist_ok_from_coordinator : the requests core.go sends satisfy `hist_ok` (coordinator model: C08's CoordModel)
     What `req_ok` asks of a request, clause by clause, against C08's CoordModel and its 23-clause `Inv`:
     (1) Forall chunk_ok (r_chunks req)  - a full chunk of a request holds `content id`.  Not a coordinator fact: CoordModel's
         chunk list is a list of items without identities.  It is the composition of snapshot_immutable / full_never_mutated
         above with "the chunks of a request are a Snapshot"; that composition is not written.
     (2) coherent: within one revision, equal counts mean equal items, and one query string is one pattern.  True of every
         CoordModel schedule (LPush only appends, restart empties the list AND bumps the major revision, a changed --nth /
         denylist bumps the minor one, a snapshot copies the list together with its revision) but NOT a consequence of `Inv`,
         whose clauses order the request ids (i_c1..i_c6, i_b*: the counterpart of rule_seq / last_request_wins) and bound
         the snapshot revision (i_srev): a history invariant over all requests posted so far is needed.
     (3) l_glast <= pgen (r_pat req) <= c_gen cache: cache generations (ChunkCache.Invalidate before the patterns of a new
         --nth / denylist are built, patterns built on the coordinator's goroutine in Matcher.Reset) do not exist in
         CoordModel at all.
   NOT A THEOREM: data-race freedom of the Go code (race detector, thorough tier; known finding R1).
   monotone / key_determines: proved for fzf's Pattern above (whole-line matching; --nth / --with-nth token matching
   is outside C01's pattern model); monotone under --no-extended: refuted (monotone_basic_refuted). *)

(* ================= non-vacuity and regression witnesses ================= *)
Section Examples.
  (* items are numbers; a pattern is just its cache generation: generation 0 matches 0..4, later ones 5..9
     (think of --nth changed in between); every pattern has the query string and cache key "a" *)
  Definition ex_env (rl : rules) : penv Z nat :=
    mkEnv (fun x => x)
          (fun g x => if Nat.eqb g 0 then (if x <? 5 then Some x else None)
                      else (if (5 <=? x) && (x <? 10) then Some x else None))
          (fun _ => [97]) (fun _ => [97]) (fun g => g) (fun _ => true) (fun _ => true) (fun _ => false) rl false 2.
  Definition items100 : list Z := map Z.of_nat (seq 0 100).
  Definition ex_content (id : nat) : list Z := items100.
  Definition full_chunk : nat * list Z := (0%nat, items100).
  Definition ex_req (chunks : list (nat * list Z)) (g : nat) (rev : revision) : @request Z nat := mkReq chunks g true true rev.

  Lemma ex_monotone rl : monotone (ex_env rl).
  Proof.
    intros p' p x (Hg & _ & _) H. cbn in *. subst. exact H.
  Qed.
  Lemma ex_key_determines rl : key_determines (ex_env rl).
  Proof. intros p1 p2 x Hg _ _ _. cbn in *. now subst. Qed.

  (* the hypotheses of loop_fresh are met by a history that exercises the chunk cache: the second request is
     answered from the mergerCache, the third (after more input) through a chunk-cache hit on the full chunk *)
  Example c13_nonvacuous :
    let E := ex_env rules_fixed in
    let r1 := ex_req [full_chunk] 0%nat (0, 0) in
    let r2 := ex_req [full_chunk; (1%nat, [100; 101])] 0%nat (0, 0) in
    let es := [EPost false r1; EIter true (fair_sched E (r_chunks r1));
               EPost true r1; EIter true [];
               EPost false r2; EIter true (fair_sched E (r_chunks r2))] in
    rules_are_fixed E /\ monotone E /\ key_determines E /\
    hist_ok E ex_content (linit true (0, 0)) es /\
    exists st, lrun E (linit true (0, 0)) es = Ok st /\
      map (fun rm => merger_view E (snd rm)) (l_pubs st) = [[0; 1; 2; 3; 4]; [0; 1; 2; 3; 4]; [0; 1; 2; 3; 4]] /\
      length (c_entries (m_cache (l_m st))) = 1%nat.
  Proof.
    cbv zeta. split; [reflexivity|]. split; [apply ex_monotone|]. split; [apply ex_key_determines|]. split.
    - cbn [hist_ok]. split; [exact I|]. intros st1 H1. vm_compute in H1. inversion H1; subst; clear H1.
      split.
      { intros req Ht. vm_compute in Ht. inversion Ht; subst; clear Ht.
        split; [repeat constructor|]. split; [intros r' m' []|]. split; cbn; lia. }
      intros st2 H2. vm_compute in H2. inversion H2; subst; clear H2.
      split; [exact I|]. intros st3 H3. vm_compute in H3. inversion H3; subst; clear H3.
      split.
      { intros req Ht. vm_compute in Ht. inversion Ht; subst; clear Ht.
        split; [repeat constructor|]. split; [|split; cbn; lia].
        intros r' m' [Hin|[]] _ _ _. inversion Hin; subst. split; reflexivity. }
      intros st4 H4. vm_compute in H4. inversion H4; subst; clear H4.
      split; [exact I|]. intros st5 H5. vm_compute in H5. inversion H5; subst; clear H5.
      split.
      { intros req Ht. vm_compute in Ht. inversion Ht; subst; clear Ht.
        split; [repeat constructor; cbn; intro Hl; try reflexivity; vm_compute in Hl; discriminate|].
        split; [|split; cbn; lia].
        intros r' m' Hin _ Hcnt _. exfalso.
        destruct Hin as [Hin|[Hin|[]]]; inversion Hin; subst; vm_compute in Hcnt; discriminate. }
      intros st6 H6. exact I.
    - eexists. split; [vm_compute; reflexivity|]. split; vm_compute; reflexivity.
  Qed.

  (* loop_fresh_refuted_old: with prevCount updated only when the count differed (before e15c39a), the requests
     (3 items, rev 0.0) (1 item, rev 1.0) (3 items, rev 1.0), same query, make the third publication the merger of
     the SECOND request: not the scan of its own request.  (The history is coherent: rev 1.0 only grew.) *)
  Example loop_fresh_refuted_old :
    let E := ex_env (mkRules false true true) in
    let r1 := ex_req [(0%nat, [0; 1; 2])] 0%nat (0, 0) in
    let r2 := ex_req [(1%nat, [3])] 0%nat (1, 0) in
    let r3 := ex_req [(2%nat, [3; 4; 7])] 0%nat (1, 0) in
    let es := [EPost false r1; EIter true (fair_sched E (r_chunks r1));
               EPost false r2; EIter true (fair_sched E (r_chunks r2));
               EPost false r3; EIter true (fair_sched E (r_chunks r3))] in
    exists st m rest, lrun E (linit true (0, 0)) es = Ok st /\ l_pubs st = (r3, m) :: rest /\
      merger_view E m = [3] /\ merger_view E (set_final (scan_spec E r3) true) = [3; 4] /\
      m <> set_final (scan_spec E r3) (r_final r3) /\
      (* the repaired rule publishes the right thing on the same history *)
      (exists st', lrun (ex_env rules_fixed) (linit true (0, 0)) es = Ok st' /\
                   map (fun rm => merger_view E (snd rm)) (l_pubs st') = [[3; 4]; [3]; [0; 1; 2]]).
  Proof.
    cbv zeta. eexists. eexists. eexists. split; [vm_compute; reflexivity|]. split; [reflexivity|].
    split; [vm_compute; reflexivity|]. split; [vm_compute; reflexivity|]. split; [vm_compute; discriminate|].
    eexists. split; vm_compute; reflexivity.
  Qed.

  (* last_request_wins_refuted_old: when the map iteration decided (before afab7e8): Reset(retry, q1); Reset(reset, q2);
     the loop wakes up and may visit the reset slot first: q1 is published, q2 - the newer one - is dropped. *)
  Example last_request_wins_refuted_old :
    let E := ex_env (mkRules true false true) in
    let q1 := ex_req [(0%nat, [0; 1; 2])] 0%nat (0, 0) in
    let q2 := ex_req [(1%nat, [0; 1; 2; 3])] 0%nat (0, 0) in
    let es := [EPost false q1; EPost true q2; EIter false (fair_sched E (r_chunks q1))] in
    exists st m rest, lrun E (linit true (0, 0)) es = Ok st /\ box_is_empty (l_box st) = true /\
      posted E (linit true (0, 0)) es None = Some q2 /\ l_pubs st = (q1, m) :: rest /\ q1 <> q2 /\
      (* the repaired rule serves q2 whatever the iteration order *)
      (exists st' m', lrun (ex_env rules_fixed) (linit true (0, 0)) es = Ok st' /\ l_pubs st' = [(q2, m')]).
  Proof.
    cbv zeta. eexists. eexists. eexists. split; [vm_compute; reflexivity|]. split; [reflexivity|].
    split; [vm_compute; reflexivity|]. split; [reflexivity|]. split; [discriminate|].
    eexists. eexists. split; vm_compute; reflexivity.
  Qed.

  (* cache_pollution_refuted_old: with the unconditional Add (before 2b9f419): the cache is invalidated (generation 1,
     empty); a worker still matching with the generation-0 pattern adds its result; the generation-1 pattern with
     the same query string is then answered from that entry: 0..4 instead of 5..9.  With AddIfCurrent it is not. *)
  Example cache_pollution_refuted_old :
    let Eold := ex_env (mkRules true true false) in
    let Enew := ex_env rules_fixed in
    let c1 : cache (Z * Z) := cache_invalidate cache_new in
    cache_inv Eold ex_content c1 /\
    map fst (fst (pattern_match Eold (snd (pattern_match Eold c1 0%nat full_chunk)) 1%nat full_chunk)) = [0; 1; 2; 3; 4] /\
    map fst (match_items Eold 1%nat items100) = [5; 6; 7; 8; 9] /\
    map fst (fst (pattern_match Enew (snd (pattern_match Enew c1 0%nat full_chunk)) 1%nat full_chunk)) = [5; 6; 7; 8; 9] /\
    snd (pattern_match Enew c1 0%nat full_chunk) = c1.
  Proof.
    cbv zeta. split; [apply cache_inv_invalidate|]. repeat split; vm_compute; reflexivity.
  Qed.
  (* counts_consistent / shape_reachable on a --tail trim: 150 pushes (chunks of 100 and 50), Snapshot(tail = 120):
     the first chunk is cut to its last 70 items, the snapshot reports 120 = 70 + 50, and reads items 30..149 *)
  Example c13_counts_nonvacuous :
    let ops := map (@CPush nat) (seq 0 150) ++ [CSnap 120] in
    exists cl snap cells, crun (cl_empty, []) ops = Ok (cl, [snap]) /\ crun1 cl_empty ops = Ok cl /\
      deref_all (cl_store cl) (sn_ids snap) = Ok cells /\
      sn_count snap = 120%nat /\ sn_changed snap = true /\ map (@length nat) cells = [70; 50]%nat /\
      concat cells = seq 30 120.
  Proof.
    cbv zeta. eexists. eexists. eexists. split; [vm_compute; reflexivity|].
    split; [vm_compute; reflexivity|]. split; [vm_compute; reflexivity|]. repeat split; vm_compute; reflexivity.
  Qed.

  (* publish_view / publish_view_ranked: a ranked merger over two partitions; random-access Get calls on C04's
     merger model return the oracle's items *)
  Example c13_view_nonvacuous :
    let E := ex_env rules_fixed in
    let r := ex_req [(0%nat, [4; 9; 1]); (1%nat, [3; 0; 7])] 0%nat (0, 0) in
    idx_injective E /\
    mg_body (set_final (scan_spec E r) true) = MLists [[(1, 1); (4, 4)]; [(0, 0); (3, 3)]] true /\
    merger_view E (set_final (scan_spec E r) true) = [0; 1; 3; 4] /\
    oracle (e_idx E) (e_matchf E) (e_empty E) (e_sortable E) true false 0%nat (snapshot_items r) = [0; 1; 3; 4] /\
    probes Z (Z * Z)%type (fun x => (x, 0)) (rank_before (e_idx E) false) 100
           (new_merger Z (Z * Z)%type [[(1, 1); (4, 4)]; [(0, 0); (3, 3)]] true false) [3; 0; 2; 0]
      = Ok [(4, 4); (0, 0); (3, 3); (0, 0)].
  Proof.
    cbv zeta. split; [intros x y H; exact H|]. repeat split; vm_compute; reflexivity.
  Qed.
End Examples.

(* ================= item text and the display ("items never change after they have been read") =================
   Statements only; proofs live in proofs/TextStoreProofs.v.  Memory is an append-only store of backing arrays, a slice
   is (array, offset, length), append writes in place while the capacity lasts (model/TextStoreModel.v).  The width of
   a character (`ovf`, util.RunesWidth) is a parameter: the theorems hold for every width function. *)
From Fzf Require Import TextStoreModel TextStoreProofs DisplaySpec.

(* display_never_writes_item: Terminal.itemLines (the plain single-line list, --read0 multi-line items, --wrap) hands
   the renderer lines that live in arrays allocated by the call.  WHATEVER the holder of those lines then does with
   them - re-slicing, append (printHighlighted's append(line[:n], ellipsis...)), assigning elements, in any order and
   any number of times - every array that existed before the call is unchanged: the text of the displayed item and
   of every other item reads the same, in both representations (bytes, runes). *)
Theorem display_never_writes_item : forall ovf (m : tmem) (ch : chars) (wrap multiLine : bool) (atMost wrapCols signW tabstop : Z)
    m1 lines overflow (prog : list pop) m2 regs,
  item_lines ovf true m ch wrap multiLine atMost wrapCols signW tabstop = Ok (m1, lines, overflow) ->
  prun m1 lines prog = Ok (m2, regs) ->
  firstn (length m) m2 = m /\
  forall it : chars, (sl_cell (ch_sl it) < length m)%nat -> chars_text m2 it = chars_text m it.
Proof. exact display_never_writes_item_proof. Qed.

(* lines_never_alias: the same for Chars.Lines itself with arbitrary arguments (numItemLines, the header, previews). *)
Theorem lines_never_alias : forall ovf (m : tmem) (ch : chars) (multiLine : bool) (maxLines wrapCols signW tabstop : Z)
    m1 lines overflow (prog : list pop) m2 regs,
  chars_lines ovf true m ch multiLine maxLines wrapCols signW tabstop = Ok (m1, lines, overflow) ->
  prun m1 lines prog = Ok (m2, regs) ->
  firstn (length m) m2 = m /\
  forall it : chars, (sl_cell (ch_sl it) < length m)%nat -> chars_text m2 it = chars_text m it.
Proof. exact lines_never_alias_proof. Qed.

(* the display-side spec evaluated on a running fzf means what it says: no reported item differs from the record that
   was read / the literal exact filter lists exactly the items in which the query occurs, in input order *)
Theorem changed_items_none : forall orig reported,
  changed_items orig reported = [] <->
  forall i t, In (i, t) reported -> 0 <= i /\ nth_error orig (Z.to_nat i) = Some t.
Proof. exact changed_items_none_proof. Qed.

Theorem substr_filter_spec : forall q items first i,
  In i (substr_filter q first items) <->
  exists k t, nth_error items k = Some t /\ i = first + Z.of_nat k /\ exists a b, t = a ++ q ++ b.
Proof.
  intros q items first i. rewrite substr_filter_spec_proof.
  split; intros [k [t [H1 [H2 H3]]]]; exists k, t; (split; [exact H1 | split; [exact H2 | apply contains_iff_proof; exact H3]]).
Qed.

Print Assumptions display_never_writes_item.
Print Assumptions lines_never_alias.
Print Assumptions changed_items_none.
Print Assumptions substr_filter_spec.

Section DisplayExamples.
  (* non-vacuity: "héllo wörld" + '\n' + "second line", rune-backed (array of 26 for 24 runes), shown with --wrap at
     8 columns: 4 lines; the holder truncates the first one as printHighlighted does and overwrites an element;
     the item reads the same afterwards *)
  Example display_nonvacuous :
    let t := [104; 233; 108; 108; 111; 32; 119; 246; 114; 108; 100; 10; 115; 101; 99; 111; 110; 100; 32; 108; 105; 110; 101; 33] in
    let m : tmem := [t ++ [0; 0]] in
    let it := mkChars false (mkSl 0 0 24) in
    exists m1 lines m2 regs,
      item_lines simple_ovf true m it true true 10 8 2 8 = Ok (m1, lines, false) /\ length lines = 4%nat /\
      prun m1 lines [PSub 0 0 4; PApp 4 [183; 183]; PSet 1 0 63] = Ok (m2, regs) /\
      map (fun s => sl_read m2 s) regs =
        [Ok [104; 233; 108; 108; 183; 183; 119; 246]; Ok [63; 108; 100; 10]; Ok [115; 101; 99; 111; 110; 100; 32; 108];
         Ok [105; 110; 101; 33]; Ok [104; 233; 108; 108]; Ok [104; 233; 108; 108; 183; 183]] /\
      chars_text m2 it = Ok t.
  Proof.
    cbv zeta. do 4 eexists.
    split; [vm_compute; reflexivity|]. split; [vm_compute; reflexivity|].
    split; [vm_compute; reflexivity|]. split; vm_compute; reflexivity.
  Qed.

  (* display_alias_refuted: WITHOUT the copy (text := chars.ToRunes()), a rune-backed item shown as one multi-line
     entry is reachable from the line the renderer truncates: append(line[:4], '·', '·') lands in the item's own
     array and the item no longer reads "héllo world".  (A byte-backed item is safe either way: bytes_never_alias.) *)
  Example display_alias_refuted :
    exists m1 lines ov m2 regs,
      item_lines simple_ovf false alias_mem alias_item false true 10 0 2 8 = Ok (m1, lines, ov) /\
      prun m1 lines alias_prog = Ok (m2, regs) /\
      chars_text alias_mem alias_item = Ok [104; 233; 108; 108; 111; 32; 119; 111; 114; 108; 100] /\
      chars_text m2 alias_item = Ok [104; 233; 108; 108; 183; 183; 119; 111; 114; 108; 100].
  Proof. exact display_alias_refuted_proof. Qed.

  Example bytes_never_alias : forall m ch m1 rs prog m2 regs,
    ch_bytes ch = true -> chars_to_runes m ch = Ok (m1, rs) -> prun m1 [rs] prog = Ok (m2, regs) ->
    firstn (length m) m2 = m.
  Proof. exact bytes_never_alias_proof. Qed.

  Example display_spec_nonvacuous :
    changed_items [[97; 98]; [99]] [(1, [99]); (0, [97; 98])] = [] /\
    changed_items [[97; 98]; [99]] [(1, [99]); (0, [97; 183])] = [0] /\
    substr_filter [98; 99] 5 [[97; 98; 99]; [98; 97; 99]; [98; 99]] = [5; 7].
  Proof. split; [vm_compute; reflexivity|]. split; vm_compute; reflexivity. Qed.
End DisplayExamples.

(* ================= the loading side: several pushers (the parallel directory walker) =================
   Statements only; proofs live in proofs/ChunkStoreRefine.v and proofs/LoaderProofs.v.
   spec/LoaderSpec.v: ONE reader takes the first h lines as the header and numbers the others 0, 1, 2, ...
   (reader_lops); model/LoaderModel.v: ChunkList.Push running core.go's ItemBuilder (header, itemIndex) as one atomic
   step, made by any of several pushers in any order, interleaved with Snapshot(tail) (ld_run over the chunk store). *)
From Fzf Require Import LoaderSpec LoaderModel ChunkStoreRefine LoaderProofs.

(* chunklist_refines_live: for EVERY operation sequence, what the snapshots (read through the FINAL store, i.e.
   after everything that happened later) and the list itself dereference to is what the flat-list specification
   says: Push appends, a rejected Push / Clear / the copies of Snapshot do what `live` says, and Snapshot(tail) keeps
   exactly the last `tail` items - both loops of the --tail trim. *)
Theorem chunklist_refines_live : forall (item : Type) (ops : list (cop item)) (cl : clist item) (snaps : list (snap_result item)),
  crun (cl_empty, []) ops = Ok (cl, snaps) ->
  map (fun r => contents_of (cl_store cl) (sn_ids r)) (rev snaps) = live [] (map lop_of ops) /\
  contents cl = live_end [] (map lop_of ops).
Proof. exact chunklist_refines_live_proof. Qed.

(* pushers_linearisable: for EVERY schedule of the pushers' commits and of snapshots, for every number of header
   lines: the snapshots handed out, the list, the header and the item counter are those of ONE reader reading the
   lines in commit order (linearise) with snapshots at the same places. *)
Theorem pushers_linearisable : forall (D : Type) (h : nat) (qs : list (list D)) (sched : list llabel) (st : lstate D),
  ld_run h (ld_init qs) sched = Ok st ->
  let tr := linearise qs sched in
  map (fun r => contents_of (cl_store (ls_cl st)) (sn_ids r)) (rev (ls_snaps st)) = live [] (reader_lops h 0 0 tr) /\
  contents (ls_cl st) = live_end [] (reader_lops h 0 0 tr) /\
  b_header (ls_b st) = firstn h (lines_of tr) /\
  b_next (ls_b st) = Z.of_nat (length (skipn h (lines_of tr))).
Proof. intros D h. exact (pushers_linearisable_proof h). Qed.

(* what that one reader's snapshots are: each is what is left of the numbered lines read before it after dropping
   items from the front (--tail), and without --tail it IS those lines: the frozen prefix of the input. *)
Theorem reader_snapshots_are_suffixes : forall (D : Type) (h : nat) (tr : list (sop D)),
  Forall2 (fun l dn => exists pre, number_from 0 (skipn h dn) = pre ++ l)
          (live [] (reader_lops h 0 0 tr)) (snap_prefixes [] tr) /\
  exists pre, number_from 0 (skipn h (lines_of tr)) = pre ++ live_end [] (reader_lops h 0 0 tr).
Proof. intros D h. exact (reader_suffixes_proof h). Qed.

Theorem reader_snapshots_are_prefixes : forall (D : Type) (h : nat) (tr : list (sop D)), no_tail tr ->
  live [] (reader_lops h 0 0 tr) = map (fun dn => number_from 0 (skipn h dn)) (snap_prefixes [] tr) /\
  live_end [] (reader_lops h 0 0 tr) = number_from 0 (skipn h (lines_of tr)).
Proof. intros D h. exact (reader_exact_proof h). Qed.

(* ... and such a list numbers its positions: every index is its predecessor's + 1, no index occurs twice
   (idx_injective, the assumption of publish_view, holds of everything the loader ever hands out), and the item with
   index i is the i-th accepted line. *)
Theorem suffix_numbered : forall (D : Type) a (X : list D) pre l, number_from a X = pre ++ l ->
  numbered (map fst l) /\ NoDup (map fst l) /\
  forall i d, In (i, d) l -> a <= i /\ nth_error X (Z.to_nat (i - a)) = Some d.
Proof. intro D. exact suffix_numbered_proof. Qed.

(* the three together, for the list itself: whatever the schedule *)
Theorem concurrent_pushers_numbered : forall (D : Type) (h : nat) (qs : list (list D)) (sched : list llabel) (st : lstate D),
  ld_run h (ld_init qs) sched = Ok st ->
  let accepted := skipn h (lines_of (linearise qs sched)) in
  numbered (map fst (contents (ls_cl st))) /\ NoDup (map fst (contents (ls_cl st))) /\
  forall i d, In (i, d) (contents (ls_cl st)) -> 0 <= i /\ nth_error accepted (Z.to_nat i) = Some d.
Proof.
  intros D h qs sched st H accepted.
  destruct (pushers_linearisable D h qs sched st H) as (_ & Hc & _).
  destruct (reader_snapshots_are_suffixes D h (linearise qs sched)) as (_ & pre & Hp).
  rewrite <- Hc in Hp. destruct (suffix_numbered D 0 _ _ _ Hp) as (H1 & H2 & H3).
  split; [exact H1|]. split; [exact H2|]. intros i d Hin. destruct (H3 i d Hin) as [Ha Hb].
  split; [exact Ha|]. now rewrite Z.sub_0_r in Hb.
Qed.

(* the spec check evaluated on the running program means what it says *)
Theorem numbering_gaps_none : forall l, numbering_gaps l = [] <-> numbered l.
Proof. exact numbering_gaps_none_proof. Qed.

Print Assumptions chunklist_refines_live.
Print Assumptions pushers_linearisable.
Print Assumptions reader_snapshots_are_suffixes.
Print Assumptions reader_snapshots_are_prefixes.
Print Assumptions suffix_numbered.
Print Assumptions concurrent_pushers_numbered.
Print Assumptions numbering_gaps_none.

Section LoaderExamples.
  (* non-vacuity: three pushers, one header line, a --tail snapshot in the middle *)
  Example pushers_nonvacuous :
    exists st, ld_run 1 (ld_init [[10; 11]; [20]; [30; 31]])
                      [LdPush 2; LdPush 0; LdSnap 0; LdPush 1; LdPush 2; LdSnap 2; LdPush 0; LdPush 1] = Ok st /\
      linearise [[10; 11]; [20]; [30; 31]] [LdPush 2; LdPush 0; LdSnap 0; LdPush 1; LdPush 2; LdSnap 2; LdPush 0; LdPush 1]
        = [SLine 30; SLine 10; SSnap 0; SLine 20; SLine 31; SSnap 2; SLine 11] /\
      map (fun r => contents_of (cl_store (ls_cl st)) (sn_ids r)) (rev (ls_snaps st)) = [[(0, 10)]; [(1, 20); (2, 31)]] /\
      contents (ls_cl st) = [(1, 20); (2, 31); (3, 11)] /\ b_header (ls_b st) = [30] /\ b_next (ls_b st) = 4.
  Proof.
    eexists. split; [vm_compute; reflexivity|]. split; [vm_compute; reflexivity|]. split; [vm_compute; reflexivity|].
    split; [vm_compute; reflexivity|]. split; vm_compute; reflexivity.
  Qed.

  (* unlocked_builder_refuted: with the ItemBuilder run OUTSIDE the list mutex (read the counter, write it, append
     under the lock as separate steps - NOT the code), two pushers with one line each produce two items with index 0,
     or items whose order in the list is not the order of their indexes: neither list is `numbered`. *)
  Example unlocked_builder_refuted :
    (exists st, ub_run (ub_init [[10]; [20]]) [UbRead 0; UbRead 1; UbWrite 0; UbWrite 1; UbAppend 0; UbAppend 1] = Ok st /\
       contents (us_cl st) = [(0, 10); (0, 20)] /\ us_next st = 1 /\
       numbering_gaps (map fst (contents (us_cl st))) = [1] /\ ~ NoDup (map fst (contents (us_cl st)))) /\
    (exists st, ub_run (ub_init [[10]; [20]]) [UbRead 0; UbWrite 0; UbRead 1; UbWrite 1; UbAppend 1; UbAppend 0] = Ok st /\
       contents (us_cl st) = [(1, 20); (0, 10)] /\ numbering_gaps (map fst (contents (us_cl st))) = [1]).
  Proof. split; [exact unlocked_builder_duplicates_proof | exact unlocked_builder_misorders_proof]. Qed.

  Example locked_builder_numbers :
    exists st1 st2, ld_run 0 (ld_init [[10]; [20]]) [LdPush 0; LdPush 1] = Ok st1 /\
                    ld_run 0 (ld_init [[10]; [20]]) [LdPush 1; LdSnap 0; LdPush 0] = Ok st2 /\
      contents (ls_cl st1) = [(0, 10); (1, 20)] /\ contents (ls_cl st2) = [(0, 20); (1, 10)] /\
      map (fun r => contents_of (cl_store (ls_cl st2)) (sn_ids r)) (ls_snaps st2) = [[(0, 20)]].
  Proof. exact locked_builder_numbers_proof. Qed.
End LoaderExamples.

(* ================================================================ searching while a RELOADED input is being appended
   (added after seeded change C13-7 was missed: core.go's EvtSearchNew handler relabelled the snapshot it KEEPS - the new
   list is still empty - with the new input revision, so the matcher's merger cache served the replaced list's result for
   the reloaded list once both had the same number of items).
   ReloadSpec: what a running fzf must publish at a moment at which lines[:n] of the current generation are present
   (published_ok, evaluated by the harness on every plateau of a gated loader), and the guarantee the matcher's hist_ok
   needs from the coordinator in the vocabulary of generations (labels_separate).
   CoordRevModel: core.go's labelling of snapshots with (major) input revisions: restart, EvtReadNew, EvtReadFin,
   EvtSearchNew with/without a reload command, reload-sync, a reload while the loader is still running. *)
From Fzf Require Import ReloadSpec CoordRevModel ReloadProofs.

(* a passed check means: the counts describe the frozen prefix, the listed indexes are exactly those of the lines of the
   prefix that contain the query, every reported text is the line read at that index *)
Theorem published_ok_sound : forall q lines n total mcount reported,
  published_ok q lines n total mcount reported = true ->
  0 <= n <= Z.of_nat (length lines) /\ total = n /\ mcount = Z.of_nat (length reported) /\
  length reported = length (published_filter q lines n) /\
  (forall i, In i (map fst reported) <->
     exists k t, nth_error (frozen_prefix lines n) k = Some t /\ i = Z.of_nat k /\ contains q t = true) /\
  (forall i t, In (i, t) reported -> 0 <= i /\ nth_error (frozen_prefix lines n) (Z.to_nat i) = Some t).
Proof. exact published_ok_sound_proof. Qed.

(* the filter of a frozen prefix does not depend on anything appended afterwards *)
Theorem frozen_prefix_ignores_appends : forall q lines later n,
  0 <= n <= Z.of_nat (length lines) ->
  published_filter q (lines ++ later) n = published_filter q lines n.
Proof. exact frozen_prefix_ignores_appends_proof. Qed.

(* for ALL event sequences of the coordinator (pushes, EvtReadNew, EvtReadFin, search requests with and without a reload
   command, reload-sync, reloads while reading): two requests sent to the matcher under the same revision search the
   same generation - with equal counts the same items (clause 1 of hist_ok, for sessions without minor bumps) *)
Theorem coordinator_labels_separate : forall evs, labels_separate (c_posted (c_run false c_init evs)).
Proof. exact coordinator_labels_separate_proof. Qed.

(* refuted witness: refreshing the label of a KEPT snapshot gives two requests with one revision, one count, two lists *)
Theorem relabel_kept_snapshot_refuted :
  exists evs, ~ labels_separate (c_posted (c_run true c_init evs)) /\
              exists a b, In a (c_posted (c_run true c_init evs)) /\ In b (c_posted (c_run true c_init evs)) /\
                          sr_rev a = sr_rev b /\ sr_count a = sr_count b /\ sr_gen a <> sr_gen b.
Proof. exact relabel_kept_snapshot_refuted_proof. Qed.

Print Assumptions published_ok_sound.
Print Assumptions frozen_prefix_ignores_appends.
Print Assumptions coordinator_labels_separate.
Print Assumptions relabel_kept_snapshot_refuted.

Section ReloadExamples.
  (* non-vacuity: lines b1 b2 b3, two present, query "1": fzf lists item 0 = "b1"; the replaced list's "a1" is refused *)
  Example published_ok_nonvacuous :
    published_ok [49] [[98; 49]; [98; 50]; [98; 49; 49]] 2 2 1 [(0, [98; 49])] = true /\
    published_ok [49] [[98; 49]; [98; 50]; [98; 49; 49]] 2 2 1 [(0, [97; 49])] = false /\
    published_ok [49] [[98; 49]; [98; 50]; [98; 49; 49]] 3 3 1 [(0, [98; 49])] = false.
  Proof. vm_compute. repeat split. Qed.

  (* the coordinator as it is: the same session posts requests whose labels tell the two lists apart *)
  Example coordinator_labels_nonvacuous :
    map (fun r => (sr_gen r, sr_count r, sr_rev r)) (rev (c_posted (c_run false c_init relabel_witness)))
      = [(0, 2, 0); (0, 2, 0); (1, 2, 1)]%nat /\
    map (fun r => (sr_gen r, sr_count r, sr_rev r)) (rev (c_posted (c_run true c_init relabel_witness)))
      = [(0, 2, 0); (0, 2, 1); (1, 2, 1)]%nat.
  Proof. vm_compute. split; reflexivity. Qed.
End ReloadExamples.
