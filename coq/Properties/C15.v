(* C15 — the screen shows the actual state (partial: plain configuration).
   Statements only; proofs live in proofs/RenderProofs.v.
   Vocabulary (spec/RenderSpec.v): cfg (window, layout, info style, header, --multi), view (query, result list,
   current line, scroll offset, selection), list_row c i = the window row the layout gives to list slot i,
   list_slot_text c v i = pointer column, marker column, text of result number offset+i as shown by `show`
   (tabs expanded with a column that runs from the start of the text; cut with the ellipsis when too wide).
   Model (model/RenderModel.v): render c v = what printAll paints on an erased window, in window rows;
   run c t us = the incremental-redraw machine (prevLines) over a history of field updates + render requests. *)
From Fzf Require Import Prelude RenderSpec RenderModel RenderProofs RenderDynModel RenderDynProofs.
From Fzf Require Import RenderGhostSpec RenderGhostModel RenderGhostProofs.
Open Scope nat_scope.

(* ★ rows_faithful: for every configuration that fits the window, every state and every list slot i of the window,
   the row the layout dictates (default: upwards from the header, reverse: downwards, reverse-list: downwards
   from the top) shows result number offset+i — pointer column, marker column, the text complete when it fits,
   else a prefix followed by the ellipsis — and a blank row when the list is shorter. *)
Theorem rows_faithful : forall c v, cfg_ok c -> view_wf v -> shows_list c v (render c v).
Proof. exact rows_faithful_proof. Qed.
Print Assumptions rows_faithful.

(* what `trunc` shows of a text: complete when it fits; otherwise the first maxw-2 characters ++ ".."; never wider *)
Theorem truncation_shape : forall maxw s,
  (length s <= maxw -> trunc maxw s = s) /\
  (maxw < length s -> 4 <= maxw -> trunc maxw s = firstn (maxw - 2) s ++ [DOT; DOT]) /\
  length (trunc maxw s) <= maxw.
Proof. exact truncation_shape_proof. Qed.
Print Assumptions truncation_shape.

(* texts with tabs: a row shows the tab-expanded text (each TAB advances to the next multiple of --tabstop, counted
   from the start of the text, independently of how the text is split into highlighted / coloured segments) when
   that fits, never more than maxw columns, and exactly what `trunc` shows when the text has no tabs *)
Theorem show_shape : forall ts maxw s,
  length (show ts maxw s) <= maxw /\
  (length (expand ts s) <= maxw -> show ts maxw s = expand ts s) /\
  (Forall (fun x => x <> TAB) s -> show ts maxw s = trunc maxw s).
Proof. exact show_shape_proof. Qed.
Print Assumptions show_shape.

(* ★ pointer_marker_exact: the pointer is on exactly the current line, the marker on exactly the selected items *)
Theorem pointer_marker_exact : forall c v i m, cfg_ok c -> view_wf v -> i < max_items c ->
  nth_error (v_matches v) (v_off v + i) = Some m ->
  let r := row_at (render c v) (list_row c i) in
  (nth 0 r SP = GT <-> v_off v + i = v_cy v) /\ (nth 1 r SP = GT <-> In (fst m) (v_sel v)).
Proof. exact pointer_marker_exact_proof. Qed.
Print Assumptions pointer_marker_exact.

Theorem empty_slot_blank : forall c v i, cfg_ok c -> view_wf v -> i < max_items c ->
  nth_error (v_matches v) (v_off v + i) = None -> row_at (render c v) (list_row c i) = blank (c_w c).
Proof. exact empty_slot_blank_proof. Qed.
Print Assumptions empty_slot_blank.

(* ★ header_not_in_list: list rows, prompt row, info row, --header rows and --header-lines rows are pairwise
   different rows inside the window, and different slots get different rows.
   (That the header rows SHOW the header text is checked on the implementation, not proved: see width_bound_partial.) *)
Theorem header_not_in_list : forall c i, cfg_ok c -> i < max_items c ->
  list_row c i < c_h c /\ list_row c i <> prompt_row c /\
  (prompt_lines c = 2 -> list_row c i <> info_row c) /\
  (forall k, k < length (c_header c) -> list_row c i <> header_row c k /\ header_row c k < c_h c) /\
  (forall k, k < length (c_hlines c) -> list_row c i <> hline_row c k /\ hline_row c k < c_h c) /\
  (forall j, j < max_items c -> list_row c i = list_row c j -> i = j).
Proof. exact header_not_in_list_proof. Qed.
Print Assumptions header_not_in_list.

(* ★ width_bound: no row of the full render is wider (or narrower) than the window — nothing is printed past the
   last column, for width-1 text, whenever prompt and query fit the prompt row (view_ok). *)
Theorem width_bound : forall c v, cfg_ok c -> view_ok c v -> view_wf v ->
  Forall (fun r => length r = c_w c) (render c v).
Proof. exact width_bound_proof. Qed.
Print Assumptions width_bound.

(* the complete statement: the full render is a faithful screen — the prompt row shows prompt and query (and the
   inline / inline-right counter), the info row shows matched/total (selected) and the separator, every list slot
   shows its result, every --header / --header-lines line is where the layout puts it (RenderSpec.faithful). *)
Theorem render_faithful : forall c v, cfg_ok c -> view_ok c v -> view_wf v -> faithful c v (render c v).
Proof. exact render_faithful_proof. Qed.
Print Assumptions render_faithful.

(* ★ constrain_in_bounds: whatever cy/offset were, after Terminal.constrain the current line exists, lies on a
   visible row, and the window is full whenever the list is long enough (offset+maxLines <= count, or offset = 0). *)
Theorem constrain_in_bounds : forall count maxl so cy off, 1 <= count -> 1 <= maxl ->
  in_window count maxl (fst (constrain count maxl so cy off)) (snd (constrain count maxl so cy off)).
Proof. exact constrain_in_bounds_proof. Qed.
Print Assumptions constrain_in_bounds.

(* incremental_eq_full_list (list area only, no hypothesis on widths): for EVERY history of field updates and render
   requests in which a step either asks for the list (or everything) to be redrawn or leaves result list, current
   line and selection unchanged, the list rows of the screen buffer after the incremental redraws — rows skipped
   because their prevLines entry matched, rows overdrawn only as far as the previous text reached — are exactly
   the rows a full redraw of the final state paints on an erased window. *)
Theorem incremental_eq_full_list : forall txt_of c v0 us, cfg_ok c ->
  coherent txt_of (v_matches v0) -> hist_ok txt_of c (start c v0) us ->
  list_seg c (run c (start c v0) us) = list_seg c (paint c (run c (start c v0) us)).
Proof. intros txt_of c v0 us Hc. exact (incremental_list_proof txt_of c Hc v0 us). Qed.
Print Assumptions incremental_eq_full_list.

(* ★ incremental_eq_full (whole buffer): for EVERY history of field updates and render requests, the screen buffer
   after the incremental redraws equals the full redraw of the final state, provided every step (hist_ok_full)
     - covers what it changes: list / prompt row / counter are either requested (or a full redraw is) or unchanged
       (the render loop itself re-prints the inline counter after every prompt repaint: RenderModel.is_inline),
     - keeps prompt+query inside the prompt row (view_ok), and
     - leaves room for the separator after the counter when one is configured (info_fits) — without that the
       statement is false, see incremental_eq_full_refuted. *)
Theorem incremental_eq_full : forall txt_of c v0 us, cfg_ok c ->
  coherent txt_of (v_matches v0) -> view_ok c v0 -> hist_ok_full txt_of c (start c v0) us ->
  t_screen (run c (start c v0) us) = t_screen (paint c (run c (start c v0) us)).
Proof. intros txt_of c v0 us Hc. exact (incremental_eq_full_proof txt_of c Hc v0 us). Qed.
Print Assumptions incremental_eq_full.

(* FINDING: over the whole buffer incremental <> full.  12 columns, separator on: "30/30 (0)" followed by
   "1/30 (0)" leaves "1/30 (0))" on the info row — the faithful model reproduces what fzf shows
   (KNOWN_FINDINGS id=info-stale-tail). *)
Theorem incremental_eq_full_refuted :
  exists c v0 us, cfg_ok c /\ view_wf v0 /\
    hist_ok (fun _ => [97%Z]) c (start c v0) us /\
    t_screen (run c (start c v0) us) <> t_screen (paint c (run c (start c v0) us)).
Proof. exact incremental_eq_full_refuted_proof. Qed.
Print Assumptions incremental_eq_full_refuted.

(* ---------- the header changes during the session (model/RenderDynModel.v) ----------
   toggle-header / hide-header / show-header and change-header / transform-header give header rows to the list and
   take list rows for the header without a full redraw; printItem relies on itemLine.other (set by markOtherLine when
   a header line is printed) to rewrite such a row from scratch.
   ★ dyn_incremental_eq_full_list: in the layouts default and reverse, for EVERY history of header states, field
   updates and render requests in which a step either asks for the list (or everything) to be redrawn or changes
   neither the header nor what the list shows, every configuration met fitting the window: the list rows of the
   screen buffer under the FINAL header are those a full redraw of the final state paints on an erased window, and
   every list slot of the screen shows its result line on the row the layout dictates (RenderSpec.shows_list) - so
   no row the list took over from the header keeps anything of the header, and no header line is part of the list.
   (List area only: that the header rows show the header is checked on the implementation.) *)
Theorem dyn_incremental_eq_full_list : forall txt_of c0 h0 v0 dus, c_layout c0 <> LReverseList ->
  cfg_ok (with_hdr c0 h0) -> coherent txt_of (v_matches v0) -> dhist_ok txt_of c0 (start_d c0 h0 v0) dus ->
  let d := run_d c0 (start_d c0 h0 v0) dus in
  let c := with_hdr c0 (last_hdr h0 dus) in
  cfg_ok c /\ list_seg c (d_t d) = list_seg c (paint c (d_t d)) /\
  shows_list c (t_view (d_t d)) (physical c (t_screen (d_t d))).
Proof. intros txt_of c0 h0 v0 dus Hl. exact (dyn_incremental_list_proof txt_of c0 Hl h0 v0 dus). Qed.
Print Assumptions dyn_incremental_eq_full_list.

(* FINDING: in the reverse-list layout the same statement is false of the faithful model.  Terminal.move sends list
   line y to window row y - (input lines + header lines in the list window), so when the header goes away every list
   line lands on another row while prevLines still describes the old one: 40x10, --header of two lines, items a1..g7,
   toggle-header leaves "  g7RST-HEADER-LINE" on the row of g7 - what fzf shows
   (KNOWN_FINDINGS id=reverse-list-header-remnant). *)
Theorem dyn_incremental_refuted_reverse_list :
  exists c0 h0 v0 dus txt_of,
    c_layout c0 = LReverseList /\ dyn_domain c0 h0 /\ cfg_ok (with_hdr c0 h0) /\ coherent txt_of (v_matches v0) /\
    dhist_ok txt_of c0 (start_d c0 h0 v0) dus /\
    let d := run_d c0 (start_d c0 h0 v0) dus in
    let c := with_hdr c0 (last_hdr h0 dus) in
    list_seg c (d_t d) <> list_seg c (paint c (d_t d)) /\
    row_at (physical c (t_screen (d_t d))) (list_row c 6) =
      pad 40 [32;32;103;55;82;83;84;45;72;69;65;68;69;82;45;76;73;78;69]%Z.
Proof. exact dyn_incremental_refuted_reverse_list_proof. Qed.
Print Assumptions dyn_incremental_refuted_reverse_list.

(* non-vacuity of dyn_incremental_eq_full_list: default layout, 20x8, a two-line header over the items a1..c3;
   hide-header, then change-header to one line while hidden, then show-header: the hypotheses hold, and after the
   first step the rows that showed the header show "> a1" and "  b2" and nothing else *)
Example c15_dyn_nonvacuous :
  let c0 := mkCfg 20 8 LDefault IDefault true [] [] 0%Z 8 in
  let hd := [[72;69;65;68;69;82;45;79;78;69]; [72;69;65;68;69;82;45;84;87;79]]%Z in     (* HEADER-ONE, HEADER-TWO *)
  let txt := fun i : nat => [97 + Z.of_nat i; 49 + Z.of_nat i]%Z in
  let ms := map (fun i => (i, txt i)) (seq 0 3) in
  let v0 := mkView [GT; SP] [] ms 3 0 0 [] in
  let rq := mkReqs true true true true false in
  let u := mkUpd [GT; SP] [] ms 3 0 [] rq in
  let dus := [mkDU (mkHdr false hd []) u; mkDU (mkHdr false [[88%Z]] []) u; mkDU (mkHdr true [[88%Z]] []) u] in
  c_layout c0 <> LReverseList /\ cfg_ok (with_hdr c0 (mkHdr true hd [])) /\ coherent txt (v_matches v0) /\
  dhist_ok txt c0 (start_d c0 (mkHdr true hd []) v0) dus /\
  (let d := run_d c0 (start_d c0 (mkHdr true hd []) v0) (firstn 1 dus) in
   let c := with_hdr c0 (mkHdr false hd []) in
   row_at (physical c (t_screen (d_t d))) (list_row c 0) = pad 20 [62;32;97;49]%Z /\
   row_at (physical c (t_screen (d_t d))) (list_row c 1) = pad 20 [32;32;98;50]%Z).
Proof.
  cbn zeta. split; [discriminate|]. split; [vm_compute; lia|]. split; [repeat constructor|].
  split; [|vm_compute; auto].
  cbn [dhist_ok]. repeat (split; [vm_compute; lia|split; [repeat constructor|split; [left; reflexivity|]]]). exact I.
Qed.

(* non-vacuity: a concrete configuration and state meet the hypotheses; the render shows pointer, marker,
   a truncated line and the layout's direction *)
Example c15_nonvacuous :
  let c := mkCfg 12 6 LDefault IDefault true [[72%Z]] [] MAX_MULTI 8 in
  let v := mkView [GT; SP] [] [(0, [97;98;99;100;101;102;103;104;105;106;107]%Z); (1, [120%Z])] 2 1 0 [0] in
  cfg_ok c /\ view_wf v /\ in_window 2 (max_items c) 1 0 /\
  render c v = [blank 12;
                pad 12 [62;32;120]%Z;                          (* "> x"          current line, second result *)
                pad 12 [32;62;97;98;99;100;101;102;103;46;46]%Z;   (* " >abcdefg.."  selected, cut *)
                pad 12 [32;32;72]%Z;                           (* "  H" header *)
                [32;32;50;47;50;32;40;49;41;32;45;32]%Z;       (* "  2/2 (1) - " *)
                pad 12 [62;32]%Z].
Proof.
  cbn zeta. split; [vm_compute; lia|]. split.
  - exists (fun i => if Nat.eqb i 0 then [97;98;99;100;101;102;103;104;105;106;107]%Z else [120%Z]).
    repeat constructor.
  - split; [vm_compute; lia|]. vm_compute. reflexivity.
Qed.

(* non-vacuity of incremental_eq_full: --info=inline-right with a separator; typing "12" (prompt + list + info
   requested), then a cursor motion that repaints ONLY the prompt line: the hypotheses hold and the counter is
   still on the prompt row afterwards *)
Example c15_incremental_nonvacuous :
  let c := mkCfg 24 6 LDefault IInlineRight true [] [] MAX_MULTI 8 in
  let txt := fun i : nat => [49; 48 + Z.of_nat i]%Z in
  let v0 := mkView [GT; SP] [] [(1, txt 1); (2, txt 2); (3, txt 3)] 3 0 0 [] in
  let us := [mkUpd [GT; SP] [49; 50]%Z [(2, txt 2)] 3 0 [] (mkReqs true true false true false);
             mkUpd [GT; SP] [49; 50]%Z [(2, txt 2)] 3 0 [] (mkReqs true false false false false)] in
  cfg_ok c /\ view_ok c v0 /\ coherent txt (v_matches v0) /\ hist_ok_full txt c (start c v0) us /\
  nth 0 (t_screen (run c (start c v0) us)) [] = pad 24 ([62;32;49;50]%Z ++ repeat SP 12 ++ [49;47;51;32;40;48;41]%Z).
Proof.
  cbn zeta. split; [vm_compute; lia|]. split; [vm_compute; lia|]. split; [repeat constructor|].
  split; [|vm_compute; reflexivity].
  cbn [hist_ok_full]. split; [repeat constructor|]. split; [left; reflexivity|]. split; [left; reflexivity|].
  split; [left; reflexivity|]. split; [vm_compute; lia|]. split; [exact I|].
  split; [repeat constructor|]. split; [right; right; vm_compute; auto|]. split; [left; reflexivity|].
  split; [right; right; vm_compute; reflexivity|]. split; [vm_compute; lia|]. split; [exact I|exact I].
Qed.

(* ---------- the input area of the prompt row: ghost text (--ghost / change-ghost / transform-ghost) ----------
   Vocabulary (spec/RenderGhostSpec.v): ghost_on g q = there is a ghost text and the query is empty;
   prompt_row_text_g c g v = the prompt row: prompt ++ (the query, or the ghost text while the query is empty),
   then the inline / inline-right counter.  Model (model/RenderGhostModel.v): render_g c g cx v = printAll with
   t.ghost = g and the cursor at position cx of the query (printPrompt splits the query there and looks at the two
   halves; printInfoImpl's shiftLen). *)

(* ★ render_g_faithful: for every ghost text, EVERY cursor position, every configuration that fits the window and
   every state whose prompt + input area fit the prompt row, the full render is a faithful screen: the prompt row shows
   the prompt and the current query - the ghost text only in the place of an empty query - and everything else is as
   in render_faithful. *)
Theorem render_g_faithful : forall c g cx v, cfg_ok c -> view_ok_g c g v -> view_wf v ->
  faithful_g c g v (render_g c g cx v).
Proof. exact render_g_faithful_proof. Qed.
Print Assumptions render_g_faithful.

(* ★ query_on_prompt_row: "the prompt line shows the current query" - wherever the cursor is and whatever the ghost
   text, the prompt row begins with prompt ++ query as soon as the query is not empty *)
Theorem query_on_prompt_row : forall c g cx v, cfg_ok c -> view_ok_g c g v -> view_wf v -> v_query v <> [] ->
  firstn (length (v_prompt v ++ v_query v)) (row_at (render_g c g cx v) (prompt_row c)) = v_prompt v ++ v_query v.
Proof. exact query_on_prompt_row_proof. Qed.
Print Assumptions query_on_prompt_row.

(* the ghost text stands there while the query is empty *)
Theorem ghost_on_prompt_row : forall c g cx v, cfg_ok c -> view_ok_g c g v -> view_wf v -> v_query v = [] ->
  firstn (length (v_prompt v ++ g)) (row_at (render_g c g cx v) (prompt_row c)) = v_prompt v ++ g.
Proof. exact ghost_on_prompt_row_proof. Qed.
Print Assumptions ghost_on_prompt_row.

(* without a ghost text in effect the render is RenderModel.render (so every theorem above applies to it) *)
Theorem ghost_off_render : forall c g cx v, ghost_on g (v_query v) = false -> render_g c g cx v = render c v.
Proof. exact ghost_off_render_proof. Qed.
Print Assumptions ghost_off_render.

(* non-vacuity: 24x5, reverse layout, inline counter, ghost text "find"; query "b2" with the cursor at its
   beginning: the hypotheses hold and the prompt row reads "> b2  < 1/2"; with an empty query it reads "> find < 2/2" *)
Example c15_ghost_nonvacuous :
  let c := mkCfg 24 5 LReverse IInline false [] [] 0%Z 8 in
  let g := [102;105;110;100]%Z in
  let ms := [(0, [97;49]%Z); (1, [98;50]%Z)] in
  let v := mkView [GT; SP] [98;50]%Z [(1, [98;50]%Z)] 2 0 0 [] in
  let v0 := mkView [GT; SP] [] ms 2 0 0 [] in
  cfg_ok c /\ view_ok_g c g v /\ view_ok_g c g v0 /\ view_wf v /\ view_wf v0 /\
  row_at (render_g c g 0 v) (prompt_row c) = pad 24 [62;32;98;50;32;32;60;32;49;47;50]%Z /\
  row_at (render_g c g 0 v0) (prompt_row c) = pad 24 [62;32;102;105;110;100;32;60;32;50;47;50]%Z.
Proof.
  cbn zeta. split; [vm_compute; lia|]. split; [vm_compute; lia|]. split; [vm_compute; lia|].
  split; [exists (fun _ => [98;50]%Z); repeat constructor|].
  split; [exists (fun i => if Nat.eqb i 0 then [97;49]%Z else [98;50]%Z); repeat constructor|].
  split; vm_compute; reflexivity.
Qed.
