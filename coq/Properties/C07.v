(* C07 — output is the original line, framed and exit-coded as documented.
   Statements only; proofs live in proofs/OutputProofs.v.
   Model: model/OutputModel.v (core.go --filter block and -1/-0 block, Item.AsString/acceptNth,
   Terminal.output/sortSelected/selectItem..., the selection actions and the endings of doAction).
   Spec: spec/OutputSpec.v (frame, shown, matched_records, exit_status, stdout_of, sel_* operations).
   The ANSI stripper `strip` (C11), the util.Chars round trip `rt`, the --with-nth display transformer
   `nth_transform` (C10), the matcher `matches` (C01/C02) and the rank order `rank_sort` (C04) are universally
   quantified: the theorems hold for every instance. *)
From Coq Require Import Permutation.
From Fzf Require Import Prelude OutputSpec OutputModel OutputProofs OutputFieldsProofs.
Open Scope Z_scope.

(* --filter, BOTH code paths (streaming: +s without --tac/--sync; collecting otherwise), for all record lists,
   queries, option combinations and every --with-nth transformer: stdout is the framing (each part followed by
   newline, or NUL under --print0) of [query under --print-query] ++ body, where body is a permutation of the
   matched input records, each exactly once, byte for byte (escape sequences removed under --ansi) — in input
   order (reversed under --tac) unless the sorting merger is active; the exit status is 0 iff body is non-empty,
   else 1.  `printable` says the input is valid UTF-8 in the only way that matters (the Chars round trip
   keeps it); under --with-nth it is not even needed for the bytes, see as_string. *)
Theorem filter_prints_original :
  forall (strip rt : str -> str) (nth_transform : nat -> str -> str) (matches : item -> bool)
         (rank_sort : list item -> list item) (sortable : bool),
  (forall l, Permutation (rank_sort l) l) ->
  forall o query rs,
  Forall (printable strip rt o) rs ->
  exists body,
    filter_mode strip rt nth_transform matches rank_sort sortable o query rs =
      (frame (terminator (o_print0 o)) (filter_parts (o_print_query o) query body), exit_status EAccept body) /\
    Permutation body (map (shown (o_ansi o) strip) (matched_records (rec_matches strip nth_transform matches o) rs)) /\
    (o_sort o && sortable = false ->
     body = unsorted_body (o_ansi o) (o_tac o) strip (rec_matches strip nth_transform matches o) rs).
Proof. exact filter_prints_original_proof. Qed.
Print Assumptions filter_prints_original.

(* consequence: every printed record IS an input record (what `shown` makes of it) *)
Theorem filter_printed_is_input :
  forall (strip : str -> str) (nth_transform : nat -> str -> str) (matches : item -> bool) o rs body,
  Permutation body (map (shown (o_ansi o) strip) (matched_records (rec_matches strip nth_transform matches o) rs)) ->
  forall p, In p body -> exists r, In r rs /\ p = shown (o_ansi o) strip r.
Proof. exact filter_printed_is_input_proof. Qed.
Print Assumptions filter_printed_is_input.

(* framing of an accepted result (Terminal.output), in any reachable state: stdout is the framing of
   [query]? ++ [expect key]? ++ print(...) queue ++ body; body = the output form (whole record, or the
   --accept-nth fields) of the selected items in the order they were selected, or of the item under the cursor
   when nothing is selected; `found` (exit 0 vs 1) iff body is non-empty. *)
Theorem framing :
  forall (strip rt : str -> str) o t out found, wf (t_sel t) ->
  output strip rt o t = Ok (out, found) ->
  exists body,
    map_res (out_transform strip rt o) (result_items t) = Ok body /\
    out = frame (terminator (to_print0 o))
                (accept_parts (to_print_query o) (t_input t) (to_expect o) (t_pressed t) (t_queue t) body) /\
    found = nonemptyb body.
Proof. exact output_framing_proof. Qed.
Print Assumptions framing.

(* the time-stamped map the code keeps, sorted by time stamp, IS the list of selected items oldest first *)
Theorem selection_sorted_is_chronological :
  forall s, wf s -> sort_selected (fst s) = sel_items s.
Proof. exact sorted_is_chronological. Qed.
Print Assumptions selection_sorted_is_chronological.

(* selection_order: for ALL action histories (toggle, select, deselect, select-all, deselect-all, toggle-all,
   clear-selection, toggle-down/up, cursor motions, print, list updates after query edits) that leave the program
   running, the invariant is kept and the chronological selection is what the user-level operations of
   OutputSpec (append unless limit reached / already selected; remove; ...) produce. *)
Theorem selection_order :
  forall (strip rt : str -> str) o acts t t', twf t -> Forall act_wf acts ->
  run_actions strip rt o t acts = Ok (Running t') ->
  twf t' /\ sel_items (t_sel t') = sel_after_run strip rt o t (sel_items (t_sel t)) acts.
Proof. exact run_selection_proof. Qed.
Print Assumptions selection_order.

(* one step of the above, with the user-level meaning of each action spelled out by sel_after_action *)
Theorem selection_step :
  forall (strip rt : str -> str) o t a t', twf t -> act_wf a ->
  do_action strip rt o t a = Ok (Running t') ->
  twf t' /\ sel_items (t_sel t') = sel_after_action o t a (sel_items (t_sel t)).
Proof. exact action_selection_proof. Qed.
Print Assumptions selection_step.

(* a history that ends the program does so by one action, run in a well-formed state *)
Theorem run_ends :
  forall (strip rt : str -> str) o acts t out code, twf t -> Forall act_wf acts ->
  run_actions strip rt o t acts = Ok (Exited out code) ->
  exists pre a post t1, acts = pre ++ a :: post /\ run_actions strip rt o t pre = Ok (Running t1) /\ twf t1 /\
                        do_action strip rt o t1 a = Ok (Exited out code).
Proof. exact run_ends_proof. Qed.
Print Assumptions run_ends.

(* exit_code_table: whenever an action ends the program, it is one of the documented endings and stdout / exit
   status are the documented ones: accept (also an --expect key, accept-non-empty with something to accept,
   accept-or-print-query with a selection or a non-empty list) prints the framed result and exits 0 iff a record
   was printed, else 1; print-query (also accept-or-print-query otherwise) prints the query alone and exits 0;
   abort prints nothing and exits 130; a fatal error prints nothing and exits 2. *)
Theorem exit_code_table :
  forall (strip rt : str -> str) o t a out code, wf (t_sel t) ->
  do_action strip rt o t a = Ok (Exited out code) ->
  exists e, ending_of t a = Some e /\
    match e with
    | EAccept =>
        exists body, map_res (out_transform strip rt o) (result_items t) = Ok body /\
          out = stdout_of EAccept (terminator (to_print0 o)) (to_print_query o) (t_input t) (to_expect o)
                          (key_of t a) (t_queue t) body /\
          code = exit_status EAccept body
    | e' =>
        out = stdout_of e' (terminator (to_print0 o)) (to_print_query o) (t_input t) (to_expect o)
                        (key_of t a) (t_queue t) [] /\
        code = exit_status e' []
    end.
Proof. exact exit_code_table_proof. Qed.
Print Assumptions exit_code_table.

(* accept-non-empty with nothing to accept is refused: nothing printed, fzf keeps running in the same state *)
Theorem accept_non_empty_refused :
  forall (strip rt : str -> str) o t,
  ending_of t AAcceptNonEmpty = None -> do_action strip rt o t AAcceptNonEmpty = Ok (Running t).
Proof. exact accept_non_empty_refused_proof. Qed.
Print Assumptions accept_non_empty_refused.

(* --select-1 / --exit-0: fzf prints without starting the finder only for zero matches (-0) or exactly one (-1);
   framed like an accept with an empty expect line; exit 1 for zero matches, else 0 *)
Theorem select1_exit0_table :
  forall (strip rt : str -> str) o s1 e0 query merger out code,
  select1_exit0 strip rt o s1 e0 query merger = Ok (Some (out, code)) ->
  (length merger <= 1)%nat /\
  ((e0 = true /\ merger = []) \/ (s1 = true /\ length merger = 1%nat)) /\
  exists body, map_res (out_transform strip rt o) merger = Ok body /\
    out = stdout_of EAccept (terminator (to_print0 o)) (to_print_query o) query (to_expect o) [] [] body /\
    code = exit_status EAccept body.
Proof. exact select1_exit0_proof. Qed.
Print Assumptions select1_exit0_table.

(* an invalid command line: nothing on stdout, exit status 2 *)
Theorem parse_error_exit_2 :
  forall (strip rt : str -> str) o s1 e0 query merger count acts,
  interactive strip rt false o s1 e0 query merger count acts = Ok (Exited [] EXIT_ERROR).
Proof. exact parse_error_proof. Qed.
Print Assumptions parse_error_exit_2.

(* ---- non-vacuity ---- *)
Definition ex_strip (s : str) : str := filter (fun c => negb (c =? 27)) s.   (* a toy stripper *)
Definition ex_match (it : item) : bool := existsb (fun c => c =? 98) (it_text it). (* "contains b" on the DISPLAY text *)
Definition ex_nth (_ : nat) (s : str) : str := firstn 1 (skipn 2 s).          (* a toy --with-nth 2 *)

(* `printf 'a b c\n' | fzf --with-nth 2 -f b +s` prints `a b c` (streaming path), exit 0;
   the same through the collecting path (--sync); a non-matching record is not printed; exit 1 when none *)
Example c07_filter_nonvacuous :
  let o := mkOopts false true false false false false false in
  filter_mode ex_strip (fun s => s) ex_nth ex_match (fun l => l) true o [98] [[97;32;98;32;99]; [98;32;97;32;99]]
    = ([97;32;98;32;99;10], 0) /\
  filter_mode ex_strip (fun s => s) ex_nth ex_match (fun l => l) true (mkOopts false true true true false true true) [98]
              [[97;32;98;32;99]; [98;32;97;32;99]; [120;32;98]]
    = ([98;0; 120;32;98;0; 97;32;98;32;99;0], 0) /\
  filter_mode ex_strip (fun s => s) ex_nth ex_match (fun l => l) true o [98] [[98;32;97;32;99]] = ([], 1) /\
  Forall (printable ex_strip (fun s => s) o) [[97;32;98;32;99]; [98;32;97;32;99]].
Proof. vm_compute. repeat split; repeat constructor. Qed.

(* a session: three items, select the 3rd, then the 1st, print(p), accept with --print-query --expect:
   query, empty expect line, p, then the records in SELECTION order (3rd, 1st); exit 0.  Abort: nothing, 130. *)
Example c07_session_nonvacuous :
  let o := mkTopts false false true true 1000 None DAwk in
  let items := build_items ex_strip ex_nth (mkOopts false false false false false false false) 0 [[97]; [98]; [99]] in
  let t0 := mkTerm items 0 ([], O) [] [113] [] false 3 in
  twf t0 /\
  run_actions ex_strip (fun s => s) o t0 [ALast; AToggle; AFirst; AToggle; APrint [112]; AAccept]
    = Ok (Exited [113;10; 10; 112;10; 99;10; 97;10] 0) /\
  run_actions ex_strip (fun s => s) o t0 [AToggle; AAbort] = Ok (Exited [] 130) /\
  run_actions ex_strip (fun s => s) o (mkTerm [] 0 ([], O) [] [113] [] false 3) [AAcceptNonEmpty; AAccept]
    = Ok (Exited [113;10; 10] 1).
Proof.
  cbv zeta. split; [|vm_compute; repeat split].
  split; [exact I|]. vm_compute. repeat constructor; cbn; intuition discriminate.
Qed.

(* the tokenizer's three-state machine (awkTokenizer) computes the AWK-style fields of the spec: leading blanks
   belong to no field, a field is a maximal run of non-blanks plus the blanks that follow it *)
Theorem awk_tokenizer_fields : forall s, awk_tokenizer s = awk_fields s.
Proof. exact awk_tokenizer_fields_proof. Qed.
Print Assumptions awk_tokenizer_fields.

(* accept_nth_fields (AWK-style delimiter, one positive field number N): --accept-nth N prints field N of the
   record's output form, trailing white space removed; an empty line when the record has fewer fields.
   (other field expressions, string delimiters and templates are in the model and covered by the
   correspondence run; the field language itself is property C10) *)
Theorem accept_nth_awk_field :
  forall (strip rt : str -> str) o it N, to_delim o = DAwk -> 1 <= N ->
  accept_nth strip rt o (NthRanges [new_range N N]) it =
  Ok (trim_right (nth (Z.to_nat (N - 1)) (awk_fields (as_string strip rt (to_ansi o) it)) [])).
Proof. exact accept_nth_awk_field_proof. Qed.
Print Assumptions accept_nth_awk_field.

Example c07_accept_nth_nonvacuous :
  accept_nth ex_strip (fun s => s) (mkTopts false false false false 0 None DAwk) (NthRanges [new_range 2 2])
             (mkItem 0 [32;97;32;32;98;98;9;32;99] None) = Ok [98;98] /\
  awk_fields [32;97;32;32;98;98;9;32;99] = [[97;32;32]; [98;98;9;32]; [99]].
Proof. vm_compute. split; reflexivity. Qed.

(* the spec's checker for sorted --filter output accepts only framings of permutations; a positive verdict of
   filter_verdict (what the harness evaluates on the implementation's stdout and exit status) therefore means
   that the formula of filter_prints_original holds of the observed output *)
Theorem filter_verdict_sound : forall pq p0 ansi tac sorted query strip m rs stdout code,
  filter_verdict pq p0 ansi tac sorted query strip m rs stdout code = (true, true) ->
  exists body,
    stdout = frame (terminator p0) (filter_parts pq query body) /\
    Permutation body (unsorted_body ansi tac strip m rs) /\
    (sorted = false -> body = unsorted_body ansi tac strip m rs) /\
    code = exit_status EAccept body.
Proof. exact filter_verdict_sound_proof. Qed.
Print Assumptions filter_verdict_sound.

(* the interactive model never fails: every index / slice access of the modelled code (currentItem, Transform's
   token loop, acceptNth ...) is in range for every state, option combination, field expression and history *)
Theorem interactive_total : forall (strip rt : str -> str) parse_ok o s1 e0 query merger count acts,
  exists r, interactive strip rt parse_ok o s1 e0 query merger count acts = Ok r.
Proof. exact interactive_total_proof. Qed.
Print Assumptions interactive_total.

(* ---- --accept-nth in general (AWK-style and literal delimiters; every field index expression list, every template) ---- *)

(* strings.SplitAfter with a non-empty literal delimiter computes the delimiter-cut fields of the spec: delimiters found
   left to right without overlap, each field ends with its delimiter, the rest (possibly empty) is the last field *)
Theorem split_after_fields : forall sep s, sep <> [] -> split_after sep s = str_fields sep s.
Proof. exact split_after_fields_proof. Qed.
Print Assumptions split_after_fields.

(* those fields are a partition of the record: concatenated they give it back byte for byte *)
Theorem str_fields_partition : forall sep s, concat (str_fields sep s) = s.
Proof. exact str_fields_partition_proof. Qed.
Print Assumptions str_fields_partition.

(* accept_nth_fields: Item.acceptNth (Tokenize, Transform over the parsed Ranges, JoinTokens, the template closure of
   nthTransformer with StripLastDelimiter on every {..} part and strconv.Itoa for {n}, then StripLastDelimiter on the
   whole) prints accept_text: the fields the expressions select, one after the other, exactly, minus ONE delimiter
   when the text ends with one and minus the white space at the end.  For ALL records, field index expression lists
   and templates, AWK-style or literal (non-empty) delimiter; the ordinal number fits an int32.
   (regex delimiters are not in the model; the spec covers '[set]' and '[set]+' and is evaluated on the
   implementation's output by the harness) *)
Theorem accept_nth_fields :
  forall (strip rt : str -> str) o a it,
  delim_ok (to_delim o) -> Z.of_nat (it_index it) < 2 ^ 31 ->
  accept_nth strip rt o (model_nth a) it =
  Ok (accept_text (spec_delim (to_delim o)) a (it_index it) (as_string strip rt (to_ansi o) it)).
Proof. exact accept_nth_fields_proof. Qed.
Print Assumptions accept_nth_fields.

(* hence the body of `framing`, `exit_code_table` and `select1_exit0_table` (map_res out_transform ...) is, item by
   item, the whole output form or its accept_text *)
Theorem accepted_body_fields :
  forall (strip rt : str -> str) o a its,
  delim_ok (to_delim o) -> to_accept_nth o = option_map model_nth a ->
  Forall (fun it => Z.of_nat (it_index it) < 2 ^ 31) its ->
  map_res (out_transform strip rt o) its = Ok (map (present_item strip rt o a) its).
Proof. exact out_transform_fields_proof. Qed.
Print Assumptions accepted_body_fields.

(* `-d , --accept-nth 1..2` on `a,,b` prints `a,` (the range ends in an empty field: one delimiter goes, one stays);
   `-d '=>' --accept-nth 1` on `a>=>b` prints `a>`; `-d , --accept-nth '{n}:{2..}|{1}'` on the 8th record `x, y ,z,`
   prints `7: y ,z|x`; `-d '[,;]+' --accept-nth 1` on `a;,b` prints `a` *)
Example c07_accept_fields_nonvacuous :
  let o := fun d => mkTopts false false false false 0 None d in
  accept_nth ex_strip (fun s => s) (o (DStr [44])) (model_nth (AFields [(1, 2)])) (mkItem 0 [97;44;44;98] None) = Ok [97;44] /\
  accept_text (FStr [44]) (AFields [(1, 2)]) 0 [97;44;44;98] = [97;44] /\
  str_fields [44] [97;44;44;98] = [[97;44]; [44]; [98]] /\
  accept_nth ex_strip (fun s => s) (o (DStr [61;62])) (model_nth (AFields [(1, 1)])) (mkItem 0 [97;62;61;62;98] None) = Ok [97;62] /\
  accept_text (FStr [61;62]) (AFields [(1, 1)]) 0 [97;62;61;62;98] = [97;62] /\
  accept_nth ex_strip (fun s => s) (o (DStr [44]))
             (model_nth (ATemplate [TIndex; TLit [58]; TFields [(2, 0)]; TLit [124]; TFields [(1, 1)]]))
             (mkItem 7 [120;44;32;121;32;44;122;44] None) = Ok [55;58;32;121;32;44;122;124;120] /\
  accept_text (FStr [44]) (ATemplate [TIndex; TLit [58]; TFields [(2, 0)]; TLit [124]; TFields [(1, 1)]]) 7
              [120;44;32;121;32;44;122;44] = [55;58;32;121;32;44;122;124;120] /\
  accept_text (FSet [44;59] true) (AFields [(1, 1)]) 0 [97;59;44;98] = [97] /\
  delim_ok (DStr [44]).
Proof. vm_compute. repeat split; try reflexivity; discriminate. Qed.
