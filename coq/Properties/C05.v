(* C05 — matching is a pure function of (line, query, options).
   In the model every matcher is a Gallina function of (text, pattern, flags): there is no slab argument at all
   for V1 / exact / prefix / suffix / equal, and FuzzyMatchV2's scratch matrices are modelled as
   `list (option Z)` where a cell not written in the CURRENT call is None and reading it is an error.
   Hence "the model returns Ok" = "the call never read stale scratch memory, never indexed out of range",
   and the correspondence run drives the implementation with clean, 0x7fff-filled and history-polluted slabs. *)
From Fzf Require Import Prelude AlgoSpec AlgoModel AlgoBasics PrefilterProofs V1Proofs OccursBasics AnchoredProofs ExactProofs.
From Fzf Require Import V2Final.
Open Scope Z_scope.

(* FuzzyMatchV2 never reads a scratch cell that was not written in the current call (such a read is an error in
   the model) and never indexes out of range — for every text, pattern, flag combination and scratch capacity.
   So whatever earlier calls left in the slab cannot influence match, range, score or positions. *)
Theorem v2_never_reads_stale_memory : forall co sc cs nm fwd ib text pat wp cap,
  0 <= s_bw sc /\ 0 <= s_bd sc -> (ib = true -> Forall (fun c => 0 <= c < 128) text) ->
  (forall c, c < 192 -> co_norm co c = c) ->
  exists r, fuzzy_v2 co sc cs nm fwd ib text pat wp cap = Ok r.
Proof. exact v2_total_final. Qed.
Print Assumptions v2_never_reads_stale_memory.

(* requesting positions changes neither match / no-match nor End nor Score of FuzzyMatchV2 (Start may differ:
   known finding K1, sort keys never read it) *)
Theorem v2_withpos_indep : forall co sc cs nm fwd ib text pat cap,
  0 <= s_bw sc /\ 0 <= s_bd sc -> (ib = true -> Forall (fun c => 0 <= c < 128) text) ->
  (forall c, c < 192 -> co_norm co c = c) ->
  end_score (fuzzy_v2 co sc cs nm fwd ib text pat true cap) = end_score (fuzzy_v2 co sc cs nm fwd ib text pat false cap) /\
  end_score (fuzzy_v2 co sc cs nm fwd ib text pat true cap) <> None.
Proof. exact v2_withpos_indep_final. Qed.
Print Assumptions v2_withpos_indep.

(* requesting positions does not change match / range / score of FuzzyMatchV1 *)
Theorem v1_withpos_indep : forall co sc cs nm fwd ib text pat,
  strip_pos (fuzzy_v1 co sc cs nm fwd ib text pat true) = strip_pos (fuzzy_v1 co sc cs nm fwd ib text pat false).
Proof. exact v1_withpos_indep_proof. Qed.
Print Assumptions v1_withpos_indep.

(* the reported range of FuzzyMatchV1 is determined by the line and the pattern alone: it is the unique span
   that is tight on both sides for the greedy scan in the chosen direction — no dependence on anything else *)
Theorem v1_span_determined : forall co sc cs nm fwd ib text pat wp s e score pos,
  fuzzy_v1 co sc cs nm fwd ib text pat wp = Ok (Match s e score pos) -> pat <> [] ->
  subseq_b co cs nm (window text s e) pat = true /\
  subseq_b co cs nm (tl (window text s e)) pat = false /\
  subseq_b co cs nm (removelast (window text s e)) pat = false.
Proof. exact v1_span_tight_proof. Qed.
Print Assumptions v1_span_determined.

(* the anchored and exact matchers never fail for any input (no out-of-range access in any state) *)
Theorem slab_free_matchers_total : forall co sc cs nm fwd boundary ib text pat wp,
  (exists r, fuzzy_v1 co sc cs nm fwd ib text pat wp = Ok r) /\
  (exists r, exact_match co sc cs nm fwd boundary ib text pat = Ok r) /\
  (exists r, prefix_match co sc cs nm text pat = Ok r) /\
  (exists r, suffix_match co sc cs nm text pat = Ok r) /\
  (exists r, equal_match co sc cs nm text pat = Ok r).
Proof.
  intros. repeat split; [apply v1_total_proof|apply exact_total_proof|apply prefix_total_proof|apply suffix_total_proof|apply equal_total_proof].
Qed.
Print Assumptions slab_free_matchers_total.

(* representation independence of the pre-filter: on ASCII text held as runes the window is the whole line, held as
   bytes it is a sub-window that keeps every match (so match / no-match cannot depend on the representation) *)
Theorem repr_keeps_matches : forall co cs nm, (forall c, c < 192 -> co_norm co c = c) ->
  forall text pat lo hi, pat <> [] -> Forall (fun c => 0 <= c < 128) text ->
  ascii_fuzzy_index true text pat cs = Ok (Some (lo, hi)) ->
  ascii_fuzzy_index false text pat cs = Ok (Some (O, length text)) /\
  (subseq_b co cs nm text pat = true -> subseq_b co cs nm (firstn (hi - lo) (skipn lo text)) pat = true).
Proof.
  intros co cs nm Hn text pat lo hi Hp Ha H. split; [reflexivity|].
  destruct (afi_window_sound co cs nm Hn true text pat lo hi Hp (fun _ => Ha) H) as [_ [_ G]]. exact G.
Qed.
Print Assumptions repr_keeps_matches.

(* "Consequently, filtering any sub-list of the input yields the full result restricted to that sub-list, in the same
   relative order."  Given purity (match verdict and sort keys are a function `info` of the LINE only — the theorems above
   and C02/C03), for any keep-mask over input positions (duplicate lines are fine), any chunking of both inputs (incl.
   --tail-style partial first chunks), any partition counts, tac / sort flags and query kinds: the positions printed for
   the sub-list, translated back to positions of the full list, are exactly the full result filtered by the mask. *)
From Fzf Require Import RankSpec RankModel MergerModel RankProofs MergerProofs SublistProofs.

Theorem sublist_restriction : forall (L : Type) (info : L -> option RankModel.points) (keep : Z -> bool) (full : list L)
    (chunk_size : Z) (chunks_full chunks_sub : list (list (item L))) (k k' : Z) (m_sort tac pat_empty pat_sortable : bool),
  1 <= k -> 1 <= k' -> 0 < chunk_size ->
  MergerProofs.chunks_wf (item L) chunk_size chunks_full -> concat chunks_full = number L full ->
  MergerProofs.chunks_wf (item L) chunk_size chunks_sub -> concat chunks_sub = number L (sub_lines L keep full) ->
  exists out_full out_sub,
    MergerModel.filter_output (item L) RankModel.result (s_mk L) (MergerProofs.cless tac) chunk_size (s_mt L info)
                              k' m_sort tac pat_empty pat_sortable chunks_full = Ok out_full /\
    MergerModel.filter_output (item L) RankModel.result (s_mk L) (MergerProofs.cless tac) chunk_size (s_mt L info)
                              k m_sort tac pat_empty pat_sortable chunks_sub = Ok out_sub /\
    map (fun r => pos_of (positions L keep full) (RankModel.r_index r)) out_sub = filter keep (map RankModel.r_index out_full).
Proof. exact sublist_restriction_proof. Qed.
Print Assumptions sublist_restriction.
