(* C14 — the UI never crashes or hangs and always leaves terminal and system clean (PARTIAL: the logic core).
   Statements only; proofs live in proofs/TermProofs.v.  What is NOT here: panic- and hang-freedom of the real
   renderer / key decoder (explored by the check, not proved). *)
From Fzf Require Import Prelude TermSpec TermModel TermProofs StartSpec StartModel StartProofs MouseSpec MouseModel MouseProofs JumpSpec JumpModel JumpProofs.
Open Scope Z_scope.

(* For EVERY configuration (fullscreen or --height, --no-clear, --no-mouse, --no-input, any window height,
   cursor-position answer or none, cursor in column 0 or not) and EVERY sequence of things that happen between
   Init and Close — frames of arbitrary drawing (bytes that contain no mode-changing sequence), hide/show of the
   cursor, suspensions Pause(clear);child output;Resume(clear, sigcont) for all four (clear, sigcont) — the bytes the
   renderer has written, interpreted by the spec's net_effect on a terminal in its default state (?7 and ?25 set,
   everything else reset), leave the terminal in its default state again; termios is back to the original state
   and nothing is left in the output queue.  The single exception is the (undocumented, deliberate) combination
   --no-clear without --height, which stays on the alternate screen: `expected` says so explicitly. *)
Theorem lifecycle_balanced : forall c ops, Forall lop_ok ops ->
  let st := run_lifecycle c ops in
  net_effect (r_out st) m0 = expected c /\ r_raw st = false /\ r_queued st = [].
Proof. exact lifecycle_balanced_proof. Qed.
Print Assumptions lifecycle_balanced.

(* ... which is the terminal default m0 itself unless --no-clear is combined with the full-screen mode *)
Theorem lifecycle_balanced_default : forall c ops, Forall lop_ok ops ->
  c_clear c = true \/ c_fullscreen c = false ->
  net_effect (r_out (run_lifecycle c ops)) m0 = m0.
Proof. exact lifecycle_balanced_default_proof. Qed.
Print Assumptions lifecycle_balanced_default.

(* constrain terminates (the fuelled inner loops never run out: the result is Ok) and leaves cursor and scroll
   offset in bounds, for every item count, window height >= 1, scroll-off, and ANY previous cy / offset *)
Theorem constrain_in_bounds : forall count maxLines scrollOff cy offset,
  0 <= count -> 1 <= maxLines ->
  exists cy' off', constrain count maxLines scrollOff cy offset = Ok (cy', off') /\
                   view_in_bounds count maxLines cy' off'.
Proof. exact constrain_in_bounds_proof. Qed.
Print Assumptions constrain_in_bounds.

(* with a window of no rows it still terminates; only the offset is clamped into [0, count] *)
Theorem constrain_terminates_no_rows : forall count maxLines scrollOff cy offset,
  0 <= count -> maxLines <= 0 ->
  exists off', constrain count maxLines scrollOff cy offset = Ok (cy, off') /\ 0 <= off' <= count.
Proof. exact constrain_no_rows_proof. Qed.
Print Assumptions constrain_terminates_no_rows.

(* FULL statement wanted:  forall es, no `become` in es -> t_exited (t_run t0 es) = true -> t_ledger (t_run t0 es) = [].
   It is FALSE of the faithful model and of fzf (tempfiles_removed_refuted below).  Proved instead: on every ORDERLY
   history (no slot that still owns file names is overwritten: ok_step) the ledger is empty whenever nothing is pending;
   this covers every number and interleaving of scroll-offset evaluations, execute / execute-silent / transform
   commands with any outcome, previews that finish, are killed or fail to start, and reloads consumed one at a time. *)
Theorem tempfiles_removed_partial : forall es,
  orderly t0 es -> owned (t_run t0 es) = [] -> t_ledger (t_run t0 es) = [].
Proof. exact tempfiles_removed_partial_proof. Qed.
Print Assumptions tempfiles_removed_partial.

(* the synchronous commands never add to the ledger, in ANY state (orderly or not) *)
Theorem sync_paths_clean : forall st e,
  (exists n, e = TScroll n) \/ (exists v c n, e = TExecute v c n) ->
  (forall x, In x (t_ledger (t_step st e)) -> In x (t_ledger st)).
Proof. exact sync_paths_clean_proof. Qed.
Print Assumptions sync_paths_clean.

(* Refutation of the full statement (findings c14-tempfile-double-reload and c14-tempfile-exit-during-reload):
   (1) a history after which nothing is pending, the process has exited and a file is left (two reloads in one action list);
   (2) an ORDERLY history without `become` that exits while a reload owns a file. *)
Theorem tempfiles_removed_refuted :
  (exists es, owned (t_run t0 es) = [] /\ t_exited (t_run t0 es) = true /\ t_ledger (t_run t0 es) <> []) /\
  (exists es, t_exited (t_run t0 es) = true /\ t_ledger (t_run t0 es) <> [] /\
              Forall (fun e => match e with TBecome _ _ => False | _ => True end) es /\ orderly t0 es).
Proof. exact tempfiles_removed_refuted_proof. Qed.
Print Assumptions tempfiles_removed_refuted.

(* The --tmux popup proxy (src/proxy.go, runProxy): for EVERY environment -- standard input a terminal or not, either
   mkfifo failing, the command builder failing, ANY exit status of the popup command (accept 0, no match 1, error 2,
   become 126, popup closed 129, abort 130, ...), cmd.Run failing without an exit status, the become file readable or
   not, /dev/tty available or not -- none of the hand-over files (output fifo, input fifo, script, <script>.become) is
   left when the outer process returns OR replaces itself with the become command.  The deferred removals are modelled
   as a stack that `return` runs and `exec` discards.  The one hypothesis: the inner fzf leaves a become file only when
   it exits with status 126 (penv_consistent); it is needed (second theorem).  NOT covered: the outer process being
   killed by a signal it does not handle (SIGTERM, SIGHUP: known findings c14-tmux-sigterm, c14-sighup). *)
Theorem proxy_files_removed : forall e, penv_consistent e -> pr_left (run_proxy e) = [].
Proof. exact proxy_files_removed_proof. Qed.
Print Assumptions proxy_files_removed.

Theorem proxy_files_removed_needs_consistency :
  exists e, pe_child e <> 126 /\ pr_left (run_proxy e) = [PFBecome].
Proof. exact proxy_files_removed_needs_consistency_proof. Qed.
Print Assumptions proxy_files_removed_needs_consistency.

(* while the popup is open exactly these exist: output fifo, input fifo iff standard input is not a terminal, script
   (this is what the check compares with the listing of the real TMPDIR) *)
Theorem proxy_live_files : forall e, pe_out_ok e = true -> pe_builder_ok e = true ->
  (pe_stdin_tty e = true \/ pe_in_ok e = true) ->
  pr_live (run_proxy e) = if pe_stdin_tty e then [PFOut; PFScript] else [PFOut; PFIn; PFScript].
Proof. exact proxy_live_files_proof. Qed.
Print Assumptions proxy_live_files.

(* ---- commands that cannot be started (src/reader.go readFromCommand / ReadSource / restart, src/core.go Run).
   core.go starts every source of the list with `go reader.X(..., readyChan); <-readyChan`; while the coordinator sits
   there no search result, no reload and no exit request is processed.  handshake_okb (spec/StartSpec.v) is the
   contract of one reader run: exactly one send when somebody waits, nothing of unbounded duration before it, the
   mutex released, the end of input announced once.  The model of fzf's reader meets it on EVERY path -- the command
   starts or cannot be started (shell missing / not executable, command line over the kernel's limit), it succeeds or
   fails, every source of ReadSource, with and without a waiting coordinator (--filter): *)
Theorem reader_handshake :
  (forall c, handshake_okb true (restart_trace c) = true) /\
  (forall s ready c walk_ok, handshake_okb ready (read_source s ready c walk_ok) = true).
Proof. split; [exact restart_handshake_proof | exact read_source_handshake_proof]. Qed.
Print Assumptions reader_handshake.

(* ... and the contract is enough: for EVERY reader that meets it and EVERY history of events the coordinator sees
   (reload requests whose commands start or not, in any order and number, while a previous load is running or not,
   end-of-input notifications, exit requests) the coordinator (model of the Run loop) is never stuck in `<-readyChan`
   or in reader.terminate(), no reader goroutine is left blocked, and an exit request is processed wherever it
   occurs in the history. *)
Theorem coordinator_never_blocks : forall rd, (forall c, handshake_okb true (rd c) = true) ->
  forall es, let st := c_run rd c0 es in c_blocked st = false /\ c_held st = false /\ c_leaked st = 0%nat.
Proof. exact coordinator_never_blocks_proof. Qed.
Print Assumptions coordinator_never_blocks.

Theorem quit_is_processed : forall rd, (forall c, handshake_okb true (rd c) = true) ->
  forall es1 es2, c_stop (c_run rd c0 (es1 ++ CQuit :: es2)) = true.
Proof. exact quit_is_processed_proof. Qed.
Print Assumptions quit_is_processed.

(* what the check can see of a real reader run (values received on readyChan, the goroutine ends, EvtReadFin posted,
   reader.terminate() returns) is determined by the contract: this is the spec evaluated on the hook's output *)
Theorem handshake_observation : forall ready tr, handshake_okb ready tr = true ->
  observation_okb ready (observation ready tr) = true.
Proof. exact handshake_observation_proof. Qed.
Print Assumptions handshake_observation.

(* the contract is needed: a reader that forgets the send on the cannot-be-started path freezes the coordinator at the
   first such reload and the exit request that follows is never processed (fzf's own reader processes it) *)
Theorem coordinator_needs_handshake :
  exists es, In CQuit es /\
    c_blocked (c_run restart_trace_nosend c0 es) = true /\ c_stop (c_run restart_trace_nosend c0 es) = false /\
    c_stop (c_run restart_trace c0 es) = true.
Proof. exact coordinator_needs_handshake_proof. Qed.
Print Assumptions coordinator_needs_handshake.

(* ---- non-vacuity *)
(* a real frame (cursor motion, colours, text, an OSC 8 hyperlink) is accepted by lop_ok; a --height --no-clear session
   with mouse that draws, hides the cursor, runs `execute`, comes back from ctrl-z and closes while the cursor is
   hidden is balanced, and its output really contains mode changes (it is not balanced because it is empty) *)
Example c14_nonvacuous_lifecycle :
  let frame := [27;91;49;66;13;27;91;59;49;59;51;56;59;53;59;49;49;48;109;62;27;91;48;109;32;97;
                27;93;56;59;59;104;116;116;112;58;47;47;120;27;92;27;91;51;65] in
  let ops := [LFrame frame 3; LHide; LFrame frame 2; LSuspend true false [104;105;10]; LSuspend false true []; LFrame frame (-1)] in
  let c := mkCfg false false true false 10 true true in
  Forall lop_ok ops /\
  net_effect (r_out (run_lifecycle c ops)) m0 = m0 /\
  (32 <= length (events (r_out (run_lifecycle c ops))))%nat /\
  m_1049 (net_effect (r_out (fold_left (r_step c) [LFrame frame 3; LHide] (r_init c (init_state c)))) m0) = false /\
  m_1000 (net_effect (r_out (r_step c (r_init c (init_state c)) (LFrame frame 3))) m0) = true.
Proof. vm_compute. repeat split; try (repeat constructor; fail); try reflexivity; intros; discriminate. Qed.

Example c14_nonvacuous_constrain :
  constrain 100 10 3 57 0 = Ok (57, 51) /\ view_in_bounds 100 10 57 51 /\ constrain 0 5 3 7 (-2) = Ok (0, 0).
Proof. vm_compute. repeat split; discriminate. Qed.

Example c14_nonvacuous_tempfiles :
  let es := [TReadFin; TPreviewStart 2 true; TExecute true false 3; TPreviewDone; TPreviewStart 1 false; TScroll 1;
             TReloadAct true 2; TActionsEnd; TCoordTake; TReadFin; TExit] in
  orderly t0 es /\ owned (t_run t0 es) = [] /\ t_next (t_run t0 es) = 9%nat.
Proof. vm_compute. tauto. Qed.

(* a become from the popup with a piped list: consistent, three files while the popup is open, the become file is
   there when the popup has closed, the process is replaced, and nothing is left *)
Example c14_nonvacuous_proxy :
  let e := mkPenv false true true true 126 true true true in
  penv_consistent e /\ pr_live (run_proxy e) = [PFOut; PFIn; PFScript] /\ pr_exec (run_proxy e) = true /\
  pr_left (run_proxy e) = [] /\ pr_code (run_proxy (mkPenv true true true true 130 true false true)) = 130.
Proof. vm_compute. repeat split; reflexivity. Qed.

(* a reload that cannot be started, one that fails, one that works, then the exit request: fzf's reader meets the
   contract on the failing path (the trace is not empty, has its send and its end-of-input event with the command),
   nothing blocks and the process stops; the same history freezes a reader without the send *)
Example c14_nonvacuous_start :
  let bad := mkCmd false false in
  let es := [CReadFin; CSearchNew (Some bad); CReadFin; CSearchNew (Some (mkCmd true false)); CSearchNew (Some (mkCmd true true));
             CReadFin; CReadFin; CQuit] in
  restart_trace bad = [RLock; RSend; RUnlock; RFin true; RRemove] /\
  handshake_okb true (restart_trace bad) = true /\ handshake_okb true (restart_trace_nosend bad) = false /\
  handshake_okb true [RLock; RUnlock; RFeed; RSend; RFin false] = false /\
  handshake_okb true [RLock; RSend; RSend; RUnlock; RFin true] = false /\
  c_stop (c_run restart_trace c0 es) = true /\ c_blocked (c_run restart_trace_nosend c0 es) = true /\
  observation true (restart_trace bad) = [1; 1; 1; 1] /\ observation true (restart_trace_nosend bad) = [0; 1; 1; 1] /\
  observation_okb true (observation true (restart_trace_nosend bad)) = false.
Proof. vm_compute. repeat split; reflexivity. Qed.

(* Mouse histories (src/terminal.go, the actMouse handler of Terminal.Loop, the part that ends in
   `prevLine := t.prevLines[my]`): the state kept across the events of a gesture (button held, scrollbar dragging), its
   reset on release, the "Ignored" guard that dragging disables, the translation of coordinates per layout and the
   scrollbar-dragging branch.  For EVERY geometry whose list window is no taller than the table of printed lines, every
   layout, every dragging state and EVERY history of events -- pointer anywhere, inside or outside the screen; presses,
   motion with the button held, releases in any order; any event consumed by an earlier branch (wheel, preview, input,
   header); a scrollbar of any length or none at any moment -- every row looked up in the table lies inside it.
   NOT covered: the earlier branches themselves (preview scrollbar / border dragging), what is done with the row
   afterwards; the model is tied to the Go code by the session stream only (no hook reaches the handler). *)
Theorem mouse_row_in_bounds : forall g st es, geom_ok g -> Forall (safe g) (mouse_run g st es).
Proof. exact mouse_row_in_bounds_proof. Qed.
Print Assumptions mouse_row_in_bounds.

(* the scrollbar branch must leave the handler whether or not a scrollbar exists: the variant that falls through without
   one looks up a negative row after a press on the list's last column and motion below the window *)
Theorem mouse_break_needed : exists g es, geom_ok g /\ ~ Forall (safe g) (mouse_run_fallthrough g mst0 es).
Proof. exact mouse_break_needed_proof. Qed.
Print Assumptions mouse_break_needed.

(* non-vacuity: a geometry that satisfies the hypothesis, and a history in which rows ARE looked up *)
Example mouse_geom_ok : geom_ok (mkGeom 1 2 5 10 2 0 8) /\
  mouse_run (mkGeom 1 2 5 10 2 0 8) mst0 [mkMev 3 2 true false 0; mkMev 11 2 true false 0; mkMev 11 7 true false 0; mkMev 11 7 false false 0; mkMev 4 1 true false 0]
  = [Row 3; Row 3; Stop; Stop; Row 4].
Proof. split; [unfold geom_ok; cbn; lia | vm_compute; reflexivity]. Qed.

(* Jump mode (src/terminal.go: the label part of printItem, `if index < len(t.jumpLabels) { ... t.jumpLabels[index:index+1] ...}`,
   and the index test of the key handler): for EVERY label string (empty included), every pointer width and every number of
   visible items -- fewer than, as many as, or more than there are labels -- drawing the frame is defined (every slice of
   the label string lies inside it) and gives one entry per visible row.
   NOT covered: everything else printItem does with the row (widths, colours, multi-line items); the model is tied to the
   Go code by the jump sessions of the check only (printItem needs a window; no hook reaches it). *)
Theorem jump_label_in_bounds : forall labels pointerLen visible,
  exists r, jump_frame labels pointerLen visible = Ok r /\ length r = visible /\
            Forall (jread_safe (length labels)) (jump_reads_with Nat.ltb (length labels) visible).
Proof. exact jump_label_in_bounds_proof. Qed.
Print Assumptions jump_label_in_bounds.

(* the guard must be strict: with `index <= len` the frame is defined exactly when no more items are visible than there are
   labels, and is a slice-bounds panic otherwise *)
Theorem jump_guard_needed : forall labels pointerLen visible,
  (is_ok (jump_frame_le labels pointerLen visible) = true <-> (visible <= length labels)%nat) /\
  ((length labels < visible)%nat -> jump_frame_le labels pointerLen visible = Err Panic).
Proof. exact jump_guard_needed_proof. Qed.
Print Assumptions jump_guard_needed.

(* the key: a label picks a row that is on the screen and holds an item, and it is the row that carries this label *)
Theorem jump_pick_in_bounds : forall labels key rows count offset cy,
  jump_pick labels key rows count offset = Some cy ->
  jpick_safe rows count offset cy /\ nth_error labels (cy - offset) = Some key.
Proof. exact jump_pick_in_bounds_proof. Qed.
Print Assumptions jump_pick_in_bounds.

(* non-vacuity: three labels, five visible items, pointer of width 2: rows 0..2 carry a label, rows 3 and 4 none; the
   `<=` variant fails on this frame and not on a frame of three rows; key `b` picks the second visible row *)
Example jump_nonvacuous :
  jump_frame [97; 98; 99] 2 5 = Ok [Some [97; 32]; Some [98; 32]; Some [99; 32]; None; None] /\
  jump_frame_le [97; 98; 99] 2 5 = Err Panic /\ is_ok (jump_frame_le [97; 98; 99] 2 3) = true /\
  jump_pick [97; 98; 99] 98 5 10 4 = Some 5%nat /\ jump_pick [97; 98; 99] 99 2 10 4 = None.
Proof. vm_compute. repeat split; reflexivity. Qed.
