(* C20 — the preview always catches up with the focused line (partial: the state machine is proved for all
   schedules; signal delivery, timers and the process table of the real program are observed by the harness).
   Statements only; proofs live in proofs/PreviewProofs.v.  `pol` ranges over the machines described in
   model/PreviewModel.v; `coded` is the tree (b3cab5f + 268c349 + 5b17ce0).  A preview command may close its
   output and go on running (label LCloseOut): the end of the output and the end of the process are different
   events, and every theorem below quantifies over schedules that contain both. *)
From Fzf Require Import Prelude PreviewSpec PreviewModel PreviewProofs.
Open Scope Z_scope.

(* After ANY schedule (user actions, render loop, previewer, helper goroutines, output and exit of preview
   commands of any duration, session end), for any machine: at most one preview command is alive. *)
Theorem at_most_one_alive : forall pol sched t u,
  (length (alive_procs (run pol sched (init t u))) <= 1)%nat.
Proof. exact at_most_one_alive_proof. Qed.
Print Assumptions at_most_one_alive.

(* In any quiescent state (session alive, mailbox empty, no goroutine of fzf can take a step: only the user or a
   still running preview command can change anything) with the preview window visible: the command started last
   is the template expanded with the CURRENT focused line, query and selection, and once that command has
   printed something or has finished the window shows exactly its output, tagged with its version.
   Hypothesis s_clean: no direct refresh action (refresh-preview, toggle-preview, change-preview) ran while a
   list redraw was still pending; without it the statement is false for the code (latest_wins_refuted_batch,
   known finding c20-batched-refresh). *)
Theorem latest_wins : forall pol sched t u,
  let s := run pol sched (init t u) in
  quiescent pol s = true -> s_visible s = true -> s_clean s = true ->
  exists p rest, s_tab s = p :: rest /\
    expand_req (p_req p) = Ok (expansion (s_tmpl s) (s_ui s)) /\
    (p_out p <> [] \/ p_alive p = false -> s_shown s = p_out p /\ s_shown_ver s = p_ver p).
Proof. exact latest_wins_proof. Qed.
Print Assumptions latest_wins.

(* In any quiescent state no superseded command is alive: every live command is the one for the current state. *)
Theorem superseded_get_cancel : forall pol sched t u,
  let s := run pol sched (init t u) in
  quiescent pol s = true -> s_visible s = true -> s_clean s = true ->
  forall p, In p (alive_procs s) -> expand_req (p_req p) = Ok (expansion (s_tmpl s) (s_ui s)).
Proof. exact superseded_get_cancel_proof. Qed.
Print Assumptions superseded_get_cancel.

(* Catching up cannot get stuck: with the mailbox poll (b3cab5f), and with goroutine 3 told to stop only after
   cmd.Wait() has returned (pol_early = false: the order of `cmd.Wait()` and `finishChan <- true` in the tree),
   whenever no goroutine of fzf can take a step in a live session, the mailbox is empty, i.e. the state is quiescent
   and latest_wins applies.  This covers commands whose output ends long before they do (LCloseOut).  Fairness
   assumption of the reading "eventually": enabled render / previewer / poll / timer / kill steps do fire; then a
   session that is left alone either reaches such a state or only receives output from the one command latest_wins
   speaks about.  Without pol_early = false the statement is false: stable_is_quiescent_refuted_finish_at_eof. *)
Theorem stable_is_quiescent : forall pol sched t u, pol_poll pol = true -> pol_early pol = false ->
  let s := run pol sched (init t u) in
  stable pol s = true -> s_running s = true -> quiescent pol s = true.
Proof. exact stable_is_quiescent_proof. Qed.
Print Assumptions stable_is_quiescent.

(* For as long as a preview command is alive, goroutine 3 has not left: it is listening for cancel / kill / quit, or
   is in its grace period, or is about to kill, whether or not the command's output has already ended.  (With
   stable_is_quiescent: a superseded command that has closed its output and lives on is still terminated.) *)
Theorem alive_has_canceller : forall pol sched t u, pol_early pol = false ->
  let s := run pol sched (init t u) in
  forall p, In p (alive_procs s) -> exists w rd d, s_ph s = PRun w rd d /\ w <> WDone.
Proof. exact alive_has_canceller_proof. Qed.
Print Assumptions alive_has_canceller.

(* When the process is gone no preview command is alive, for every schedule, when the exit path waits for the
   previewer goroutine (5b17ce0).  Trusted: SIGKILL to the command's process group kills it (LKill). *)
Theorem none_survives_exit : forall pol sched t u, pol_exit pol = ExitWaitsStopped ->
  let s := run pol sched (init t u) in
  s_ended s = true -> alive_procs s = [].
Proof. exact none_survives_exit_proof. Qed.
Print Assumptions none_survives_exit.

(* Output tagged with an older version never replaces newer output: the displayed version never decreases and
   never exceeds the previewer's counter. *)
Theorem shown_version_monotone : forall pol sched l t u,
  (s_shown_ver (run pol sched (init t u)) <= s_shown_ver (run pol (sched ++ [l]) (init t u)))%nat /\
  (s_shown_ver (run pol sched (init t u)) <= s_pver (run pol sched (init t u)))%nat.
Proof. exact shown_version_monotone_proof. Qed.
Print Assumptions shown_version_monotone.

(* buildPlusList + replacePlaceholder's view agree with the user's reading of {} {+} {q} *)
Theorem request_is_expansion : forall t u, expand_req (build_req t u) = Ok (expansion t u).
Proof. exact request_is_expansion_proof. Qed.
Print Assumptions request_is_expansion.

(* Which PART of the output the window shows (scroll machine of model/PreviewModel.v: goroutine 2 of one command and
   the render loop's handling of its results; GateGt = the tree since 01c8ad4).  For every timing of output lines,
   100 ms ticks, the end of the output and redraws: once the command has ended and every result has been handled, the
   window holds all n lines of the output and stands at the offset the request asked for (spec: final_offset of
   requested_offset), provided no pending result was replaced in the one-slot mailbox before the render loop handled
   it (k_lost; real for the code: scroll_offset_refuted_overwrite).  The statement is about commands that END: a
   never-ending command that prints fewer lines than the offset is never rendered (scroll_starved_refuted, known
   finding c20-offset-gate-starves-short-output). *)
Theorem scroll_offset_applied : forall req headers w0 sched,
  let s := srun GateGt req headers sched (sinit req w0) in
  sdone s = true -> k_lost s = false ->
  k_wn s = k_n s /\ k_woff s = final_offset req headers (k_n s).
Proof. exact scroll_offset_applied_proof. Qed.
Print Assumptions scroll_offset_applied.

(* with the `>` condition no partial result is published while the requested line is missing *)
Theorem scroll_no_edge : forall req headers w0 sched,
  k_edge (srun GateGt req headers sched (sinit req w0)) = false.
Proof. exact scroll_no_edge_proof. Qed.
Print Assumptions scroll_no_edge.

(* ---------------------------------------------------------------- regression witnesses (vm_compute) *)

Definition T0 := mkT 1 true true true.
Definition U0 := mkU 0 [] [].

(* before b3cab5f: a cancellation sent between "request taken" and "command started" is lost; the state is
   stable, the mailbox holds the request for item 2, the command for item 1 runs for ever *)
Definition lost_cancel : list label :=
  [LRender; LTake; LSpawn; LOutput [120]; LTick; LDisplay;
   LMove 1; LRender; LKill; LReap; LDisplay; LTake; LMove 2; LRender; LSpawn].
Example latest_wins_refuted_old :
  let s := run old_machine lost_cancel (init T0 U0) in
  stable old_machine s = true /\ s_running s = true /\ quiescent old_machine s = false /\
  exists p, alive_procs s = [p] /\ expand_req (p_req p) <> Ok (expansion (s_tmpl s) (s_ui s)).
Proof. vm_compute. repeat split; try reflexivity. eexists; split; [reflexivity|discriminate]. Qed.
(* the same schedule on the machine of the tree is not stable: the poll is enabled *)
Example lost_cancel_repaired : enabled coded LPoll (run coded lost_cancel (init T0 U0)) = true.
Proof. vm_compute. reflexivity. Qed.

(* before 268c349: the process may end right after the session end was decided *)
Example none_survives_exit_refuted_old :
  let s := run old_machine [LRender; LTake; LSpawn; LExit; LQuitPub; LProcEnd] (init T0 U0) in
  s_ended s = true /\ length (alive_procs s) = 1%nat.
Proof. vm_compute. split; reflexivity. Qed.
(* between 268c349 and 5b17ce0: only a started command was waited for *)
Example none_survives_exit_refuted_268c349 :
  let s := run after_268c349 [LRender; LTake; LExit; LQuitPub; LSpawn; LProcEnd] (init T0 U0) in
  s_ended s = true /\ length (alive_procs s) = 1%nat.
Proof. vm_compute. split; reflexivity. Qed.

(* the tree today (known finding c20-batched-refresh): up + refresh-preview + down before the render loop looks *)
Example latest_wins_refuted_batch :
  let s := run coded [LRender; LTake; LSpawn; LChildExit; LReap; LDisplay;
                      LMove 1; LRefresh; LMove 0; LRender; LTake; LSpawn; LChildExit; LReap; LDisplay] (init T0 U0) in
  quiescent coded s = true /\ s_visible s = true /\ s_clean s = false /\
  exists p rest, s_tab s = p :: rest /\ expand_req (p_req p) <> Ok (expansion (s_tmpl s) (s_ui s)).
Proof. vm_compute. repeat split; try reflexivity. eexists _, _; split; [reflexivity|discriminate]. Qed.

(* finishChan sent at the end of the OUTPUT, before cmd.Wait() (seed C20-5): the command for item 0 prints a line,
   closes its output and lives on; goroutine 3 leaves; the cursor moves to item 1: the request stays in the mailbox
   for ever, no goroutine of fzf can take a step, the superseded command is alive and nobody can kill it *)
Definition closes_then_superseded : list label :=
  [LRender; LTake; LSpawn; LOutput [120]; LCloseOut; LDisplay; LMove 1; LRender].
Example stable_is_quiescent_refuted_finish_at_eof :
  let s := run finish_at_eof closes_then_superseded (init T0 U0) in
  stable finish_at_eof s = true /\ s_running s = true /\ quiescent finish_at_eof s = false /\ box_empty s = false /\
  s_ph s = PRun WDone true false /\
  exists p, alive_procs s = [p] /\ expand_req (p_req p) <> Ok (expansion (s_tmpl s) (s_ui s)).
Proof. vm_compute. repeat split; try reflexivity. eexists; split; [reflexivity|discriminate]. Qed.
(* the same schedule on the machine of the tree: goroutine 3 has received the cancellation and is about to kill (the
   output was rendered, so there is no grace period); after the kill the command for item 1 starts *)
Example closes_then_superseded_on_tree :
  let s := run coded closes_then_superseded (init T0 U0) in
  enabled coded LKill s = true /\
  let s' := run coded [LKill; LReap; LTake; LSpawn] s in
  exists p, alive_procs s' = [p] /\ expand_req (p_req p) = Ok (expansion (s_tmpl s') (s_ui s')).
Proof. vm_compute. split; [reflexivity|]. eexists; split; reflexivity. Qed.
(* and the same machine at the end of the session: the exit path waits for a previewer that is blocked in cmd.Wait()
   with nobody left to kill the command (in the code the wait is bounded by 500 ms, after which the process ends
   and the command survives: observed by the harness, check none_survives_exit) *)
Example exit_stuck_finish_at_eof :
  let s := run finish_at_eof [LRender; LTake; LSpawn; LOutput [120]; LCloseOut; LDisplay; LExit] (init T0 U0) in
  stable finish_at_eof s = true /\ s_ended s = false /\ enabled finish_at_eof LQuitPub s = false /\
  length (alive_procs s) = 1%nat.
Proof. vm_compute. repeat split; reflexivity. Qed.

(* ---------------------------------------------------------------- non-vacuity *)

(* a history with moves, a query, a selection, a superseded never-ending command, incremental output: the final
   state satisfies every hypothesis of latest_wins / superseded_get_cancel and shows the last command's output *)
Definition busy : list label :=
  [LRender; LTake; LSpawn; LOutput [120]; LTick; LDisplay;
   LMove 3; LRender; LKill; LReap; LTake; LSpawn;
   LQuery [97]; LSel [3; 5]; LMove 5; LRender; LTimer; LKill; LReap; LDisplay; LTake; LSpawn;
   LOutput [121]; LOutput [122]; LTick; LDisplay].
Example c20_nonvacuous :
  let s := run coded busy (init T0 U0) in
  quiescent coded s = true /\ s_visible s = true /\ s_clean s = true /\ length (s_tab s) = 3%nat /\
  length (alive_procs s) = 1%nat /\ s_shown s = [[121]; [122]] /\
  expansion (s_tmpl s) (s_ui s) = mkA 1 5 (Some [3; 5]) (Some [97]).
Proof. vm_compute. repeat split; reflexivity. Qed.
(* and a complete session end on the machine of the tree *)
Example c20_exit_nonvacuous :
  let s := run coded [LRender; LTake; LSpawn; LExit; LQuitPub; LKill; LReap; LTake; LQuitPub; LProcEnd] (init T0 U0) in
  s_ended s = true /\ alive_procs s = [] /\ length (s_tab s) = 1%nat.
Proof. vm_compute. repeat split; reflexivity. Qed.

(* commands that print, close their output and go on running: the first is superseded by a move (killed at once: its
   output was rendered), the second is the command for the current line, alive, its output shown; the hypotheses of
   latest_wins / superseded_get_cancel / alive_has_canceller hold; and a session end with such a command alive *)
Example c20_closed_output_nonvacuous :
  let s := run coded [LRender; LTake; LSpawn; LOutput [120]; LCloseOut; LDisplay;
                      LMove 1; LRender; LKill; LReap; LTake; LSpawn; LOutput [121]; LCloseOut; LDisplay] (init T0 U0) in
  quiescent coded s = true /\ s_visible s = true /\ s_clean s = true /\ length (s_tab s) = 2%nat /\
  length (alive_procs s) = 1%nat /\ hd_open (s_tab s) = false /\ s_ph s = PRun WListen true false /\
  s_shown s = [[121]] /\ expansion (s_tmpl s) (s_ui s) = mkA 1 1 (Some [1]) (Some []).
Proof. vm_compute. repeat split; reflexivity. Qed.
Example c20_closed_output_exit_nonvacuous :
  let s := run coded [LRender; LTake; LSpawn; LOutput [120]; LCloseOut; LDisplay;
                      LExit; LKill; LReap; LTake; LQuitPub; LProcEnd] (init T0 U0) in
  s_ended s = true /\ alive_procs s = [] /\ length (s_tab s) = 1%nat.
Proof. vm_compute. repeat split; reflexivity. Qed.

(* change-preview-window(hidden), a cursor movement while the window is away, change-preview-window(): the
   command for the line the cursor is on NOW is started and its output shown (hypotheses of latest_wins hold) *)
Example c20_window_cycle_nonvacuous :
  let s := run coded [LRender; LTake; LSpawn; LOutput [120]; LChildExit; LReap; LDisplay;
                      LHideWin; LMove 1; LRender; LShowWin; LTake; LSpawn; LOutput [121]; LChildExit; LReap; LDisplay]
               (init T0 U0) in
  quiescent coded s = true /\ s_visible s = true /\ s_clean s = true /\ length (s_tab s) = 2%nat /\
  s_shown s = [[121]] /\ expansion (s_tmpl s) (s_ui s) = mkA 1 1 (Some [1]) (Some []).
Proof. vm_compute. repeat split; reflexivity. Qed.

(* ---------------------------------------------------------------- scroll machine: witnesses *)

Fixpoint rep {A} (n : nat) (x : A) : list A := match n with O => [] | S k => x :: rep k x end.

(* request: offset 3 (line 4 on top).  2 lines, then exactly 3 lines, ticks (nothing is rendered: the requested line
   is not there), 7 more lines, the second tick publishes, one more line, end of output: 11 lines at offset 3 *)
Example scroll_nonvacuous :
  let s := srun GateGt 3 0 (rep 2 GLine ++ [GTick; GTick; GLine; GTick; GTick; GTick] ++ rep 7 GLine ++ [GTick; GTick; RDisplay; GLine; GEof; RDisplay]) (sinit 3 0) in
  sdone s = true /\ k_lost s = false /\ k_edge s = false /\ k_wn s = 11 /\ k_woff s = 3.
Proof. vm_compute. repeat split; reflexivity. Qed.
(* the machine WITHOUT the condition on initialOffset: the partial result uses up the offset *)
Example scroll_offset_refuted_no_gate :
  let s := srun GateNone 3 0 (rep 2 GLine ++ [GTick; GTick; RDisplay] ++ rep 8 GLine ++ [GEof; RDisplay]) (sinit 3 0) in
  sdone s = true /\ k_lost s = false /\ k_edge s = false /\ k_wn s = 10 /\ k_woff s = 1 /\ final_offset 3 0 (k_n s) = 3.
Proof. vm_compute. repeat split; reflexivity. Qed.
(* the tree before 01c8ad4 (`>=`): exactly `req` lines at the tick: clamped one line short *)
Example scroll_offset_refuted_edge_old :
  let s := srun GateGe 3 0 (rep 3 GLine ++ [GTick; GTick; RDisplay] ++ rep 7 GLine ++ [GEof; RDisplay]) (sinit 3 0) in
  sdone s = true /\ k_lost s = false /\ k_edge s = true /\ k_woff s = 2 /\ final_offset 3 0 (k_n s) = 3.
Proof. vm_compute. repeat split; reflexivity. Qed.
(* the same schedule on the tree: the ticks at 3 lines publish nothing, the window ends at offset 3 *)
Example scroll_edge_repaired :
  let s := srun GateGt 3 0 (rep 3 GLine ++ [GTick; GTick; RDisplay] ++ rep 7 GLine ++ [GEof; RDisplay]) (sinit 3 0) in
  sdone s = true /\ k_lost s = false /\ k_woff s = 3.
Proof. vm_compute. repeat split; reflexivity. Qed.
(* the tree today: the partial result that carries the offset is replaced by the final one before the render loop
   has handled it (a window of microseconds; not observed on the real program) *)
Example scroll_offset_refuted_overwrite :
  let s := srun GateGt 3 0 (rep 5 GLine ++ [GTick; GTick; GEof; RDisplay]) (sinit 3 7) in
  sdone s = true /\ k_lost s = true /\ k_edge s = false /\ k_woff s = 7 /\ final_offset 3 0 (k_n s) = 3.
Proof. vm_compute. repeat split; reflexivity. Qed.
(* the tree today (known finding c20-offset-gate-starves-short-output): a command that never ends and prints no more
   lines than the requested offset: however many ticks pass, no result is ever published, the window holds none of
   its 3 lines and keeps the offset (and content) it had before *)
Example scroll_starved_refuted :
  let s := srun GateGt 3 0 (rep 3 GLine ++ rep 50 GTick ++ [RDisplay]) (sinit 3 7) in
  k_eof s = false /\ k_n s = 3 /\ k_box s = None /\ k_wn s = 0 /\ k_woff s = 7 /\ k_lost s = false.
Proof. vm_compute. repeat split; reflexivity. Qed.

(* ---------------------------------------------------------------- the window machine (model/PreviewWindowModel.v)
   "... and its output is what the preview window shows": the render loop's handling of results (reqPreviewDisplay,
   printPreview with its `unchanged` short cut that redraws the first row only) restated as a machine; a state with no
   line under the cursor (spec/PreviewWindowSpec.v: has_command = false) is answered by the previewer with an empty
   result under a NEW version. *)
From Fzf Require Import PreviewWindowSpec PreviewWindowModel PreviewWindowProofs.

(* For every stream of results in which a result either carries a version the window has not drawn yet or extends the
   (non-empty) output drawn under the same version, for every height and both settings of `follow`: the rows of the
   window are the view of the lines of the last result at the window's offset, and the memo of printPreview agrees. *)
Theorem window_shows_last_result : forall h optf rs s,
  winv h s -> wf_stream h optf rs s -> winv h (wrun h optf rs s).
Proof. exact window_shows_last_result_proof. Qed.
Print Assumptions window_shows_last_result.

(* A result under a version that has not been drawn is drawn in full whatever the window held (no invariant needed). *)
Theorem fresh_result_drawn : forall h optf s r,
  pr_ver r <> m_ver s ->
  w_rows (on_display h optf s r) = view (pr_lines r) (Z.to_nat (w_off (on_display h optf s r))) h.
Proof. exact fresh_result_drawn_proof. Qed.
Print Assumptions fresh_result_drawn.

(* The state without a line: the previewer of the tree (version advanced for every request taken) blanks the window,
   from ANY window state, full or not, following or not. *)
Theorem blank_result_blanks_window : forall h optf s pver,
  (m_ver s <= pver)%nat ->
  w_rows (on_display h optf s (blank_result true pver)) = blank_rows h.
Proof. exact blank_result_blanks_window_proof. Qed.
Print Assumptions blank_result_blanks_window.

(* Refuted witness: the previewer that advances its version only when it starts a command (a full window that follows
   the output keeps the superseded command's lines below the first row). *)
Theorem blank_result_reused_version_refuted :
  exists h optf rs,
    let s := wrun h optf rs (winit h) in
    wf_stream h optf rs (winit h) /\
    w_rows (on_display h optf s (blank_result true (w_ver s))) = blank_rows h /\
    w_rows (on_display h optf s (blank_result false (w_ver s))) <> blank_rows h.
Proof. exact blank_result_reused_version_refuted_proof. Qed.
Print Assumptions blank_result_reused_version_refuted.

(* non-vacuity: a command prints 2 lines, then 2 more (same version, the window of 3 rows follows), then the next
   command's first result: every step is well formed and the window ends on the new command's only line *)
Example window_nonvacuous :
  let rs := [mkPR 1 [[1]; [2]] 0; mkPR 1 [[1]; [2]; [3]; [4]] (-1); mkPR 2 [[9]] 0] in
  wf_stream 3 true rs (winit 3) /\ w_rows (wrun 3 true rs (winit 3)) = [Some [9]; None; None].
Proof.
  split; [|reflexivity].
  simpl. split; [left; split; [discriminate | apply Z.le_refl] |].
  split; [right; split; [reflexivity | split; [discriminate | exists [[3]; [4]]; reflexivity]] |].
  split; [left; split; [discriminate | apply Z.le_refl] | exact I].
Qed.
