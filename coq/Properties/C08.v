(* C08 — interactive results converge to a fresh filter of the current query (coordinator part).
   Statements only; proofs live in proofs/Coord*.v.
   The matcher-loop theorems (narrowing_sound, loop_fresh, last_request_wins) belong to the C13 package; here the
   matcher is "one mailbox slot with the latest request + at most one running scan, published or cancelled". *)
From Fzf Require Import Prelude CoordSpec CoordModel CoordFlat CoordProofs CoordMore CoordMain CoordProgress CoordRevision SearchStrSpec SearchStrModel SearchStrProofs.
Open Scope Z_scope.

(* For EVERY schedule (any interleaving of reader pushes / polls / end of input, terminal action lists - typing,
   toggle-sort, exclude, change-nth, reload, reload-sync, search on/off -, coordinator rounds and matcher steps),
   any initial query / sort / nth and whatever `filt` computes: in a state where no event is pending, reading has
   ended and the matcher is idle, the merger on display is the fresh filter of the CURRENT state (query in effect,
   sort, nth, exclusions valid for the loaded input) over everything that is loaded; it is final; and the count
   shown is the number of loaded lines.  Caches, coalescing, cancellation are therefore unobservable here. *)
Theorem coordinator_quiescent : forall filt q so n sched,
  let s := run (init q so n) sched in
  quiescent s = true ->
  shown filt s = filter_model filt (cur_cfg s) (cl s) /\ t_count s = length (cl s) /\ r_final (t_merger s) = true.
Proof. exact coordinator_quiescent_proof. Qed.
Print Assumptions coordinator_quiescent.

(* the 23-clause invariant holds in every state of every schedule *)
Theorem invariant_all_schedules : forall q so n sched, Inv (run (init q so n) sched).
Proof. exact inv_run. Qed.
Print Assumptions invariant_all_schedules.

(* never_stale: along any schedule, any further run replaces the merger on display only by one with a sequence
   number and a major revision at least as large: a result for an older request or for an input that has been
   replaced never overwrites a newer one. *)
Theorem never_stale : forall q so n sched more,
  let s := run (init q so n) sched in rle (t_merger s) (t_merger (run s more)).
Proof. intros q so n sched more s. apply never_stale_runs, inv_run. Qed.
Print Assumptions never_stale.

(* progress, no lost wake-up: a label that is not enabled does nothing, and when none of the internal labels
   (reader end, the three coordinator handlers, matcher take/publish) is enabled the state is quiescent - every
   pending piece of work enables a label; the coordinator's delay/ticks sleep is not a state, it only postpones
   a coordinator label.  Hence a stuck state of any schedule shows the fresh filter. *)
Theorem no_lost_wakeup : forall s,
  (forall l, enabled s l = false -> step s l = s) /\
  (forallb (fun l => negb (enabled s l)) internal_labels = true -> quiescent s = true).
Proof. intro s. split; [intro l; apply disabled_noop | apply no_lost_wakeup_proof]. Qed.
Print Assumptions no_lost_wakeup.

Theorem stuck_means_converged : forall filt q so n sched,
  let s := run (init q so n) sched in
  forallb (fun l => negb (enabled s l)) internal_labels = true ->
  shown filt s = filter_model filt (cur_cfg s) (cl s) /\ t_count s = length (cl s).
Proof. exact stuck_means_converged_proof. Qed.
Print Assumptions stuck_means_converged.

(* progress, termination: from every state of every schedule, once the user and the producer stop, the eleven
   internal steps drain_labels (commands end, rounds run, a queued reload starts and ends, the matcher finishes)
   reach a quiescent state, which shows the fresh filter of that final state. *)
Theorem progress : forall filt q so n sched,
  let s := run (run (init q so n) sched) drain_labels in
  quiescent s = true /\ shown filt s = filter_model filt (cur_cfg s) (cl s).
Proof. exact progress_proof. Qed.
Print Assumptions progress.

(* the code-shaped handlers equal their one-constructor-per-branch forms (used by the proofs; also a readable
   summary of what one coordinator round does to each variable) *)
Theorem handlers_flat : forall s, coord_read s = coord_read_flat s /\ coord_search s = coord_search_flat s.
Proof. intro s. split; [apply coord_read_flat_eq | apply coord_search_flat_eq]. Qed.
Print Assumptions handlers_flat.

(* regression: under the rules of the code BEFORE commits b17bfdd (request overwrite) and bd6d4c3
   (toggle-search assignment) the conclusion of coordinator_quiescent fails in a quiescent state *)
Theorem coordinator_quiescent_refuted_old :
  (let s := run_r (mkRules false true) (init [] true 0) sched_nth_then_query in
   quiescent s = true /\ r_nth (t_merger s) = 0 /\ t_nth s = 1) /\
  (let s := run_r (mkRules true false) (init [] true 0) sched_sort_toggle_search in
   quiescent s = true /\ r_sort (t_merger s) = true /\ t_sort s = false).
Proof. split; [exact refuted_old_overwrite | exact refuted_old_toggle]. Qed.
Print Assumptions coordinator_quiescent_refuted_old.

(* non-vacuity: the same two schedules under the current rules reach quiescent states (so `quiescent` is
   satisfiable after user actions, loading and searching) in which the displayed request is the current one *)
Example c08_nonvacuous :
  let s1 := run (init [] true 0) sched_nth_then_query in
  let s2 := run (init [] true 0) sched_sort_toggle_search in
  (quiescent s1 = true /\ r_nth (t_merger s1) = 1 /\ t_nth s1 = 1 /\ r_query (t_merger s1) = [98] /\ r_items (t_merger s1) = [0; 1; 2]) /\
  (quiescent s2 = true /\ r_sort (t_merger s2) = false /\ t_sort s2 = false).
Proof. exact fixed_rules_same_schedules. Qed.

(* revision_identifies_snapshot: the premise the matcher's per-query merger cache rests on (matcher.go: the cache
   survives from one request to the next exactly when sort flag, revision and item count are the same; assumed as
   `coherent` by loop_fresh of the C13 package).  For EVERY schedule: of two search requests handed to the matcher
   (matcher.Reset; g_last is the request issued last), the later one never carries a smaller revision
   (lexicographic on major, minor), and when the revisions are equal the earlier item list is a prefix of the later
   one - so with equal counts the two requests are over the very same items.  A reload or reload-sync that replaces
   the input by another one of the same number of lines therefore ALWAYS changes the revision: a merger cached for
   the old input cannot be taken for an answer about the new one. *)
Theorem revision_identifies_snapshot : forall q so n sched more r1 r2,
  let s1 := run (init q so n) sched in
  let s2 := run s1 more in
  g_last s1 = Some r1 -> g_last s2 = Some r2 ->
  rlex (r_rev r1) (r_rev r2) /\
  (r_rev r1 = r_rev r2 -> prefix (r_items r1) (r_items r2) /\
                          (length (r_items r1) = length (r_items r2) -> r_items r1 = r_items r2)).
Proof. exact revision_identifies_snapshot_proof. Qed.
Print Assumptions revision_identifies_snapshot.

(* non-vacuity / sharpness: a one-line input [5], then reload-sync to the one-line input [7] arriving in one burst:
   two final requests with the same query, sort flag and item count and different items - told apart by the revision *)
Example revision_identifies_snapshot_nonvacuous :
  let s1 := run (init [] true 0) (firstn 3 sched_reload_sync_same_count) in
  let s2 := run s1 (skipn 3 sched_reload_sync_same_count) in
  exists r1 r2, g_last s1 = Some r1 /\ g_last s2 = Some r2 /\
    r_items r1 = [5] /\ r_items r2 = [7] /\ r_final r1 = true /\ r_final r2 = true /\ r_query r1 = r_query r2 /\
    r_sort r1 = r_sort r2 /\ r_rev r1 = (0%nat, 0%nat) /\ r_rev r2 = (1%nat, 0%nat).
Proof. exact reload_sync_same_count_example. Qed.

(* ---- the search string: search(X) / transform-search(X) (spec/SearchStrSpec.v, model/SearchStrModel.v) ----
   input_is_query_in_effect: for EVERY history of actions (search strings and actions after which the query line has
   a given text, chained or not), what Terminal.Input() hands to the coordinator (model of terminal.go: inputOverride,
   dropped after an action iff the text of the line differs from the text before that action) is the spec's query in
   effect: the string of the last search action if no later action changed the text of the query line, the query
   line otherwise.  This is the string the coordinator theorems above call t_input. *)
Theorem input_is_query_in_effect : forall t0 h,
  tq_Input (tq_run (mkTq t0 None) h) = query_in_effect t0 h.
Proof. exact input_is_query_in_effect_proof. Qed.
Print Assumptions input_is_query_in_effect.

(* the most recent query is never left with the string of an older search: after ANY history, an action that
   changes the text of the query line to n (any n different from the line before it - of the same length or not)
   makes n the query in effect; a search action is in effect at once; an action that leaves the text of the line as
   it is changes nothing *)
Theorem changed_query_in_effect : forall t0 h n,
  line_after t0 h <> n -> query_in_effect t0 (h ++ [QEdit n]) = n.
Proof. exact changed_query_in_effect_proof. Qed.
Print Assumptions changed_query_in_effect.

Theorem search_in_effect : forall t0 h x, query_in_effect t0 (h ++ [QSearch x]) = x.
Proof. exact search_in_effect_proof. Qed.
Print Assumptions search_in_effect.

Theorem same_text_keeps_search : forall t0 h,
  query_in_effect t0 (h ++ [QEdit (line_after t0 h)]) = query_in_effect t0 h.
Proof. exact same_text_keeps_proof. Qed.
Print Assumptions same_text_keeps_search.

(* non-vacuity: line "foo", search(bar), then change-query(baz) - same length, other text: "baz" is in effect;
   change-query(foo) instead keeps "bar" *)
Example search_string_nonvacuous :
  query_in_effect [102;111;111] [QSearch [98;97;114]] = [98;97;114] /\
  query_in_effect [102;111;111] [QSearch [98;97;114]; QEdit [98;97;122]] = [98;97;122] /\
  query_in_effect [102;111;111] [QSearch [98;97;114]; QEdit [102;111;111]] = [98;97;114] /\
  tq_Input (tq_run (mkTq [102;111;111] None) [QSearch [98;97;114]; QEdit [98;97;122]]) = [98;97;122].
Proof. repeat split; reflexivity. Qed.

(* Open items: none of the C08 coordinator statements is left unproved.  (Not part of this file: the matcher-loop
   theorems of the C13 package; timing - goroutine scheduling, timers - is explored by the harness, not proved.) *)
