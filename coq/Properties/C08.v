(* C08 — interactive results converge to a fresh filter of the current query (coordinator part).
   Statements only; proofs live in proofs/CoordProofs.v, CoordFlat.v, CoordMore.v.
   The matcher-loop theorems (narrowing_sound, loop_fresh, last_request_wins) belong to the C13 package. *)
From Fzf Require Import Prelude CoordSpec CoordModel CoordFlat CoordProofs CoordMore.
Open Scope Z_scope.

(* FULL STATEMENT (not yet proved end to end):
     forall filt q so n sched, let s := run (init q so n) sched in quiescent s = true ->
       shown filt s = filter_model filt (cur_cfg s) (cl s) /\ t_count s = length (cl s) /\ r_final (t_merger s) = true.
   PROVED: the statement for every state that satisfies the invariant `Inv` (23 clauses, proofs/CoordProofs.v);
   `Inv` holds initially and is preserved by 7 of the 10 labels (reader push / poll / fin, matcher take / publish /
   cancel, coordinator EvtSearchFin).  MISSING: preservation of `Inv` by LCoordRead, LCoordSearch and LUi
   (the flat forms of the two handlers needed for it are proved equal to the model in CoordFlat.v; the case
   analyses were not finished).  The missing steps are explored, not proved: the harness runs random schedules
   over all ten labels through the extracted model and checks this very conclusion (op 803). *)
Theorem coordinator_quiescent_partial : forall filt s, Inv s -> quiescent s = true ->
  shown filt s = filter_model filt (cur_cfg s) (cl s) /\ t_count s = length (cl s) /\ r_final (t_merger s) = true.
Proof. exact quiescent_from_inv. Qed.
Print Assumptions coordinator_quiescent_partial.

(* the invariant holds at the start and along every run of reader / matcher / EvtSearchFin steps *)
Theorem invariant_internal_steps_partial : forall q so n sched,
  forallb simple_label sched = true -> Inv (run (init q so n) sched).
Proof. exact inv_run_simple. Qed.
Print Assumptions invariant_internal_steps_partial.

(* never_stale: whatever step is taken (any label, any state satisfying the invariant), the merger on display is
   replaced only by one with a sequence number and a major revision at least as large: a result for an older
   request / an input that has been replaced never overwrites a newer one. *)
Theorem never_stale : forall s l, Inv s -> rle (t_merger s) (t_merger (step s l)).
Proof. exact never_stale_step. Qed.
Print Assumptions never_stale.

(* the code-shaped handlers equal their one-constructor-per-branch forms (used by the proofs; also a readable
   summary of what one coordinator round does to each variable) *)
Theorem handlers_flat : forall s, coord_read s = coord_read_flat s /\ coord_search s = coord_search_flat s.
Proof. intro s. split; [apply coord_read_flat_eq | apply coord_search_flat_eq]. Qed.
Print Assumptions handlers_flat.

(* regression: under the rules of the code BEFORE commits b17bfdd (request overwrite) and bd6d4c3
   (toggle-search assignment) the conclusion of coordinator_quiescent fails in a quiescent state *)
Theorem coordinator_quiescent_refuted_old :
  (let s := run_r (mkRules false true) (init [] true 0) sched_nth_then_query in
   quiescent s = true /\ r_nth (t_merger s) = 0 /\ t_nth s = 1) /\
  (let s := run_r (mkRules true false) (init [] true 0) sched_sort_toggle_search in
   quiescent s = true /\ r_sort (t_merger s) = true /\ t_sort s = false).
Proof. split; [exact refuted_old_overwrite | exact refuted_old_toggle]. Qed.
Print Assumptions coordinator_quiescent_refuted_old.

(* non-vacuity: the same two schedules under the current rules reach quiescent states (so `quiescent` is
   satisfiable after user actions, loading and searching) in which the displayed request is the current one *)
Example c08_nonvacuous :
  let s1 := run (init [] true 0) sched_nth_then_query in
  let s2 := run (init [] true 0) sched_sort_toggle_search in
  (quiescent s1 = true /\ r_nth (t_merger s1) = 1 /\ t_nth s1 = 1 /\ r_query (t_merger s1) = [98] /\ r_items (t_merger s1) = [0; 1; 2]) /\
  (quiescent s2 = true /\ r_sort (t_merger s2) = false /\ t_sort s2 = false).
Proof. exact fixed_rules_same_schedules. Qed.
