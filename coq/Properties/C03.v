(* C03 — scores follow the documented scoring model.
   The documented model is coq/spec/AlgoSpec.v: bonus_for, align_score (score of one explicit alignment) and
   naive_dp (the recurrence of algo.go's header comment evaluated naively over the whole line).
   Data layer: coq/gen/GeneratedCheck_C03.v proves on every run that the constants and tables of the code
   (printed by the gendata translator from /repo's current tree) are the documented ones. *)
From Fzf Require Import Prelude AlgoSpec AlgoModel AlgoBasics PrefilterProofs V1Proofs OccursBasics AnchoredProofs ExactProofs.
From Fzf Require Import V2Facts V2ScanBasics V2ScanPhase2 V2ScanProofs V2Final V2DpWin V2Int16Win V2Int16 V2Int16Model.
Open Scope Z_scope.

(* calculateScore walks the greedy alignment of [sidx, eidx) and returns exactly its documented score *)
Theorem calc_score_is_align : forall co sc cs nm text pat sidx eidx score pos,
  calculate_score co sc cs nm text pat sidx eidx = Ok (score, pos) -> pat <> [] ->
  length pos = length pat -> hd 0%nat pos = sidx -> last pos 0%nat = (eidx - 1)%nat ->
  score = align_score co sc text pos.
Proof. exact calc_score_is_align_proof. Qed.
Print Assumptions calc_score_is_align.

(* FuzzyMatchV1: the score is the documented score of a real alignment spanning exactly the reported range,
   whether or not positions were requested *)
Theorem v1_scored_as_reported : forall co sc cs nm fwd ib text pat wp s e score pos,
  fuzzy_v1 co sc cs nm fwd ib text pat wp = Ok (Match s e score pos) -> pat <> [] ->
  exists ps, witness co cs nm text pat ps = true /\ Forall (fun p => (s <= p < e)%nat) ps /\
             hd 0%nat ps = s /\ last ps 0%nat = (e - 1)%nat /\ score = align_score co sc text ps /\
             pos = (if wp then Some ps else None).
Proof. exact v1_score_proof. Qed.
Print Assumptions v1_scored_as_reported.

(* FuzzyMatchV2 (pattern of two or more characters, scratch memory sufficient): score AND end position are
   exactly what the documented recurrence gives when evaluated naively over the WHOLE line with unbounded
   integers — the windowing by the ASCII pre-filter, the per-row first-occurrence cut-off, the flat scratch
   matrices and the first/last-maximum rule are all unobservable. *)
Theorem v2_eq_naive : forall co sc cs nm fwd ib text pat wp cap s e score pos,
  (2 <= length pat)%nat -> 0 <= s_bw sc /\ 0 <= s_bd sc ->
  (ib = true -> Forall (fun c => 0 <= c < 128) text) -> (forall c, c < 192 -> co_norm co c = c) ->
  match cap with Some c => c <? Z.of_nat (length text) * Z.of_nat (length pat) | None => false end = false ->
  fuzzy_v2 co sc cs nm fwd ib text pat wp cap = Ok (Match s e score pos) ->
  naive_dp co sc cs nm fwd text pat = Some (score, e).
Proof. exact v2_score_eq_naive_final. Qed.
Print Assumptions v2_eq_naive.

(* one-character patterns: the score is 16 + 2 * (bonus of the reported position); which occurrence is reported
   is the maximum when scanning backward and the fast-path choice when scanning forward (known finding K2) *)
Theorem v2_single_scored : forall co sc cs nm fwd ib text p wp cap s e score pos,
  scheme_nonneg sc -> (forall c, c < 192 -> co_norm co c = c) ->
  (forall c, cap = Some c -> Z.of_nat (length text) <= c) ->
  fuzzy_v2 co sc cs nm fwd ib text [p] wp cap = Ok (Match s e score pos) ->
  exists lo hi, ascii_fuzzy_index ib text [p] cs = Ok (Some (lo, hi)) /\ (lo <= s < hi)%nat /\
    ((lo < s)%nat \/ s = O -> score = scoreMatch + 2 * bonus_at co sc text s).
Proof.
  intros co sc cs nm fwd ib text p wp cap s e score pos Hs Hn Hc H.
  destruct (v2_single_sound_proof co sc cs nm fwd ib text p wp cap s e score pos Hs Hn Hc H)
    as [_ [_ [_ [_ [_ [lo [hi [A [B [_ [_ E]]]]]]]]]]].
  exists lo, hi. repeat split; try exact A; try (apply B); exact E.
Qed.
Print Assumptions v2_single_scored.

(* exact, prefix and suffix terms are scored as the occurrence they report *)
Theorem exact_scored_as_reported : forall co sc cs nm fwd is_bytes text pat s e score pos,
  exact_match co sc cs nm fwd false is_bytes text pat = Ok (Match s e score pos) -> pat <> [] ->
  occurs_at co cs nm text pat s = true /\ e = (s + length pat)%nat /\ score = align_score co sc text (seq s (length pat)).
Proof.
  intros co sc cs nm fwd ib text pat s e score pos H Hp.
  destruct (exact_sound_proof co sc cs nm fwd false ib text pat s e score pos H Hp) as [He [_ [Ho [_ Hs]]]].
  repeat split; auto.
Qed.
Print Assumptions exact_scored_as_reported.

Theorem prefix_suffix_scored_as_reported : forall co sc cs nm text pat s e score pos, pat <> [] ->
  (prefix_match co sc cs nm text pat = Ok (Match s e score pos) -> score = align_score co sc text (seq s (length pat))) /\
  (suffix_match co sc cs nm text pat = Ok (Match s e score pos) -> score = align_score co sc text (seq s (length pat))).
Proof.
  intros co sc cs nm text pat s e score pos Hp. split; intros H.
  - apply (prefix_sound_complete_proof co sc cs nm text pat _ Hp) in H. cbn in H. destruct H as [_ [_ H]]. exact H.
  - apply (suffix_sound_complete_proof co sc cs nm text pat _ Hp) in H. cbn in H. destruct H as [_ [_ H]]. exact H.
Qed.
Print Assumptions prefix_suffix_scored_as_reported.

(* equal terms: the closed form (16 + bw) * M + bw = the documented score of the occurrence at a line start
   whose characters all carry the whitespace-boundary bonus *)
Theorem equal_closed_form : forall co sc cs nm text pat s e score pos, pat <> [] ->
  (nm = true -> Forall (fun p => co_norm co p = p) pat) ->
  equal_match co sc cs nm text pat = Ok (Match s e score pos) -> score = equal_score sc (length pat).
Proof.
  intros co sc cs nm text pat s e score pos Hp Hn H.
  apply (equal_sound_complete_proof co sc cs nm text pat _ Hp Hn) in H. cbn in H. destruct H as [_ [_ H]]. exact H.
Qed.
Print Assumptions equal_closed_form.

(* ---------- int16: the model's unbounded Z coincide with the int16 of the code ----------
   Go keeps H0, C0, B, H, C and every temporary of FuzzyMatchV2's loops in int16.  With bonuses in [0, bmax]
   (bmax = 10 for the three schemes; same hypotheses as no_overflow_gen_proof) and a pattern of M characters:
     hb bmax i = 16*(i+1) + bmax*(i+2)      bound of row i (0-based);   hb bmax (M-1) = 16*M + bmax*(M+1)
   [wstep] / [win_matrix] are the pure form of the matrix fill that the flat model provably computes
   (phase3_refines_proof); [wstep_trace] / [win_matrix_trace] list every value the loop body computes. *)

(* one cell of row i+1: the stored H and C and every temporary, from a bounded diagonal cell of row i and a
   bounded left neighbour *)
Theorem wstep_intermediates_bounded : forall bmax i pchar T B col d hleft inGap,
  4 <= bmax -> Forall (fun b => 0 <= b <= bmax) B ->
  0 <= w_h d <= hb bmax i -> 0 <= w_c d <= Z.of_nat i + 1 -> 0 <= hleft <= hb bmax (S i) ->
  let c := wstep pchar T B col d hleft inGap in
  let tr := wstep_trace pchar T B col d hleft inGap in
  0 <= w_h c <= hb bmax (S i) /\ 0 <= w_c c <= Z.of_nat i + 2 /\
  Forall (fun v => -3 <= v <= hb bmax (S i)) tr /\ In (w_h c) tr /\ In (w_c c) tr.
Proof. exact wstep_intermediates_bounded_proof. Qed.
Print Assumptions wstep_intermediates_bounded.

(* the whole matrix: row i in [0, 16(i+1) + bmax(i+2)] x [0, i+1]; every cell, every temporary and the running
   maximum within the bound of the last row *)
Theorem win_rows_bounded : forall bmax T B H0 C0 F pat lastIdx fwd,
  4 <= bmax -> Forall (fun b => 0 <= b <= bmax) B ->
  Forall (fun h => 0 <= h <= 16 + 2 * bmax) H0 /\ Forall (fun c => 0 <= c <= 1) C0 ->
  let M := length F in
  let rows := win_matrix T B H0 C0 F pat lastIdx in
  (forall i r, nth_error rows i = Some r ->
     Forall (fun c => 0 <= w_h c <= 16 * (Z.of_nat i + 1) + bmax * (Z.of_nat i + 2) /\
                      0 <= w_c c <= Z.of_nat i + 1) r) /\
  Forall (Forall (fun c => 0 <= w_h c <= 16 * Z.of_nat M + bmax * (Z.of_nat M + 1) /\
                           0 <= w_c c <= Z.of_nat M)) rows /\
  Forall (fun v => -3 <= v <= 16 * Z.of_nat M + bmax * (Z.of_nat M + 1)) (win_matrix_trace T B H0 C0 F pat lastIdx) /\
  0 <= fst (win_result fwd T B H0 C0 F pat lastIdx) <= 16 * Z.of_nat M + bmax * (Z.of_nat M + 1).
Proof. exact win_rows_bounded_proof. Qed.
Print Assumptions win_rows_bounded.

(* the reported score of FuzzyMatchV2 proper (any M >= 1, no V1 fallback; no side condition on the text) *)
Theorem v2_score_bounded : forall co sc bmax cs nm fwd ib text pat wp cap s e score pos,
  0 <= s_bw sc <= bmax -> 0 <= s_bd sc <= bmax -> 8 <= bmax ->
  (1 <= length pat)%nat ->
  match cap with Some c => c <? Z.of_nat (length text) * Z.of_nat (length pat) | None => false end = false ->
  fuzzy_v2 co sc cs nm fwd ib text pat wp cap = Ok (Match s e score pos) ->
  0 <= score <= 16 * Z.of_nat (length pat) + bmax * (Z.of_nat (length pat) + 1).
Proof. exact v2_score_bounded_proof. Qed.
Print Assumptions v2_score_bounded.

(* every int16 value of the run -- [v2_values]: H0, C0, B, maxScore and the temporaries of phase 2; for M >= 2 the
   H and C cells of all M rows, every temporary of rows 1 .. M-1 and the final maximum -- is in
   [-3, 16*M + bmax*(M+1)], hence an int16 under the guard (bmax = 10: M <= 1259, v2_int16_threshold) *)
Theorem v2_int16_safe : forall co sc bmax cs nm fwd ib text pat wp cap s e score pos,
  0 <= s_bw sc <= bmax -> 0 <= s_bd sc <= bmax -> 8 <= bmax ->
  (1 <= length pat)%nat ->
  match cap with Some c => c <? Z.of_nat (length text) * Z.of_nat (length pat) | None => false end = false ->
  16 * Z.of_nat (length pat) + bmax * (Z.of_nat (length pat) + 1) <= 32767 ->
  fuzzy_v2 co sc cs nm fwd ib text pat wp cap = Ok (Match s e score pos) ->
  -32768 <= score <= 32767 /\
  exists lo hi, ascii_fuzzy_index ib text pat cs = Ok (Some (lo, hi)) /\
    Forall (fun v => -3 <= v <= 16 * Z.of_nat (length pat) + bmax * (Z.of_nat (length pat) + 1))
           (v2_values co sc cs nm fwd text pat lo hi) /\
    Forall (fun v => -32768 <= v <= 32767) (v2_values co sc cs nm fwd text pat lo hi) /\
    ((2 <= length pat)%nat -> In score (v2_values co sc cs nm fwd text pat lo hi)).
Proof. exact v2_int16_safe_proof. Qed.
Print Assumptions v2_int16_safe.

(* with a slab (cap(slab.I16) = 102400): the code's own guard N*M <= cap and M <= N give M <= 320, bound 8330 *)
Theorem v2_int16_safe_with_slab : forall co sc cs nm fwd ib text pat wp c s e score pos,
  0 <= s_bw sc <= 10 -> 0 <= s_bd sc <= 10 ->
  (1 <= length pat)%nat -> c <= 102400 ->
  (c <? Z.of_nat (length text) * Z.of_nat (length pat)) = false ->
  fuzzy_v2 co sc cs nm fwd ib text pat wp (Some c) = Ok (Match s e score pos) ->
  (length pat <= 320)%nat /\ 0 <= score <= 8330 /\
  exists lo hi, ascii_fuzzy_index ib text pat cs = Ok (Some (lo, hi)) /\
    Forall (fun v => -3 <= v <= 8330) (v2_values co sc cs nm fwd text pat lo hi) /\
    Forall (fun v => -32768 <= v <= 32767) (v2_values co sc cs nm fwd text pat lo hi).
Proof. exact v2_int16_safe_with_slab_proof. Qed.
Print Assumptions v2_int16_safe_with_slab.

(* the model with int16 arithmetic: [fuzzy_v2_16] is [fuzzy_v2] with Go's wrapping int16 + and * ([w16]) at every
   int16 operation of phases 2 and 3 (proofs/V2Int16Model.v).  Under the guard the two functions are EQUAL on every
   input -- results and errors, with or without fallback: the model's unbounded Z lose nothing *)
Theorem v2_int16_model_eq : forall co sc bmax cs nm fwd ib text pat wp cap,
  0 <= s_bw sc <= bmax -> 0 <= s_bd sc <= bmax -> 8 <= bmax ->
  16 * Z.of_nat (length pat) + bmax * (Z.of_nat (length pat) + 1) <= 32767 ->
  fuzzy_v2_16 co sc cs nm fwd ib text pat wp cap = fuzzy_v2 co sc cs nm fwd ib text pat wp cap.
Proof. exact fuzzy_v2_16_eq_proof. Qed.
Print Assumptions v2_int16_model_eq.

(* with a slab of at most 102400 int16 cells (what fzf allocates) NO guard is needed: longer patterns are longer than
   the text or go to FuzzyMatchV1 (which scores in int) by the code's own N*M > cap test *)
Theorem v2_int16_model_eq_with_slab : forall co sc cs nm fwd ib text pat wp c,
  0 <= s_bw sc <= 10 -> 0 <= s_bd sc <= 10 -> c <= 102400 ->
  fuzzy_v2_16 co sc cs nm fwd ib text pat wp (Some c) = fuzzy_v2 co sc cs nm fwd ib text pat wp (Some c).
Proof. exact fuzzy_v2_16_eq_with_slab_proof. Qed.
Print Assumptions v2_int16_model_eq_with_slab.

(* the guard cannot be dropped: for bmax = 10 it holds exactly for M <= 1259, and the bound 26*M + 10 is attained
   (v2_score_bound_attained: "aaa" in "aaa" scores 88), so at M = 1260 a nil-slab run of the code wraps (K3) *)
Example v2_int16_guard_threshold :
  (forall M, 16 * M + 10 * (M + 1) <= 32767 <-> M <= 1259) /\
  16 * 1260 + 10 * (1260 + 1) = 32770 /\ ~ (-32768 <= 32770 <= 32767).
Proof. repeat split; intros; lia. Qed.

Example c03_int16_nonvacuous :
  let co := mkOps (fun c => c) (fun _ => cNonWord) (fun c => c) (fun _ => false) in
  let text := [102;111;111;45;66;97;114;32;98;97;122] in let pat := [111;98;97] in
  fuzzy_v2 co scheme_default false true true true text pat false (Some 102400) = Ok (Match 1 6 61 None) /\
  (102400 <? Z.of_nat (length text) * Z.of_nat (length pat)) = false /\
  ascii_fuzzy_index true text pat false = Ok (Some (0%nat, 10%nat)) /\
  length (v2_values co scheme_default false true true text pat 0 10) = 202%nat /\
  fold_right Z.max 0 (v2_values co scheme_default false true true text pat 0 10) = 61 /\
  fold_right Z.min 0 (v2_values co scheme_default false true true text pat 0 10) = -3 /\
  fuzzy_v2 co scheme_default true false true true [97;97;97] [97;97;97] false None = Ok (Match 0 3 88 None) /\
  16 * 3 + 10 * (3 + 1) = 88 /\
  fuzzy_v2_16 co scheme_default false true true true text pat true None = Ok (Match 2 6 61 (Some [5%nat; 4%nat; 2%nat])) /\
  w16 32770 = -32766.
Proof. cbn zeta. repeat split; vm_compute; reflexivity. Qed.

(* non-vacuity *)
Example c03_nonvacuous :
  let co := mkOps (fun c => c) (fun _ => cNonWord) (fun c => c) (fun _ => false) in
  fuzzy_v1 co scheme_default false false true true [102;111;111;45;66;97;114] [102;98;114] false
    = Ok (Match 0 7 (align_score co scheme_default [102;111;111;45;66;97;114] [0;4;6]%nat) None) /\
  naive_dp co scheme_default false false true [102;111;111;45;66;97;114] [102;98;114] = Some (68, 7%nat).
Proof. cbn zeta. split; vm_compute; reflexivity. Qed.
