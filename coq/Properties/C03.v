(* C03 — scores follow the documented scoring model.
   The documented model is coq/spec/AlgoSpec.v: bonus_for, align_score (score of one explicit alignment) and
   naive_dp (the recurrence of algo.go's header comment evaluated naively over the whole line).
   Data layer: coq/gen/GeneratedCheck_C03.v proves on every run that the constants and tables of the code
   (printed by the gendata translator from /repo's current tree) are the documented ones. *)
From Fzf Require Import Prelude AlgoSpec AlgoModel AlgoBasics PrefilterProofs V1Proofs OccursBasics AnchoredProofs ExactProofs.
From Fzf Require Import V2Facts V2ScanBasics V2ScanPhase2 V2ScanProofs V2Final.
Open Scope Z_scope.

(* calculateScore walks the greedy alignment of [sidx, eidx) and returns exactly its documented score *)
Theorem calc_score_is_align : forall co sc cs nm text pat sidx eidx score pos,
  calculate_score co sc cs nm text pat sidx eidx = Ok (score, pos) -> pat <> [] ->
  length pos = length pat -> hd 0%nat pos = sidx -> last pos 0%nat = (eidx - 1)%nat ->
  score = align_score co sc text pos.
Proof. exact calc_score_is_align_proof. Qed.
Print Assumptions calc_score_is_align.

(* FuzzyMatchV1: the score is the documented score of a real alignment spanning exactly the reported range,
   whether or not positions were requested *)
Theorem v1_scored_as_reported : forall co sc cs nm fwd ib text pat wp s e score pos,
  fuzzy_v1 co sc cs nm fwd ib text pat wp = Ok (Match s e score pos) -> pat <> [] ->
  exists ps, witness co cs nm text pat ps = true /\ Forall (fun p => (s <= p < e)%nat) ps /\
             hd 0%nat ps = s /\ last ps 0%nat = (e - 1)%nat /\ score = align_score co sc text ps /\
             pos = (if wp then Some ps else None).
Proof. exact v1_score_proof. Qed.
Print Assumptions v1_scored_as_reported.

(* FuzzyMatchV2 (pattern of two or more characters, scratch memory sufficient): score AND end position are
   exactly what the documented recurrence gives when evaluated naively over the WHOLE line with unbounded
   integers — the windowing by the ASCII pre-filter, the per-row first-occurrence cut-off, the flat scratch
   matrices and the first/last-maximum rule are all unobservable. *)
Theorem v2_eq_naive : forall co sc cs nm fwd ib text pat wp cap s e score pos,
  (2 <= length pat)%nat -> 0 <= s_bw sc /\ 0 <= s_bd sc ->
  (ib = true -> Forall (fun c => 0 <= c < 128) text) -> (forall c, c < 192 -> co_norm co c = c) ->
  match cap with Some c => c <? Z.of_nat (length text) * Z.of_nat (length pat) | None => false end = false ->
  fuzzy_v2 co sc cs nm fwd ib text pat wp cap = Ok (Match s e score pos) ->
  naive_dp co sc cs nm fwd text pat = Some (score, e).
Proof. exact v2_score_eq_naive_final. Qed.
Print Assumptions v2_eq_naive.

(* one-character patterns: the score is 16 + 2 * (bonus of the reported position); which occurrence is reported
   is the maximum when scanning backward and the fast-path choice when scanning forward (known finding K2) *)
Theorem v2_single_scored : forall co sc cs nm fwd ib text p wp cap s e score pos,
  scheme_nonneg sc -> (forall c, c < 192 -> co_norm co c = c) ->
  (forall c, cap = Some c -> Z.of_nat (length text) <= c) ->
  fuzzy_v2 co sc cs nm fwd ib text [p] wp cap = Ok (Match s e score pos) ->
  exists lo hi, ascii_fuzzy_index ib text [p] cs = Ok (Some (lo, hi)) /\ (lo <= s < hi)%nat /\
    ((lo < s)%nat \/ s = O -> score = scoreMatch + 2 * bonus_at co sc text s).
Proof.
  intros co sc cs nm fwd ib text p wp cap s e score pos Hs Hn Hc H.
  destruct (v2_single_sound_proof co sc cs nm fwd ib text p wp cap s e score pos Hs Hn Hc H)
    as [_ [_ [_ [_ [_ [lo [hi [A [B [_ [_ E]]]]]]]]]]].
  exists lo, hi. repeat split; try exact A; try (apply B); exact E.
Qed.
Print Assumptions v2_single_scored.

(* exact, prefix and suffix terms are scored as the occurrence they report *)
Theorem exact_scored_as_reported : forall co sc cs nm fwd is_bytes text pat s e score pos,
  exact_match co sc cs nm fwd false is_bytes text pat = Ok (Match s e score pos) -> pat <> [] ->
  occurs_at co cs nm text pat s = true /\ e = (s + length pat)%nat /\ score = align_score co sc text (seq s (length pat)).
Proof.
  intros co sc cs nm fwd ib text pat s e score pos H Hp.
  destruct (exact_sound_proof co sc cs nm fwd false ib text pat s e score pos H Hp) as [He [_ [Ho [_ Hs]]]].
  repeat split; auto.
Qed.
Print Assumptions exact_scored_as_reported.

Theorem prefix_suffix_scored_as_reported : forall co sc cs nm text pat s e score pos, pat <> [] ->
  (prefix_match co sc cs nm text pat = Ok (Match s e score pos) -> score = align_score co sc text (seq s (length pat))) /\
  (suffix_match co sc cs nm text pat = Ok (Match s e score pos) -> score = align_score co sc text (seq s (length pat))).
Proof.
  intros co sc cs nm text pat s e score pos Hp. split; intros H.
  - apply (prefix_sound_complete_proof co sc cs nm text pat _ Hp) in H. cbn in H. destruct H as [_ [_ H]]. exact H.
  - apply (suffix_sound_complete_proof co sc cs nm text pat _ Hp) in H. cbn in H. destruct H as [_ [_ H]]. exact H.
Qed.
Print Assumptions prefix_suffix_scored_as_reported.

(* equal terms: the closed form (16 + bw) * M + bw = the documented score of the occurrence at a line start
   whose characters all carry the whitespace-boundary bonus *)
Theorem equal_closed_form : forall co sc cs nm text pat s e score pos, pat <> [] ->
  (nm = true -> Forall (fun p => co_norm co p = p) pat) ->
  equal_match co sc cs nm text pat = Ok (Match s e score pos) -> score = equal_score sc (length pat).
Proof.
  intros co sc cs nm text pat s e score pos Hp Hn H.
  apply (equal_sound_complete_proof co sc cs nm text pat _ Hp Hn) in H. cbn in H. destruct H as [_ [_ H]]. exact H.
Qed.
Print Assumptions equal_closed_form.

(* non-vacuity *)
Example c03_nonvacuous :
  let co := mkOps (fun c => c) (fun _ => cNonWord) (fun c => c) (fun _ => false) in
  fuzzy_v1 co scheme_default false false true true [102;111;111;45;66;97;114] [102;98;114] false
    = Ok (Match 0 7 (align_score co scheme_default [102;111;111;45;66;97;114] [0;4;6]%nat) None) /\
  naive_dp co scheme_default false false true [102;111;111;45;66;97;114] [102;98;114] = Some (68, 7%nat).
Proof. cbn zeta. split; vm_compute; reflexivity. Qed.
