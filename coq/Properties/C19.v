(* C19 — the built-in walker lists exactly the files the walker options describe.
   Statements only; proofs live in proofs/WalkProofs.v.

   Vocabulary (spec/WalkSpec.v): `entry` = File | Dir | SymFile | SymDir (with the content of the target);
   `listing o ig root ch` = what a user expects for one root whose directory content is ch;
   `name_ok` = a name the file system can hold (non-empty, no '/', not "."); `root_ok` = the root has a byte
   other than '/'.  The model is the Linux build (os.PathSeparator = '/').
   Model (model/WalkModel.v): `read_files` = readFiles of reader.go (callback `walk_fn`, trimPath, the three
   skip lists) driven by the fastwalk interface stated at the top of that file. *)
From Coq Require Import Permutation.
From Fzf Require Import Prelude WalkSpec WalkModel WalkProofs.
Open Scope Z_scope.

(* ★ For ALL option sets, skip lists, roots and trees: the model never fails and pushes exactly the spec's
   listing (even in the same order when siblings are visited in list order; the real order is up to fastwalk). *)
Theorem walk_eq_listing : forall o ig roots, roots_ok roots ->
  read_files o ig roots = Ok (listing_roots o ig roots).
Proof. exact walk_eq_listing_proof. Qed.
Print Assumptions walk_eq_listing.

(* the same as multisets: whatever the model returns is a permutation of the listing *)
Theorem walk_perm_listing : forall o ig roots l, roots_ok roots ->
  read_files o ig roots = Ok l -> Permutation l (listing_roots o ig roots).
Proof. exact walk_perm_listing_proof. Qed.
Print Assumptions walk_perm_listing.

(* the callback never returns SkipDir for a plain file (which would abort fastwalk), no index is out of range *)
Theorem walk_never_aborts : forall o ig roots, roots_ok roots -> exists l, read_files o ig roots = Ok l.
Proof. exact walk_never_aborts_proof. Qed.
Print Assumptions walk_never_aborts.

(* ★ with pairwise distinct sibling names every path is pushed once (one root) *)
Theorem no_duplicates : forall o ig root ch l,
  root_ok root -> entries_ok ch -> entries_distinct ch ->
  read_files o ig [(root, ch)] = Ok l -> NoDup l.
Proof. exact no_duplicates_model_proof. Qed.
Print Assumptions no_duplicates.

(* the spec's listing itself is duplicate-free, for any root string *)
Theorem listing_no_duplicates : forall o ig root ch, entries_ok ch -> entries_distinct ch ->
  NoDup (listing o ig root ch).
Proof. exact no_duplicates_proof. Qed.
Print Assumptions listing_no_duplicates.

(* ★ The callback, called by fastwalk with `path` for an entry of kind k (p = trimPath path, not "." and not
   ending in '/'), answers SkipDir for a directory (or, under follow, a symlink to one) iff
     it is hidden and `hidden` is off, or some --walker-skip entry s applies:
       s has no '/' and equals the base name | s starts with '/' and p ends with s |
       s has a '/' elsewhere and (p = s or p ends with "/" ++ s);
   and never answers SkipDir for anything else. *)
Theorem skip_exact : forall o ig path k p,
  trim_path path = p -> p <> [DOT] -> last_byte p <> Some SLASH ->
  (dirlike o k = true ->
     ((exists out, walk_fn o (split_ignores ig) path k = Ok (out, SkipDir)) <-> prune_rule o ig p (base_name p))) /\
  (dirlike o k = false -> exists out, walk_fn o (split_ignores ig) path k = Ok (out, Continue)).
Proof. exact skip_exact_proof. Qed.
Print Assumptions skip_exact.

(* the complete behaviour of the callback in the vocabulary of the spec (fn_spec, proofs/WalkProofs.v) *)
Theorem callback_exact : forall o ig path k p,
  trim_path path = p -> last_byte p <> Some SLASH ->
  walk_fn o (split_ignores ig) path k = Ok (fn_spec o ig p k).
Proof. exact callback_exact_proof. Qed.
Print Assumptions callback_exact.

(* ★ no pushed path starts with "./" *)
Theorem no_dot_slash : forall o ig roots l x,
  roots_ok roots -> read_files o ig roots = Ok l -> In x l -> starts_with [DOT; SLASH] x = false.
Proof. exact no_dot_slash_model_proof. Qed.
Print Assumptions no_dot_slash.

(* a directory that is not pruned is listed iff `dir`, always with the trailing separator, never without;
   a file is listed iff `file` and never carries the separator *)
Theorem dir_marked_iff_dir : forall o ig d nm ch,
  name_ok nm -> Forall entry_ok ch -> pruned o ig (child d nm) nm = false ->
  (In (with_sep (child d nm)) (list_entry o ig d (Dir nm ch)) <-> o_dir o = true) /\
  ~ In (child d nm) (list_entry o ig d (Dir nm ch)).
Proof. exact dir_marked_iff_dir_proof. Qed.
Print Assumptions dir_marked_iff_dir.

Theorem file_listed_iff_file : forall o ig d nm,
  name_ok nm ->
  list_entry o ig d (File nm) = (if o_file o then [child d nm] else []) /\
  last_byte (child d nm) <> Some SLASH.
Proof. exact file_listed_iff_file_proof. Qed.
Print Assumptions file_listed_iff_file.

(* K4 (fixed in c70b7a3): with root "." a file named `.\a` (a legal Linux name) is pushed verbatim, next to a
   file "a"; name_ok no longer excludes such names, so walk_eq_listing covers them. *)
Example dot_backslash_verbatim :
  name_ok [DOT; BSLASH; 97] /\
  read_files (mkOpts true false false false) [] [([DOT], [File [DOT; BSLASH; 97]; File [97]])] =
    Ok [[DOT; BSLASH; 97]; [97]].
Proof. exact dot_backslash_verbatim_proof. Qed.

(* regression witness: the stripping rule before the fix (`.\` stripped like "./") printed it as "a" *)
Example dot_backslash_refuted_old :
  let raw := join_paths [DOT] [DOT; BSLASH; 97] in
  trim_loop_old raw = [97] /\ trim_path raw = [DOT; BSLASH; 97].
Proof. exact dot_backslash_refuted_old_proof. Qed.

(* non-vacuity: a tree with a hidden directory, a hidden file, a skipped directory (suffix rule), a symlink to a
   directory and names with a blank and a newline meets every hypothesis above; the model's answer is shown. *)
Definition ex_tree : list entry :=
  [ File [46;104];                                       (* .h          hidden file: listed *)
    Dir [46;103] [File [120]];                           (* .g/x        hidden dir: pruned *)
    Dir [97] [Dir [98] [File [99]]; File [120;32;121]];  (* a/b/c  a/"x y" ; a/b skipped by "a/b" *)
    SymDir [108] [File [110;10;108]];                    (* l -> dir containing "n\nl" *)
    Dir [101] [] ].                                      (* e/          empty dir *)
Example c19_nonvacuous :
  roots_ok [([46;47], ex_tree)] /\ entries_distinct ex_tree /\
  read_files (mkOpts true true true false) [[97;47;98]] [([46;47], ex_tree)] =
    Ok [[46;104]; [97;47]; [97;47;120;32;121]; [108;47]; [108;47;110;10;108]; [101;47]].
Proof.
  split; [|split].
  - constructor; [|constructor]. split.
    + exists 46; split; [now left|discriminate].
    + repeat constructor; try discriminate; cbn; intuition discriminate.
  - split; repeat constructor; cbn; intuition discriminate.
  - vm_compute. reflexivity.
Qed.
