(* C19 — the built-in walker lists exactly the files the walker options describe.
   Statements only; proofs live in proofs/WalkProofs.v.

   Vocabulary (spec/WalkSpec.v): `entry` = File | Dir | SymFile | SymDir (with the content of the target);
   `listing o ig root ch` = what a user expects for one root whose directory content is ch;
   `name_ok` = a name the file system can hold (non-empty, no '/', not "."); `root_ok` = the root has a byte
   other than '/'.  The model is the Linux build (os.PathSeparator = '/').
   Model (model/WalkModel.v): `read_files` = readFiles of reader.go (callback `walk_fn`, trimPath, the three
   skip lists) driven by the fastwalk interface stated at the top of that file. *)
From Coq Require Import Permutation.
From Fzf Require Import Prelude WalkSpec WalkModel WalkProofs WalkLinkSpec WalkLinkProofs.
From Fzf Require Import WalkErrSpec WalkErrModel WalkErrProofs.
Open Scope Z_scope.

(* ★ For ALL option sets, skip lists, roots and trees: the model never fails and pushes exactly the spec's
   listing (even in the same order when siblings are visited in list order; the real order is up to fastwalk). *)
Theorem walk_eq_listing : forall o ig roots, roots_ok roots ->
  read_files o ig roots = Ok (listing_roots o ig roots).
Proof. exact walk_eq_listing_proof. Qed.
Print Assumptions walk_eq_listing.

(* the same as multisets: whatever the model returns is a permutation of the listing *)
Theorem walk_perm_listing : forall o ig roots l, roots_ok roots ->
  read_files o ig roots = Ok l -> Permutation l (listing_roots o ig roots).
Proof. exact walk_perm_listing_proof. Qed.
Print Assumptions walk_perm_listing.

(* the callback never returns SkipDir for a plain file (which would abort fastwalk), no index is out of range *)
Theorem walk_never_aborts : forall o ig roots, roots_ok roots -> exists l, read_files o ig roots = Ok l.
Proof. exact walk_never_aborts_proof. Qed.
Print Assumptions walk_never_aborts.

(* ★ with pairwise distinct sibling names every path is pushed once (one root) *)
Theorem no_duplicates : forall o ig root ch l,
  root_ok root -> entries_ok ch -> entries_distinct ch ->
  read_files o ig [(root, ch)] = Ok l -> NoDup l.
Proof. exact no_duplicates_model_proof. Qed.
Print Assumptions no_duplicates.

(* the spec's listing itself is duplicate-free, for any root string *)
Theorem listing_no_duplicates : forall o ig root ch, entries_ok ch -> entries_distinct ch ->
  NoDup (listing o ig root ch).
Proof. exact no_duplicates_proof. Qed.
Print Assumptions listing_no_duplicates.

(* ★ The callback, called by fastwalk with `path` for an entry of kind k (p = trimPath path, not "." and not
   ending in '/'), answers SkipDir for a directory (or, under follow, a symlink to one) iff
     it is hidden and `hidden` is off, or some --walker-skip entry s applies:
       s has no '/' and equals the base name | s starts with '/' and p ends with s |
       s has a '/' elsewhere and (p = s or p ends with "/" ++ s);
   and never answers SkipDir for anything else. *)
Theorem skip_exact : forall o ig path k p,
  trim_path path = p -> p <> [DOT] -> last_byte p <> Some SLASH ->
  (dirlike o k = true ->
     ((exists out, walk_fn o (split_ignores ig) path k = Ok (out, SkipDir)) <-> prune_rule o ig p (base_name p))) /\
  (dirlike o k = false -> exists out, walk_fn o (split_ignores ig) path k = Ok (out, Continue)).
Proof. exact skip_exact_proof. Qed.
Print Assumptions skip_exact.

(* the complete behaviour of the callback in the vocabulary of the spec (fn_spec, proofs/WalkProofs.v) *)
Theorem callback_exact : forall o ig path k p,
  trim_path path = p -> last_byte p <> Some SLASH ->
  walk_fn o (split_ignores ig) path k = Ok (fn_spec o ig p k).
Proof. exact callback_exact_proof. Qed.
Print Assumptions callback_exact.

(* ★ no pushed path starts with "./" *)
Theorem no_dot_slash : forall o ig roots l x,
  roots_ok roots -> read_files o ig roots = Ok l -> In x l -> starts_with [DOT; SLASH] x = false.
Proof. exact no_dot_slash_model_proof. Qed.
Print Assumptions no_dot_slash.

(* a directory that is not pruned is listed iff `dir`, always with the trailing separator, never without;
   a file is listed iff `file` and never carries the separator *)
Theorem dir_marked_iff_dir : forall o ig d nm ch,
  name_ok nm -> Forall entry_ok ch -> pruned o ig (child d nm) nm = false ->
  (In (with_sep (child d nm)) (list_entry o ig d (Dir nm ch)) <-> o_dir o = true) /\
  ~ In (child d nm) (list_entry o ig d (Dir nm ch)).
Proof. exact dir_marked_iff_dir_proof. Qed.
Print Assumptions dir_marked_iff_dir.

Theorem file_listed_iff_file : forall o ig d nm,
  name_ok nm ->
  list_entry o ig d (File nm) = (if o_file o then [child d nm] else []) /\
  last_byte (child d nm) <> Some SLASH.
Proof. exact file_listed_iff_file_proof. Qed.
Print Assumptions file_listed_iff_file.

(* K4 (fixed in c70b7a3): with root "." a file named `.\a` (a legal Linux name) is pushed verbatim, next to a
   file "a"; name_ok no longer excludes such names, so walk_eq_listing covers them. *)
Example dot_backslash_verbatim :
  name_ok [DOT; BSLASH; 97] /\
  read_files (mkOpts true false false false) [] [([DOT], [File [DOT; BSLASH; 97]; File [97]])] =
    Ok [[DOT; BSLASH; 97]; [97]].
Proof. exact dot_backslash_verbatim_proof. Qed.

(* regression witness: the stripping rule before the fix (`.\` stripped like "./") printed it as "a" *)
Example dot_backslash_refuted_old :
  let raw := join_paths [DOT] [DOT; BSLASH; 97] in
  trim_loop_old raw = [97] /\ trim_path raw = [DOT; BSLASH; 97].
Proof. exact dot_backslash_refuted_old_proof. Qed.

(* non-vacuity: a tree with a hidden directory, a hidden file, a skipped directory (suffix rule), a symlink to a
   directory and names with a blank and a newline meets every hypothesis above; the model's answer is shown. *)
Definition ex_tree : list entry :=
  [ File [46;104];                                       (* .h          hidden file: listed *)
    Dir [46;103] [File [120]];                           (* .g/x        hidden dir: pruned *)
    Dir [97] [Dir [98] [File [99]]; File [120;32;121]];  (* a/b/c  a/"x y" ; a/b skipped by "a/b" *)
    SymDir [108] [File [110;10;108]];                    (* l -> dir containing "n\nl" *)
    Dir [101] [] ].                                      (* e/          empty dir *)
Example c19_nonvacuous :
  roots_ok [([46;47], ex_tree)] /\ entries_distinct ex_tree /\
  read_files (mkOpts true true true false) [[97;47;98]] [([46;47], ex_tree)] =
    Ok [[46;104]; [97;47]; [97;47;120;32;121]; [108;47]; [108;47;110;10;108]; [101;47]].
Proof.
  split; [|split].
  - constructor; [|constructor]. split.
    + exists 46; split; [now left|discriminate].
    + repeat constructor; try discriminate; cbn; intuition discriminate.
  - split; repeat constructor; cbn; intuition discriminate.
  - vm_compute. reflexivity.
Qed.

(* ---- directory worlds with link CYCLES (spec/WalkLinkSpec.v) ----
   The world is a graph of numbered directories; `unfold fuel g path l` is the finite tree a walker that follows
   links may see: a link whose target is a directory the path has already gone through (path: numbers of the
   link's textual ancestors, root and the directories of a relative root string included) is a leaf. *)

(* fuel only bounds the depth: once the unfolding exists it is the same for every larger fuel *)
Theorem unfold_fuel_irrelevant : forall f f' g path l t,
  (f <= f')%nat -> unfold f g path l = Some t -> unfold f' g path l = Some t.
Proof. exact unfold_fuel_irrelevant_proof. Qed.
Print Assumptions unfold_fuel_irrelevant.

(* ★ a link that leads back to a directory on its own path is never entered ... *)
Theorem cycle_link_is_leaf : forall below g path nm id,
  on_path id path = true -> unfold_ent below g path (GSymDir nm id) = Some (SymDir nm []).
Proof. exact cycle_link_is_leaf_proof. Qed.
Print Assumptions cycle_link_is_leaf.

(* ★ ... and is listed exactly once: under follow as LINK/ (when `file` and not pruned), nothing below it *)
Theorem cycle_link_listed_once : forall o ig d nm,
  list_entry o ig d (SymDir nm []) =
    if o_follow o then
      if pruned o ig (child d nm) nm then [] else emit (o_file o) (with_sep (child d nm))
    else emit (o_file o) (child d nm).
Proof. exact cycle_link_listed_once_proof. Qed.
Print Assumptions cycle_link_listed_once.

(* ★ however the links are laid out, no branch of the unfolding goes through more followed links than there are
   directories it has not visited yet: no lap is ever walked twice, the listing is finite whatever the fuel *)
Theorem link_depth_bounded : forall f g path l t,
  unfold f g path l = Some t -> Forall (fun e => (link_depth e <= fresh_dirs g path)%nat) t.
Proof. exact link_depth_bounded_proof. Qed.
Print Assumptions link_depth_bounded.

Theorem link_depth_le_dirs : forall f g path l t,
  unfold f g path l = Some t -> Forall (fun e => (link_depth e <= length g)%nat) t.
Proof. exact link_depth_le_dirs_proof. Qed.
Print Assumptions link_depth_le_dirs.

(* ★ the walker model on a cyclic world pushes exactly the spec's listing of the finite unfolding *)
Theorem walk_eq_listing_cyclic : forall o ig f g path root id t,
  gworld_ok g -> root_ok root ->
  unfold f g path (content g id) = Some t ->
  read_files o ig [(root, t)] = Ok (listing_roots o ig [(root, t)]).
Proof. exact walk_eq_listing_cyclic_proof. Qed.
Print Assumptions walk_eq_listing_cyclic.

(* non-vacuity: directory 0 = { top.txt, self -> ., src/ = directory 1 = { main.c, up -> .. } }, walked from "."
   (path [0]): both links lead back, both are leaves, each is listed once; an outside directory 2 = { f } reached by
   the link out -> 2 IS entered, and its link back -> 0 is a leaf again. *)
Definition ex_world : gworld :=
  [ (0%nat, [GFile [116]; GSymDir [115] 0; GDir [100] 1; GSymDir [111] 2]);
    (1%nat, [GFile [109]; GSymDir [117] 0]);
    (2%nat, [GFile [102]; GSymDir [98] 0]) ].
Example c19_cyclic_nonvacuous :
  gworld_ok ex_world /\
  unfold 3 ex_world [0%nat] (content ex_world 0) =
    Some [File [116]; SymDir [115] []; Dir [100] [File [109]; SymDir [117] []];
          SymDir [111] [File [102]; SymDir [98] []]] /\
  (forall t, unfold 3 ex_world [0%nat] (content ex_world 0) = Some t ->
     read_files (mkOpts true true true true) [] [([DOT], t)] =
       Ok [[116]; [115;47]; [100;47]; [100;47;109]; [100;47;117;47]; [111;47]; [111;47;102]; [111;47;98;47]]).
Proof.
  split; [|split].
  - repeat constructor; cbn; try discriminate; intuition discriminate.
  - vm_compute. reflexivity.
  - intros t H. vm_compute in H. injection H as <-. vm_compute. reflexivity.
Qed.

(* ---- directories that CANNOT BE READ (spec/WalkErrSpec.v, model/WalkErrModel.v) ----
   `uentry` = entry with a flag on every directory and link to a directory: can the walker read it (no permission,
   path longer than PATH_MAX, removed after its parent was read).  `visible` = the tree a walker can see (an
   unreadable directory has no content); `listing_unreadable` = the listing of the visible tree.
   `read_files_e` = readFiles with the callback's first statement `if err != nil { return nil }`, driven by
   fastwalk's error protocol (second call with the error; any non-nil answer ends the Walk; `noerr && Walk(..)`
   does not walk the roots after a failed one); it returns the items pushed and readFiles' return value. *)

(* ★ For ALL option sets, skip lists, roots and trees with ANY set of unreadable directories: the model pushes
   exactly the listing of what can be seen - every readable part of every root, each entry once - no Walk is
   ended early (the result is true) and all roots are walked. *)
Theorem walk_unreadable_eq_listing : forall o ig roots, uroots_ok roots ->
  read_files_e o ig roots = Ok (listing_unreadable o ig roots, true).
Proof. exact walk_unreadable_eq_listing_proof. Qed.
Print Assumptions walk_unreadable_eq_listing.

(* when every directory can be read this is the listing of the theorems above *)
Theorem listing_unreadable_conservative : forall o ig (roots : list uroot),
  Forall (fun r : uroot => let '(_, rd, ch) := r in rd = true /\ forallb readable ch = true) roots ->
  listing_unreadable o ig roots =
  listing_roots o ig (map (fun r : uroot => let '(root, _, ch) := r in (root, map all_readable ch)) roots).
Proof. exact listing_unreadable_conservative_proof. Qed.
Print Assumptions listing_unreadable_conservative.

(* ★ an unreadable directory costs its own content and nothing else: its siblings before and after it are
   listed as ever, the directory itself like an empty directory *)
Theorem unreadable_costs_only_its_content : forall o ig d a nm ch b,
  flat_map (list_entry o ig d) (map visible (a ++ UDir nm false ch :: b)) =
  flat_map (list_entry o ig d) (map visible a) ++ list_entry o ig d (Dir nm []) ++
  flat_map (list_entry o ig d) (map visible b).
Proof. exact unreadable_costs_only_its_content_proof. Qed.
Print Assumptions unreadable_costs_only_its_content.

(* nothing is invented: whatever is listed is listed when every directory can be read *)
Theorem unreadable_nothing_invented : forall o ig (roots : list uroot) x,
  In x (listing_unreadable o ig roots) ->
  In x (listing_roots o ig (map (fun r : uroot => let '(root, _, ch) := r in (root, map all_readable ch)) roots)).
Proof. exact unreadable_nothing_invented_proof. Qed.
Print Assumptions unreadable_nothing_invented.

(* non-vacuity and regression witness: roots "b" = { x/ (unreadable) = { f } ; g } and "c" = { h }.  reader.go's
   answer (nil) lists b/ b/x/ b/g c/ c/h and returns true; a callback that answers the error report with
   filepath.SkipDir - the idiom of filepath.WalkDir, which fastwalk does not understand on the second call - ends
   the first Walk after b/x/, returns false and never walks "c". *)
Example skipdir_on_error_loses_roots :
  uroots_ok ex_uroots /\
  read_files_e (mkOpts true true false false) [] ex_uroots =
    Ok ([[98;47]; [98;47;120;47]; [98;47;103]; [99;47]; [99;47;104]], true) /\
  walk_roots_e (walk_fn_skipdir_on_error (mkOpts true true false false) (split_ignores [])) false true ex_uroots =
    Ok ([[98;47]; [98;47;120;47]], false).
Proof. exact skipdir_on_error_loses_roots_proof. Qed.
