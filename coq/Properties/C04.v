(* C04 - results are the matched lines, each once, in rank order.
   Statements only; proofs live in proofs/RankProofs.v and proofs/MergerProofs.v.
   Vocabulary: RankSpec (key, rank_ltb, ranked, input_order, result_order), RankModel (points, result,
   compare_ranks, compare_ranks_x86, pack64, sort_results), MergerModel (new_merger, pass_merger, merger_get,
   probes, slice_chunks, scan, filter_output).  `view r` is the spec's reading of a model result: its item index
   and the key [points[3]; points[2]; points[1]; points[0]].  `le ltb a b` means "b is not before a".
   Configuration side: CriteriaSpec (tiebreak_criteria, scheme_criteria, configured: the documented reading of the
   --scheme/--tiebreak/--sort/--no-sort/--tac/--no-tac options of a whole command line), CriteriaModel (parse_scheme,
   parse_tiebreak, parse_options incl. step 4 of ParseOptions); `installs c st`: the option record st carries the
   scheme name, the criteria constants, Sort > 0 and Tac of the configuration c. *)
From Coq Require Import Permutation Sorted.
From Fzf Require Import Prelude RankSpec RankModel MergerModel RankProofs KeyProofs MergerProofs.
From Fzf Require Import CriteriaSpec CriteriaModel CriteriaProofs.
Open Scope Z_scope.

(* ---- the keys ---- *)

(* buildResult computes the documented keys: for every line of at most 65535 characters, every list of matched
   ranges lying inside the line (negated terms contribute (0,0)), every score, every list of at most four
   criteria and every classification of non-ASCII white space, the model of buildResult never fails and its
   points, read from points[3] down to points[0], are RankSpec.key padded with zeros; all within uint16. *)
Theorem build_result_is_key : forall (sp : Z -> bool) (crits : list crit) idx t offs score,
  (length crits <= 4)%nat -> zlen t <= 65535 -> offsets_ok (zlen t) offs ->
  exists p, build_result (RankSpec.is_space sp) (map code crits) (mkItem idx t) offs score = Ok (mkResult idx p) /\
            key_of_points p = key sp crits t offs score ++ repeat 0 (4 - length crits) /\
            wf_points p.
Proof. exact build_result_is_key_proof. Qed.
Print Assumptions build_result_is_key.

(* ---- the two compareRanks variants ---- *)

(* Four uint16 packed little-endian into one 64-bit integer compare as integers exactly as the keys compare
   lexicographically from points[3] down to points[0]; the packing is injective. *)
Theorem pack64_lex : forall p q, wf_points p -> wf_points q ->
  (pack64 p <? pack64 q) = lex_ltb (key_of_points p) (key_of_points q) /\
  (pack64 p = pack64 q <-> p = q).
Proof. exact pack64_lex_proof. Qed.
Print Assumptions pack64_lex.

(* result_x86.go and result_others.go compute the same function (points within uint16). *)
Theorem compare_variants_agree : forall a b tac, wf_points (r_points a) -> wf_points (r_points b) ->
  compare_ranks_x86 a b tac = compare_ranks a b tac.
Proof. exact compare_variants_agree_proof. Qed.
Print Assumptions compare_variants_agree.

(* On two different items compareRanks IS the spec's order: keys lexicographically, then index (reversed under tac). *)
Theorem compare_ranks_is_rank_lt : forall a b tac, r_index a <> r_index b ->
  compare_ranks a b tac = rank_ltb tac (view a) (view b).
Proof. exact compare_ranks_is_rank_lt_proof. Qed.
Print Assumptions compare_ranks_is_rank_lt.

(* ---- the order ---- *)

(* rank_lt is a strict total order (irreflexive, transitive, any two different items are comparable) ... *)
Theorem rank_lt_strict_total : forall tac,
  (forall a, rank_ltb tac a a = false) /\
  (forall a b c, rank_ltb tac a b = true -> rank_ltb tac b c = true -> rank_ltb tac a c = true) /\
  (forall a b, a = b \/ rank_ltb tac a b = true \/ rank_ltb tac b a = true).
Proof. exact rank_lt_strict_total_proof. Qed.
Print Assumptions rank_lt_strict_total.

(* ... so with distinct item indexes exactly one of a < b, b < a holds. *)
Theorem rank_lt_distinct : forall tac a b, ri_index a <> ri_index b ->
  rank_ltb tac a b = negb (rank_ltb tac b a).
Proof. exact rank_lt_distinct_proof. Qed.
Print Assumptions rank_lt_distinct.

(* `ranked` is THE sorted permutation: any list that is sorted and a permutation of the input equals it. *)
Theorem ranked_characterised : forall tac l l',
  l' = ranked tac l <-> (StronglySorted (le (rank_ltb tac)) l' /\ Permutation l' l).
Proof. exact ranked_characterised_proof. Qed.
Print Assumptions ranked_characterised.

(* the n log n variant evaluated by the harness on large lists is the same function *)
Theorem ranked_fast_eq : forall tac l, ranked_fast tac l = ranked tac l.
Proof. exact ranked_fast_eq_proof. Qed.
Print Assumptions ranked_fast_eq.

(* the model of sort.Sort(ByRelevance / ByRelevanceTac) yields the ranked list (no distinctness needed) *)
Theorem sort_results_is_ranked : forall tac (l : list result),
  map view (sort_results (fun a b => compare_ranks a b tac) l) = ranked tac (map view l).
Proof. exact sort_results_is_ranked_proof. Qed.
Print Assumptions sort_results_is_ranked.

(* ---- partitions ---- *)

(* Matcher.sliceChunks never fails, never loses, duplicates or reorders a chunk, and makes at most k slices:
   for every k >= 1 and every number of chunks (0, fewer than k, more than k). *)
Theorem slice_chunks_partition : forall (C : Type) (k : Z) (chunks : list C), 1 <= k ->
  exists ss, slice_chunks k chunks = Ok ss /\ concat ss = chunks /\ zlength ss <= k.
Proof. intro C. exact slice_chunks_partition_proof. Qed.
Print Assumptions slice_chunks_partition.

(* ---- the lazily merged list ---- *)

(* For ANY result type, ANY comparison `less` that is sound for a strict total order `ltb`, sorted lists,
   and ANY sequence of in-range probes (random access, repeats, any order): no probe fails and every answer is
   the idx-th element of the globally sorted concatenation.  (Invariant: merged ++ sorted remainder = global sort.) *)
Theorem merge_is_global_sort : forall (I A : Type) (mk : I -> A) (less : A -> A -> bool) (chunk_size : Z)
    (ltb : A -> A -> bool), strict_total ltb -> less_sound ltb less ->
  forall (lists : list (list A)) tac (idxs : list Z),
  Forall (StronglySorted (le ltb)) lists -> in_range (zlength (concat lists)) idxs ->
  exists xs, probes I A mk less chunk_size (new_merger I A lists true tac) idxs = Ok xs /\
             answers_are A (isort ltb (concat lists)) idxs xs.
Proof. exact merge_is_global_sort_proof. Qed.
Print Assumptions merge_is_global_sort.

(* The same with the model's own compareRanks: every probe reads the spec's `ranked` list. *)
Theorem merge_is_ranked : forall (I : Type) (mk : I -> result) (chunk_size : Z)
    (lists : list (list result)) tac (idxs : list Z),
  Forall (rsorted tac) lists -> in_range (zlength (concat lists)) idxs ->
  exists xs, probes I result mk (cless tac) chunk_size (new_merger I result lists true tac) idxs = Ok xs /\
             Forall2 (fun i x => get (ranked tac (map view (concat lists))) (Z.to_nat i) = Ok (view x)) idxs xs.
Proof. exact merge_is_ranked_proof. Qed.
Print Assumptions merge_is_ranked.

(* PassMerger (empty query): with the chunk-list shape (first and last chunk possibly partial - e.g. after --tail -,
   all others full), any probe sequence reads the items in input order, reversed under tac. *)
Theorem pass_get_correct : forall (I A : Type) (mk : I -> A) (less : A -> A -> bool) (chunk_size : Z)
    (chunks : list (list I)) tac (idxs : list Z),
  0 < chunk_size -> chunks_wf I chunk_size chunks -> in_range (zlength (concat chunks)) idxs ->
  exists xs, probes I A mk less chunk_size (pass_merger I A chunks tac) idxs = Ok xs /\
             answers_are A (input_order tac (map mk (concat chunks))) idxs xs.
Proof. exact pass_get_correct_proof. Qed.
Print Assumptions pass_get_correct.

(* Unsorted merger (--no-sort / only negated terms): input order of the matches, reversed under tac. *)
Theorem unsorted_get_correct : forall (I A : Type) (mk : I -> A) (less : A -> A -> bool) (chunk_size : Z)
    (lists : list (list A)) tac (idxs : list Z),
  in_range (zlength (concat lists)) idxs ->
  exists xs, probes I A mk less chunk_size (new_merger I A lists false tac) idxs = Ok xs /\
             answers_are A (input_order tac (concat lists)) idxs xs.
Proof. exact unsorted_get_correct_proof. Qed.
Print Assumptions unsorted_get_correct.

(* ---- end to end: what filter mode prints ---- *)

(* For every number of partitions k >= 1, every chunk list of the documented shape, every match function:
   sliceChunks + per-partition sort + NewMerger/PassMerger + the sequential read never fail and print exactly the
   spec's result list: ranked when sorting is on and the query has a positive term, input order (reversed under
   tac) otherwise. *)
Theorem result_is_ranked : forall (I : Type) (mk : I -> result) (mt : I -> option result) (chunk_size : Z)
    k m_sort tac pat_empty pat_sortable chunks,
  1 <= k -> 0 < chunk_size -> chunks_wf I chunk_size chunks ->
  exists out, filter_output I result mk (cless tac) chunk_size mt k m_sort tac pat_empty pat_sortable chunks = Ok out /\
              map view out = spec_output I mk mt m_sort tac pat_empty pat_sortable chunks.
Proof. exact filter_output_ranked_proof. Qed.
Print Assumptions result_is_ranked.

(* each matching line exactly once, nothing else *)
Theorem result_is_perm_of_matches : forall (I : Type) (mk : I -> result) (mt : I -> option result) (chunk_size : Z)
    k m_sort tac pat_empty pat_sortable chunks,
  1 <= k -> 0 < chunk_size -> chunks_wf I chunk_size chunks ->
  exists out, filter_output I result mk (cless tac) chunk_size mt k m_sort tac pat_empty pat_sortable chunks = Ok out /\
              Permutation out (if pat_empty then map mk (concat chunks) else match_chunk I result mt (concat chunks)).
Proof. exact result_is_perm_of_matches_proof. Qed.
Print Assumptions result_is_perm_of_matches.

(* --no-sort, or only negated terms, or an empty query: input order, reversed under tac *)
Theorem unsorted_when : forall (I : Type) (mk : I -> result) (mt : I -> option result) (chunk_size : Z)
    k m_sort tac pat_empty pat_sortable chunks,
  1 <= k -> 0 < chunk_size -> chunks_wf I chunk_size chunks ->
  m_sort = false \/ pat_sortable = false \/ pat_empty = true ->
  filter_output I result mk (cless tac) chunk_size mt k m_sort tac pat_empty pat_sortable chunks
  = Ok (input_order tac (if pat_empty then map mk (concat chunks) else match_chunk I result mt (concat chunks))).
Proof. exact unsorted_when_proof. Qed.
Print Assumptions unsorted_when.

(* the order does not depend on the number of worker partitions *)
Theorem order_independent_of_partitions : forall (I : Type) (mk : I -> result) (mt : I -> option result) (chunk_size : Z)
    k k' m_sort tac pat_empty pat_sortable chunks,
  1 <= k -> 1 <= k' -> 0 < chunk_size -> chunks_wf I chunk_size chunks ->
  filter_output I result mk (cless tac) chunk_size mt k m_sort tac pat_empty pat_sortable chunks
  = filter_output I result mk (cless tac) chunk_size mt k' m_sort tac pat_empty pat_sortable chunks.
Proof. exact order_independent_of_partitions_proof. Qed.
Print Assumptions order_independent_of_partitions.

(* ---- which criteria are "the configured --tiebreak criteria" ---- *)

(* parseTiebreak accepts exactly the documented lists (each criterion once, index only at the end, at most three
   besides index; any letter case) and returns score followed by the criteria in the given order. *)
Theorem parse_tiebreak_is_documented : forall s,
  parse_tiebreak s = match tiebreak_criteria s with
                     | Some cs => Ok (map crit_code cs)
                     | None => Err BadInput
                     end.
Proof. exact parse_tiebreak_spec. Qed.
Print Assumptions parse_tiebreak_is_documented.

(* For EVERY sequence of --scheme / --tiebreak / --sort / --no-sort / --tac / --no-tac options (values valid or not)
   and both answers to "does fzf produce the input itself": ParseOptions rejects the command line exactly when the
   documented reading does, and otherwise installs the documented scheme, criteria (the last --tiebreak or --scheme
   wins; the default of the chosen scheme when none was given; --tiebreak=index alone is [score], NOT the default),
   sort flag and tac flag. *)
Theorem configured_criteria_correct : forall (walker : bool) (os : list copt),
  match configured walker os with
  | Some c => exists st, parse_options walker os = Ok st /\ installs c st
  | None => exists e, parse_options walker os = Err e
  end.
Proof. exact configured_criteria_correct_proof. Qed.
Print Assumptions configured_criteria_correct.

(* ---- non-vacuity ---- *)

(* --tiebreak=index alone keeps only the score key; after another list it replaces it; a later --scheme replaces
   a --tiebreak; nothing given: the default scheme's length (the path scheme's pathname,length under the walker);
   the variant "default [byScore], test len = 1" of the same pass loses --tiebreak=index. *)
Example c04_configured_nonvacuous :
  configured false [OTiebreak w_index] = Some (mkConfig SDefault [ByScore] true false) /\
  configured false [OTiebreak w_length; OTac true; OTiebreak w_index; OSort false] = Some (mkConfig SDefault [ByScore] false true) /\
  configured false [OTiebreak w_begin; OScheme w_path] = Some (mkConfig SPath [ByScore; ByPathname; ByLength] true false) /\
  configured false [OScheme w_history; OTiebreak (w_end ++ 44 :: w_chunk)] = Some (mkConfig SHistory [ByScore; ByEnd; ByChunk] true false) /\
  configured false [] = Some (mkConfig SDefault [ByScore; ByLength] true false) /\
  configured true [OTac true] = Some (mkConfig SPath [ByScore; ByPathname; ByLength] true true) /\
  configured false [OTiebreak (w_index ++ 44 :: w_length)] = None /\
  (exists os c st, configured false os = Some c /\ parse_options_len1 false os = Ok st /\
                   o_criteria st <> map crit_code (cf_criteria c)).
Proof. repeat split; try (vm_compute; reflexivity). exact criteria_len1_refuted_proof. Qed.

(* five items in chunks of 2 (first chunk partial, as after --tail), item 2 does not match; two partitions;
   items 1 and 3 tie on all keys: broken by index, the other way round under tac *)
Definition ex_pts (i : Z) : points :=
  if i =? 0 then (0, 0, 7, 65500) else if i =? 4 then (0, 0, 3, 65500) else (0, 0, 5, 65400).
Definition ex_mt (i : Z) : option result := if i =? 2 then None else Some (mkResult i (ex_pts i)).
Definition ex_mk (i : Z) : result := mkResult i (0, 0, 0, 0).
Definition ex_chunks : list (list Z) := [[0]; [1; 2]; [3; 4]].

Example c04_nonvacuous :
  chunks_wf Z 2 ex_chunks /\
  wf_points (ex_pts 0) /\
  filter_output Z result ex_mk (cless false) 2 ex_mt 2 true false false true ex_chunks
    = Ok (map (fun i => mkResult i (ex_pts i)) [1; 3; 4; 0]) /\
  filter_output Z result ex_mk (cless true) 2 ex_mt 2 true true false true ex_chunks
    = Ok (map (fun i => mkResult i (ex_pts i)) [3; 1; 4; 0]) /\
  filter_output Z result ex_mk (cless true) 2 ex_mt 2 false true false true ex_chunks
    = Ok (map (fun i => mkResult i (ex_pts i)) [4; 3; 1; 0]) /\
  filter_output Z result ex_mk (cless true) 2 ex_mt 2 true true true false ex_chunks
    = Ok (map ex_mk [4; 3; 2; 1; 0]).
Proof. vm_compute. repeat split; try reflexivity; discriminate. Qed.

(* random access on a sorted merger: the hypotheses of merge_is_ranked are met and the answers are the ranked list *)
Example c04_probes_nonvacuous :
  let l1 := [mkResult 1 (0, 0, 5, 65400); mkResult 0 (0, 0, 7, 65500)] in
  let l2 := [mkResult 3 (0, 0, 5, 65400); mkResult 4 (0, 0, 3, 65500)] in
  Forall (rsorted false) [l1; l2] /\ in_range (zlength (concat [l1; l2])) [3; 0; 2; 0; 1] /\
  probes Z result ex_mk (cless false) 2 (new_merger Z result [l1; l2] true false) [3; 0; 2; 0; 1]
    = Ok [mkResult 0 (0, 0, 7, 65500); mkResult 1 (0, 0, 5, 65400); mkResult 4 (0, 0, 3, 65500);
          mkResult 1 (0, 0, 5, 65400); mkResult 3 (0, 0, 5, 65400)].
Proof.
  cbn zeta. split; [|split; [|vm_compute; reflexivity]].
  - repeat constructor.
  - unfold in_range. repeat constructor; cbn; lia.
Qed.

Example c04_build_nonvacuous :
  let t := [32; 32; 115; 114; 99; 47; 102; 111; 111; 32; 98; 97; 114] in
  offsets_ok (zlen t) [(6, 9); (0, 0)] /\
  build_result (RankSpec.is_space (fun _ => false)) (map code [ByScore; ByLength; ByBegin; ByPathname])
               (mkItem 5 t) [(6, 9); (0, 0)] 56 = Ok (mkResult 5 (1, 7, 11, 65479)).
Proof. split; [repeat constructor; cbn; lia|vm_compute; reflexivity]. Qed.

(* keys of a concrete line: "  src/foo bar" matched at [6,9) with score 56, tiebreak length,begin,pathname *)
Example c04_key_nonvacuous :
  key (fun _ => false) [ByScore; ByLength; ByBegin; ByPathname]
      [32; 32; 115; 114; 99; 47; 102; 111; 111; 32; 98; 97; 114] [(6, 9)] 56 = [65479; 11; 7; 1].
Proof. vm_compute. reflexivity. Qed.
