(* C17 — any command line is either accepted as documented or rejected cleanly.
   Statements only; proofs live in proofs/BindProofs.v and proofs/OptionProofs.v. *)
From Coq Require Import String.
From Fzf Require Import Prelude Val RuneSpec BindSpec BindModel BindProofs BindRoundtrip OptionSpec OptionModel OptionProofs.
From Fzf Require Import RuneProofs ColorSpec ColorModel ColorProofs.
From Fzf Require Import DisplayModeProofs MarkerSpec MarkerModel MarkerProofs.
Open Scope Z_scope.

(* maskActionContents never fails and keeps the length: parseKeymap / parseActionList slice the
   ORIGINAL string at offsets computed on the MASKED one, so this is what keeps those slices in range. *)
Theorem mask_length : forall s, exists m, mask_action_contents s = Ok m /\ length m = length s.
Proof. exact mask_total. Qed.
Print Assumptions mask_length.

(* For EVERY byte string, --bind parsing ends with a keymap or a user-level error: no index of
   parseKeymap / parseActionList / isExecuteAction (spec[offset], spec[offset+1:len(spec)-1],
   original[idx:idx+len], masked[1:]) is ever out of range. *)
Theorem bind_total : forall m s, exists o, parse_keymap m s = Ok o.
Proof. exact parse_keymap_total. Qed.
Print Assumptions bind_total.

Theorem action_list_total : forall s, exists o, parse_single_action_list s = Ok o.
Proof. exact parse_single_action_list_total. Qed.
Print Assumptions action_list_total.

(* Whatever the options file, $FZF_DEFAULT_OPTS and the command line contain (and whatever the file
   system answers), option parsing ends with a configuration or with an error and exit status 2. *)
Theorem error_is_exit2 : forall e file envw argv,
  (exists c, cli e file envw argv = Ok (Config c)) \/
  (exists code, cli e file envw argv = Ok (ExitWith 2 code)).
Proof. exact error_is_exit2_proof. Qed.
Print Assumptions error_is_exit2.

(* Last occurrence wins: if the vector before the final occurrence `name v` of a value-taking option
   parses on its own, and no later argument names an option that writes the same fields, the fields
   end up exactly as assigned from v — whatever came before, and wherever in the numbering of words (p0) the vector starts. *)
Theorem last_wins : forall e c p0 xs name fs p v vals zs c1 cz,
  assoc_str name opt_table = Some (KReq fs p) ->
  run_parser p v = Some vals ->
  go e c p0 0 xs = Ok (Good c1) ->
  isdir e name = false ->
  (forall a f, In a zs -> In f fs -> ~ In f (writes a)) ->
  go e c p0 0 (xs ++ name :: v :: zs) = Ok (Good cz) ->
  forall f, In f fs -> fv cz f = fv (setfs (combine fs vals) c1) f.
Proof. exact last_wins_proof. Qed.
Print Assumptions last_wins.

(* Layering: when options file, $FZF_DEFAULT_OPTS and command line are accepted one after the other,
   the single vector file ++ env ++ argv is accepted too and yields the same configuration — same
   keymap, same --expect set, same value of every field except History.maxSize (see below).
   Hypothesis: the first word of a layer is not the name of a directory (--walker-root would take it). *)
Theorem layering : forall e file envw argv cfg,
  Forall (safe_head e) [file; envw; argv] ->
  parse_all e file envw argv = Ok (Good cfg) ->
  exists cfg', parse_all e [] [] (file ++ envw ++ argv) = Ok (Good cfg') /\ agree cfg cfg'.
Proof. exact layering_proof. Qed.
Print Assumptions layering.

(* Display mode.  --tmux (popup) and --height (inline window) override each other; the implementation decides by comparing
   the positions at which the two were read, numbered through options file, $FZF_DEFAULT_OPTS and command line
   (popup_impl: Tmux != nil && Tmux.index >= Height.index).  For EVERY accepted options file, environment and command line
   this is the documented rule popup_spec (OptionSpec: the later of the two decides; --no-tmux / --no-height withdraw;
   the command line is later than the environment, which is later than the options file) — a rule that mentions no positions. *)
Theorem display_mode_later_wins : forall e file envw argv cfg,
  parse_all e file envw argv = Ok (Good cfg) -> popup_impl cfg = popup_spec (fv cfg).
Proof. exact display_mode_proof. Qed.
Print Assumptions display_mode_later_wins.

(* ... and the rule itself says "later wins": after the last --tmux=V (nothing behind it that names --tmux, --no-tmux,
   --height or --no-height) the popup starts, configured by V, whatever came before in this or an earlier source;
   the symmetric statement for --height is last_wins above (--height writes F_HEIGHT and sets the rule's boolean). *)
Theorem tmux_last_wins : forall e c p0 xs v t zs c1 cz,
  parse_tmux v = Some t ->
  go e c p0 0 xs = Ok (Good c1) ->
  isdir e (s_tmux_eq ++ v) = false ->
  (forall a f, In a zs -> In f [F_TMUX; F_HAFTER] -> ~ In f (writes a)) ->
  go e c p0 0 (xs ++ (s_tmux_eq ++ v) :: zs) = Ok (Good cz) ->
  fv cz F_TMUX = vsome t /\ fv cz F_HAFTER = Fv /\ popup_spec (fv cz) = true.
Proof. exact tmux_last_wins_proof. Qed.
Print Assumptions tmux_last_wins.

(* non-vacuity: --tmux in the options file, --height on the command line, something in the environment: inline;
   the other way round: popup with the geometry given on the command line; positions 2 against 5 *)
Example c17_display_mode_nonvacuous :
  (exists c, parse_all env0 [b "--cycle"; b "--reverse"; b "--tmux"; b "center,60%"] [b "--ansi"] [b "--height"; b "40%"] = Ok (Good c)
     /\ fv c F_TMUXIDX = VI 2 /\ fv c F_HEIGHTIDX = VI 5 /\ popup_impl c = false /\ popup_spec (fv c) = false) /\
  (exists c, parse_all env0 [b "--cycle"; b "--no-mouse"; b "--height"; b "40%"] [b "--ansi"] [b "--tmux"; b "left,30%"] = Ok (Good c)
     /\ fv c F_HEIGHTIDX = VI 2 /\ fv c F_TMUXIDX = VI 5 /\ popup_impl c = true /\
        fv c F_TMUX = vsome (mk_tmux P_LEFT (sz 30 true) (sz 100 true) false)) /\
  (exists c, parse_all env0 [] [b "--tmux"] [b "--height=10"; b "--no-height"] = Ok (Good c) /\ popup_impl c = true /\ popup_spec (fv c) = true) /\
  parse_tmux (b "bottom,80%,40%,border-native") = Some (mk_tmux P_DOWN (sz 80 true) (sz 40 true) true) /\
  parse_tmux (b "70%") = Some (mk_tmux P_CENTER (sz 70 true) (sz 70 true) false) /\ parse_tmux (b "left,101%") = None.
Proof. repeat split; try (eexists; vm_compute; repeat split); vm_compute; reflexivity. Qed.

(* FINDING: the exception is real.  historyMax is a local of parseOptions re-initialised for every
   vector, so `FZF_DEFAULT_OPTS=--history-size=5 fzf --history h` keeps 1000 entries while
   `fzf --history-size=5 --history h` keeps 5. *)
Theorem layering_history_size_refuted :
  exists c c', parse_all env0 [] [w_hs] [w_h; w_p] = Ok (Good c) /\
               parse_all env0 [] [] [w_hs; w_h; w_p] = Ok (Good c') /\
               fv c F_HISTMAX = VI 1000 /\ fv c' F_HISTMAX = VI 5.
Proof. exact layering_history_size_refuted_proof. Qed.
Print Assumptions layering_history_size_refuted.

(* non-vacuity *)
Example c17_last_wins_nonvacuous :
  let q := b "--query" in
  assoc_str q opt_table = Some (KReq [F_QUERY] PStr) /\
  go env0 default_cfg 0 0 [q; b "a"; b "--multi"] = Ok (Good (setf F_MULTI (VI MAX_MULTI) (setf F_QUERY (vstr (b "a")) default_cfg)))
  /\ (forall a f, In a [b "--tac"; b "-m"; b "3"] -> In f [F_QUERY] -> ~ In f (writes a))
  /\ exists cz, go env0 default_cfg 0 0 ([q; b "a"; b "--multi"] ++ q :: b "zz" :: [b "--tac"; b "-m"; b "3"]) = Ok (Good cz)
                /\ fv cz F_QUERY = vstr (b "zz") /\ fv cz F_MULTI = VI 3.
Proof.
  cbn zeta. split; [reflexivity|]. split; [reflexivity|]. split.
  - intros a f [<-|[<-|[<-|[]]]] [<-|[]]; vm_compute; intuition discriminate.
  - eexists. split; [vm_compute; reflexivity|]. split; reflexivity.
Qed.

Example c17_layering_nonvacuous :
  exists cfg, parse_all env0 [b "--tac"] [b "--multi"; b "--query=x"] [b "+m"; b "--bind"; b "a:execute(ls)+up"] = Ok (Good cfg)
    /\ fv cfg F_TAC = T /\ fv cfg F_MULTI = VI 0 /\ fv cfg F_QUERY = vstr (b "x")
    /\ kmap cfg = [(KRune 97, [(b "execute", b "ls"); (b "up", [])])].
Proof. eexists. vm_compute. repeat split. Qed.

Example c17_error_nonvacuous :
  cli env0 [] [] [b "--tac"; b "--algo"; b "v3"] = Ok (ExitWith 2 E_BAD_VALUE) /\
  cli env0 [] [] [b "--bind"; b "a:put(x"] = Ok (ExitWith 2 E_UNKNOWN_ACTION).
Proof. split; vm_compute; reflexivity. Qed.

(* Round trip: a well-formed bind expression — any number of bindings, any number of keys per binding,
   any number of actions per key, each argument written with ANY documented delimiter form (the four
   bracket pairs, the twelve symmetric delimiters, the trailing colon for the very last action) and
   containing ANY bytes (the delimiters themselves, + , : action-looking text ...) under the documented
   restriction wf_bind (no CLOSE followed by + or , inside the argument) — parses to exactly the keymap
   it denotes: every key receives exactly the listed actions, in order, each argument verbatim; later
   bindings override earlier ones.  (Key names: any name accepted by key_of_token other than the three
   punctuation keys , : + ; action names lower case; unbind/rebind/toggle-bind/change-preview-window,
   whose arguments are parsed again, and the simple `put` are outside wf_bind.) *)
Theorem bind_roundtrip : forall m bd, wf_bind bd = true ->
  parse_keymap m (render bd) = Ok (Good (denote m bd)).
Proof. exact bind_roundtrip_proof. Qed.
Print Assumptions bind_roundtrip.

(* what masking does to a well-formed expression: every argument region, and nothing else, is blanked *)
Theorem mask_of_render : forall bd, wf_bind bd = true -> mask_action_contents (render bd) = Ok (render_m bd).
Proof. exact mask_render. Qed.
Print Assumptions mask_of_render.

(* the step lemmas the round trip rests on, for arbitrary surrounding text *)
Theorem arg_region_hidden : forall f u c n canon o ce arg R,
  inert u = true -> is_colon_plus c = true ->
  assoc_str n arg_actions = Some canon ->
  closer_of o = Some ce -> arg_free ce arg = true ->
  match R with [] => True | d :: _ => (d =? PLUS) || (d =? COMMA) = true end ->
  mask_loop (S f) (u ++ c :: n ++ o :: arg ++ ce :: R) =
  do m <- mask_loop f R; Ok ((u ++ c :: n) ++ blanks (length arg + 2) ++ m).
Proof. exact arg_region_hidden_proof. Qed.
Print Assumptions arg_region_hidden.

Theorem colon_region_hidden : forall f u c n canon arg,
  inert u = true -> is_colon_plus c = true -> assoc_str n arg_actions = Some canon ->
  mask_loop (S f) (u ++ c :: n ++ COLON :: arg) = Ok ((u ++ c :: n) ++ blanks (S (length arg))).
Proof. exact colon_region_hidden_proof. Qed.
Print Assumptions colon_region_hidden.

(* non-vacuity: an argument containing its own closing delimiter, '+', ',' and ':' *)
Example c17_bind_nonvacuous :
  let arg := b "a)b:+,)" in
  inert (b "ctrl-a") = true /\ assoc_str (b "execute") arg_actions = Some (b "execute") /\
  closer_of 40 = Some 41 /\ arg_free 41 arg = true /\
  wf_bind [([b "ctrl-a"], [AArg (b "execute") (FPair 40 41) arg; ASimple (b "up")])] = true /\
  parse_keymap [] (b "ctrl-a:execute(a)b:+,))+up") =
    Ok (Good [(KCtrl 0, [(b "execute", arg); (b "up", [])])]) /\
  parse_keymap [] (render [([b "ctrl-a"], [AArg (b "execute") (FPair 40 41) arg; ASimple (b "up")])]) =
    Ok (Good (denote [] [([b "ctrl-a"], [AArg (b "execute") (FPair 40 41) arg; ASimple (b "up")])])).
Proof. cbn zeta. repeat split; vm_compute; reflexivity. Qed.

Example c17_roundtrip_nonvacuous :
  let bd := [([b "ctrl-a"; b "f2"], [AArg (b "execute") (FPair 59 59) (b ";;x:+"); ASimple (b "toggle-down");
                                     AArg (b "change-prompt") (FPair 40 41) (b "a)b)c,x")]);
             ([b "start"], [ASimple (b "preview-top"); AArg (b "reload") FColon (b "ls +a,b:up(x)")])] in
  wf_bind bd = true /\
  render bd = b "ctrl-a,f2:execute;;;x:+;+toggle-down+change-prompt(a)b)c,x),start:preview-top+reload:ls +a,b:up(x)" /\
  denote [] bd =
    [(KCtrl 0, [(b "execute", b ";;x:+"); (b "toggle", []); (b "down", []); (b "change-prompt", b "a)b)c,x")]);
     (KF 2, [(b "execute", b ";;x:+"); (b "toggle", []); (b "down", []); (b "change-prompt", b "a)b)c,x")]);
     (KNamed (b "start"), [(b "preview-top", []); (b "reload", b "ls +a,b:up(x)")])].
Proof. cbn zeta. repeat split; vm_compute; reflexivity. Qed.

(* ------------------------------------------------------------------ key names outside ASCII *)

(* "CHAR" in a key name is a character of the UTF-8 spelling, not a byte: decoding the spelling of any
   Unicode character gives that character back ... *)
Theorem utf8_roundtrip : forall c, scalar c = true -> utf8_runes (utf8_encode c) = [c].
Proof. exact utf8_roundtrip_proof. Qed.
Print Assumptions utf8_roundtrip.

(* ... so alt-CHAR (prefix in any letter case) names ALT + CHAR and CHAR names CHAR, for EVERY character
   outside ASCII (distinct characters give distinct keys; bind_roundtrip above then covers such names,
   since key_spelling_ok only asks key_of_token for an answer). *)
Theorem alt_char_key : forall p c, to_lower p = s_alt -> 128 <= c -> scalar c = true ->
  key_of_token (p ++ utf8_encode c) = Some (KAlt c).
Proof. exact alt_char_key_proof. Qed.
Print Assumptions alt_char_key.

Theorem char_key : forall c, 128 <= c -> scalar c = true -> key_of_token (utf8_encode c) = Some (KRune c).
Proof. exact char_key_proof. Qed.
Print Assumptions char_key.

(* non-vacuity: alt-é / é / alt-è are three different keys, as key names, as --bind keys and in a key list *)
Example c17_unicode_keys_nonvacuous :
  let e_acute := [195; 169] in let e_grave := [195; 168] in
  utf8_encode 233 = e_acute /\ scalar 233 = true /\
  key_of_token (b "alt-" ++ e_acute) = Some (KAlt 233) /\ key_of_token (b "ALT-" ++ e_grave) = Some (KAlt 232) /\
  key_of_token e_acute = Some (KRune 233) /\
  wf_bind [([b "alt-" ++ e_acute; e_grave], [ASimple (b "up")])] = true /\
  parse_keymap [] (b "alt-" ++ e_acute ++ b "," ++ e_grave ++ b ":up") =
    Ok (Good [(KAlt 233, [(b "up", [])]); (KRune 232, [(b "up", [])])]) /\
  parse_key_chords (b "alt-" ++ e_acute ++ b ",alt-" ++ e_grave ++ b ",ALT-" ++ e_acute) = Good [KAlt 233; KAlt 232].
Proof. cbn zeta. repeat split; vm_compute; reflexivity. Qed.

(* ------------------------------------------------------------------ --color *)

(* parseTheme ends with a theme or a user error for EVERY byte string (the built-in themes being there) *)
Theorem color_total : forall bases t s, (5 <= length bases)%nat -> exists o, parse_theme bases t s = Ok o.
Proof. exact color_total_proof. Qed.
Print Assumptions color_total.

(* Writing down any list of entries (words free of ',' and ':', any letter case, every documented spelling of
   names, colours and attributes) and parsing the string gives exactly the documented meaning of the entries:
   entries are applied left to right, a colour replaces the colour, an attribute is added, `regular` clears the
   attributes set before, a base scheme replaces the whole theme — and a user error exactly when the
   documentation gives no meaning. *)
Theorem color_roundtrip : forall bases t es, (5 <= length bases)%nat -> entries_ok es = true ->
  parse_theme bases t (render_entries es) =
  match entries_denote bases t es with Some t' => Ok (Good t') | None => Ok (Bad E_COLOR) end.
Proof. exact color_refines_proof. Qed.
Print Assumptions color_roundtrip.

(* `regular` clears previously set attributes: the attributes of a name after an entry that contains `regular`
   are decided by what follows that `regular`, whatever the name had before (from an earlier entry, an earlier
   --color, the options file or $FZF_DEFAULT_OPTS) and whatever precedes it in the entry *)
Theorem regular_clears : forall ca ca' pre pre' post,
  snd (apply_comps ca (pre ++ CRegular :: post)) = snd (apply_comps ca' (pre' ++ CRegular :: post)).
Proof. exact regular_clears_proof. Qed.
Print Assumptions regular_clears.

(* Later occurrences override earlier ones: when the last entry for a name begins with `regular` and gives a
   colour, the name ends up exactly as that entry alone says, whatever came before it. *)
Theorem color_last_wins : forall bases t xs n ws s cs zs t',
  assoc_str (to_lower n) slot_names = Some s ->
  ws <> [] -> comps_of (map to_lower ws) = Some cs -> complete cs = true ->
  Forall (leaves s) zs ->
  entries_denote bases t (xs ++ (n :: ws) :: zs) = Some t' ->
  theme_get t' s = apply_comps (C_UNDEFINED, A_NONE) cs.
Proof. exact color_last_wins_proof. Qed.
Print Assumptions color_last_wins.

(* Layering: one --color whose value is s1,s2 equals --color s1 followed (in the same or in a later layer:
   options file, $FZF_DEFAULT_OPTS, command line) by --color s2 — for ALL byte strings. *)
Theorem color_concat : forall bases t s1 s2,
  parse_theme bases t (s1 ++ COMMA :: s2) =
  match parse_theme bases t s1 with
  | Ok (Good t1) => parse_theme bases t1 s2
  | other => other
  end.
Proof. exact color_concat_proof. Qed.
Print Assumptions color_concat.

(* non-vacuity *)
Example c17_color_nonvacuous :
  let e := (true, [(b "fg", (C_UNDEFINED, A_NONE)); (b "hl", (C_UNDEFINED, A_NONE))]) in
  let bases := [e; e; e; (false, snd e); e] in
  parse_theme bases e (b "fg:bold:underline,FG:Regular:#ff0000:italic,hl:red:bold") =
    Ok (Good (true, [(b "fg", (16777216 + 16711680, A_REGULAR + A_ITALIC)); (b "hl", (1, A_BOLD))])) /\
  parse_theme bases e (b "fg:bold:regular") = Ok (Good (true, [(b "fg", (C_UNDEFINED, A_REGULAR)); (b "hl", (C_UNDEFINED, A_NONE))])) /\
  parse_theme bases e (b "fg:bold,bw,hl:7") = Ok (Good (false, [(b "fg", (C_UNDEFINED, A_NONE)); (b "hl", (7, A_NONE))])) /\
  parse_theme bases e (b "fg:256") = Ok (Bad E_COLOR) /\ parse_theme bases e (b "fg") = Ok (Bad E_COLOR) /\
  entries_ok [[b "fg"; b "bold"; b "underline"]; [b "FG"; b "Regular"; b "#ff0000"; b "italic"]] = true /\
  comps_of [b "regular"; b "#ff0000"; b "italic"] = Some [CRegular; CColor 33488896; CAttr A_ITALIC] /\
  complete [CRegular; CColor 33488896; CAttr A_ITALIC] = true /\
  leaves (b "fg") [b "hl"; b "red"] /\
  color_opts bases e [(0, b "fg:bold"); (1, []); (0, b "hl:bold"); (0, [])] = Ok (Good e).
Proof. cbn zeta. repeat split; vm_compute; reflexivity. Qed.

(* ------------------------------------------------------------------ --marker-multi-line *)

(* for EVERY value (any sequence of grapheme clusters, whatever their widths — zero-width clusters at the end included)
   the reading of --marker-multi-line ends with three elements or a user error: result[idx] is never out of range *)
Theorem marker_total : forall cs, exists o, marker_multi cs = Ok o.
Proof. exact marker_total_proof. Qed.
Print Assumptions marker_total.

(* accepted exactly for the documented widths (empty, 3 or 6 columns) *)
Theorem marker_accept : forall cs,
  (marker_width_ok cs = true -> exists parts, marker_multi cs = Ok (Good parts)) /\
  (marker_width_ok cs = false -> marker_multi cs = Ok (Bad E_MARKER_WIDTH)).
Proof. exact marker_accept_proof. Qed.
Print Assumptions marker_accept.

(* the three elements are consecutive pieces of the value, in order; what is left over has no width *)
Theorem marker_reading_ok : forall cs parts, marker_multi cs = Ok (Good parts) -> marker_reading cs parts.
Proof. exact marker_reading_proof. Qed.
Print Assumptions marker_reading_ok.

(* "3 elements for top, middle, and bottom": exactly three visible clusters of 1 (or of 2) columns each — the default ╻┃╹ —
   are the three elements, each taking the zero-width clusters in front of it; zero-width clusters after the third are left out *)
Theorem marker_three_elements : forall u z0 z1 z2 z3 v0 v1 v2,
  (u = 1 \/ u = 2)%nat -> zero_width z0 -> zero_width z1 -> zero_width z2 -> zero_width z3 ->
  snd v0 = u -> snd v1 = u -> snd v2 = u ->
  marker_multi (z0 ++ v0 :: z1 ++ v1 :: z2 ++ v2 :: z3) = Ok (Good [z0 ++ [v0]; z1 ++ [v1]; z2 ++ [v2]]).
Proof. exact marker_three_elements_proof. Qed.
Print Assumptions marker_three_elements.

Example c17_marker_nonvacuous :
  let a := (b "a", 1%nat) in let z := ([226; 128; 139], 0%nat) in let w := ([234; 176; 128], 2%nat) in
  marker_multi [a; a; a; z] = Ok (Good [[a]; [a]; [a]]) /\
  marker_multi [z; a; a; z; a; z; z] = Ok (Good [[z; a]; [a]; [z; a]]) /\
  marker_multi [w; a] = Ok (Good [[w]; [a]; []]) /\
  marker_multi [a; a] = Ok (Bad E_MARKER_WIDTH) /\ marker_multi [] = Ok (Good [[]; []; []]) /\
  marker_reading [a; a; a; z] [[a]; [a]; [a]].
Proof.
  cbn zeta. repeat split; try (vm_compute; reflexivity).
  exists [([226; 128; 139], 0%nat)]. split; [reflexivity|repeat constructor].
Qed.
