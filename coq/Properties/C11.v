(* C11 — --ansi strips escape sequences only and colours the right characters.
   Statements only; proofs live in proofs/AnsiProofs.v. *)
From Fzf Require Import Prelude AnsiSpec AnsiModel AnsiProofs AnsiSubProofs AnsiNthSpec AnsiNthModel AnsiNthProofs.
Open Scope Z_scope.

(* The hand-written scanner (fast pre-scan, matchControlSequence, matchOperatingSystemCommand, backspace
   rule with DecodeLastRune) finds exactly the leftmost match of the grammar, first alternative first,
   on EVERY byte string; in particular it never fails. *)
Theorem scanner_eq_grammar : forall s, next_ansi s = Ok (first_match s).
Proof. exact scanner_eq_grammar_proof. Qed.
Print Assumptions scanner_eq_grammar.

(* For every byte string and every carried-over state extractColor never fails (total), its text is the
   input with the grammar's matches deleted left to right and everything else kept in order (strip),
   its colour spans are ordered, non-overlapping and inside [0, characters kept] (spans_wf), and the first
   span starts at 0 with the state carried over from the previous line (state_carry). *)
Theorem extract_color_total_strip_spans : forall s st,
  exists offs st', extract_color s st = Ok (strip_spec s, offs, st') /\
    (forall l, offs = Some l -> spans_ok 0 (map be l) (kept_runes s)) /\
    (forall st0, st = Some st0 -> exists e tl, offs = Some (mkOff 0 e st0 :: tl)).
Proof. exact extract_color_spec. Qed.
Print Assumptions extract_color_total_strip_spans.

(* Text without ESC, SO, SI, BS is left untouched. *)
Theorem strip_plain : forall s st, control_free s ->
  strip_spec s = s /\ exists offs st', extract_color s st = Ok (s, offs, st').
Proof. exact strip_plain_proof. Qed.
Print Assumptions strip_plain.

(* A stream of control-free, whole-character text pieces and complete sequences (CSI incl. SGR, OSC with BEL or
   ESC \ terminator, ESC x, SO/SI, character+backspace) strips to exactly the concatenation of its text pieces:
   no sequence swallows text that follows it and no text is lost. *)
Theorem strip_interleaving : forall ps, Forall piece_ok ps -> strip_spec (render_pieces ps) = texts_of ps.
Proof. exact strip_interleaving_proof. Qed.
Print Assumptions strip_interleaving.

(* On the documented domain - parameters are non-empty decimal numbers (< 2^31, leading zeros allowed) separated
   by ';', extended colours are complete 38/48;5;n or 38/48;2;r;g;b with components 0..255 - interpretCode applied
   to ESC [ p1;...;pn m computes what the reference SGR interpreter computes, from any carried state (or from
   none), and leaves the line background and the hyperlink untouched. *)
Theorem sgr_eq : forall dss a l u prev,
  Forall param_ok dss -> sgr_wf (map dec_val dss) = true ->
  (prev = Some (enc_state a l u) \/ (prev = None /\ a = sgr_reset /\ l = -1 /\ u = None)) ->
  interpret_code (render_sgr dss) prev = Ok (enc_state (sgr_apply (map dec_val dss) a) l u, false).
Proof. exact sgr_eq_proof. Qed.
Print Assumptions sgr_eq.

(* The ':' forms of the extended colours (ITU T.416 sub-parameters: 38:5:n, 38:2:r:g:b and, with the omitted
   colour-space identifier, 38:2::r:g:b; 48 likewise), alone or after plain parameters of the documented domain:
   interpretCode computes what the reference reading computes - the omitted slot is passed over, the colour is
   rgb(r,g,b) exactly as for 38;2;r;g;b - from any carried state, line background and hyperlink untouched. *)
Theorem sgr_sub_eq : forall dss tl a l u prev,
  Forall param_ok dss -> sgr_wf (map dec_val dss) = true ->
  Forall sub_ok tl -> xcol_wf (map sub_val tl) = true ->
  (prev = Some (enc_state a l u) \/ (prev = None /\ a = sgr_reset /\ l = -1 /\ u = None)) ->
  interpret_code (render_sgr_x dss (Some tl)) prev
  = Ok (enc_state (sgr_xapply (mkX (map Some (map dec_val dss)) (Some (map sub_val tl))) a) l u, false).
Proof. exact sgr_sub_eq_proof. Qed.
Print Assumptions sgr_sub_eq.

(* Every parameter omitted (ESC[m, ESC[;m, ESC[;;m, ...): each has its default value 0, the result is a reset. *)
Theorem sgr_omitted_eq : forall k a l u prev,
  (prev = Some (enc_state a l u) \/ (prev = None /\ a = sgr_reset /\ l = -1 /\ u = None)) ->
  interpret_code (render_sgr_x (repeat [] (S k)) None) prev
  = Ok (enc_state (sgr_xapply (mkX (repeat None (S k)) None) a) l u, false).
Proof. exact sgr_omitted_eq_proof. Qed.
Print Assumptions sgr_omitted_eq.

(* Limit of spans_wf, stated so that it cannot be over-read: characters are counted piece by piece (kept_runes).
   For text pieces that are whole UTF-8 this is the character count of the stripped text; when an escape sequence
   splits one multi-byte character the two halves count as two, and a span can end beyond the (one-character) text. *)
Theorem spans_within_text_refuted : exists s t offs st',
  extract_color s None = Ok (t, Some offs, st') /\ ~ spans_ok 0 (map be offs) (rune_count t).
Proof.
  exists [195; 27;91;51;49;109; 169]. eexists _, _, _. split; [vm_compute; reflexivity|].
  vm_compute. intros (_ & _ & H). inversion H. inversion H1.
Qed.
Print Assumptions spans_within_text_refuted.

(* non-vacuity: "a" ESC[31m "é" b BS ESC]8;;u BEL "c" with a carried bold state *)
Example c11_nonvacuous :
  let s := [97; 27;91;51;49;109; 195;169; 98;8; 27;93;56;59;59;117;7; 99] in
  let st := mkA (-1) (-1) 1 (-1) None in
  strip_spec s = [97; 195;169; 99] /\ kept_runes s = 3%nat /\
  extract_color s (Some st) =
    Ok ([97; 195;169; 99],
        Some [mkOff 0 1 st; mkOff 1 2 (mkA 1 (-1) 1 (-1) None); mkOff 2 3 (mkA 1 (-1) 1 (-1) (Some (mkUrl [117] [])))],
        Some (mkA 1 (-1) 1 (-1) (Some (mkUrl [117] [])))).
Proof. vm_compute. repeat split. Qed.

(* non-vacuity of strip_interleaving and sgr_eq: "ab" ESC[1;38;5;196m "c" x BS ESC]0;t BEL "d";  ESC[01;38;2;1;2;3;48;5;7m *)
Example c11_interleaving_nonvacuous :
  let ps := [TX [97;98]; SQ (ESC :: 91 :: [49;59;51;56;59;53;59;49;57;54] ++ [109]); TX [99];
             SQ ([120] ++ [BS]); SQ (ESC :: 93 :: [48] ++ 59 :: [116] ++ [BEL]); TX [100]] in
  Forall piece_ok ps /\ texts_of ps = [97;98;99;100] /\ length (render_pieces ps) = 25%nat.
Proof.
  split; [|split; reflexivity].
  assert (T : forall t, Forall (fun c => c < 128) t -> control_free t -> piece_ok (TX t))
    by (intros t H1 H2; split; [exact H2|now apply ascii_self_contained]).
  apply Forall_cons; [apply T; repeat constructor; lia|].
  apply Forall_cons; [apply (wf_csi 91 [49;59;51;56;59;53;59;49;57;54] 109); [reflexivity|repeat constructor|reflexivity]|].
  apply Forall_cons; [apply T; repeat constructor; lia|].
  apply Forall_cons; [apply (wf_bs [120]); [apply ascii_whole_rune; lia|cbn; unfold LF; lia|reflexivity]|].
  apply Forall_cons; [apply (wf_osc [48] 59 [116] [BEL]); try discriminate; try reflexivity; try (repeat constructor); auto|].
  apply Forall_cons; [apply T; repeat constructor; lia|]. constructor.
Qed.
Example c11_sgr_nonvacuous :
  let dss := [[48;49]; [51;56]; [50]; [49]; [50]; [51]; [52;56]; [53]; [55]] in
  Forall param_ok dss /\ sgr_wf (map dec_val dss) = true /\
  sgr_apply (map dec_val dss) sgr_reset = mkSgr (CRGB 1 2 3) (CIdx 7) (mkAttrs true false false false false false false).
Proof. split; [repeat constructor; reflexivity|split; reflexivity]. Qed.

(* non-vacuity of sgr_sub_eq and sgr_omitted_eq: ESC[1;38:2::10:20:30m from a carried red-on-default state;  ESC[;m *)
Example c11_sgr_sub_nonvacuous :
  let dss := [[49]] in let tl := [[51;56]; [50]; []; [49;48]; [50;48]; [51;48]] in
  Forall param_ok dss /\ sgr_wf (map dec_val dss) = true /\ Forall sub_ok tl /\ xcol_wf (map sub_val tl) = true /\
  render_sgr_x dss (Some tl) = [27;91;49;59;51;56;58;50;58;58;49;48;58;50;48;58;51;48;109] /\
  sgr_xapply (mkX (map Some (map dec_val dss)) (Some (map sub_val tl))) (mkSgr (CIdx 1) CDefault no_attrs)
  = mkSgr (CRGB 10 20 30) CDefault (mkAttrs true false false false false false false) /\
  interpret_code (render_sgr_x dss (Some tl)) (Some (mkA 1 (-1) 0 (-1) None)) = Ok (mkA 17437726 (-1) 1 (-1) None, false) /\
  render_sgr_x (repeat [] 2) None = [27;91;59;109] /\
  sgr_xapply (mkX (repeat None 2) None) (mkSgr (CIdx 1) CDefault no_attrs) = sgr_reset.
Proof.
  split; [repeat constructor; reflexivity|]. split; [reflexivity|].
  split; [repeat constructor; (now left) || (right; split; reflexivity)|].
  repeat split; reflexivity.
Qed.

(* ---------- fields shown out of context (--ansi --with-nth), lines of a stream ---------- *)
(* What the display check (harness c11disp.go) compares the screen with: the input cut into consecutive pieces -
   the fields of a line, the lines of a stream - each coloured from the state the pieces before it leave behind
   (shown or hidden).  All pieces together are the stream coloured as a whole, and one piece shown alone has the
   colours it has inside the stream. *)
Theorem pieces_are_the_stream : forall pcs s,
  concat (piece_chars pcs s) = term_chars (concat pcs) s /\
  shown_chars (seq 0 (length pcs)) pcs s = term_chars (concat pcs) s.
Proof. exact pieces_are_the_stream_proof. Qed.
Print Assumptions pieces_are_the_stream.

Theorem shown_piece_in_context : forall pre p post s,
  shown_chars [length pre] (pre ++ p :: post) s = term_chars p (term_state (concat pre) s).
Proof. exact shown_one_proof. Qed.
Print Assumptions shown_piece_in_context.

(* The parameter list "attributes that are on, foreground, background" re-creates a state when - and only when - it
   is applied to the RESET state: after ESC[m (whatever the state was) ESC[<restore_params s>m gives s, and the list
   lies in the documented SGR domain; applied to a state that has other attributes on it does not give s. *)
Theorem restore_from_reset : forall s s0, sgr_ok s = true ->
  sgr_wf (restore_params s) = true /\ sgr_apply (restore_params s) (sgr_apply [] s0) = s.
Proof. exact restore_from_reset_proof. Qed.
Print Assumptions restore_from_reset.

Theorem restore_needs_reset : exists s s0, sgr_ok s = true /\ sgr_apply (restore_params s) s0 <> s.
Proof. exact restore_needs_reset_proof. Qed.
Print Assumptions restore_needs_reset.

(* ansiState.ToString (model state_to_string) on a coloured state without hyperlink, colours in the palette / 24-bit
   domain: the text is exactly ESC [ p1;...;pn m with decimal parameters p1..pn = restore_params of the state, and
   interpretCode (model) reads it back, from the nil state that "ESC[m" leaves, as the state it was printed from
   (colours and attributes; the line background is not carried). *)
Theorem to_string_is_restore : forall a l, sgr_ok a = true -> colored (enc_state a l None) = true ->
  exists dss, state_to_string (enc_state a l None) = render_sgr dss /\
              Forall param_ok dss /\ map dec_val dss = restore_params a.
Proof. exact to_string_is_restore_proof. Qed.
Print Assumptions to_string_is_restore.

Theorem to_string_read_back : forall a l, sgr_ok a = true -> colored (enc_state a l None) = true ->
  interpret_code (state_to_string (enc_state a l None)) None = Ok (enc_state a (-1) None, false).
Proof. exact to_string_read_back_proof. Qed.
Print Assumptions to_string_read_back.

(* non-vacuity: ESC[1;4;31m "alpha " ESC[22;24m "bravo " "charlie" ESC[m with fields 1 and 3 shown: "charlie" is plain
   red; the state before field 3 prints as ESC[31;49m; the core.go loop (model) puts ESC[m ESC[31;49m in front of field 3
   and the transformed line gets the spans 0-6 bold+underline red, 6-13 red *)
Example c11_nth_nonvacuous :
  let red := mkSgr (CIdx 1) CDefault no_attrs in
  let f1 := [ISgr [1; 4; 31]; IText [97;108;112;104;97;32]] in
  let f2 := [ISgr [22; 24]; IText [98;114;97;118;111;32]] in
  let f3 := [IText [99;104;97;114;108;105;101]; ISgr []] in
  shown_chars [0%nat; 2%nat] [f1; f2; f3] sgr_reset
    = repeat (mkSgr (CIdx 1) CDefault (mkAttrs true false false true false false false)) 6 ++ repeat red 7 /\
  sgr_ok red = true /\ restore_params red = [31; 49] /\
  state_to_string (enc_state red (-1) None) = [27;91;51;49;59;52;57;109] /\
  nth_display [[27;91;49;59;52;59;51;49;109; 97;108;112;104;97;32]; [27;91;50;50;59;50;52;109; 98;114;97;118;111;32];
               [99;104;97;114;108;105;101; 27;91;109]] [0%nat; 2%nat] None None
    = Ok ([97;108;112;104;97;32; 99;104;97;114;108;105;101],
          Some [mkOff 0 6 (mkA 1 (-1) 9 (-1) None); mkOff 6 13 (mkA 1 (-1) 0 (-1) None)], None).
Proof. vm_compute. repeat split. Qed.
