(* C11 — --ansi strips escape sequences only and colours the right characters.
   Statements only; proofs live in proofs/AnsiProofs.v. *)
From Fzf Require Import Prelude AnsiSpec AnsiModel AnsiProofs AnsiSubProofs.
Open Scope Z_scope.

(* The hand-written scanner (fast pre-scan, matchControlSequence, matchOperatingSystemCommand, backspace
   rule with DecodeLastRune) finds exactly the leftmost match of the grammar, first alternative first,
   on EVERY byte string; in particular it never fails. *)
Theorem scanner_eq_grammar : forall s, next_ansi s = Ok (first_match s).
Proof. exact scanner_eq_grammar_proof. Qed.
Print Assumptions scanner_eq_grammar.

(* For every byte string and every carried-over state extractColor never fails (total), its text is the
   input with the grammar's matches deleted left to right and everything else kept in order (strip),
   its colour spans are ordered, non-overlapping and inside [0, characters kept] (spans_wf), and the first
   span starts at 0 with the state carried over from the previous line (state_carry). *)
Theorem extract_color_total_strip_spans : forall s st,
  exists offs st', extract_color s st = Ok (strip_spec s, offs, st') /\
    (forall l, offs = Some l -> spans_ok 0 (map be l) (kept_runes s)) /\
    (forall st0, st = Some st0 -> exists e tl, offs = Some (mkOff 0 e st0 :: tl)).
Proof. exact extract_color_spec. Qed.
Print Assumptions extract_color_total_strip_spans.

(* Text without ESC, SO, SI, BS is left untouched. *)
Theorem strip_plain : forall s st, control_free s ->
  strip_spec s = s /\ exists offs st', extract_color s st = Ok (s, offs, st').
Proof. exact strip_plain_proof. Qed.
Print Assumptions strip_plain.

(* A stream of control-free, whole-character text pieces and complete sequences (CSI incl. SGR, OSC with BEL or
   ESC \ terminator, ESC x, SO/SI, character+backspace) strips to exactly the concatenation of its text pieces:
   no sequence swallows text that follows it and no text is lost. *)
Theorem strip_interleaving : forall ps, Forall piece_ok ps -> strip_spec (render_pieces ps) = texts_of ps.
Proof. exact strip_interleaving_proof. Qed.
Print Assumptions strip_interleaving.

(* On the documented domain - parameters are non-empty decimal numbers (< 2^31, leading zeros allowed) separated
   by ';', extended colours are complete 38/48;5;n or 38/48;2;r;g;b with components 0..255 - interpretCode applied
   to ESC [ p1;...;pn m computes what the reference SGR interpreter computes, from any carried state (or from
   none), and leaves the line background and the hyperlink untouched. *)
Theorem sgr_eq : forall dss a l u prev,
  Forall param_ok dss -> sgr_wf (map dec_val dss) = true ->
  (prev = Some (enc_state a l u) \/ (prev = None /\ a = sgr_reset /\ l = -1 /\ u = None)) ->
  interpret_code (render_sgr dss) prev = Ok (enc_state (sgr_apply (map dec_val dss) a) l u, false).
Proof. exact sgr_eq_proof. Qed.
Print Assumptions sgr_eq.

(* The ':' forms of the extended colours (ITU T.416 sub-parameters: 38:5:n, 38:2:r:g:b and, with the omitted
   colour-space identifier, 38:2::r:g:b; 48 likewise), alone or after plain parameters of the documented domain:
   interpretCode computes what the reference reading computes - the omitted slot is passed over, the colour is
   rgb(r,g,b) exactly as for 38;2;r;g;b - from any carried state, line background and hyperlink untouched. *)
Theorem sgr_sub_eq : forall dss tl a l u prev,
  Forall param_ok dss -> sgr_wf (map dec_val dss) = true ->
  Forall sub_ok tl -> xcol_wf (map sub_val tl) = true ->
  (prev = Some (enc_state a l u) \/ (prev = None /\ a = sgr_reset /\ l = -1 /\ u = None)) ->
  interpret_code (render_sgr_x dss (Some tl)) prev
  = Ok (enc_state (sgr_xapply (mkX (map Some (map dec_val dss)) (Some (map sub_val tl))) a) l u, false).
Proof. exact sgr_sub_eq_proof. Qed.
Print Assumptions sgr_sub_eq.

(* Every parameter omitted (ESC[m, ESC[;m, ESC[;;m, ...): each has its default value 0, the result is a reset. *)
Theorem sgr_omitted_eq : forall k a l u prev,
  (prev = Some (enc_state a l u) \/ (prev = None /\ a = sgr_reset /\ l = -1 /\ u = None)) ->
  interpret_code (render_sgr_x (repeat [] (S k)) None) prev
  = Ok (enc_state (sgr_xapply (mkX (repeat None (S k)) None) a) l u, false).
Proof. exact sgr_omitted_eq_proof. Qed.
Print Assumptions sgr_omitted_eq.

(* Limit of spans_wf, stated so that it cannot be over-read: characters are counted piece by piece (kept_runes).
   For text pieces that are whole UTF-8 this is the character count of the stripped text; when an escape sequence
   splits one multi-byte character the two halves count as two, and a span can end beyond the (one-character) text. *)
Theorem spans_within_text_refuted : exists s t offs st',
  extract_color s None = Ok (t, Some offs, st') /\ ~ spans_ok 0 (map be offs) (rune_count t).
Proof.
  exists [195; 27;91;51;49;109; 169]. eexists _, _, _. split; [vm_compute; reflexivity|].
  vm_compute. intros (_ & _ & H). inversion H. inversion H1.
Qed.
Print Assumptions spans_within_text_refuted.

(* non-vacuity: "a" ESC[31m "é" b BS ESC]8;;u BEL "c" with a carried bold state *)
Example c11_nonvacuous :
  let s := [97; 27;91;51;49;109; 195;169; 98;8; 27;93;56;59;59;117;7; 99] in
  let st := mkA (-1) (-1) 1 (-1) None in
  strip_spec s = [97; 195;169; 99] /\ kept_runes s = 3%nat /\
  extract_color s (Some st) =
    Ok ([97; 195;169; 99],
        Some [mkOff 0 1 st; mkOff 1 2 (mkA 1 (-1) 1 (-1) None); mkOff 2 3 (mkA 1 (-1) 1 (-1) (Some (mkUrl [117] [])))],
        Some (mkA 1 (-1) 1 (-1) (Some (mkUrl [117] [])))).
Proof. vm_compute. repeat split. Qed.

(* non-vacuity of strip_interleaving and sgr_eq: "ab" ESC[1;38;5;196m "c" x BS ESC]0;t BEL "d";  ESC[01;38;2;1;2;3;48;5;7m *)
Example c11_interleaving_nonvacuous :
  let ps := [TX [97;98]; SQ (ESC :: 91 :: [49;59;51;56;59;53;59;49;57;54] ++ [109]); TX [99];
             SQ ([120] ++ [BS]); SQ (ESC :: 93 :: [48] ++ 59 :: [116] ++ [BEL]); TX [100]] in
  Forall piece_ok ps /\ texts_of ps = [97;98;99;100] /\ length (render_pieces ps) = 25%nat.
Proof.
  split; [|split; reflexivity].
  assert (T : forall t, Forall (fun c => c < 128) t -> control_free t -> piece_ok (TX t))
    by (intros t H1 H2; split; [exact H2|now apply ascii_self_contained]).
  apply Forall_cons; [apply T; repeat constructor; lia|].
  apply Forall_cons; [apply (wf_csi 91 [49;59;51;56;59;53;59;49;57;54] 109); [reflexivity|repeat constructor|reflexivity]|].
  apply Forall_cons; [apply T; repeat constructor; lia|].
  apply Forall_cons; [apply (wf_bs [120]); [apply ascii_whole_rune; lia|cbn; unfold LF; lia|reflexivity]|].
  apply Forall_cons; [apply (wf_osc [48] 59 [116] [BEL]); try discriminate; try reflexivity; try (repeat constructor); auto|].
  apply Forall_cons; [apply T; repeat constructor; lia|]. constructor.
Qed.
Example c11_sgr_nonvacuous :
  let dss := [[48;49]; [51;56]; [50]; [49]; [50]; [51]; [52;56]; [53]; [55]] in
  Forall param_ok dss /\ sgr_wf (map dec_val dss) = true /\
  sgr_apply (map dec_val dss) sgr_reset = mkSgr (CRGB 1 2 3) (CIdx 7) (mkAttrs true false false false false false false).
Proof. split; [repeat constructor; reflexivity|split; reflexivity]. Qed.

(* non-vacuity of sgr_sub_eq and sgr_omitted_eq: ESC[1;38:2::10:20:30m from a carried red-on-default state;  ESC[;m *)
Example c11_sgr_sub_nonvacuous :
  let dss := [[49]] in let tl := [[51;56]; [50]; []; [49;48]; [50;48]; [51;48]] in
  Forall param_ok dss /\ sgr_wf (map dec_val dss) = true /\ Forall sub_ok tl /\ xcol_wf (map sub_val tl) = true /\
  render_sgr_x dss (Some tl) = [27;91;49;59;51;56;58;50;58;58;49;48;58;50;48;58;51;48;109] /\
  sgr_xapply (mkX (map Some (map dec_val dss)) (Some (map sub_val tl))) (mkSgr (CIdx 1) CDefault no_attrs)
  = mkSgr (CRGB 10 20 30) CDefault (mkAttrs true false false false false false false) /\
  interpret_code (render_sgr_x dss (Some tl)) (Some (mkA 1 (-1) 0 (-1) None)) = Ok (mkA 17437726 (-1) 1 (-1) None, false) /\
  render_sgr_x (repeat [] 2) None = [27;91;59;109] /\
  sgr_xapply (mkX (repeat None 2) None) (mkSgr (CIdx 1) CDefault no_attrs) = sgr_reset.
Proof.
  split; [repeat constructor; reflexivity|]. split; [reflexivity|].
  split; [repeat constructor; (now left) || (right; split; reflexivity)|].
  repeat split; reflexivity.
Qed.
