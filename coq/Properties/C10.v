(* C10 — field expressions select exactly the documented fields.
   Statements only; proofs live in proofs/TokenProofs.v.
   Vocabulary: FieldSpec (awk_fields, split_after, split_by, select_fields, offsets ...),
   TokenModel (tokenize, transform_one, transform_input, nth_match ...: tokenizer.go / pattern.go restated),
   TokenProofs.spec_fields / spec_lead (documented fields / leading blanks per delimiter kind),
   TokenProofs.range_expr (the expression a Go Range{begin,end} stands for),
   TokenProofs.delim_wf (a regexp delimiter reports ordered, in-range occurrences for every text —
   what Go's FindAllStringIndex guarantees; trivially true for AWK and literal delimiters). *)
From Fzf Require Import Prelude FieldSpec TokenModel TokenProofs RangeProofs FieldOutProofs.
Open Scope Z_scope.

(* Splitting partitions the line, for all three delimiter kinds and ALL lines: the tokens are exactly the
   documented fields, (leading blanks ++) the fields concatenated give back the line, and the prefix length
   recorded for field k is the number of characters before it. *)
Theorem tokens_partition : forall line d toks,
  delim_wf d -> tokenize line d = Ok toks ->
  map t_text toks = spec_fields d line /\
  spec_lead d line ++ concat (map t_text toks) = line /\
  map t_prefix toks = map Z.of_nat (offsets (length (spec_lead d line)) (map t_text toks)).
Proof. exact tokens_partition_proof. Qed.
Print Assumptions tokens_partition.

(* The 3-state AWK tokenizer computes the documented AWK fields and counts the leading blanks. *)
Theorem awk_tokenizer_is_awk_fields : forall line,
  awk_tokenizer line = (awk_fields line, Z.of_nat (length (awk_lead line))).
Proof. exact awk_tokenizer_spec. Qed.
Print Assumptions awk_tokenizer_is_awk_fields.

(* The executable partition predicate that the harness evaluates on fzf's own Tokenize output holds of the model. *)
Theorem partition_ok_holds : forall line d toks,
  delim_wf d -> tokenize line d = Ok toks ->
  partition_ok line (spec_lead d line) (map t_text toks) (map Z.to_nat (map t_prefix toks)) = true.
Proof. exact partition_ok_proof. Qed.
Print Assumptions partition_ok_holds.

(* Transform, for ANY token list and ANY range (positive, negative, out of range, begin > end ...):
   never fails; its text is the concatenation of exactly the selected tokens; its prefixLength is that of
   the first selected token. *)
Theorem transform_selects : forall toks r,
  exists tk, transform_one toks r = Ok tk /\
    t_text tk = select_text (range_expr r) (map t_text toks) /\
    (select_fields (range_expr r) toks <> [] ->
     exists t0, get toks (select_first (range_expr r) (length toks)) = Ok t0 /\ t_prefix tk = t_prefix t0).
Proof. exact transform_selects_proof. Qed.
Print Assumptions transform_selects.

(* On the tokens of a line: the text is the documented selection of the documented fields and the
   prefixLength is the character offset of the first selected field in the line. *)
Theorem transform_selects_line : forall line d toks r,
  delim_wf d -> tokenize line d = Ok toks ->
  exists tk, transform_one toks r = Ok tk /\
    t_text tk = select_text (range_expr r) (spec_fields d line) /\
    (select_fields (range_expr r) (spec_fields d line) <> [] ->
     t_prefix tk = Z.of_nat (select_start (range_expr r) (length (spec_lead d line)) (spec_fields d line))).
Proof. exact transform_selects_line_proof. Qed.
Print Assumptions transform_selects_line.

(* --nth, for ANY matcher pfun (fuzzy, exact, prefix ...), line, expression list and delimiter: a reported
   match comes from the matcher's verdict on ONE searched text; reported offsets/positions are that verdict
   shifted by p; character i of the searched text is character p+i of the FULL line; and with --nth the
   searched text is a prefix of (the selected fields minus a trailing delimiter/blanks) the text selected by one
   of the expressions, starting where that selection starts. *)
Theorem nth_positions_refer_to_line :
  forall (pfun : match_fn) line nth d s e pos,
  delim_wf d -> nth_match pfun line nth d = Ok (Some (s, e, pos)) ->
  exists text p s0 e0 pos0,
    pfun text = Some (s0, e0, pos0) /\
    s = Z.of_nat (p + s0) /\ e = Z.of_nat (p + e0) /\ pos = map (fun i => Z.of_nat (p + i)) pos0 /\
    (forall i, (i < length text)%nat -> nth_error line (p + i) = nth_error text i) /\
    (nth <> [] -> exists r x, In r nth /\
        select_text (range_expr r) (spec_fields d line) = text ++ x /\
        (text <> [] -> p = select_start (range_expr r) (length (spec_lead d line)) (spec_fields d line))).
Proof. exact nth_positions_refer_to_line_proof. Qed.
Print Assumptions nth_positions_refer_to_line.

(* With --nth a term can only match inside the selected fields: the searched texts are (prefixes of) the
   selections, one per expression, and there is no match iff the matcher rejects every one of them. *)
Theorem nth_confines : forall (pfun : match_fn) line nth d toks,
  delim_wf d -> nth <> [] -> transform_input line nth d = Ok toks ->
  Forall2 (nth_token line d) nth toks /\
  (nth_match pfun line nth d = Ok None <-> Forall (fun tk => pfun (t_text tk) = None) toks).
Proof. exact nth_confines_proof. Qed.
Print Assumptions nth_confines.

(* total: Tokenize / Transform / StripLastDelimiter / iter never fail (no out-of-range slice or index,
   no fuel exhaustion), for every line, every range list, every delimiter. *)
Theorem total : forall (pfun : match_fn) line nth d,
  delim_wf d -> exists m, nth_match pfun line nth d = Ok m.
Proof. exact nth_match_total_proof. Qed.
Print Assumptions total.

Theorem accept_nth_total : forall line nth d, delim_wf d -> exists s, accept_nth line nth d = Ok s.
Proof. exact accept_nth_total_proof. Qed.
Print Assumptions accept_nth_total.

(* ParseRange accepts EVERY documented expression N, -N, A..B, A.., ..B, .. (written with decimal numerals,
   bounds non-zero and within int64; fzf refuses negative..positive) and the Range it returns selects, from
   any list of fields, exactly the fields the expression denotes.  Together with transform_selects:
   expression text -> ParseRange -> Transform = the documented selection. *)
Theorem parse_range_documented : forall e,
  fexpr_valid e -> fexpr_in_int64 e -> fexpr_accepted e ->
  exists r, parse_range (print_fexpr e) = Some r /\
            forall (A : Type) (l : list A), select_fields (range_expr r) l = select_fields e l.
Proof. exact parse_range_documented_proof. Qed.
Print Assumptions parse_range_documented.

(* strconv.Atoi o strconv.Itoa = id on int64 (the numeral round trip ParseRange relies on) *)
Theorem atoi_itoa : forall z, INT_MIN <= z <= INT_MAX -> atoi (itoa z) = Some z.
Proof. exact atoi_itoa_proof. Qed.
Print Assumptions atoi_itoa.

(* ---- what is printed / searched / substituted for the selected fields ----
   FieldSpec.output_text d s = s without ONE trailing delimiter occurrence (strip_delim), then without
   trailing white space; FieldOutProofs.dspec_of maps the model's delimiter to the spec's description. *)

(* the executable stripping of a literal delimiter means exactly: remove one trailing sep, or nothing *)
Theorem strip_literal_one : forall sep p, strip_literal sep (p ++ sep) = p.
Proof. exact strip_literal_one_proof. Qed.
Print Assumptions strip_literal_one.

Theorem strip_literal_other : forall sep s, (forall p, s <> p ++ sep) -> strip_literal sep s = s.
Proof. exact strip_literal_other_proof. Qed.
Print Assumptions strip_literal_other.

(* StripLastDelimiter, for every text and delimiter, is that stripping: never more than one delimiter, never
   a character of the field itself *)
Theorem strip_last_delimiter_documented : forall s d,
  delim_wf d -> strip_last_delimiter s d = Ok (output_text (dspec_of d) s).
Proof. exact strip_last_delimiter_documented_proof. Qed.
Print Assumptions strip_last_delimiter_documented.

(* --accept-nth EXPR,...: exactly the documented fields of the line, concatenated, last delimiter stripped *)
Theorem accept_nth_documented : forall line nth d,
  delim_wf d ->
  accept_nth line nth d =
    Ok (output_text (dspec_of d) (fields_text (map range_expr nth) (spec_fields d line))).
Proof. exact accept_nth_documented_proof. Qed.
Print Assumptions accept_nth_documented.

(* --nth: the searched texts ARE the documented selections, one per expression (with a --delimiter the last
   one without its trailing delimiter) -- equality, not only inclusion ... *)
Theorem nth_searched_texts : forall line nth d toks,
  delim_wf d -> transform_input line nth d = Ok toks ->
  map t_text toks = search_texts (dspec_of d) (map range_expr nth) (spec_fields d line).
Proof. exact nth_searched_texts_proof. Qed.
Print Assumptions nth_searched_texts.

(* ... so no match is reported iff the matcher rejects every one of them (nothing selected is left unsearched) *)
Theorem nth_complete : forall (pfun : match_fn) line nth d,
  delim_wf d -> nth <> [] ->
  (nth_match pfun line nth d = Ok None <->
   Forall (fun t => pfun t = None) (search_texts (dspec_of d) (map range_expr nth) (spec_fields d line))).
Proof. exact nth_complete_proof. Qed.
Print Assumptions nth_complete.

(* templates of --with-nth / --accept-nth: literal text, {n}, and each {EXPR,...} replaced by its documented
   fields with the trailing delimiter stripped; --accept-nth strips the last delimiter of the whole once more *)
Theorem with_nth_template_documented : forall parts line d index,
  delim_wf d ->
  with_nth_template parts line d index =
    Ok (render_template (dspec_of d) (spec_fields d line) index (map part_expr parts)).
Proof. exact with_nth_template_documented_proof. Qed.
Print Assumptions with_nth_template_documented.

Theorem accept_nth_template_documented : forall parts line d index,
  delim_wf d ->
  accept_nth_template parts line d index =
    Ok (output_text (dspec_of d)
          (render_template (dspec_of d) (spec_fields d line) index (map part_expr parts))).
Proof. exact accept_nth_template_documented_proof. Qed.
Print Assumptions accept_nth_template_documented.

(* {EXPR,...} in a command template (r flag: before quoting) *)
Theorem placeholder_documented : forall line ranges d preserve,
  delim_wf d ->
  placeholder_fields line ranges d preserve =
    Ok (placeholder_text (dspec_of d) preserve (map range_expr ranges) (spec_fields d line)).
Proof. exact placeholder_documented_proof. Qed.
Print Assumptions placeholder_documented.

(* non-vacuity: "docs/src/index.md" with -d /src/: field 1 is "docs/src/", printed/searched as "docs" (the 's'
   and 'c' of the field stay); "a,,b" with -d , and 1..2: "a,," loses ONE comma; a template; a placeholder *)
Example c10_output_nonvacuous :
  let line := [100; 111; 99; 115; 47; 115; 114; 99; 47; 105; 110; 100; 101; 120; 46; 109; 100] in
  let d := DStr [47; 115; 114; 99; 47] in
  accept_nth line [(1, 1)] d = Ok [100; 111; 99; 115] /\
  transform_input line [(1, 1)] d = Ok [mkTok [100; 111; 99; 115] 0] /\
  accept_nth [97; 44; 44; 98] [(1, 2)] (DStr [44]) = Ok [97; 44] /\
  with_nth_template [PStr [60]; PNth [(1, 1)]; PStr [62]; PIndex] line d 7 = Ok [60; 100; 111; 99; 115; 62; 55] /\
  placeholder_fields [32; 97; 44; 44; 98] [(1, 2)] (DStr [44]) false = Ok [97; 44] /\
  placeholder_fields [32; 97; 44; 44; 98] [(1, 2)] (DStr [44]) true = Ok [32; 97; 44].
Proof. repeat split; vm_compute; reflexivity. Qed.

(* parse_range is a total function (option, no res): rejection is None; a zero bound is refused *)
Example parse_range_rejects_zero :
  parse_range [48] = None /\ parse_range [46; 46; 48] = None /\ parse_range [48; 46; 46] = None /\
  parse_range [48; 46; 46; 49] = None /\ parse_range [49; 46; 46; 48] = None.
Proof. exact parse_range_rejects_zero_proof. Qed.

(* FINDING (cosmetic; RangesToString only feeds $FZF_NTH): the printer is lossy, so
   parse_range_roundtrip (parse o RangesToString = id on parsed ranges) is REFUTED by the faithful model:
   "-1..-3" parses to Range{-1,-3} (selects nothing), prints as "-1", which parses to the last field. *)
Example ranges_to_string_roundtrip_refuted :
  exists r r', parse_range [45; 49; 46; 46; 45; 51] = Some r /\
    parse_range (range_to_string r) = Some r' /\
    select_fields (range_expr r) [1; 2; 3] = [] /\ select_fields (range_expr r') [1; 2; 3] = [3].
Proof. exists (-1, -3), (-1, 0). repeat split; vm_compute; reflexivity. Qed.

(* non-vacuity: a line with leading blanks, a multi-byte character and a negative range; a regexp delimiter
   whose (well-formed) occurrences are given; a matcher that finds 'c' (99) *)
Example c10_nonvacuous :
  let line := [32; 32; 97; 32; 233; 98; 32; 32; 99; 100] in              (* "  a éb  cd" *)
  let find_c : match_fn := fun t => match t with 99 :: _ => Some (0, 1, [0])%nat | _ => None end in
  delim_wf DAwk /\
  tokenize line DAwk = Ok [mkTok [97; 32] 2; mkTok [233; 98; 32; 32] 4; mkTok [99; 100] 8] /\
  parse_range [45; 50; 46; 46] = Some (-2, 0) /\                          (* "-2.." *)
  (fexpr_valid (FRange (Some (-2)) None) /\ fexpr_in_int64 (FRange (Some (-2)) None) /\
   fexpr_accepted (FRange (Some (-2)) None) /\ print_fexpr (FRange (Some (-2)) None) = [45; 50; 46; 46]) /\
  transform_input line [(-2, 0); (3, 3)] DAwk = Ok [mkTok [233; 98; 32; 32; 99; 100] 4; mkTok [99; 100] 8] /\
  nth_match find_c line [(1, 1); (3, 3)] DAwk = Ok (Some (8, 9, [8])) /\
  nth_error line 8 = Some 99.
Proof. repeat split; try (vm_compute; reflexivity); try (unfold INT_MIN, INT_MAX; lia). Qed.

Example c10_nonvacuous_regex :
  let line := [97; 44; 44; 98; 44] in                                      (* "a,,b," with delimiter ,+ *)
  let rx : str -> list (nat * nat) := fun s => if str_eqb s line then [(1, 3); (4, 5)]%nat else [] in
  (forall s, locs_wf 0 (length s) (rx s)) /\
  tokenize line (DRegex rx) = Ok [mkTok [97; 44; 44] 0; mkTok [98; 44] 3] /\
  tokenize line (DStr [44]) = Ok [mkTok [97; 44] 0; mkTok [44] 2; mkTok [98; 44] 3; mkTok [] 5].
Proof.
  split; [|split; vm_compute; reflexivity].
  intros s. cbv beta zeta. destruct (str_eqb s [97; 44; 44; 98; 44]) eqn:H; [|exact I].
  apply str_eqb_eq in H. subst s. cbn. lia.
Qed.
