(* C18 — the query history file keeps the last N submitted queries in order.
   Statements only; proofs live in proofs/HistoryProofs.v. *)
From Fzf Require Import Prelude HistorySpec HistoryModel HistoryProofs HistoryProcSpec HistoryProcModel HistoryProcProofs
  HistoryLoopSpec HistoryLoopModel HistoryLoopProofs.
Open Scope Z_scope.

(* After ANY sequence of well-formed sessions (each: load; any previous/next/edit steps; submit or not),
   for any limit >= 1 and any initial file (missing, empty, over-long, with blank lines ...):
   the run never fails, and the entries stored in the file are the last `max` of
   (entries stored before ++ non-empty submitted queries), oldest first; untouched if nothing was submitted. *)
Theorem sessions_keep_last_n : forall max file ss, (1 <= max)%nat -> Forall session_wf ss ->
  exists f' qs, run_sessions_log max file ss = Ok (f', qs) /\
    fs_entries f' = match submitted qs with
                    | [] => fs_entries file
                    | _ => stored_after max (fs_entries file) qs
                    end.
Proof. exact sessions_keep_last_n_proof. Qed.
Print Assumptions sessions_keep_last_n.

(* A new session loads exactly the stored entries (plus the scratch line), cursor on the scratch line. *)
Theorem load_exact : forall file max,
  exists h, new_history file max = Ok (h, Some (fs_data file)) /\
            h_lines h = fs_entries file ++ [[]] /\ h_cursor h = length (fs_entries file).
Proof. exact load_exact_proof. Qed.
Print Assumptions load_exact.

(* previous/next never leave [0, |entries|], never fail, and never alter the loaded entries. *)
Theorem nav_in_range : forall max file ops, Forall op_nl_free ops ->
  exists h st, new_history file max = Ok (h, Some (fs_data file)) /\
    sess_steps (mkSess h [] []) ops = Ok st /\
    (h_cursor (s_hist st) <= length (fs_entries file))%nat /\
    exists scr, h_lines (s_hist st) = fs_entries file ++ [scr].
Proof. exact nav_in_range_proof. Qed.
Print Assumptions nav_in_range.

(* Edits made while navigating are never written: without a non-empty submission the file bytes are unchanged;
   with one, the file is rendered from the ORIGINAL entries and the submitted query only. *)
Theorem edits_never_written : forall max file s, session_wf s ->
  exists f' seen inp, run_session max file s = Ok (f', seen, inp) /\
    (ss_submit s && nonemptyb inp = false -> f' = Some (fs_data file)) /\
    (ss_submit s && nonemptyb inp = true -> f' = Some (render (last_n max (fs_entries file ++ [inp])))).
Proof. exact edits_never_written_proof. Qed.
Print Assumptions edits_never_written.

(* Navigation refines an array of texts with a cursor (HistorySpec.nav): editing changes the text under the
   cursor, previous/next only move the cursor and never leave [0, |entries|]; so coming back to an entry shows
   the edited text. The array initially holds the loaded entries, cursor on the scratch line. *)
Theorem edits_come_back : forall max file ops h f st',
  new_history file max = Ok (h, f) -> sess_steps (mkSess h [] []) ops = Ok st' ->
  nav_eq (abs_nav st') (nav_steps (abs_nav (mkSess h [] [])) ops) /\
  nv_cur (abs_nav (mkSess h [] [])) = length (fs_entries file) /\
  forall i, (i < length (fs_entries file))%nat -> nv_text (abs_nav (mkSess h [] [])) i = nth i (fs_entries file) [].
Proof. exact nav_refines_loaded_proof. Qed.
Print Assumptions edits_come_back.

(* non-vacuity: a concrete two-session history meets the hypotheses and exercises the cap *)
Example c18_nonvacuous :
  let ss := [mkSession [Edit [97]; Prev; Prev; Next; Edit [98;98]] true; mkSession [Prev; Edit [99]; Next] true] in
  Forall session_wf ss /\
  run_sessions_log 2 (Some [120;10;121;10;122;10]) ss = Ok (Some [122;10;98;98;10], [[98;98]; []]).
Proof. split; [repeat constructor; unfold NL; try discriminate|vm_compute; reflexivity]. Qed.

(* ===== process level: the file as the PROGRAM maintains it (options.go, terminal.go) ===== *)

(* One option list (one of $FZF_DEFAULT_OPTS_FILE, $FZF_DEFAULT_OPTS, the command line), all sizes >= 1:
   parseOptions ends with exactly what the list asks for - the file of the last --history not followed by
   --no-history, limited by the last --history-size (default 1000) WHEREVER it stands relative to --history. *)
Theorem history_options_one_list : forall ws, words_ok ws -> parse_layers None [ws] = Ok (eff_config ws).
Proof. exact one_list_proof. Qed.
Print Assumptions history_options_one_list.

(* The three layers of one invocation mean their concatenation, unless a --history-size stands in an EARLIER
   layer than a --history (layered_ok). *)
Theorem history_options_layers : forall ls, Forall words_ok ls -> layered_ok false ls = true ->
  parse_layers None ls = Ok (eff_config (concat ls)).
Proof. exact layers_proof. Qed.
Print Assumptions history_options_layers.

(* FINDING (recorded as c17-history-size-layering): the exception is real. *)
Theorem history_options_layers_refuted :
  exists p, parse_layers None [[HSize 5]; [HFile p]] = Ok (Some (p, 1000%nat)) /\
            parse_layers None [[HSize 5; HFile p]] = Ok (Some (p, 5%nat)) /\
            eff_config (concat [[HSize 5]; [HFile p]]) = Some (p, 5%nat).
Proof. exact layers_refuted_proof. Qed.
Print Assumptions history_options_layers_refuted.

(* The endings after which terminal.go appends the query (exit status <= 1, become) are exactly the endings
   that submit it (everything but abort / a signal). *)
Theorem endings_record : forall e, records e = submits e.
Proof. exact endings_record_proof. Qed.
Print Assumptions endings_record.

(* ANY sequence of runs of the program - each with its own option layers (well-formed as above), any
   previous/next/edit steps and any ending - over ANY file system: no run fails, each runs under the
   configuration its options ask for, and EVERY file q afterwards stores what the spec says: run by run, the
   last n of (entries ++ [query]) if the run was configured for q with limit n, submitted, and the query is
   non-empty; unchanged otherwise (aborted, empty query, --no-history, another file). *)
Theorem proc_sessions_keep_last_n : forall ss, Forall psession_wf ss -> forall F,
  exists F' log, run_psessions_log F ss = Ok (F', log) /\
    map (fun x => (fst (fst x), snd (fst x))) log = map (fun s => (eff_config (concat (p_layers s)), p_end s)) ss /\
    forall q, fs_entries (F' q) = fold_left (log_step q) log (fs_entries (F q)).
Proof. exact proc_sessions_proof. Qed.
Print Assumptions proc_sessions_keep_last_n.

(* ... and when all runs name the same file p and limit n, p stores the last n of
   (entries before ++ non-empty queries of the runs that did not abort): the statement of C18. *)
Theorem proc_sessions_same_config : forall ss p n, (1 <= n)%nat -> Forall psession_wf ss ->
  Forall (fun s => eff_config (concat (p_layers s)) = Some (p, n)) ss -> forall F,
  exists F' log, run_psessions_log F ss = Ok (F', log) /\
    let qs := map (fun x => snd x) (filter (fun x : hcfg * ending * str => submits (snd (fst x))) log) in
    fs_entries (F' p) = match submitted qs with
                        | [] => fs_entries (F p)
                        | _ => stored_after n (fs_entries (F p)) qs
                        end.
Proof. exact proc_sessions_same_proof. Qed.
Print Assumptions proc_sessions_same_config.

(* non-vacuity: size before file in the environment layer, three runs (no match, aborted, matched) under limit 2 *)
Example c18_proc_nonvacuous :
  let h := [104] in
  let run q e := mkP [[HSize 2; HFile h]; [HOther]] [Edit q] e in
  let ss := [run [122;122] (EndAccept false); run [112] EndAbort; run [97] (EndAccept true)] in
  Forall psession_wf ss /\
  Forall (fun s => eff_config (concat (p_layers s)) = Some (h, 2%nat)) ss /\
  match run_psessions_log (fun q => if str_eqb q h then Some [120;10;121;10] else None) ss with
  | Ok (F', _) => F' h = Some [122;122;10;97;10]
  | Err _ => False
  end.
Proof.
  cbn zeta. split; [|split; [|vm_compute; reflexivity]].
  - repeat constructor; unfold NL; discriminate.
  - repeat constructor.
Qed.

(* ===== the action loop of one run (terminal.go, Loop): actions that end the session only when there is an
   item to act on - become(... {} ...), accept-non-empty - and are ignored otherwise ===== *)

(* The loop of the program, action by action (the history is appended to only in the branch of actBecome that
   hands over, and in exit()), is the plain session that its steps AMOUNT TO (HistoryLoopSpec.amounts_to: the
   steps before the first attempt that finds an item, ended by that attempt; else the ending given). *)
Theorem loop_session_amounts_to : forall F s,
  run_lsession F s =
  match run_psession F (as_psession s) with
  | Ok (F', c, seen, inp) => Ok (F', c, seen, inp, snd (amounts_to (l_steps s) (l_end s)))
  | Err er => Err er
  end.
Proof. exact loop_refines_proof. Qed.
Print Assumptions loop_session_amounts_to.

(* An attempt that is ignored leaves NO trace: files, shown strings, query and ending are those of the run
   without it - wherever it stands, however often it is repeated (apply the theorem repeatedly). *)
Theorem ignored_attempts_leave_no_trace : forall F layers ps1 ps2 e e0,
  run_lsession F (mkL layers (ps1 ++ PTry e false :: ps2) e0) = run_lsession F (mkL layers (ps1 ++ ps2) e0).
Proof. exact ignored_no_trace_proof. Qed.
Print Assumptions ignored_attempts_leave_no_trace.

(* One run with any steps, over any file system: it does not fail, runs under the configuration its options
   ask for, ends by the ending its steps amount to, and every file stores what the spec says for that ending
   and the query at that moment. *)
Theorem loop_session_keep_last_n : forall F s, lsession_wf s ->
  let cfg := eff_config (concat (l_layers s)) in
  let e := snd (amounts_to (l_steps s) (l_end s)) in
  exists F' seen inp, run_lsession F s = Ok (F', cfg, seen, inp, e) /\
    forall q, fs_entries (F' q) = proc_step cfg e inp q (fs_entries (F q)).
Proof. exact loop_session_proof. Qed.
Print Assumptions loop_session_keep_last_n.

(* While a session is open (no attempt has fired; observed by giving it up at that point) no file has changed
   its entries, whatever was edited, navigated or attempted. *)
Theorem open_session_unchanged : forall F layers ps, lsession_wf (mkL layers ps EndAbort) ->
  Forall (fun p => match p with PTry _ true => False | _ => True end) ps ->
  exists F' c seen inp, run_lsession F (mkL layers ps EndAbort) = Ok (F', c, seen, inp, EndAbort) /\
    forall q, fs_entries (F' q) = fs_entries (F q).
Proof. exact open_session_unchanged_proof. Qed.
Print Assumptions open_session_unchanged.

(* non-vacuity: limit 3, file "an ch"; query zzz, an ignored become, previous (shows ch), query a, a become
   that fires: stored an ch a; the steps after it are never carried out *)
Example c18_loop_nonvacuous :
  let h := [104] in
  let s := mkL [[HFile h; HSize 3]] [PDo (Edit [122;122;122]); PTry EndBecome false; PDo Prev; PDo (Edit [97]);
                                     PTry EndBecome true; PDo (Edit [98])] EndAbort in
  lsession_wf s /\
  match run_lsession (fun q => if str_eqb q h then Some [97;110;10;99;104;10] else None) s with
  | Ok (F', _, seen, inp, e) => F' h = Some [97;110;10;99;104;10;97;10] /\ seen = [[99;104]] /\ inp = [97] /\ e = EndBecome
  | Err _ => False
  end.
Proof.
  cbn zeta. split; [|vm_compute; repeat split; reflexivity].
  split; [|split]; [repeat constructor; unfold NL; discriminate|repeat constructor|reflexivity].
Qed.
