(* C18 — the query history file keeps the last N submitted queries in order.
   Statements only; proofs live in proofs/HistoryProofs.v. *)
From Fzf Require Import Prelude HistorySpec HistoryModel HistoryProofs.
Open Scope Z_scope.

(* After ANY sequence of well-formed sessions (each: load; any previous/next/edit steps; submit or not),
   for any limit >= 1 and any initial file (missing, empty, over-long, with blank lines ...):
   the run never fails, and the entries stored in the file are the last `max` of
   (entries stored before ++ non-empty submitted queries), oldest first; untouched if nothing was submitted. *)
Theorem sessions_keep_last_n : forall max file ss, (1 <= max)%nat -> Forall session_wf ss ->
  exists f' qs, run_sessions_log max file ss = Ok (f', qs) /\
    fs_entries f' = match submitted qs with
                    | [] => fs_entries file
                    | _ => stored_after max (fs_entries file) qs
                    end.
Proof. exact sessions_keep_last_n_proof. Qed.
Print Assumptions sessions_keep_last_n.

(* A new session loads exactly the stored entries (plus the scratch line), cursor on the scratch line. *)
Theorem load_exact : forall file max,
  exists h, new_history file max = Ok (h, Some (fs_data file)) /\
            h_lines h = fs_entries file ++ [[]] /\ h_cursor h = length (fs_entries file).
Proof. exact load_exact_proof. Qed.
Print Assumptions load_exact.

(* previous/next never leave [0, |entries|], never fail, and never alter the loaded entries. *)
Theorem nav_in_range : forall max file ops, Forall op_nl_free ops ->
  exists h st, new_history file max = Ok (h, Some (fs_data file)) /\
    sess_steps (mkSess h [] []) ops = Ok st /\
    (h_cursor (s_hist st) <= length (fs_entries file))%nat /\
    exists scr, h_lines (s_hist st) = fs_entries file ++ [scr].
Proof. exact nav_in_range_proof. Qed.
Print Assumptions nav_in_range.

(* Edits made while navigating are never written: without a non-empty submission the file bytes are unchanged;
   with one, the file is rendered from the ORIGINAL entries and the submitted query only. *)
Theorem edits_never_written : forall max file s, session_wf s ->
  exists f' seen inp, run_session max file s = Ok (f', seen, inp) /\
    (ss_submit s && nonemptyb inp = false -> f' = Some (fs_data file)) /\
    (ss_submit s && nonemptyb inp = true -> f' = Some (render (last_n max (fs_entries file ++ [inp])))).
Proof. exact edits_never_written_proof. Qed.
Print Assumptions edits_never_written.

(* Navigation refines an array of texts with a cursor (HistorySpec.nav): editing changes the text under the
   cursor, previous/next only move the cursor and never leave [0, |entries|]; so coming back to an entry shows
   the edited text. The array initially holds the loaded entries, cursor on the scratch line. *)
Theorem edits_come_back : forall max file ops h f st',
  new_history file max = Ok (h, f) -> sess_steps (mkSess h [] []) ops = Ok st' ->
  nav_eq (abs_nav st') (nav_steps (abs_nav (mkSess h [] [])) ops) /\
  nv_cur (abs_nav (mkSess h [] [])) = length (fs_entries file) /\
  forall i, (i < length (fs_entries file))%nat -> nv_text (abs_nav (mkSess h [] [])) i = nth i (fs_entries file) [].
Proof. exact nav_refines_loaded_proof. Qed.
Print Assumptions edits_come_back.

(* non-vacuity: a concrete two-session history meets the hypotheses and exercises the cap *)
Example c18_nonvacuous :
  let ss := [mkSession [Edit [97]; Prev; Prev; Next; Edit [98;98]] true; mkSession [Prev; Edit [99]; Next] true] in
  Forall session_wf ss /\
  run_sessions_log 2 (Some [120;10;121;10;122;10]) ss = Ok (Some [122;10;98;98;10], [[98;98]; []]).
Proof. split; [repeat constructor; unfold NL; try discriminate|vm_compute; reflexivity]. Qed.
