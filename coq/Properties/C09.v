(* C09 — query line, list cursor and selection evolve exactly as the actions prescribe.
   Statements only; proofs live in proofs/EditProofs.v.  `run is_alnum c s acts` is the model of any
   finite sequence of editing / navigation / selection actions, end-of-event truncations, redraws and
   result-list updates; is_alnum (the Unicode letter/number table) and the configuration c (--multi limit,
   --cycle, layout, --no-input, --track, window height, --scroll-off, --filepath-word) are arbitrary. *)
From Fzf Require Import Prelude EditSpec EditModel EditProofs.
Open Scope Z_scope.

(* the cursor of the query line is always inside the query *)
Theorem cx_inv : forall is_alnum c acts s s',
  (s_cx s <= length (s_input s))%nat -> run is_alnum c s acts = Ok s' -> (s_cx s' <= length (s_input s'))%nat.
Proof. exact cx_inv_proof. Qed.
Print Assumptions cx_inv.

(* ... and at the end of every event the query holds at most 1000 runes *)
Theorem truncate_bound : forall is_alnum c s s', c_inputless c = false -> do_action is_alnum c s ATruncate = Ok s' ->
  (length (s_input s') <= MAXQ)%nat /\ (s_cx s' <= length (s_input s'))%nat.
Proof. exact truncate_bound_proof. Qed.
Print Assumptions truncate_bound.

(* after a redraw the list cursor designates an existing result, or none when the list is empty *)
Theorem cursor_inv : forall c s s', 1 <= c_maxitems c -> constrain c s = Ok s' ->
  (count s' = 0 /\ current_item s' = Ok None) \/ 0 <= s_cy s' < count s'.
Proof. exact cursor_inv_proof. Qed.
Print Assumptions cursor_inv.

(* never more selected lines than the --multi limit *)
Theorem sel_limit : forall is_alnum c acts s s',
  Z.of_nat (length (s_sel s)) <= c_multi c -> run is_alnum c s acts = Ok s' -> Z.of_nat (length (s_sel s')) <= c_multi c.
Proof. exact sel_limit_proof. Qed.
Print Assumptions sel_limit.

(* nothing is selectable without --multi *)
Theorem no_select_without_multi : forall is_alnum c acts s s',
  c_multi c = 0 -> s_sel s = [] -> run is_alnum c s acts = Ok s' -> s_sel s' = [].
Proof. exact no_select_without_multi_proof. Qed.
Print Assumptions no_select_without_multi.

(* toggle twice: the same lines are selected as before, cursor and list untouched *)
Theorem toggle_involution : forall c s s1 s2, Z.of_nat (length (s_sel s)) <= c_multi c ->
  do_list c s AToggle = Ok s1 -> do_list c s1 AToggle = Ok s2 ->
  (forall i, sel_mem i (s_sel s2) = sel_mem i (s_sel s)) /\ s_cy s2 = s_cy s /\ s_res s2 = s_res s.
Proof. exact toggle_involution_proof. Qed.
Print Assumptions toggle_involution.

(* select-all and toggle-all only ever add lines of the current results *)
Theorem select_all_subset_results : forall c s a s', (a = ASelectAll \/ a = AToggleAll) ->
  do_list c s a = Ok s' -> forall x, In x (s_sel s') -> In x (s_sel s) \/ In x (s_res s).
Proof. exact select_all_subset_results_proof. Qed.
Print Assumptions select_all_subset_results.

(* deselect-all removes selected lines of the current results only, and nothing else *)
Theorem deselect_all_only_results : forall c s s', do_list c s ADeselectAll = Ok s' ->
  (forall x, In x (s_sel s') -> In x (s_sel s)) /\
  (forall x, In x (s_sel s) -> sel_mem (idx x) (s_res s) = false -> In x (s_sel s')).
Proof. exact deselect_all_only_results_proof. Qed.
Print Assumptions deselect_all_only_results.

(* select-all is the spec's "add the result lines in order until the limit" *)
Theorem select_all_is_spec : forall c rs sel, select_all_loop c rs sel = sel_add_all (c_multi c) rs sel.
Proof. exact select_all_loop_spec. Qed.
Print Assumptions select_all_is_spec.

(* selections survive every query edit and every new result list *)
Theorem selection_survives_query : forall is_alnum c s a s',
  (is_edit a = true \/ exists rs, a = AUpdate rs false) -> do_action is_alnum c s a = Ok s' -> s_sel s' = s_sel s.
Proof. exact selection_survives_query_proof. Qed.
Print Assumptions selection_survives_query.

(* ... and are dropped on reload *)
Theorem reload_clears : forall is_alnum c s rs s',
  do_action is_alnum c s (AUpdate rs true) = Ok s' -> s_sel s' = [] /\ s_res s' = rs.
Proof. exact reload_clears_proof. Qed.
Print Assumptions reload_clears.

(* on accept the selection (in order of selection) or, if empty, the current line is printed; never fails *)
Theorem accept_prints_selection_or_current : forall s out, output s = Ok out ->
  exists cur, current_item s = Ok cur /\ out = spec_output (s_sel s) cur.
Proof. exact accept_prints_selection_or_current_proof. Qed.
Print Assumptions accept_prints_selection_or_current.

(* The query line is a readline-style zipper editor.  run_z runs the model and, side by side, the spec's zipper
   (EditSpec.zstep) driven by the editor command each action stands for (ecmd_of; replace-query = "set the query
   to the text of the current line"); zabs s = (runes before the cursor nearest first, runes after it, kill buffer).
   FULL STATEMENT (the goal; NOT yet proved for the five word actions):
     edit_refines_zipper (Theorem, to do) : forall is_alnum c acts s s' z',
       c_inputless c = false -> (s_cx s <= length (s_input s))%nat -> (no newline in the query and in action arguments) ->
       run_z is_alnum c s (zabs s) acts = Ok (s', z') -> z' = zabs s'.
   Proved below: the same for every history that does not contain unix-word-rubout, backward-kill-word,
   backward-word, forward-word, kill-word (15 of the 20 editing actions, all cursor/selection actions, truncation,
   redraws, list updates; no newline hypothesis needed).  Missing: the lemma that the two fixed word regexes
   (EditModel.find_last / find_first_next) travel exactly EditSpec.word_span; it is covered by the correspondence
   run only (spec check query_is_readline on live fzf, which does catch a mutated word regex). *)
Theorem edit_refines_zipper_partial : forall is_alnum c acts s s' z',
  c_inputless c = false -> (s_cx s <= length (s_input s))%nat ->
  forallb (fun a => negb (is_word_motion a)) acts = true ->
  run_z is_alnum c s (zabs s) acts = Ok (s', z') -> z' = zabs s'.
Proof. exact edit_refines_zipper_partial_proof. Qed.
Print Assumptions edit_refines_zipper_partial.

(* run_z is the model run with a zipper carried along *)
Theorem run_z_is_run : forall is_alnum c acts s z s' z', run_z is_alnum c s z acts = Ok (s', z') -> run is_alnum c s acts = Ok s'.
Proof. exact run_z_fst. Qed.
Print Assumptions run_z_is_run.

(* --no-input: no action changes the query *)
Theorem inputless_query_constant : forall is_alnum c acts s s', c_inputless c = true ->
  Forall (fun a => is_action a = true) acts -> s_cx s = length (s_input s) ->
  run is_alnum c s acts = Ok s' -> s_input s' = s_input s /\ s_cx s' = length (s_input s').
Proof. exact inputless_query_constant_proof. Qed.
Print Assumptions inputless_query_constant.

Example c09_zipper_nonvacuous :
  let c := mkCfg 0 false true false false 5 3 false in
  let isal := fun x => (48 <=? x) && (x <=? 122) in
  let s0 := mkSt [97; 98] 1 [] [(0, [104; 105])] 0 0 [] in
  let acts := [APut [120]; ABackwardChar; AKillLine; AYank; AYank; ABeginningOfLine; ADeleteChar; AReplaceQuery; ABackwardDeleteChar; ATruncate] in
  forallb (fun a => negb (is_word_motion a)) acts = true /\
  match run_z isal c s0 (zabs s0) acts with
  | Ok (s', z') => z' = zabs s' /\ s_input s' = [104] /\ s_cx s' = 1%nat /\ s_yanked s' = [120; 98]
  | Err _ => False
  end.
Proof. split; [reflexivity|]. vm_compute. repeat split; reflexivity. Qed.

(* non-vacuity: a concrete history runs without error, exercises the limit, a toggle pair, a reload-free update and a redraw *)
Example c09_nonvacuous :
  let c := mkCfg 2 true true false false 5 3 false in
  let isal := fun x => (48 <=? x) && (x <=? 122) in
  let rs := [(0, [97]); (1, [98; 32; 99]); (2, [100])] in
  let s0 := mkSt [] 0 [] rs 0 0 [] in
  exists s', run isal c s0 [APut [120; 32; 121]; ABackwardWord; AKillWord; AYank; ATruncate; AUp; AToggle; ASelectAll;
                            AUp; AToggle; AToggle; AUpdate [(1, [98; 32; 99]); (2, [100])] false; ARender] = Ok s' /\
    s_input s' = [120; 32; 121] /\ s_cx s' = 3%nat /\ map fst (s_sel s') = [1; 0] /\ s_cy s' = 1 /\ count s' = 2.
Proof. vm_compute. eexists. split; [reflexivity|repeat split]. Qed.
