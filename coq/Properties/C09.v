(* C09 — query line, list cursor and selection evolve exactly as the actions prescribe.
   Statements only; proofs live in proofs/EditProofs.v and proofs/EditRefine.v.  `run is_alnum c s acts` is the model of any
   finite sequence of editing / navigation / selection actions, end-of-event truncations, redraws and
   result-list updates; is_alnum (the Unicode letter/number table) and the configuration c (--multi limit,
   --cycle, layout, --no-input, --track, window height, --scroll-off, --filepath-word) are arbitrary. *)
From Fzf Require Import Prelude EditSpec EditModel EditProofs EditRefine EditMultiSpec EditMultiModel EditMultiProofs.
Open Scope Z_scope.

(* the model never fails: no slice of the query is out of range, the current line is always range-checked,
   constrain terminates — for every history from a state whose query cursor is inside the query.  Hence the
   "run ... = Ok s'" premises of the theorems below are always satisfiable and never hide a crash. *)
Theorem run_never_fails : forall is_alnum c acts s,
  (s_cx s <= length (s_input s))%nat -> exists s', run is_alnum c s acts = Ok s'.
Proof. exact run_never_fails_proof. Qed.
Print Assumptions run_never_fails.

(* the cursor of the query line is always inside the query *)
Theorem cx_inv : forall is_alnum c acts s s',
  (s_cx s <= length (s_input s))%nat -> run is_alnum c s acts = Ok s' -> (s_cx s' <= length (s_input s'))%nat.
Proof. exact cx_inv_proof. Qed.
Print Assumptions cx_inv.

(* ... and at the end of every event the query holds at most 1000 runes *)
Theorem truncate_bound : forall is_alnum c s s', c_inputless c = false -> do_action is_alnum c s ATruncate = Ok s' ->
  (length (s_input s') <= MAXQ)%nat /\ (s_cx s' <= length (s_input s'))%nat.
Proof. exact truncate_bound_proof. Qed.
Print Assumptions truncate_bound.

(* a redraw never fails (the scroll-offset loops of constrain terminate within their fuel), and after it the list
   cursor designates an existing result, or none when the list is empty *)
Theorem cursor_inv : forall c s, 1 <= c_maxitems c ->
  exists s', constrain c s = Ok s' /\
    ((count s' = 0 /\ current_item s' = Ok None) \/ 0 <= s_cy s' < count s').
Proof. exact cursor_inv_total_proof. Qed.
Print Assumptions cursor_inv.

Theorem constrain_total : forall c s, exists s', constrain c s = Ok s'.
Proof. exact constrain_total_proof. Qed.
Print Assumptions constrain_total.

(* never more selected lines than the --multi limit *)
Theorem sel_limit : forall is_alnum c acts s s',
  Z.of_nat (length (s_sel s)) <= c_multi c -> run is_alnum c s acts = Ok s' -> Z.of_nat (length (s_sel s')) <= c_multi c.
Proof. exact sel_limit_proof. Qed.
Print Assumptions sel_limit.

(* nothing is selectable without --multi *)
Theorem no_select_without_multi : forall is_alnum c acts s s',
  c_multi c = 0 -> s_sel s = [] -> run is_alnum c s acts = Ok s' -> s_sel s' = [].
Proof. exact no_select_without_multi_proof. Qed.
Print Assumptions no_select_without_multi.

(* toggle twice: the same lines are selected as before, cursor and list untouched *)
Theorem toggle_involution : forall c s s1 s2, Z.of_nat (length (s_sel s)) <= c_multi c ->
  do_list c s AToggle = Ok s1 -> do_list c s1 AToggle = Ok s2 ->
  (forall i, sel_mem i (s_sel s2) = sel_mem i (s_sel s)) /\ s_cy s2 = s_cy s /\ s_res s2 = s_res s.
Proof. exact toggle_involution_proof. Qed.
Print Assumptions toggle_involution.

(* select-all and toggle-all only ever add lines of the current results *)
Theorem select_all_subset_results : forall c s a s', (a = ASelectAll \/ a = AToggleAll) ->
  do_list c s a = Ok s' -> forall x, In x (s_sel s') -> In x (s_sel s) \/ In x (s_res s).
Proof. exact select_all_subset_results_proof. Qed.
Print Assumptions select_all_subset_results.

(* deselect-all removes selected lines of the current results only, and nothing else *)
Theorem deselect_all_only_results : forall c s s', do_list c s ADeselectAll = Ok s' ->
  (forall x, In x (s_sel s') -> In x (s_sel s)) /\
  (forall x, In x (s_sel s) -> sel_mem (idx x) (s_res s) = false -> In x (s_sel s')).
Proof. exact deselect_all_only_results_proof. Qed.
Print Assumptions deselect_all_only_results.

(* select-all is the spec's "add the result lines in order until the limit" *)
Theorem select_all_is_spec : forall c rs sel, select_all_loop c rs sel = sel_add_all (c_multi c) rs sel.
Proof. exact select_all_loop_spec. Qed.
Print Assumptions select_all_is_spec.

(* selections survive every query edit and every new result list *)
Theorem selection_survives_query : forall is_alnum c s a s',
  (is_edit a = true \/ exists rs, a = AUpdate rs false) -> do_action is_alnum c s a = Ok s' -> s_sel s' = s_sel s.
Proof. exact selection_survives_query_proof. Qed.
Print Assumptions selection_survives_query.

(* ... and are dropped on reload *)
Theorem reload_clears : forall is_alnum c s rs s',
  do_action is_alnum c s (AUpdate rs true) = Ok s' -> s_sel s' = [] /\ s_res s' = rs.
Proof. exact reload_clears_proof. Qed.
Print Assumptions reload_clears.

(* on accept the selection (in order of selection) or, if empty, the current line is printed; never fails *)
Theorem accept_prints_selection_or_current : forall s out, output s = Ok out ->
  exists cur, current_item s = Ok cur /\ out = spec_output (s_sel s) cur.
Proof. exact accept_prints_selection_or_current_proof. Qed.
Print Assumptions accept_prints_selection_or_current.

(* The query line is a readline-style zipper editor.  run_z runs the model and, side by side, the spec's zipper
   (EditSpec.zstep) driven by the editor command each action stands for (ecmd_of; replace-query = "set the query
   to the text of the current line"); zabs s = (runes before the cursor nearest first, runes after it, kill buffer).
   Hypotheses, all explicit: there is an input section; the state is well formed (st_ok: cursor inside the query,
   no newline in the query, in the kill buffer and in the texts of the listed lines); no action argument and no
   line of a later result list contains a newline (act_ok).  The newline hypothesis is needed because the regex
   alternative `.$` of forward-word / kill-word does not match a newline. *)
Theorem edit_refines_zipper : forall is_alnum c acts s s' z',
  c_inputless c = false -> st_ok s -> Forall act_ok acts ->
  run_z is_alnum c s (zabs s) acts = Ok (s', z') -> z' = zabs s'.
Proof. exact edit_refines_zipper_proof. Qed.
Print Assumptions edit_refines_zipper.

(* the scanner lemmas behind it: the two fixed word regexes travel exactly the spec's word_span *)
Theorem backward_scan_is_word_span : forall w rb,
  find_last_plus1 (p2w w) (rev rb) = (length rb - word_span w rb)%nat.
Proof. exact bw_ncx. Qed.
Print Assumptions backward_scan_is_word_span.
Theorem forward_scan_is_word_span : forall is_alnum c l, nlfree l ->
  find_first_plus1 is_alnum c l = word_span (isw is_alnum c) l.
Proof. exact find_first_is_span. Qed.
Print Assumptions forward_scan_is_word_span.

(* without the five word actions no newline hypothesis is needed *)
Theorem edit_refines_zipper_partial : forall is_alnum c acts s s' z',
  c_inputless c = false -> (s_cx s <= length (s_input s))%nat ->
  forallb (fun a => negb (is_word_motion a)) acts = true ->
  run_z is_alnum c s (zabs s) acts = Ok (s', z') -> z' = zabs s'.
Proof. exact edit_refines_zipper_partial_proof. Qed.
Print Assumptions edit_refines_zipper_partial.

(* up/down/first/last/pos/page moves are the spec's cur_move / clamp_pos on what a redraw shows of the state
   (sabs clamps the cursor), for --cycle and all layouts; the cursor stays on an existing line *)
Theorem cursor_refines_cur_move : forall c s a s', 1 <= c_maxitems c -> is_cursor_move a = true -> cur_in s ->
  do_list c s a = Ok s' ->
  clamp_pos (count s') (s_cy s') = ss_pos (sstep_list (sp_of c) (sabs s) a) /\
  s_res s' = s_res s /\ s_sel s' = s_sel s /\ cur_in s'.
Proof. exact cursor_refines_cur_move_proof. Qed.
Print Assumptions cursor_refines_cur_move.

(* run_z is the model run with a zipper carried along *)
Theorem run_z_is_run : forall is_alnum c acts s z s' z', run_z is_alnum c s z acts = Ok (s', z') -> run is_alnum c s acts = Ok s'.
Proof. exact run_z_fst. Qed.
Print Assumptions run_z_is_run.

(* --no-input: no action changes the query *)
Theorem inputless_query_constant : forall is_alnum c acts s s', c_inputless c = true ->
  Forall (fun a => is_action a = true) acts -> s_cx s = length (s_input s) ->
  run is_alnum c s acts = Ok s' -> s_input s' = s_input s /\ s_cx s' = length (s_input s').
Proof. exact inputless_query_constant_proof. Qed.
Print Assumptions inputless_query_constant.

Example c09_zipper_nonvacuous :
  let c := mkCfg 0 false true false false 5 3 false in
  let isal := fun x => (48 <=? x) && (x <=? 122) in
  let s0 := mkSt [97; 98] 1 [] [(0, [104; 105])] 0 0 [] in
  let acts := [APut [120]; ABackwardChar; AKillLine; AYank; AYank; ABeginningOfLine; ADeleteChar; AReplaceQuery; ABackwardDeleteChar; ATruncate] in
  forallb (fun a => negb (is_word_motion a)) acts = true /\
  match run_z isal c s0 (zabs s0) acts with
  | Ok (s', z') => z' = zabs s' /\ s_input s' = [104] /\ s_cx s' = 1%nat /\ s_yanked s' = [120; 98]
  | Err _ => False
  end.
Proof. split; [reflexivity|]. vm_compute. repeat split; reflexivity. Qed.

(* non-vacuity: a concrete history runs without error, exercises the limit, a toggle pair, a reload-free update and a redraw *)
Example c09_nonvacuous :
  let c := mkCfg 2 true true false false 5 3 false in
  let isal := fun x => (48 <=? x) && (x <=? 122) in
  let rs := [(0, [97]); (1, [98; 32; 99]); (2, [100])] in
  let s0 := mkSt [] 0 [] rs 0 0 [] in
  exists s', run isal c s0 [APut [120; 32; 121]; ABackwardWord; AKillWord; AYank; ATruncate; AUp; AToggle; ASelectAll;
                            AUp; AToggle; AToggle; AUpdate [(1, [98; 32; 99]); (2, [100])] false; ARender] = Ok s' /\
    s_input s' = [120; 32; 121] /\ s_cx s' = 3%nat /\ map fst (s_sel s') = [1; 0] /\ s_cy s' = 1 /\ count s' = 2.
Proof. vm_compute. eexists. split; [reflexivity|repeat split]. Qed.

(* non-vacuity of edit_refines_zipper: a well-formed state and a history with all five word actions *)
Example c09_word_nonvacuous :
  let c := mkCfg 0 false true false false 5 3 false in
  let isal := fun x => (48 <=? x) && (x <=? 122) in
  let s0 := mkSt [97; 98; 32; 99; 100; 32; 32; 101] 4 [] [(0, [104; 105])] 0 0 [] in
  let acts := [ABackwardWord; AForwardWord; AForwardWord; AKillWord; AYank; AUnixWordRubout; ABackwardKillWord; APut [120; 32]; ABackwardWord; ATruncate] in
  st_ok s0 /\ Forall act_ok acts /\
  match run_z isal c s0 (zabs s0) acts with
  | Ok (s', z') => z' = zabs s' /\ s_input s' = [97; 98; 32; 120; 32] /\ s_cx s' = 3%nat /\ s_yanked s' = [99; 100; 32; 32]
  | Err _ => False
  end.
Proof.
  split; [|split].
  - unfold st_ok, cx_ok, zok, items_ok, nlfree. cbn. repeat split; try lia; repeat constructor; unfold NLc; discriminate.
  - repeat constructor; unfold NLc; discriminate.
  - vm_compute. repeat split; reflexivity.
Qed.

(* The selection actions are the spec's: on what a redraw shows of the state (sabs), toggle, select, deselect,
   select-all, deselect-all, toggle-all and clear-selection produce exactly the spec's selection (same lines in the
   same order of selection; the proof gives equality of the item lists, EditRefine.selection_refines_spec_strong)
   and leave the cursor where it was.  Hypotheses: the cursor designates a line of the list (cur_in, what a redraw
   establishes) and the result list has no two lines with the same index (true of every merger; toggle-all's
   position bookkeeping relies on it).  toggle-in / toggle-out are excluded on purpose: the man page and the code
   differ, see KNOWN_FINDINGS. *)
Theorem selection_refines_spec : forall c s a s',
  is_selection_action a = true -> a <> AToggleIn -> a <> AToggleOut -> cur_in s -> NoDup (map idx (s_res s)) ->
  do_list c s a = Ok s' ->
  map idx (ss_sel (sstep_list (sp_of c) (sabs s) a)) = map idx (s_sel s') /\
  ss_pos (sstep_list (sp_of c) (sabs s) a) = clamp_pos (count s') (s_cy s').
Proof. exact selection_refines_spec_proof. Qed.
Print Assumptions selection_refines_spec.

(* A new result list (without --track): the query line is untouched, the list is the new one, the selection is kept
   or, on reload, dropped, and the cursor keeps its position as far as the new list allows.
   Hypothesis cur_shown s (0 <= cy <= max 0 (count-1): the cursor is where the last redraw left it) had to be ADDED
   to the statement as first written: UpdateList does not touch t.cy, only the next redraw clamps it, so when two
   lists arrive between two redraws a cursor beyond the end of the first (short) list reappears in the second,
   whereas the spec clamps at every step.  cur_in is not enough (empty list, cy = 1): see update_needs_redraw. *)
Theorem update_refines_spec : forall is_alnum c s rs reload s',
  c_track c = false -> cur_shown s ->
  do_action is_alnum c s (AUpdate rs reload) = Ok s' ->
  sabs s' = sstep_list (sp_of c) (sabs s) (AUpdate rs reload).
Proof. exact update_refines_spec_proof. Qed.
Print Assumptions update_refines_spec.

(* ... and a redraw establishes cur_shown *)
Example redraw_gives_cur_shown : forall c s s', 1 <= c_maxitems c -> constrain c s = Ok s' -> cur_shown s'.
Proof. exact constrain_cur_shown. Qed.

(* the statement without cur_shown is refuted by the model: empty list, cy = 1 (cur_in holds), three lines arrive *)
Example update_needs_redraw :
  exists c s rs, c_track c = false /\ cur_in s /\
    exists s', do_action (fun _ => true) c s (AUpdate rs false) = Ok s' /\
               sabs s' <> sstep_list (sp_of c) (sabs s) (AUpdate rs false).
Proof. exact update_needs_redraw_proof. Qed.

(* non-vacuity of selection_refines_spec: limit 3, four result lines, two selected lines (one of them listed, one not),
   cursor on the second line; toggle-all unselects line 2, then adds lines 7 and 0 and stops at the limit *)
Example c09_selection_nonvacuous :
  let c := mkCfg 3 false true false false 5 0 false in
  let s := mkSt [] 0 [] [(7, [97]); (2, [98]); (0, [99]); (5, [100])] 1 0 [(2, [98]); (9, [120])] in
  is_selection_action AToggleAll = true /\ cur_in s /\ NoDup (map idx (s_res s)) /\
  exists s', do_list c s AToggleAll = Ok s' /\ map idx (s_sel s') = [9; 7; 0] /\
    map idx (ss_sel (sstep_list (sp_of c) (sabs s) AToggleAll)) = [9; 7; 0] /\
    ss_pos (sstep_list (sp_of c) (sabs s) AToggleAll) = 1.
Proof.
  split; [reflexivity|]. split; [right; cbn; lia|]. split.
  - cbn. repeat (constructor; [cbn; intuition discriminate|]). constructor.
  - eexists. split; [reflexivity|]. vm_compute. repeat split; reflexivity.
Qed.

(* non-vacuity of update_refines_spec: cursor on the fourth of four lines, two selected lines; a list of two lines arrives *)
Example c09_update_nonvacuous :
  let c := mkCfg 3 false true false false 5 0 false in
  let s := mkSt [113] 1 [] [(7, [97]); (2, [98]); (0, [99]); (5, [100])] 3 0 [(2, [98]); (9, [120])] in
  let rs := [(2, [98]); (5, [100])] in
  c_track c = false /\ cur_shown s /\
  exists s', do_action (fun _ => true) c s (AUpdate rs false) = Ok s' /\
    sabs s' = sstep_list (sp_of c) (sabs s) (AUpdate rs false) /\
    ss_pos (sabs s') = 1 /\ map idx (ss_sel (sabs s')) = [2; 9] /\ map idx (ss_res (sabs s')) = [2; 5].
Proof.
  split; [reflexivity|]. split; [unfold cur_shown; cbn; lia|].
  eexists. split; [reflexivity|]. vm_compute. repeat split; reflexivity.
Qed.

(* ---- sessions in which the --multi limit changes (change-multi) -------------------------------------------
   A session state is (cfg, st): change-multi assigns t.multi, every other action is EditModel.do_action under the
   configuration of the moment (xrun).  The theorems above speak about every stretch between two limit changes
   (session_without_change_is_run); the ones below carry the selection rules across the changes. *)

Theorem session_never_fails : forall is_alnum xs cs,
  (s_cx (snd cs) <= length (s_input (snd cs)))%nat -> exists cs', xrun is_alnum cs xs = Ok cs'.
Proof. exact xrun_never_fails_proof. Qed.
Print Assumptions session_never_fails.

(* never more selected lines than the limit IN FORCE, for every history of actions and limit changes *)
Theorem sel_limit_changing_multi : forall is_alnum xs cs cs',
  Z.of_nat (length (s_sel (snd cs))) <= c_multi (fst cs) -> xrun is_alnum cs xs = Ok cs' ->
  Z.of_nat (length (s_sel (snd cs'))) <= c_multi (fst cs').
Proof. exact xsel_limit_proof. Qed.
Print Assumptions sel_limit_changing_multi.

(* nothing is selected whenever multi-select is off, however it came to be off *)
Theorem no_selection_while_multi_off : forall is_alnum xs cs cs',
  Z.of_nat (length (s_sel (snd cs))) <= c_multi (fst cs) -> xrun is_alnum cs xs = Ok cs' ->
  c_multi (fst cs') = 0 -> s_sel (snd cs') = [].
Proof. exact xno_select_without_multi_proof. Qed.
Print Assumptions no_selection_while_multi_off.

Theorem change_multi_off_clears : forall c s c' s',
  Z.of_nat (length (s_sel s)) <= c_multi c -> change_multi c s (CMNum 0) = (c', s') -> c_multi c' = 0 /\ s_sel s' = [].
Proof. exact change_multi_off_clears_proof. Qed.
Print Assumptions change_multi_off_clears.

(* a limit change is the spec's step (the limit becomes limit_after; a different limit starts a new selection, the same
   limit changes nothing) on what the user sees, from a state that obeys the limit in force; query line, list and
   cursor are untouched.  Under --no-input the query cursor is at the end of the query (inputless_query_constant). *)
Theorem change_multi_refines_spec : forall isw c s m c' s',
  Z.of_nat (length (s_sel s)) <= c_multi c -> (c_inputless c = false \/ s_cx s = length (s_input s)) ->
  change_multi c s m = (c', s') ->
  (sp_of c', sabs s') = xsstep isw (sp_of c, sabs s) (XChangeMulti m).
Proof. exact change_multi_refines_spec_proof. Qed.
Print Assumptions change_multi_refines_spec.

Theorem session_without_change_is_run : forall is_alnum acts c s,
  xrun is_alnum (c, s) (map XA acts) = (do s' <- run is_alnum c s acts; Ok (c, s')).
Proof. exact xrun_without_change_proof. Qed.
Print Assumptions session_without_change_is_run.

(* non-vacuity: --multi=3, two lines selected; the same limit keeps them; change-multi(0) drops them and the next toggle
   selects nothing; change-multi() allows selecting again; change-multi(-1) is no limit change; the final change-multi(1)
   drops the two selected lines again *)
Example c09_session_nonvacuous :
  let c := mkCfg 3 false true false false 5 3 false in
  let isal := fun x => (48 <=? x) && (x <=? 122) in
  let rs := [(0, [97]); (1, [98]); (2, [99]); (3, [100])] in
  let s0 := mkSt [] 0 [] rs 0 0 [] in
  Z.of_nat (length (s_sel s0)) <= c_multi c /\
  (exists cs, xrun isal (c, s0) [XA AToggle; XA AUp; XA AToggle; XChangeMulti (CMNum 3)] = Ok cs /\
     map fst (s_sel (snd cs)) = [0; 1] /\ c_multi (fst cs) = 3) /\
  (exists cs, xrun isal (c, s0) [XA AToggle; XA AUp; XA AToggle; XChangeMulti (CMNum 0); XA AToggle; XA ASelectAll] = Ok cs /\
     s_sel (snd cs) = [] /\ c_multi (fst cs) = 0 /\ s_cy (snd cs) = 1) /\
  (exists cs, xrun isal (c, s0) [XA AToggle; XChangeMulti (CMNum 0); XChangeMulti CMNone; XA AUp; XA AToggle; XA AUp; XA AToggle;
                                 XChangeMulti (CMNum (-1)); XChangeMulti CMBad] = Ok cs /\
     map fst (s_sel (snd cs)) = [1; 2] /\ c_multi (fst cs) = MAXMULTI) /\
  (exists cs, xrun isal (c, s0) [XA ASelectAll; XChangeMulti (CMNum 1)] = Ok cs /\ s_sel (snd cs) = [] /\ c_multi (fst cs) = 1).
Proof. vm_compute. split; [discriminate|]. repeat split; eexists; repeat split. Qed.
