(* C14 spec: what "the terminal is left clean" means, written without looking at how the
   renderer works.

   1. Terminal MODE state and an interpreter of the mode-changing escape sequences
      (DEC private mode set/reset  CSI ? n ; ... h|l,  save/restore cursor  ESC 7|8, CSI s|u)
      over an arbitrary byte stream.  Everything else in the stream (text, colours, cursor
      motion, OSC strings, UTF-8) is skipped by a small VT-style scanner.
      Terminal defaults (xterm, documented): autowrap ?7 and cursor ?25 are SET, every other
      private mode is reset, no cursor save is outstanding.
   2. What "cursor and scroll offset are in bounds" means for the list view.
   3. Temp files: the ledger must be empty.
   4. The hand-over files of the --tmux popup proxy: none may be left. *)
From Fzf Require Import Prelude.
Open Scope Z_scope.

(* ------------------------------------------------------------------ 1. modes *)

Record modes := mkModes {
  m_1000 : bool;   (* mouse: button press/release reports *)
  m_1002 : bool;   (* mouse: drag reports *)
  m_1003 : bool;   (* mouse: any-motion reports *)
  m_1006 : bool;   (* mouse: SGR encoding *)
  m_1015 : bool;   (* mouse: urxvt encoding *)
  m_2004 : bool;   (* bracketed paste *)
  m_1049 : bool;   (* alternate screen *)
  m_25   : bool;   (* cursor visible *)
  m_7    : bool;   (* autowrap *)
  m_saved : bool;  (* a cursor save (ESC 7 / CSI s) is outstanding, i.e. not yet restored *)
  m_orphan : bool; (* sticky: a restore was seen while no save was outstanding *)
  m_others : list Z (* any other private mode currently set, most recent first *)
}.

(* the state of a terminal nobody has touched *)
Definition m0 : modes := mkModes false false false false false false false true true false false [].

Inductive mev := MSet (n : Z) | MReset (n : Z) | MSave | MRestore.

Fixpoint remove_z (n : Z) (l : list Z) : list Z :=
  match l with [] => [] | x :: r => if x =? n then remove_z n r else x :: remove_z n r end.

Definition set_mode (n : Z) (b : bool) (m : modes) : modes :=
  let '(mkModes a1 a2 a3 a4 a5 a6 a7 a8 a9 sv orp ot) := m in
  if n =? 1000 then mkModes b a2 a3 a4 a5 a6 a7 a8 a9 sv orp ot
  else if n =? 1002 then mkModes a1 b a3 a4 a5 a6 a7 a8 a9 sv orp ot
  else if n =? 1003 then mkModes a1 a2 b a4 a5 a6 a7 a8 a9 sv orp ot
  else if n =? 1006 then mkModes a1 a2 a3 b a5 a6 a7 a8 a9 sv orp ot
  else if n =? 1015 then mkModes a1 a2 a3 a4 b a6 a7 a8 a9 sv orp ot
  else if n =? 2004 then mkModes a1 a2 a3 a4 a5 b a7 a8 a9 sv orp ot
  else if n =? 1049 then mkModes a1 a2 a3 a4 a5 a6 b a8 a9 sv orp ot
  else if n =? 25 then mkModes a1 a2 a3 a4 a5 a6 a7 b a9 sv orp ot
  else if n =? 7 then mkModes a1 a2 a3 a4 a5 a6 a7 a8 b sv orp ot
  else mkModes a1 a2 a3 a4 a5 a6 a7 a8 a9 sv orp (if b then n :: remove_z n ot else remove_z n ot).

Definition apply_ev (e : mev) (m : modes) : modes :=
  match e with
  | MSet n => set_mode n true m
  | MReset n => set_mode n false m
  | MSave =>
      let '(mkModes a1 a2 a3 a4 a5 a6 a7 a8 a9 sv orp ot) := m in
      mkModes a1 a2 a3 a4 a5 a6 a7 a8 a9 true orp ot
  | MRestore =>
      let '(mkModes a1 a2 a3 a4 a5 a6 a7 a8 a9 sv orp ot) := m in
      if sv then mkModes a1 a2 a3 a4 a5 a6 a7 a8 a9 false orp ot
      else mkModes a1 a2 a3 a4 a5 a6 a7 a8 a9 false true ot
  end.

Definition apply_evs (es : list mev) (m : modes) : modes := fold_left (fun m e => apply_ev e m) es m.

(* ---- scanner.  ESC=27 '['=91 ']'=93 '\\'=92 BEL=7 CAN=24 SUB=26 '7'=55 '8'=56
        '?'=63 'h'=104 'l'=108 's'=115 'u'=117 ';'=59 ':'=58 *)
Inductive pst :=
| Ground
| Esc                                   (* after ESC *)
| EscI                                  (* ESC + intermediate bytes, waiting for the final byte *)
| Csi (mk : Z) (ps : list Z) (cur : Z) (bad first : bool)
      (* marker (0 = none), finished parameters (latest first), parameter being read,
         malformed, nothing read yet *)
| Osc                                   (* inside ESC ] ... *)
| OscEsc.                               (* ESC seen inside an OSC string *)

Definition inr (lo hi b : Z) : bool := (lo <=? b) && (b <=? hi).

Definition csi_final (mk : Z) (ps : list Z) (cur : Z) (bad : bool) (f : Z) : list mev :=
  if bad then []
  else if mk =? 63 then
    (if f =? 104 then map MSet (rev (cur :: ps))
     else if f =? 108 then map MReset (rev (cur :: ps))
     else [])
  else if mk =? 0 then
    (if f =? 115 then [MSave] else if f =? 117 then [MRestore] else [])
  else [].

Definition step_esc (b : Z) : pst * list mev :=
  if b =? 91 then (Csi 0 [] 0 false true, [])
  else if b =? 93 then (Osc, [])
  else if b =? 55 then (Ground, [MSave])
  else if b =? 56 then (Ground, [MRestore])
  else if b =? 27 then (Esc, [])
  else if inr 32 47 b then (EscI, [])
  else (Ground, []).

Definition step (s : pst) (b : Z) : pst * list mev :=
  match s with
  | Ground => if b =? 27 then (Esc, []) else (Ground, [])
  | Esc => step_esc b
  | EscI => if b =? 27 then (Esc, []) else if inr 32 47 b then (EscI, []) else (Ground, [])
  | Csi mk ps cur bad first =>
      if inr 48 57 b then (Csi mk ps (cur * 10 + (b - 48)) bad false, [])
      else if (b =? 59) || (b =? 58) then (Csi mk (cur :: ps) 0 bad false, [])
      else if inr 60 63 b then (if first then Csi b ps cur bad false else Csi mk ps cur true false, [])
      else if inr 32 47 b then (Csi mk ps cur bad false, [])
      else if inr 64 126 b then (Ground, csi_final mk ps cur bad b)
      else if b =? 27 then (Esc, [])
      else if (b =? 24) || (b =? 26) then (Ground, [])
      else (Csi mk ps cur bad first, [])
  | Osc => if b =? 7 then (Ground, []) else if b =? 27 then (OscEsc, []) else (Osc, [])
  | OscEsc => if b =? 92 then (Ground, []) else step_esc b
  end.

Fixpoint events_from (s : pst) (bs : list Z) : pst * list mev :=
  match bs with
  | [] => (s, [])
  | b :: r => let '(s1, e1) := step s b in let '(s2, e2) := events_from s1 r in (s2, e1 ++ e2)
  end.

Definition events (bs : list Z) : list mev := snd (events_from Ground bs).

(* THE spec function: the modes a terminal in state m is left in after receiving bs *)
Definition net_effect (bs : list Z) (m : modes) : modes := apply_evs (events bs) m.

Definition is_ground (s : pst) : bool := match s with Ground => true | _ => false end.
(* bs is a complete piece of output: it does not end inside an escape sequence *)
Definition closed (bs : list Z) : bool := is_ground (fst (events_from Ground bs)).
(* bs is complete and changes no mode at all (ordinary drawing: text, colours, cursor motion) *)
Definition mode_free (bs : list Z) : bool :=
  closed bs && match events bs with [] => true | _ => false end.

Definition modes_eqb (a b : modes) : bool :=
  Bool.eqb (m_1000 a) (m_1000 b) && Bool.eqb (m_1002 a) (m_1002 b) && Bool.eqb (m_1003 a) (m_1003 b) &&
  Bool.eqb (m_1006 a) (m_1006 b) && Bool.eqb (m_1015 a) (m_1015 b) && Bool.eqb (m_2004 a) (m_2004 b) &&
  Bool.eqb (m_1049 a) (m_1049 b) && Bool.eqb (m_25 a) (m_25 b) && Bool.eqb (m_7 a) (m_7 b) &&
  Bool.eqb (m_saved a) (m_saved b) && Bool.eqb (m_orphan a) (m_orphan b) && str_eqb (m_others a) (m_others b).

(* ------------------------------------------------------------------ 2. list view bounds *)

(* count matches, a window of maxLines >= 1 rows: the cursor is a valid index (0 when the list is empty),
   the first displayed index `offset` is not after the cursor, and the cursor row is inside the window. *)
Definition view_in_bounds (count maxLines cy offset : Z) : Prop :=
  0 <= cy /\ cy <= Z.max 0 (count - 1) /\ 0 <= offset /\ offset <= cy /\ cy < offset + maxLines.

Definition view_in_boundsb (count maxLines cy offset : Z) : bool :=
  (0 <=? cy) && (cy <=? Z.max 0 (count - 1)) && (0 <=? offset) && (offset <=? cy) && (cy <? offset + maxLines).

(* ------------------------------------------------------------------ 3. temp files *)
(* a ledger of the temporary files that exist; "clean" = empty *)
Definition ledger := list nat.
Definition ledger_clean (l : ledger) : bool := match l with [] => true | _ => false end.

(* ------------------------------------------------------------------ 4. hand-over files of the --tmux popup proxy *)
(* `fzf --tmux` inside tmux does not draw anything itself: the OUTER process re-launches fzf inside a tmux popup and
   hands over through files it creates under $TMPDIR -- a fifo for the output, a fifo for the input (unless standard
   input is a terminal), the shell script that the popup runs -- and the INNER fzf may create <script>.become to hand a
   `become` command (and its environment) back.  "Clean" = none of the four exists any more at the moment the outer
   process returns, or replaces itself with the become command (exec). *)
Inductive pfile := PFOut | PFIn | PFScript | PFBecome.
Definition pfile_code (f : pfile) : Z :=
  match f with PFOut => 0 | PFIn => 1 | PFScript => 2 | PFBecome => 3 end.
Definition proxy_clean (left : list pfile) : bool := match left with [] => true | _ => false end.
