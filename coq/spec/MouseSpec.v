(* C14, mouse histories: vocabulary.  A mouse event as fzf's event loop sees it, the geometry of the list window and
   the table of printed lines (Terminal.prevLines), and what it means that handling an event is SAFE: the row used to
   index that table lies inside it.  Nothing here looks at how fzf decides. *)
From Fzf Require Import Prelude.
Open Scope Z_scope.

(* screen coordinates are 0-based; a report may lie outside the screen (negative row with --height, beyond the last
   row / column when the terminal reports a pointer that left the window) *)
Record mev := mkMev {
  e_x : Z; e_y : Z;
  e_down : bool;       (* button held (press or motion with the button held) / released *)
  e_taken : bool;      (* an earlier branch of the handler consumed the event (wheel, preview dragging, preview
                          scrollbar, preview border, input window, header window): ANY value is allowed *)
  e_barlen : Z         (* length of the list's scrollbar at this moment (0: there is none): ANY value is allowed *)
}.

(* layout: 0 default (bottom-up), 1 reverse, 2 reverse-list *)
Record geom := mkGeom {
  g_top : Z; g_left : Z; g_h : Z; g_w : Z;   (* the list window *)
  g_min : Z;                                 (* rows of the window taken by prompt / info / header lines *)
  g_layout : Z;
  g_lines : Z                                (* length of the table of printed lines (= screen height) *)
}.

Definition geom_ok (g : geom) : Prop := 0 <= g_min g /\ 0 <= g_h g <= g_lines g.

Inductive outcome := Stop | Row (i : Z).    (* the event ends without / with a look-up of row i in the table *)

Definition safe (g : geom) (o : outcome) : Prop :=
  match o with Stop => True | Row i => 0 <= i < g_lines g end.

Definition safeb (g : geom) (o : outcome) : bool :=
  match o with Stop => true | Row i => (0 <=? i) && (i <? g_lines g) end.
