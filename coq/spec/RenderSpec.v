(* C15 spec: what a faithful screen is, for the plain configuration
   (--no-unicode --no-color --no-scrollbar --no-hscroll, ASCII / width-1 text).
   Written from the man page and from looking at a terminal, not from terminal.go:
     prompt row     "> " ++ query            (inline info follows on the same row)
     info row       "  " ++ matched/total [(selected)] ++ " " ++ separator
     header rows    two blanks ++ header text (cut with ".." when too long)
     list row       pointer column, marker column, text (complete when it fits, else prefix ++ "..")
   and WHERE the layout puts each of them (default: bottom-up, reverse: top-down,
   reverse-list: list top-down, prompt/info/header at the bottom, --header-lines on top). *)
From Fzf Require Import Prelude.
Open Scope nat_scope.

Definition SP : Z := 32%Z.
Definition GT : Z := 62%Z.   (* pointer and marker with --no-unicode *)
Definition LT : Z := 60%Z.
Definition DOT : Z := 46%Z.
Definition DASH : Z := 45%Z. (* separator with --no-unicode *)
Definition SLASH : Z := 47%Z.
Definition LPAR : Z := 40%Z.
Definition RPAR : Z := 41%Z.
Definition MAX_MULTI : Z := 2147483647%Z.  (* --multi without a limit *)

Inductive layout := LDefault | LReverse | LReverseList.
Inductive info_style := IDefault | IInline | IHidden | IInlineRight.

Record cfg := mkCfg {
  c_w : nat;                 (* window width  (columns) *)
  c_h : nat;                 (* window height (rows) *)
  c_layout : layout;
  c_info : info_style;
  c_sep : bool;              (* false: --no-separator *)
  c_header : list str;       (* --header, one entry per line *)
  c_hlines : list str;       (* the first --header-lines input lines *)
  c_multi : Z                (* 0: no --multi; MAX_MULTI: unlimited; k: --multi=k *)
}.

(* what is to be shown *)
Record view := mkView {
  v_prompt : str;                 (* the prompt string ("> " unless --prompt / change-prompt) *)
  v_query : str;
  v_matches : list (nat * str);   (* result list in rank order: (item index, text) *)
  v_total : nat;                  (* number of items read *)
  v_cy : nat;                     (* current line: position in v_matches *)
  v_off : nat;                    (* first visible position *)
  v_sel : list nat                (* selected item indexes *)
}.

Definition row := list Z.
Definition blank (w : nat) : row := repeat SP w.
Definition pad (w : nat) (s : str) : row := s ++ repeat SP (w - length s).

(* the ellipsis shrinks in very narrow windows *)
Definition ell (maxw : nat) : str := repeat DOT (Nat.min 2 (maxw / 2)).
(* complete when it fits, otherwise a prefix followed by the ellipsis, never wider than maxw *)
Definition trunc (maxw : nat) (s : str) : str :=
  if length s <=? maxw then s else firstn (maxw - length (ell maxw)) s ++ ell maxw.

(* decimal numerals *)
Fixpoint dec_aux (fuel : nat) (z : Z) (acc : str) : str :=
  match fuel with
  | O => acc
  | S f => let acc' := (48 + z mod 10)%Z :: acc in
           if (z <? 10)%Z then acc' else dec_aux f (z / 10)%Z acc'
  end.
Definition dec (z : Z) : str := dec_aux 20 z [].
Definition decn (n : nat) : str := dec (Z.of_nat n).

Fixpoint memb (i : nat) (l : list nat) : bool :=
  match l with [] => false | x :: r => Nat.eqb i x || memb i r end.

(* matched/total, plus the number of selected items under --multi *)
Definition info_text (c : cfg) (v : view) : str :=
  let found := length (v_matches v) in
  decn found ++ [SLASH] ++ decn (Nat.max found (v_total v)) ++
  (if (c_multi c =? 0)%Z then []
   else if (c_multi c =? MAX_MULTI)%Z then [SP; LPAR] ++ decn (length (v_sel v)) ++ [RPAR]
   else [SP; LPAR] ++ decn (length (v_sel v)) ++ [SLASH] ++ dec (c_multi c) ++ [RPAR]).

(* a message that does not fit is cut with dots *)
Definition trim_msg (maxw : nat) (s : str) : str :=
  if length s <=? maxw then s else firstn (maxw - 2) s ++ repeat DOT (Nat.min maxw 2).

(* info text followed by the separator that fills the rest of the row *)
Definition info_tail (c : cfg) (maxw : nat) (out : str) : str :=
  let fill := maxw - length out - 1 in
  trim_msg maxw out ++
  (if 0 <? fill then SP :: (if c_sep c then repeat DASH fill ++ [SP] else []) else []).

Definition prompt_text (v : view) : str := v_prompt v ++ v_query v.

(* rows before the list: prompt (+ info or separator row) *)
Definition prompt_lines (c : cfg) : nat :=
  match c_info c with
  | IDefault => 2
  | IInline => 1
  | IHidden | IInlineRight => if c_sep c then 2 else 1
  end.
Definition nheader (c : cfg) : nat := length (c_header c) + length (c_hlines c).
Definition max_items (c : cfg) : nat := c_h c - nheader c - prompt_lines c.

(* contents *)
(* inline-right: the counter is flushed right on the prompt row (last column free), after at least two blanks *)
Definition inline_right_col (c : cfg) (v : view) : nat :=
  let pos := length (prompt_text v) + 1 in
  let x := Nat.max pos (c_w c - length (info_text c v) - 3) in
  let x1 := if x <? c_w c then S x else x in
  if x1 <? c_w c - 1 then S x1 else x1.
(* the counter as it is shown: cut with dots when the row is too narrow for it *)
Definition info_shown (c : cfg) (v : view) : str :=
  match c_info c with
  | IDefault => trim_msg (c_w c - 3) (info_text c v)
  | IInline => trim_msg (c_w c - (length (prompt_text v) + 1 + 3) - 1) (info_text c v)
  | IInlineRight => trim_msg (c_w c - inline_right_col c v - 1) (info_text c v)
  | IHidden => []
  end.
Definition prompt_row_text (c : cfg) (v : view) : row :=
  match c_info c with
  | IInline =>
      let pos := length (prompt_text v) + 1 in
      pad (c_w c) (pad pos (prompt_text v) ++ [SP; LT; SP] ++ info_tail c (c_w c - (pos + 3) - 1) (info_text c v))
  | IInlineRight => pad (c_w c) (pad (inline_right_col c v) (prompt_text v) ++ info_shown c v)
  | _ => pad (c_w c) (prompt_text v)
  end.
Definition info_row_text (c : cfg) (v : view) : row :=
  match c_info c with
  | IDefault => pad (c_w c) ([SP; SP] ++ info_tail c (c_w c - 3) (info_text c v))
  | IHidden | IInlineRight => pad (c_w c) (repeat DASH (c_w c - 1))
  | IInline => blank (c_w c)
  end.
Definition header_row_text (c : cfg) (h : str) : row := pad (c_w c) ([SP; SP] ++ trunc (c_w c - 3) h).
Definition item_row_text (c : cfg) (v : view) (pos : nat) (m : nat * str) : row :=
  pad (c_w c) ([if Nat.eqb pos (v_cy v) then GT else SP;
                if memb (fst m) (v_sel v) then GT else SP] ++ trunc (c_w c - 3) (snd m)).
(* list slot i shows result number offset+i, or nothing when the list is shorter *)
Definition list_slot_text (c : cfg) (v : view) (i : nat) : row :=
  match nth_error (v_matches v) (v_off v + i) with
  | Some m => item_row_text c v (v_off v + i) m
  | None => blank (c_w c)
  end.

(* positions: row numbers counted from the top of the window *)
Definition prompt_row (c : cfg) : nat :=
  match c_layout c with LReverse => 0 | _ => c_h c - 1 end.
Definition info_row (c : cfg) : nat :=          (* meaningful when prompt_lines = 2 *)
  match c_layout c with LReverse => 1 | _ => c_h c - 2 end.
(* k-th line of --header (k = 0 is its first line) *)
Definition header_row (c : cfg) (k : nat) : nat :=
  match c_layout c with
  | LReverse => prompt_lines c + k
  | _ => c_h c - prompt_lines c - length (c_header c) + k      (* block just above the prompt, reading downwards *)
  end.
(* k-th --header-lines line *)
Definition hline_row (c : cfg) (k : nat) : nat :=
  match c_layout c with
  | LReverse => prompt_lines c + length (c_header c) + k       (* below --header, reading downwards *)
  | LDefault => c_h c - 1 - (prompt_lines c + length (c_header c) + k)  (* above --header, reading upwards like the list *)
  | LReverseList => k                                          (* at the very top *)
  end.
(* i-th list slot (i = 0 shows result number offset) *)
Definition list_row (c : cfg) (i : nat) : nat :=
  match c_layout c with
  | LDefault => c_h c - 1 - (prompt_lines c + nheader c + i)   (* upwards from the header *)
  | LReverse => prompt_lines c + nheader c + i                 (* downwards *)
  | LReverseList => length (c_hlines c) + i                    (* downwards from the top *)
  end.

Definition row_at (scr : list row) (r : nat) : row := nth r scr [].

(* the window is big enough for prompt, info and header, the prompt fits *)
Definition cfg_ok (c : cfg) : Prop := 4 <= c_w c /\ prompt_lines c + nheader c <= c_h c.
Definition view_ok (c : cfg) (v : view) : Prop :=
  length (v_prompt v) + 2 <= c_w c /\
  match c_info c with
  | IInline | IInlineRight => length (prompt_text v) + 5 <= c_w c   (* room for the inline counter *)
  | _ => length (prompt_text v) + 1 <= c_w c
  end.

(* a faithful screen *)
Definition shows_prompt (c : cfg) (v : view) (scr : list row) : Prop :=
  row_at scr (prompt_row c) = prompt_row_text c v.
Definition shows_info (c : cfg) (v : view) (scr : list row) : Prop :=
  prompt_lines c = 2 -> row_at scr (info_row c) = info_row_text c v.
Definition shows_list (c : cfg) (v : view) (scr : list row) : Prop :=
  forall i, i < max_items c -> row_at scr (list_row c i) = list_slot_text c v i.
Definition shows_header (c : cfg) (scr : list row) : Prop :=
  (forall k h, nth_error (c_header c) k = Some h -> row_at scr (header_row c k) = header_row_text c h) /\
  (forall k h, nth_error (c_hlines c) k = Some h -> row_at scr (hline_row c k) = header_row_text c h).
Definition faithful (c : cfg) (v : view) (scr : list row) : Prop :=
  length scr = c_h c /\ shows_prompt c v scr /\ shows_info c v scr /\ shows_list c v scr /\ shows_header c scr.

(* boolean versions, evaluated on captured screens (rows are compared up to trailing blanks) *)
Fixpoint rstrip_aux (s : str) : str * bool :=   (* (stripped, all blank) *)
  match s with
  | [] => ([], true)
  | x :: r => let '(r', b) := rstrip_aux r in
              if b && (x =? SP)%Z then ([], true) else (x :: r', false)
  end.
Definition rstrip (s : str) : str := fst (rstrip_aux s).
Definition row_eqb (a b : row) : bool := str_eqb (rstrip a) (rstrip b).

(* the scroll position keeps the current line visible *)
Definition in_window (count maxl cy off : nat) : Prop :=
  cy < count /\ off <= cy /\ cy < off + maxl /\ (off + maxl <= count \/ off = 0).

(* the counter is visible on the row the info style dictates (nothing to show under --info=hidden) *)
Fixpoint prefixb (a b : str) : bool :=
  match a, b with
  | [], _ => true
  | x :: a', y :: b' => (x =? y)%Z && prefixb a' b'
  | _ :: _, [] => false
  end.
Fixpoint containsb (needle hay : str) : bool :=
  prefixb needle hay || match hay with [] => false | _ :: h => containsb needle h end.
Definition counter_row (c : cfg) : nat :=
  match c_info c with IDefault => info_row c | _ => prompt_row c end.
Definition info_visibleb (c : cfg) (v : view) (scr : list row) : bool :=
  match c_info c with
  | IHidden => true
  | _ => containsb (info_shown c v) (row_at scr (counter_row c))
  end.

(* executable version of `faithful` for captured screens: the numbers of the clauses that fail
   1 height, 2 prompt row, 3 info row, 4 counter visible on its row, 100+i list slot i, 1000+k --header line k, 2000+k --header-lines line k,
   5000+r row r wider than the window *)
Definition chk (code : Z) (b : bool) : list Z := if b then [] else [code].
Fixpoint chk_rows (w : nat) (r : nat) (scr : list row) : list Z :=
  match scr with
  | [] => []
  | x :: t => chk (5000 + Z.of_nat r)%Z (length x <=? w) ++ chk_rows w (S r) t
  end.
Fixpoint chk_headers (base : Z) (f : nat -> nat) (c : cfg) (scr : list row) (k : nat) (hs : list str) : list Z :=
  match hs with
  | [] => []
  | h :: r => chk (base + Z.of_nat k)%Z (row_eqb (row_at scr (f k)) (header_row_text c h)) ++ chk_headers base f c scr (S k) r
  end.
Definition check_faithful (c : cfg) (v : view) (scr : list row) : list Z :=
  chk 1%Z (length scr =? c_h c) ++
  chk 2%Z (row_eqb (row_at scr (prompt_row c)) (prompt_row_text c v)) ++
  (if prompt_lines c =? 2 then chk 3%Z (row_eqb (row_at scr (info_row c)) (info_row_text c v)) else []) ++
  chk 4%Z (info_visibleb c v scr) ++
  concat (map (fun i => chk (100 + Z.of_nat i)%Z (row_eqb (row_at scr (list_row c i)) (list_slot_text c v i))) (seq 0 (max_items c))) ++
  chk_headers 1000%Z (header_row c) c scr 0 (c_header c) ++
  chk_headers 2000%Z (hline_row c) c scr 0 (c_hlines c) ++
  chk_rows (c_w c) 0 scr.
