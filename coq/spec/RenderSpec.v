(* C15 spec: what a faithful screen is, for the plain configuration
   (--no-unicode --no-color --no-scrollbar --no-hscroll, ASCII / width-1 text).
   Written from the man page and from looking at a terminal, not from terminal.go:
     prompt row     "> " ++ query            (inline info follows on the same row)
     info row       "  " ++ matched/total [(selected)] ++ " " ++ separator
     header rows    two blanks ++ header text (cut with ".." when too long)
     list row       pointer column, marker column, text (complete when it fits, else prefix ++ "..")
   and WHERE the layout puts each of them (default: bottom-up, reverse: top-down,
   reverse-list: list top-down, prompt/info/header at the bottom, --header-lines on top). *)
From Fzf Require Import Prelude.
Open Scope nat_scope.

Definition SP : Z := 32%Z.
Definition GT : Z := 62%Z.   (* pointer and marker with --no-unicode *)
Definition LT : Z := 60%Z.
Definition DOT : Z := 46%Z.
Definition DASH : Z := 45%Z. (* separator with --no-unicode *)
Definition SLASH : Z := 47%Z.
Definition LPAR : Z := 40%Z.
Definition RPAR : Z := 41%Z.
Definition MAX_MULTI : Z := 2147483647%Z.  (* --multi without a limit *)

Inductive layout := LDefault | LReverse | LReverseList.
Inductive info_style := IDefault | IInline | IHidden | IInlineRight.

Record cfg := mkCfg {
  c_w : nat;                 (* window width  (columns) *)
  c_h : nat;                 (* window height (rows) *)
  c_layout : layout;
  c_info : info_style;
  c_sep : bool;              (* false: --no-separator *)
  c_header : list str;       (* --header, one entry per line *)
  c_hlines : list str;       (* the first --header-lines input lines *)
  c_multi : Z;               (* 0: no --multi; MAX_MULTI: unlimited; k: --multi=k *)
  c_tabstop : nat            (* --tabstop (>= 1; 8 by default) *)
}.

(* what is to be shown *)
Record view := mkView {
  v_prompt : str;                 (* the prompt string ("> " unless --prompt / change-prompt) *)
  v_query : str;
  v_matches : list (nat * str);   (* result list in rank order: (item index, text) *)
  v_total : nat;                  (* number of items read *)
  v_cy : nat;                     (* current line: position in v_matches *)
  v_off : nat;                    (* first visible position *)
  v_sel : list nat                (* selected item indexes *)
}.

Definition row := list Z.
Definition blank (w : nat) : row := repeat SP w.
Definition pad (w : nat) (s : str) : row := s ++ repeat SP (w - length s).

(* the ellipsis shrinks in very narrow windows *)
Definition ell (maxw : nat) : str := repeat DOT (Nat.min 2 (maxw / 2)).
(* text without tabs: complete when it fits, otherwise a prefix followed by the ellipsis, never wider than maxw *)
Definition trunc (maxw : nat) (s : str) : str :=
  if length s <=? maxw then s else firstn (maxw - length (ell maxw)) s ++ ell maxw.

(* TAB advances to the next multiple of the tabstop; the column counts from the start of the text *)
Definition TAB : Z := 9%Z.
Definition tab_width (ts col : nat) : nat := ts - col mod ts.
Fixpoint expand_from (ts col : nat) (s : str) : str :=
  match s with
  | [] => []
  | x :: r => if (x =? TAB)%Z then repeat SP (tab_width ts col) ++ expand_from ts (col + tab_width ts col) r
              else x :: expand_from ts (S col) r
  end.
Definition expand (ts : nat) (s : str) : str := expand_from ts 0 s.
(* the longest prefix (in characters) whose expansion is at most `limit` columns wide *)
Fixpoint take_from (ts col limit : nat) (s : str) : str :=
  match s with
  | [] => []
  | x :: r => let w := if (x =? TAB)%Z then tab_width ts col else 1 in
              if col + w <=? limit then x :: take_from ts (col + w) limit r else []
  end.
Definition take_width (ts limit : nat) (s : str) : str := take_from ts 0 limit s.
(* what a row shows of a text: its tab-expanded form when that fits, else the expansion of the longest prefix
   that leaves room for the ellipsis, followed by the ellipsis (a tab is never shown in part) *)
Definition show (ts maxw : nat) (s : str) : str :=
  if length (expand ts s) <=? maxw then expand ts s
  else expand ts (take_width ts (maxw - length (ell maxw)) s) ++ ell maxw.

(* decimal numerals *)
Fixpoint dec_aux (fuel : nat) (z : Z) (acc : str) : str :=
  match fuel with
  | O => acc
  | S f => let acc' := (48 + z mod 10)%Z :: acc in
           if (z <? 10)%Z then acc' else dec_aux f (z / 10)%Z acc'
  end.
Definition dec (z : Z) : str := dec_aux 20 z [].
Definition decn (n : nat) : str := dec (Z.of_nat n).

Fixpoint memb (i : nat) (l : list nat) : bool :=
  match l with [] => false | x :: r => Nat.eqb i x || memb i r end.

(* matched/total, plus the number of selected items under --multi *)
Definition info_text (c : cfg) (v : view) : str :=
  let found := length (v_matches v) in
  decn found ++ [SLASH] ++ decn (Nat.max found (v_total v)) ++
  (if (c_multi c =? 0)%Z then []
   else if (c_multi c =? MAX_MULTI)%Z then [SP; LPAR] ++ decn (length (v_sel v)) ++ [RPAR]
   else [SP; LPAR] ++ decn (length (v_sel v)) ++ [SLASH] ++ dec (c_multi c) ++ [RPAR]).

(* a message that does not fit is cut with dots *)
Definition trim_msg (maxw : nat) (s : str) : str :=
  if length s <=? maxw then s else firstn (maxw - 2) s ++ repeat DOT (Nat.min maxw 2).

(* info text followed by the separator that fills the rest of the row *)
Definition info_tail (c : cfg) (maxw : nat) (out : str) : str :=
  let fill := maxw - length out - 1 in
  trim_msg maxw out ++
  (if 0 <? fill then SP :: (if c_sep c then repeat DASH fill ++ [SP] else []) else []).

Definition prompt_text (v : view) : str := v_prompt v ++ v_query v.

(* rows before the list: prompt (+ info or separator row) *)
Definition prompt_lines (c : cfg) : nat :=
  match c_info c with
  | IDefault => 2
  | IInline => 1
  | IHidden | IInlineRight => if c_sep c then 2 else 1
  end.
Definition nheader (c : cfg) : nat := length (c_header c) + length (c_hlines c).
Definition max_items (c : cfg) : nat := c_h c - nheader c - prompt_lines c.

(* contents *)
(* inline-right: the counter is flushed right on the prompt row (last column free), after at least two blanks *)
Definition inline_right_col (c : cfg) (v : view) : nat :=
  let pos := length (prompt_text v) + 1 in
  let x := Nat.max pos (c_w c - length (info_text c v) - 3) in
  let x1 := if x <? c_w c then S x else x in
  if x1 <? c_w c - 1 then S x1 else x1.
(* the counter as it is shown: cut with dots when the row is too narrow for it *)
Definition info_shown (c : cfg) (v : view) : str :=
  match c_info c with
  | IDefault => trim_msg (c_w c - 3) (info_text c v)
  | IInline => trim_msg (c_w c - (length (prompt_text v) + 1 + 3) - 1) (info_text c v)
  | IInlineRight => trim_msg (c_w c - inline_right_col c v - 1) (info_text c v)
  | IHidden => []
  end.
Definition prompt_row_text (c : cfg) (v : view) : row :=
  match c_info c with
  | IInline =>
      let pos := length (prompt_text v) + 1 in
      pad (c_w c) (pad pos (prompt_text v) ++ [SP; LT; SP] ++ info_tail c (c_w c - (pos + 3) - 1) (info_text c v))
  | IInlineRight => pad (c_w c) (pad (inline_right_col c v) (prompt_text v) ++ info_shown c v)
  | _ => pad (c_w c) (prompt_text v)
  end.
Definition info_row_text (c : cfg) (v : view) : row :=
  match c_info c with
  | IDefault => pad (c_w c) ([SP; SP] ++ info_tail c (c_w c - 3) (info_text c v))
  | IHidden | IInlineRight => pad (c_w c) (repeat DASH (c_w c - 1))
  | IInline => blank (c_w c)
  end.
Definition header_row_text (c : cfg) (h : str) : row := pad (c_w c) ([SP; SP] ++ show (c_tabstop c) (c_w c - 3) h).
Definition item_row_text (c : cfg) (v : view) (pos : nat) (m : nat * str) : row :=
  pad (c_w c) ([if Nat.eqb pos (v_cy v) then GT else SP;
                if memb (fst m) (v_sel v) then GT else SP] ++ show (c_tabstop c) (c_w c - 3) (snd m)).
(* list slot i shows result number offset+i, or nothing when the list is shorter *)
Definition list_slot_text (c : cfg) (v : view) (i : nat) : row :=
  match nth_error (v_matches v) (v_off v + i) with
  | Some m => item_row_text c v (v_off v + i) m
  | None => blank (c_w c)
  end.

(* positions: row numbers counted from the top of the window *)
Definition prompt_row (c : cfg) : nat :=
  match c_layout c with LReverse => 0 | _ => c_h c - 1 end.
Definition info_row (c : cfg) : nat :=          (* meaningful when prompt_lines = 2 *)
  match c_layout c with LReverse => 1 | _ => c_h c - 2 end.
(* k-th line of --header (k = 0 is its first line) *)
Definition header_row (c : cfg) (k : nat) : nat :=
  match c_layout c with
  | LReverse => prompt_lines c + k
  | _ => c_h c - prompt_lines c - length (c_header c) + k      (* block just above the prompt, reading downwards *)
  end.
(* k-th --header-lines line *)
Definition hline_row (c : cfg) (k : nat) : nat :=
  match c_layout c with
  | LReverse => prompt_lines c + length (c_header c) + k       (* below --header, reading downwards *)
  | LDefault => c_h c - 1 - (prompt_lines c + length (c_header c) + k)  (* above --header, reading upwards like the list *)
  | LReverseList => k                                          (* at the very top *)
  end.
(* i-th list slot (i = 0 shows result number offset) *)
Definition list_row (c : cfg) (i : nat) : nat :=
  match c_layout c with
  | LDefault => c_h c - 1 - (prompt_lines c + nheader c + i)   (* upwards from the header *)
  | LReverse => prompt_lines c + nheader c + i                 (* downwards *)
  | LReverseList => length (c_hlines c) + i                    (* downwards from the top *)
  end.

Definition row_at (scr : list row) (r : nat) : row := nth r scr [].

(* the window is big enough for prompt, info and header, the prompt fits *)
Definition cfg_ok (c : cfg) : Prop := 4 <= c_w c /\ prompt_lines c + nheader c <= c_h c.
(* (the tabstop only matters for texts with tabs; fzf accepts positive values only) *)
Definition view_ok (c : cfg) (v : view) : Prop :=
  length (v_prompt v) + 2 <= c_w c /\
  match c_info c with
  | IInline | IInlineRight => length (prompt_text v) + 5 <= c_w c   (* room for the inline counter *)
  | _ => length (prompt_text v) + 1 <= c_w c
  end.

(* a faithful screen *)
Definition shows_prompt (c : cfg) (v : view) (scr : list row) : Prop :=
  row_at scr (prompt_row c) = prompt_row_text c v.
Definition shows_info (c : cfg) (v : view) (scr : list row) : Prop :=
  prompt_lines c = 2 -> row_at scr (info_row c) = info_row_text c v.
Definition shows_list (c : cfg) (v : view) (scr : list row) : Prop :=
  forall i, i < max_items c -> row_at scr (list_row c i) = list_slot_text c v i.
Definition shows_header (c : cfg) (scr : list row) : Prop :=
  (forall k h, nth_error (c_header c) k = Some h -> row_at scr (header_row c k) = header_row_text c h) /\
  (forall k h, nth_error (c_hlines c) k = Some h -> row_at scr (hline_row c k) = header_row_text c h).
Definition faithful (c : cfg) (v : view) (scr : list row) : Prop :=
  length scr = c_h c /\ shows_prompt c v scr /\ shows_info c v scr /\ shows_list c v scr /\ shows_header c scr.

(* boolean versions, evaluated on captured screens (rows are compared up to trailing blanks) *)
Fixpoint rstrip_aux (s : str) : str * bool :=   (* (stripped, all blank) *)
  match s with
  | [] => ([], true)
  | x :: r => let '(r', b) := rstrip_aux r in
              if b && (x =? SP)%Z then ([], true) else (x :: r', false)
  end.
Definition rstrip (s : str) : str := fst (rstrip_aux s).
Definition row_eqb (a b : row) : bool := str_eqb (rstrip a) (rstrip b).

(* the scroll position keeps the current line visible *)
Definition in_window (count maxl cy off : nat) : Prop :=
  cy < count /\ off <= cy /\ cy < off + maxl /\ (off + maxl <= count \/ off = 0).

(* the counter is visible on the row the info style dictates (nothing to show under --info=hidden) *)
Fixpoint prefixb (a b : str) : bool :=
  match a, b with
  | [], _ => true
  | x :: a', y :: b' => (x =? y)%Z && prefixb a' b'
  | _ :: _, [] => false
  end.
Fixpoint containsb (needle hay : str) : bool :=
  prefixb needle hay || match hay with [] => false | _ :: h => containsb needle h end.
Definition counter_row (c : cfg) : nat :=
  match c_info c with IDefault => info_row c | _ => prompt_row c end.
Definition info_visibleb (c : cfg) (v : view) (scr : list row) : bool :=
  match c_info c with
  | IHidden => true
  | _ => containsb (info_shown c v) (row_at scr (counter_row c))
  end.

(* executable version of `faithful` for captured screens: the numbers of the clauses that fail
   1 height, 2 prompt row, 3 info row, 4 counter visible on its row, 100+i list slot i, 1000+k --header line k, 2000+k --header-lines line k,
   5000+r row r wider than the window *)
Definition chk (code : Z) (b : bool) : list Z := if b then [] else [code].
Fixpoint chk_rows (w : nat) (r : nat) (scr : list row) : list Z :=
  match scr with
  | [] => []
  | x :: t => chk (5000 + Z.of_nat r)%Z (length x <=? w) ++ chk_rows w (S r) t
  end.
Fixpoint chk_headers (base : Z) (f : nat -> nat) (c : cfg) (scr : list row) (k : nat) (hs : list str) : list Z :=
  match hs with
  | [] => []
  | h :: r => chk (base + Z.of_nat k)%Z (row_eqb (row_at scr (f k)) (header_row_text c h)) ++ chk_headers base f c scr (S k) r
  end.
Definition check_faithful (c : cfg) (v : view) (scr : list row) : list Z :=
  chk 1%Z (length scr =? c_h c) ++
  chk 2%Z (row_eqb (row_at scr (prompt_row c)) (prompt_row_text c v)) ++
  (if prompt_lines c =? 2 then chk 3%Z (row_eqb (row_at scr (info_row c)) (info_row_text c v)) else []) ++
  chk 4%Z (info_visibleb c v scr) ++
  concat (map (fun i => chk (100 + Z.of_nat i)%Z (row_eqb (row_at scr (list_row c i)) (list_slot_text c v i))) (seq 0 (max_items c))) ++
  chk_headers 1000%Z (header_row c) c scr 0 (c_header c) ++
  chk_headers 2000%Z (hline_row c) c scr 0 (c_hlines c) ++
  chk_rows (c_w c) 0 scr.

(* ---------- items that take several rows: --wrap and multi-line (--read0) items ----------
   Spec only (RenderModel does not cover them): what the list area must show for SOME scroll offset.
     wrap        a line is cut into chunks of W-3 columns (continuations: W-3 minus the wrap sign, which precedes them)
     multi-line  one row per line of the item (cut with the ellipsis unless --wrap)
   Every row of the current item carries the pointer; a selected item that takes one row carries the marker, one that
   takes (or would take) several carries the top / middle / bottom markers.  An item that does not fit the rest of
   the list area shows its first rows (its LAST rows in the default layout, unless it is the current item).
   Rows of an item read downwards in every layout. *)
Record mrows := mkMR { mr_wrap : bool; mr_multiline : bool; mr_sign : str; mr_marks : list Z (* top, middle, bottom *) }.
Definition NLc : Z := 10%Z.
Fixpoint lines_of_aux (cur : str) (s : str) : list str :=
  match s with
  | [] => [rev cur]
  | x :: r => if (x =? NLc)%Z then rev cur :: lines_of_aux [] r else lines_of_aux (x :: cur) r
  end.
Definition lines_of (s : str) : list str := lines_of_aux [] s.

Fixpoint wrap_line (fuel ts cols wsw : nat) (first : bool) (line : str) : list (bool * str) :=
  match fuel with
  | O => []
  | S f =>
      let lim := if first then cols else cols - wsw in
      let pre := take_width ts lim line in
      if length pre =? length line then [(negb first, line)]
      else let k := Nat.max 1 (length pre) in
           (negb first, firstn k line) :: wrap_line f ts cols wsw false (skipn k line)
  end.

(* rows of an item: (continuation of a wrapped line?, characters) *)
Definition item_lines (c : cfg) (m : mrows) (text : str) : list (bool * str) :=
  let ls := if mr_multiline m then lines_of text else [text] in
  if mr_wrap m then
    concat (map (fun l => wrap_line (S (length l)) (c_tabstop c) (Nat.max (c_w c - 3) 1) (length (mr_sign m)) true l) ls)
  else map (fun l => (false, l)) ls.

Definition row_body (c : cfg) (m : mrows) (r : bool * str) : str :=
  if mr_wrap m then (if fst r then mr_sign m else []) ++ expand (c_tabstop c) (snd r)
  else show (c_tabstop c) (c_w c - 3) (snd r).

Definition mark_of (m : mrows) (k : nat) : Z := nth k (mr_marks m) GT.
Definition row_mark (m : mrows) (sel overflow topcut : bool) (nvis k : nat) : Z :=
  if negb sel then SP
  else if nvis =? 1 then (if negb overflow then GT else if topcut then mark_of m 2 else mark_of m 0)
  else if k =? 0 then (if topcut then mark_of m 1 else mark_of m 0)
  else if k =? nvis - 1 then (if topcut || negb overflow then mark_of m 2 else mark_of m 1)
  else mark_of m 1.

Fixpoint mapi_from {A B} (k : nat) (f : nat -> A -> B) (l : list A) : list B :=
  match l with [] => [] | x :: r => f k x :: mapi_from (S k) f r end.

Definition is_default (c : cfg) : bool := match c_layout c with LDefault => true | _ => false end.

(* the rows one item contributes when `room` lines of the list area are left, in the order of the logical lines *)
Definition item_block (c : cfg) (m : mrows) (v : view) (pos : nat) (it : nat * str) (room : nat) : list row :=
  let all := item_lines c m (snd it) in
  let n := length all in
  let cur := Nat.eqb pos (v_cy v) in
  let sel := memb (fst it) (v_sel v) in
  let overflow := room <? n in
  let topcut := overflow && is_default c && negb cur in
  let vis := if overflow then (if topcut then skipn (n - room) all else firstn room all) else all in
  let nvis := length vis in
  let rows := mapi_from 0 (fun k r => pad (c_w c) ([if cur then GT else SP; row_mark m sel overflow topcut nvis k] ++ row_body c m r)) vis in
  if is_default c then rev rows else rows.

Fixpoint area_from (c : cfg) (m : mrows) (v : view) (pos : nat) (ms : list (nat * str)) (room : nat) : list row :=
  match room with
  | O => []
  | _ =>
      match ms with
      | [] => repeat (blank (c_w c)) room
      | it :: r => let b := item_block c m v pos it room in b ++ area_from c m v (S pos) r (room - length b)
      end
  end.
(* list slots 0 .. max_items-1 when result number `off` is the first one shown *)
Definition mrows_area (c : cfg) (m : mrows) (v : view) (off : nat) : list row :=
  area_from c m v off (skipn off (v_matches v)) (max_items c).

Definition area_mismatches (c : cfg) (scr : list row) (a : list row) : nat :=
  length (filter (fun i => negb (row_eqb (row_at scr (list_row c i)) (nth i a []))) (seq 0 (max_items c))).
(* clause 6: the list area shows, for some scroll offset, exactly the rows of the items from that offset on —
   every continuation row shows its item's text and nothing else.  Answer: [] or [6; best offset; rows that differ there] *)
Fixpoint best_offset (c : cfg) (m : mrows) (v : view) (scr : list row) (offs : list nat) (best : nat * nat) : nat * nat :=
  match offs with
  | [] => best
  | o :: r => let k := area_mismatches c scr (mrows_area c m v o) in
              if k =? 0 then (o, 0) else best_offset c m v scr r (if k <? snd best then (o, k) else best)
  end.
Definition check_mrows (c : cfg) (m : mrows) (v : view) (scr : list row) : list Z :=
  let '(o, k) := best_offset c m v scr (seq 0 (S (length (v_matches v)))) (0, S (max_items c)) in
  if k =? 0 then [] else [6%Z; Z.of_nat o; Z.of_nat k].
