(* C13 spec, display side: "items never change after they have been read" and "a search equals a sequential filter
   of the items", as seen from OUTSIDE a running fzf (the texts it reports, the matches it lists).  Written without
   looking at terminal.go or chars.go.

   The filter spelled out here is the one query language whose meaning needs no algorithm: a single literal,
   case-sensitive, exact term (fzf -e +x +i --literal): an item matches iff the query occurs in it. *)
From Fzf Require Import Prelude.
Open Scope Z_scope.

(* the input as it was read: record i is item i.  `reported` = (index, text) pairs a running fzf shows for its items.
   Returns the indexes whose reported text is not the record that was read (or that name no record at all). *)
Fixpoint changed_items (orig : list str) (reported : list (Z * str)) : list Z :=
  match reported with
  | [] => []
  | (i, t) :: r =>
      let same := if i <? 0 then false
                  else match nth_error orig (Z.to_nat i) with Some o => str_eqb o t | None => false end in
      if same then changed_items orig r else i :: changed_items orig r
  end.

Fixpoint prefixb (q t : str) : bool :=
  match q, t with
  | [], _ => true
  | x :: q', y :: t' => (x =? y) && prefixb q' t'
  | _ :: _, [] => false
  end.

Fixpoint contains (q t : str) : bool :=
  prefixb q t || match t with [] => false | _ :: t' => contains q t' end.

(* one pass over the items in input order; `first` is the index of the first item *)
Fixpoint substr_filter (q : str) (first : Z) (items : list str) : list Z :=
  match items with
  | [] => []
  | t :: r => if contains q t then first :: substr_filter q (first + 1) r else substr_filter q (first + 1) r
  end.
