(* C04 vocabulary, configuration side: WHICH criteria are "the configured --tiebreak criteria", and whether
   sorting / --tac are on, for a whole command line (options of $FZF_DEFAULT_OPTS_FILE, then $FZF_DEFAULT_OPTS,
   then the arguments, in that order).  Follows the manual page, not options.go:
     --tiebreak=CRI[,..]  comma-separated list; each criterion at most once; `index` only at the end; `index` is
                          implicit when absent; at most three criteria besides `index`;
     --scheme=S           "also sets --tiebreak=..." : default -> length, path -> pathname,length, history -> index;
     a later option overrides an earlier one (--scheme and --tiebreak both set the criteria; --sort/--no-sort,
     --tac/--no-tac);
     without any of --scheme/--tiebreak: scheme `path` when fzf starts its own walker/$FZF_DEFAULT_COMMAND
     (input is a TTY, no reload/transform bound to start), else `default`;  default: sorting on, no --tac.
   Constants written out: ',' = 44, 'A'..'Z' = 65..90, the option words as code lists. *)
From Fzf Require Import Prelude RankSpec.
Open Scope Z_scope.

Definition lower_ascii (c : Z) : Z := if (65 <=? c) && (c <=? 90) then c + 32 else c.

(* strings.Split(s, sep) for a one-character separator: never empty, "" gives [""] *)
Fixpoint split_on (sep : Z) (s : str) : list str :=
  match s with
  | [] => [[]]
  | c :: t =>
      if c =? sep then [] :: split_on sep t
      else match split_on sep t with
           | w :: ws => (c :: w) :: ws
           | [] => [[c]]
           end
  end.

(* the words of a --tiebreak list *)
Inductive tbname := TLength | TChunk | TBegin | TEnd | TPathname | TIndex.

Definition tbname_eqb (a b : tbname) : bool :=
  match a, b with
  | TLength, TLength | TChunk, TChunk | TBegin, TBegin | TEnd, TEnd | TPathname, TPathname | TIndex, TIndex => true
  | _, _ => false
  end.

Definition w_index : str := [105; 110; 100; 101; 120].
Definition w_chunk : str := [99; 104; 117; 110; 107].
Definition w_length : str := [108; 101; 110; 103; 116; 104].
Definition w_begin : str := [98; 101; 103; 105; 110].
Definition w_end : str := [101; 110; 100].
Definition w_pathname : str := [112; 97; 116; 104; 110; 97; 109; 101].
Definition w_default : str := [100; 101; 102; 97; 117; 108; 116].
Definition w_path : str := [112; 97; 116; 104].
Definition w_history : str := [104; 105; 115; 116; 111; 114; 121].

(* a word, already in lower case *)
Definition name_of (w : str) : option tbname :=
  if str_eqb w w_index then Some TIndex
  else if str_eqb w w_chunk then Some TChunk
  else if str_eqb w w_pathname then Some TPathname
  else if str_eqb w w_length then Some TLength
  else if str_eqb w w_begin then Some TBegin
  else if str_eqb w w_end then Some TEnd
  else None.

Definition crit_of_name (n : tbname) : list crit :=
  match n with
  | TLength => [ByLength] | TChunk => [ByChunk] | TBegin => [ByBegin] | TEnd => [ByEnd] | TPathname => [ByPathname]
  | TIndex => []       (* input position is always the last resort: it is not a key *)
  end.

Fixpoint all_some {A} (l : list (option A)) : option (list A) :=
  match l with
  | [] => Some []
  | None :: _ => None
  | Some x :: t => match all_some t with Some r => Some (x :: r) | None => None end
  end.

Fixpoint nodupb (l : list tbname) : bool :=
  match l with
  | [] => true
  | x :: t => negb (existsb (tbname_eqb x) t) && nodupb t
  end.

(* `index` is only allowed at the end of the list *)
Definition index_only_last (l : list tbname) : bool := negb (existsb (tbname_eqb TIndex) (removelast l)).

(* a list of names is acceptable: each once, index last, at most three real criteria *)
Definition names_ok (ns : list tbname) : bool :=
  nodupb ns && index_only_last ns && (length (flat_map crit_of_name ns) <=? 3)%nat.

(* the criteria a --tiebreak value stands for (score always first); None = not a valid list *)
Definition tiebreak_criteria (s : str) : option (list crit) :=
  match all_some (map name_of (split_on 44 (map lower_ascii s))) with
  | None => None
  | Some ns => if names_ok ns then Some (ByScore :: flat_map crit_of_name ns) else None
  end.

Inductive scheme := SDefault | SPath | SHistory.

Definition scheme_of (s : str) : option scheme :=
  let s := map lower_ascii s in
  if str_eqb s w_default then Some SDefault
  else if str_eqb s w_path then Some SPath
  else if str_eqb s w_history then Some SHistory
  else None.

Definition scheme_criteria (s : scheme) : list crit :=
  match s with
  | SDefault => [ByScore; ByLength]
  | SPath => [ByScore; ByPathname; ByLength]
  | SHistory => [ByScore]
  end.

(* the options this property depends on, in the order fzf reads them *)
Inductive copt := OScheme (s : str) | OTiebreak (s : str) | OSort (on : bool) | OTac (on : bool).

Record config := mkConfig { cf_scheme : scheme; cf_criteria : list crit; cf_sort : bool; cf_tac : bool }.

(* the answer of the LAST option for which f answers *)
Fixpoint last_some {A B} (f : A -> option B) (l : list A) : option B :=
  match l with
  | [] => None
  | x :: t => match last_some f t with Some b => Some b | None => f x end
  end.

Definition opt_scheme (o : copt) : option scheme := match o with OScheme s => scheme_of s | _ => None end.
Definition opt_criteria (o : copt) : option (list crit) :=
  match o with
  | OScheme s => option_map scheme_criteria (scheme_of s)
  | OTiebreak s => tiebreak_criteria s
  | _ => None
  end.
Definition opt_sort (o : copt) : option bool := match o with OSort b => Some b | _ => None end.
Definition opt_tac (o : copt) : option bool := match o with OTac b => Some b | _ => None end.

Definition opt_valid (o : copt) : bool :=
  match o with
  | OScheme s => match scheme_of s with Some _ => true | None => false end
  | OTiebreak s => match tiebreak_criteria s with Some _ => true | None => false end
  | _ => true
  end.

(* [walker]: fzf produces the input itself (stdin is a TTY, no reload/transform on start).
   None = the command line is rejected. *)
Definition configured (walker : bool) (os : list copt) : option config :=
  if forallb opt_valid os then
    let sch := match last_some opt_scheme os with
               | Some s => s
               | None => match last_some opt_criteria os with
                         | Some _ => SDefault
                         | None => if walker then SPath else SDefault
                         end
               end in
    let cr := match last_some opt_criteria os with Some c => c | None => scheme_criteria sch end in
    let so := match last_some opt_sort os with Some b => b | None => true end in
    let ta := match last_some opt_tac os with Some b => b | None => false end in
    Some (mkConfig sch cr so ta)
  else None.
