(* C14, jump mode: vocabulary.  While `jump` / `jump-accept` is active every visible item of the list carries one
   character of --jump-labels, and the next key picks the item whose label it is.  What it means that drawing a frame
   and handling the key are SAFE: every position read from the label string lies inside it, and the row picked is one
   of the rows that are on the screen and hold an item.  Nothing here looks at how fzf decides. *)
From Fzf Require Import Prelude.
Open Scope Z_scope.

(* what drawing one visible row does with the label string: nothing, or it reads the bytes [lo, hi) of it *)
Inductive jread := JNone | JSlice (lo hi : nat).

(* Go's s[lo:hi] on a string of length n is defined iff lo <= hi <= n *)
Definition jread_safe (n : nat) (o : jread) : Prop :=
  match o with JNone => True | JSlice lo hi => (lo <= hi <= n)%nat end.

Definition jread_safeb (n : nat) (o : jread) : bool :=
  match o with JNone => true | JSlice lo hi => (lo <=? hi)%nat && (hi <=? n)%nat end.

(* the key handler: the cursor position it sets, relative to the first visible item `offset`; `rows` visible rows,
   `count` matching items *)
Definition jpick_safe (rows count offset : nat) (cy : nat) : Prop :=
  (offset <= cy < offset + rows)%nat /\ (cy - offset < count)%nat.
