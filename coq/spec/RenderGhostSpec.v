(* C15 spec, the input area of the prompt row under --ghost / change-ghost / transform-ghost.
   Written from the man page ("--ghost=TEXT  Ghost text to display when the input is empty") and from looking at a
   terminal, not from terminal.go:
     the prompt row shows the prompt string followed by the CURRENT QUERY; the ghost text stands in the place of the
     query exactly while the query is empty - never beside, instead of, or after a non-empty query, wherever the
     cursor is;
     an inline counter starts one cell after the query (the cell of the cursor at the end of the query), and directly
     after the ghost text (the cursor sits ON the ghost text then, at the start of the input area).
   Everything else of a faithful screen is RenderSpec's. *)
From Fzf Require Import Prelude RenderSpec.
Open Scope nat_scope.

(* the ghost text is in effect: there is one and the query is empty *)
Definition ghost_on (g q : str) : bool :=
  match q, g with [], _ :: _ => true | _, _ => false end.
(* what the input area shows *)
Definition input_shown (g q : str) : str := if ghost_on g q then g else q.
(* the columns the input area takes before an inline counter may start *)
Definition input_cols (g q : str) : nat := if ghost_on g q then length g else length q + 1.

Definition prompt_text_g (g : str) (v : view) : str := v_prompt v ++ input_shown g (v_query v).
Definition input_end (g : str) (v : view) : nat := length (v_prompt v) + input_cols g (v_query v).

(* RenderSpec.inline_right_col / info_shown / prompt_row_text with the input area ending at column pos *)
Definition inline_right_col_at (c : cfg) (v : view) (pos : nat) : nat :=
  let x := Nat.max pos (c_w c - length (info_text c v) - 3) in
  let x1 := if x <? c_w c then S x else x in
  if x1 <? c_w c - 1 then S x1 else x1.
Definition info_shown_at (c : cfg) (v : view) (pos : nat) : str :=
  match c_info c with
  | IDefault => trim_msg (c_w c - 3) (info_text c v)
  | IInline => trim_msg (c_w c - (pos + 3) - 1) (info_text c v)
  | IInlineRight => trim_msg (c_w c - inline_right_col_at c v pos - 1) (info_text c v)
  | IHidden => []
  end.
Definition prompt_row_text_at (c : cfg) (v : view) (txt : str) (pos : nat) : row :=
  match c_info c with
  | IInline => pad (c_w c) (pad pos txt ++ [SP; LT; SP] ++ info_tail c (c_w c - (pos + 3) - 1) (info_text c v))
  | IInlineRight => pad (c_w c) (pad (inline_right_col_at c v pos) txt ++ info_shown_at c v pos)
  | _ => pad (c_w c) txt
  end.

Definition prompt_row_text_g (c : cfg) (g : str) (v : view) : row :=
  prompt_row_text_at c v (prompt_text_g g v) (input_end g v).
Definition info_shown_g (c : cfg) (g : str) (v : view) : str := info_shown_at c v (input_end g v).

(* prompt + what the input area shows fit the prompt row (RenderSpec.view_ok with the ghost text in the place of an
   empty query) *)
Definition view_ok_g (c : cfg) (g : str) (v : view) : Prop :=
  length (v_prompt v) + 2 <= c_w c /\
  match c_info c with
  | IInline | IInlineRight => input_end g v + 4 <= c_w c
  | _ => input_end g v <= c_w c
  end.

Definition shows_prompt_g (c : cfg) (g : str) (v : view) (scr : list row) : Prop :=
  row_at scr (prompt_row c) = prompt_row_text_g c g v.
Definition faithful_g (c : cfg) (g : str) (v : view) (scr : list row) : Prop :=
  length scr = c_h c /\ shows_prompt_g c g v scr /\ shows_info c v scr /\ shows_list c v scr /\ shows_header c scr.

Definition info_visibleb_g (c : cfg) (g : str) (v : view) (scr : list row) : bool :=
  match c_info c with
  | IHidden => true
  | _ => containsb (info_shown_g c g v) (row_at scr (counter_row c))
  end.

(* the query is on the prompt row: the row starts with prompt ++ query whenever the query is not empty - stated on
   its own because it is the sentence of the property ("the prompt line shows the current query"), whatever else
   the row carries *)
Definition query_on_prompt_rowb (v : view) (r : row) : bool :=
  match v_query v with [] => true | _ => prefixb (v_prompt v ++ v_query v) r end.

(* executable version of faithful_g for captured screens: RenderSpec.check_faithful with clauses 2 and 4 judged for
   the ghost text g, plus clause 7: the non-empty query is on the prompt row *)
Definition check_faithful_g (c : cfg) (g : str) (v : view) (scr : list row) : list Z :=
  chk 1%Z (length scr =? c_h c) ++
  chk 2%Z (row_eqb (row_at scr (prompt_row c)) (prompt_row_text_g c g v)) ++
  (if prompt_lines c =? 2 then chk 3%Z (row_eqb (row_at scr (info_row c)) (info_row_text c v)) else []) ++
  chk 4%Z (info_visibleb_g c g v scr) ++
  concat (map (fun i => chk (100 + Z.of_nat i)%Z (row_eqb (row_at scr (list_row c i)) (list_slot_text c v i))) (seq 0 (max_items c))) ++
  chk_headers 1000%Z (header_row c) c scr 0 (c_header c) ++
  chk_headers 2000%Z (hline_row c) c scr 0 (c_hlines c) ++
  chk_rows (c_w c) 0 scr ++
  chk 7%Z (query_on_prompt_rowb v (row_at scr (prompt_row c))).
