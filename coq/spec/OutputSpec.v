(* C07 spec: what fzf prints and how it exits, as a user reads it in the man page
   (OPTIONS --print-query, --expect, --print0, --ansi, --with-nth, --accept-nth, -1, -0, -f;
   EXIT STATUS), written without looking at how core.go / terminal.go compute it. *)
From Fzf Require Import Prelude.
Open Scope Z_scope.

(* documented exit statuses (man page, EXIT STATUS) *)
Definition EXIT_OK : Z := 0.          (* normal exit *)
Definition EXIT_NOMATCH : Z := 1.     (* no match *)
Definition EXIT_ERROR : Z := 2.       (* error *)
Definition EXIT_INTERRUPT : Z := 130. (* interrupted with CTRL-C or ESC *)

Definition NLb : Z := 10.
Definition NULb : Z := 0.

(* every printed record is followed by a newline, or by NUL under --print0 *)
Definition terminator (print0 : bool) : Z := if print0 then NULb else NLb.
Definition frame (t : Z) (parts : list str) : str := concat (map (fun p => p ++ [t]) parts).

Definition opt_part (b : bool) (s : str) : list str := if b then [s] else [].

(* what is printed for an input record: the record itself; under --ansi its text with the
   escape sequences removed (`strip`, property C11).  --with-nth does not occur here: it changes
   what is displayed and searched, never what is printed. *)
Definition shown (ansi : bool) (strip : str -> str) (r : str) : str := if ansi then strip r else r.

(* the records a query selects, in input order; m i r = "record number i (content r) matches" (C01) *)
Fixpoint matched_from (m : nat -> str -> bool) (i : nat) (rs : list str) : list str :=
  match rs with
  | [] => []
  | r :: t => (if m i r then [r] else []) ++ matched_from m (S i) t
  end.
Definition matched_records (m : nat -> str -> bool) (rs : list str) : list str := matched_from m 0 rs.

(* --filter: [query under --print-query] then the matched records.  Without sorting they come in
   input order (reversed under --tac); with sorting in rank order (C04), here: some permutation. *)
Definition filter_parts (print_query : bool) (query : str) (body : list str) : list str :=
  opt_part print_query query ++ body.
Definition unsorted_body (ansi tac : bool) (strip : str -> str) (m : nat -> str -> bool) (rs : list str) : list str :=
  let b := map (shown ansi strip) (matched_records m rs) in if tac then rev b else b.

(* how a run ends *)
Inductive ending :=
  | EAccept          (* accept / an --expect key / -1 / -0 : the result is printed *)
  | EPrintQuery      (* the print-query action: only the query *)
  | EAbort           (* abort, ESC, CTRL-C ... *)
  | EError.          (* invalid option, fatal error *)

(* EXIT STATUS table: 0 when a result was printed (or, for print-query, the query), 1 when there was
   nothing to print, 130 on abort, 2 on error *)
Definition exit_status (e : ending) (body : list str) : Z :=
  match e with
  | EAccept => match body with [] => EXIT_NOMATCH | _ => EXIT_OK end
  | EPrintQuery => EXIT_OK
  | EAbort => EXIT_INTERRUPT
  | EError => EXIT_ERROR
  end.

(* interactive result: query (--print-query), key (--expect: the name of the expect key, or an empty
   line when accepted otherwise), what print(...) actions queued, then the selected records in the order
   they were selected, or the record under the cursor when nothing is selected *)
Definition accept_parts (print_query : bool) (query : str) (expect : bool) (key : str)
           (queue : list str) (body : list str) : list str :=
  opt_part print_query query ++ opt_part expect key ++ queue ++ body.

Definition stdout_of (e : ending) (t : Z) (print_query : bool) (query : str) (expect : bool) (key : str)
           (queue body : list str) : str :=
  match e with
  | EAccept => frame t (accept_parts print_query query expect key queue body)
  | EPrintQuery => frame t [query]
  | EAbort | EError => []
  end.

(* ---- selection, as a user sees it: a list of the selected entries, oldest first ------------------
   Entries are identified by their ordinal number (`key`).  `limit` is the --multi limit. *)
Section Selection.
  Context {A : Type} (key : A -> nat).
  Definition sel_mem (x : A) (sel : list A) : bool := existsb (fun y => Nat.eqb (key y) (key x)) sel.
  Definition sel_remove (x : A) (sel : list A) : list A := filter (fun y => negb (Nat.eqb (key y) (key x))) sel.
  (* select: refused when the limit is reached; no change when already selected; else appended *)
  Definition sel_add (limit : nat) (x : A) (sel : list A) : list A * bool :=
    if Nat.leb limit (length sel) then (sel, false)
    else if sel_mem x sel then (sel, true) else (sel ++ [x], true).
  Definition sel_toggle (limit : nat) (x : A) (sel : list A) : list A :=
    if sel_mem x sel then sel_remove x sel else fst (sel_add limit x sel).
  (* select-all: the listed entries top to bottom until the limit refuses one *)
  Fixpoint sel_add_all (limit : nat) (xs : list A) (sel : list A) : list A :=
    match xs with
    | [] => sel
    | x :: r => let '(sel', ok) := sel_add limit x sel in if ok then sel_add_all limit r sel' else sel'
    end.
  Definition sel_remove_all (xs : list A) (sel : list A) : list A := fold_left (fun s x => sel_remove x s) xs sel.
  (* toggle-all: deselect the listed entries that were selected, then select the others *)
  Definition sel_toggle_all (limit : nat) (xs : list A) (sel : list A) : list A :=
    let prev := filter (fun x => sel_mem x sel) xs in
    let others := filter (fun x => negb (sel_mem x sel)) xs in
    sel_add_all limit others (sel_remove_all prev sel).
  (* the body of the result *)
  Definition result_body (current : option A) (sel : list A) : list A :=
    match sel with
    | [] => match current with Some c => [c] | None => [] end
    | _ => sel
    end.
End Selection.

(* ---- fields (for --accept-nth; the field language itself is property C10) ----------------------- *)
Definition is_blank (c : Z) : bool := (c =? 32) || (c =? 9).
(* Unicode White_Space restricted to one byte (ASCII); non-ASCII spaces are outside this spec's domain *)
Definition is_space_ascii (c : Z) : bool := (c =? 32) || ((9 <=? c) && (c <=? 13)).
Definition trim_right (s : str) : str := rev (drop_while is_space_ascii (rev s)).

(* AWK-style fields: leading blanks belong to no field; a field is a maximal run of non-blanks
   followed by the blanks after it *)
Fixpoint take_while {A} (p : A -> bool) (l : list A) : list A :=
  match l with [] => [] | x :: t => if p x then x :: take_while p t else [] end.
Fixpoint awk_fields_fuel (fuel : nat) (s : str) : list str :=
  match fuel with
  | O => []
  | S f =>
    match s with
    | [] => []
    | _ =>
      let word := take_while (fun c => negb (is_blank c)) s in
      let rest := drop_while (fun c => negb (is_blank c)) s in
      let gap := take_while is_blank rest in
      (word ++ gap) :: awk_fields_fuel f (drop_while is_blank rest)
    end
  end.
Definition awk_fields (s : str) : list str :=
  let s' := drop_while is_blank s in awk_fields_fuel (length s') s'.

(* ---- a session as the user experiences it: selection events on entry numbers, print(...) actions ---- *)
Inductive sel_event :=
  | SToggle (i : nat) | SSelect (i : nat) | SDeselect (i : nat)
  | SSelectAll (listed : list nat) | SDeselectAll (listed : list nat) | SToggleAll (listed : list nat)
  | SClear | SPrint (s : str).

Definition ev_step (limit : nat) (st : list nat * list str) (e : sel_event) : list nat * list str :=
  let sel := fst st in
  let q := snd st in
  match e with
  | SToggle i => (sel_toggle (fun x => x) limit i sel, q)
  | SSelect i => (fst (sel_add (fun x => x) limit i sel), q)
  | SDeselect i => (sel_remove (fun x => x) i sel, q)
  | SSelectAll l => (sel_add_all (fun x => x) limit l sel, q)
  | SDeselectAll l => (sel_remove_all (fun x => x) l sel, q)
  | SToggleAll l => (sel_toggle_all (fun x => x) limit l sel, q)
  | SClear => ([], q)
  | SPrint s => (sel, q ++ [s])
  end.

(* stdout and exit status of a session: `present i` is what is printed for entry i *)
Definition session_result (t : Z) (print_query : bool) (query : str) (expect : bool) (key : str)
           (present : nat -> str) (limit : nat) (evs : list sel_event) (current : option nat) (e : ending)
  : str * Z :=
  let st := fold_left (ev_step limit) evs ([], []) in
  let body := map present (result_body current (fst st)) in
  (stdout_of e t print_query query expect key (snd st) body, exit_status e body).

(* ---- "stdout is the framing of SOME permutation of these records" (sorted --filter output) -------- *)
Fixpoint strip_prefix (p s : str) : option str :=
  match p, s with
  | [], _ => Some s
  | x :: p', y :: s' => if x =? y then strip_prefix p' s' else None
  | _ :: _, [] => None
  end.
Fixpoint remove_first (x : str) (l : list str) : list str :=
  match l with
  | [] => []
  | y :: r => if str_eqb x y then r else y :: remove_first x r
  end.
Fixpoint dedup (l : list str) : list str :=
  match l with
  | [] => []
  | x :: r => x :: filter (fun y => negb (str_eqb x y)) (dedup r)
  end.
Fixpoint framed_perm (fuel : nat) (t : Z) (remaining : list str) (s : str) : bool :=
  match fuel with
  | O => false
  | S f =>
    match remaining with
    | [] => match s with [] => true | _ => false end
    | _ => existsb (fun r => match strip_prefix (r ++ [t]) s with
                             | Some rest => framed_perm f t (remove_first r remaining) rest
                             | None => false
                             end) (dedup remaining)
    end
  end.

(* --filter verdict on an observed (stdout, exit status) *)
Definition filter_verdict (print_query print0 ansi tac sorted : bool) (query : str) (strip : str -> str)
           (m : nat -> str -> bool) (rs : list str) (stdout : str) (code : Z) : bool * bool :=
  let t := terminator print0 in
  let body := unsorted_body ansi tac strip m rs in
  let out_ok :=
    if sorted then
      match strip_prefix (frame t (opt_part print_query query)) stdout with
      | Some rest => framed_perm (S (length body)) t body rest
      | None => false
      end
    else str_eqb stdout (frame t (filter_parts print_query query body)) in
  (out_ok, code =? exit_status EAccept body).

(* ==== --accept-nth in general: field index expressions and templates over AWK-style or delimiter-cut fields ====
   (man page: --accept-nth "Define which fields to print on accept. The last delimiter is stripped from the
   output. ... When you use a template, the trailing delimiter is stripped from each expression ... {n} in
   template evaluates to the zero-based ordinal index of the line"; FIELD INDEX EXPRESSION) *)

(* fields cut by a literal delimiter (--delimiter STR where STR is not a regular expression): delimiters are
   found left to right, not overlapping; a field ends with the delimiter that follows it; what comes after the
   last delimiter is the last field (the empty field when the record ends with a delimiter) *)
Fixpoint str_fields_fuel (fuel : nat) (sep cur s : str) : list str :=
  match fuel with
  | O => [cur ++ s]
  | S f =>
    match strip_prefix sep s with
    | Some rest => (cur ++ sep) :: str_fields_fuel f sep [] rest
    | None => match s with
              | [] => [cur]
              | c :: t => str_fields_fuel f sep (cur ++ [c]) t
              end
    end
  end.
Definition str_fields (sep s : str) : list str :=
  match sep with [] => [s] | _ => str_fields_fuel (S (length s)) sep [] s end.

(* fields cut by a delimiter that is one byte of a set (--delimiter '[,;]') or a maximal run of such bytes
   (--delimiter '[,;]+'): as above, except that nothing follows the last delimiter when the record ends with it *)
Definition in_set (cs : str) (c : Z) : bool := existsb (fun x => x =? c) cs.
Fixpoint set_fields_fuel (fuel : nat) (cs : str) (run : bool) (cur s : str) : list str :=
  match fuel with
  | O => [cur ++ s]
  | S f =>
    match s with
    | [] => match cur with [] => [] | _ => [cur] end
    | c :: t =>
      if in_set cs c then
        let d := if run then c :: take_while (in_set cs) t else [c] in
        let rest := if run then drop_while (in_set cs) t else t in
        (cur ++ d) :: set_fields_fuel f cs run [] rest
      else set_fields_fuel f cs run (cur ++ [c]) t
    end
  end.
Definition set_fields (cs : str) (run : bool) (s : str) : list str := set_fields_fuel (S (length s)) cs run [] s.

Inductive field_delim :=
  | FAwk                               (* default: AWK-style *)
  | FStr (sep : str)                   (* a literal string *)
  | FSet (cs : str) (run : bool).      (* [cs] resp. [cs]+ *)

Definition fields_of (d : field_delim) (s : str) : list str :=
  match d with
  | FAwk => awk_fields s
  | FStr sep => str_fields sep s
  | FSet cs run => set_fields cs run s
  end.

(* a field index expression as the user writes it: N, N..M, N.., ..M, ..  — a pair (b, e) where 0 stands for an
   omitted bound and N alone is (N, N); negative numbers count from the last field.  It selects the fields
   number lo .. hi that exist. *)
Definition fexpr := (Z * Z)%type.
Definition field_pos (n i : Z) : Z := if i <? 0 then n + 1 + i else i.
Definition select_fields (fields : list str) (x : fexpr) : list str :=
  let n := Z.of_nat (length fields) in
  let lo := Z.max 1 (if fst x =? 0 then 1 else field_pos n (fst x)) in
  let hi := Z.min n (if snd x =? 0 then n else field_pos n (snd x)) in
  firstn (Z.to_nat (hi - lo + 1)) (skipn (Z.to_nat (lo - 1)) fields).
(* a comma-separated list of expressions: the selected fields one after the other *)
Definition exprs_text (fields : list str) (xs : list fexpr) : str :=
  concat (map (fun x => concat (select_fields fields x)) xs).

(* "the last delimiter is stripped": ONE delimiter, and only when the text ends with it; then the white space
   at the end goes too.  Nothing else is removed: the selected fields are printed exactly. *)
Definition ends_with (suf s : str) : bool :=
  Nat.leb (length suf) (length s) && str_eqb (skipn (length s - length suf) s) suf.
Definition strip_last_delim (d : field_delim) (s : str) : str :=
  trim_right
    (match d with
     | FAwk => s
     | FStr sep => if ends_with sep s then firstn (length s - length sep) s else s
     | FSet cs false => match rev s with c :: r => if in_set cs c then rev r else s | [] => s end
     | FSet cs true => rev (drop_while (in_set cs) (rev s))
     end).

(* decimal notation of an ordinal number *)
Fixpoint decimal_fuel (fuel n : nat) : str :=
  match fuel with
  | O => []
  | S f => if Nat.ltb n 10 then [48 + Z.of_nat n]
           else decimal_fuel f (Nat.div n 10) ++ [48 + Z.of_nat (Nat.modulo n 10)]
  end.
Definition decimal (n : nat) : str := decimal_fuel (S n) n.

Inductive tpart := TLit (s : str) | TIndex | TFields (xs : list fexpr).
Inductive accept_expr := AFields (xs : list fexpr) | ATemplate (ps : list tpart).

(* what --accept-nth prints for the record with ordinal number `index` whose output form is s *)
Definition accept_text (d : field_delim) (a : accept_expr) (index : nat) (s : str) : str :=
  let fields := fields_of d s in
  strip_last_delim d
    (match a with
     | AFields xs => exprs_text fields xs
     | ATemplate ps =>
         concat (map (fun p => match p with
                               | TLit l => l
                               | TIndex => decimal index
                               | TFields xs => strip_last_delim d (exprs_text fields xs)
                               end) ps)
     end).
