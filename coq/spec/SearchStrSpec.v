(* C08 spec, part 2: which string is "the current query" of the property once the actions search(X) /
   transform-search(X) exist.  Written from the documentation of the actions (man page: "search(...)  trigger fzf
   search with the given string"; the string is searched for INSTEAD of the query line until the query line is
   changed), not from terminal.go.

   A history is a list of ACTIONS (one bound action = one element, also inside a chain a+b+c):
     QSearch x : search(x) or transform-search(cmd) whose command printed x;
     QEdit n   : any action after which the text of the query line is n (typing one key, backward-delete-char,
                 clear-query, change-query(n), transform-query, put, history navigation, ...; n may be the text
                 the line had already: then the action did not change the query).
   The query in effect after a history is the string of the LAST search action provided that no later action
   changed the text of the query line, and the query line itself otherwise: as soon as the user's query changes
   (in whatever way, to whatever text, of whatever length) the list has to show the matches of that query. *)
From Fzf Require Import Prelude.
Open Scope Z_scope.

Inductive qact := QSearch (x : str) | QEdit (n : str).

Definition line_step (t : str) (a : qact) : str := match a with QSearch _ => t | QEdit n => n end.
Definition line_after (t0 : str) (h : list qact) : str := fold_left line_step h t0.

(* no action of h changes the text of the query line, which is t before h *)
Fixpoint unchanged (t : str) (h : list qact) : bool :=
  match h with
  | [] => true
  | QSearch _ :: r => unchanged t r
  | QEdit n :: r => str_eqb t n && unchanged n r
  end.

(* the search string in force after h, if any *)
Fixpoint search_str (t : str) (h : list qact) : option str :=
  match h with
  | [] => None
  | QSearch x :: r =>
      match search_str t r with
      | Some y => Some y                                   (* a later search action is in force *)
      | None => if unchanged t r then Some x else None     (* this one, unless the query changed afterwards *)
      end
  | QEdit n :: r => search_str n r
  end.

Definition query_in_effect (t0 : str) (h : list qact) : str :=
  match search_str t0 h with Some x => x | None => line_after t0 h end.
