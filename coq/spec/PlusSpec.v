(* C12 spec, part 2: which items a placeholder of a command template ranges over in the running finder, and what
   a temp file written for an f-placeholder holds.  Written from the property text and the manual ({+}: "all the
   selected items, or the current item when nothing is selected"; {f}: "a temporary file that holds the evaluated
   list, one entry per print separator"), without looking at how fzf builds its lists. *)
From Fzf Require Import Prelude.
Open Scope Z_scope.

Definition sitem := (Z * str)%type.     (* ordinal, text *)

(* {} {n} {N}: the item under the cursor *)
Definition current_items (cur : option sitem) : list sitem :=
  match cur with Some c => [c] | None => [] end.

(* {+} {+n} {+N}: every selected item in selection order; the item under the cursor when nothing is selected *)
Definition plus_items (cur : option sitem) (sel : list sitem) : list sitem :=
  match sel with [] => current_items cur | _ => sel end.

Fixpoint join_with (sep : str) (ls : list str) : str :=
  match ls with [] => [] | [l] => l | l :: r => l ++ sep ++ join_with sep r end.

(* the file of an f-placeholder: its values separated by the print separator, and one separator at the end *)
Definition file_text (sep : str) (values : list str) : str := join_with sep values ++ sep.
