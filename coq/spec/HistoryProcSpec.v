(* C18 spec, process level: the history file as the PROGRAM maintains it across sessions.
   Written from the documentation (--history=FILE, --history-size=N default 1000, --no-history;
   "later options override earlier ones"; options come from $FZF_DEFAULT_OPTS_FILE, $FZF_DEFAULT_OPTS
   and the command line, in this order) without looking at how options.go / terminal.go compute it. *)
From Fzf Require Import Prelude HistorySpec.
Open Scope Z_scope.

(* the words of an option list, as far as the history is concerned *)
Inductive hopt :=
| HFile (p : str)     (* --history p / --history=p *)
| HNoFile             (* --no-history *)
| HSize (n : nat)     (* --history-size n / --history-size=n *)
| HOther.             (* any other word *)

Definition DEFAULT_HISTORY_SIZE : nat := 1000.

(* the file named by the last --history that no --no-history follows *)
Fixpoint eff_file (cur : option str) (ws : list hopt) : option str :=
  match ws with
  | [] => cur
  | HFile p :: r => eff_file (Some p) r
  | HNoFile :: r => eff_file None r
  | _ :: r => eff_file cur r
  end.

(* the last --history-size, wherever it stands relative to --history *)
Fixpoint eff_size (cur : nat) (ws : list hopt) : nat :=
  match ws with
  | [] => cur
  | HSize n :: r => eff_size n r
  | _ :: r => eff_size cur r
  end.

(* what an option list asks for: no history, or (file, limit) *)
Definition eff_config (ws : list hopt) : option (str * nat) :=
  match eff_file None ws with
  | Some p => Some (p, eff_size DEFAULT_HISTORY_SIZE ws)
  | None => None
  end.

(* how a session ends.  The query is SUBMITTED by every ending except giving up. *)
Inductive ending :=
| EndAccept (matched : bool)   (* accept: an item was chosen (exit status 0) or the list was empty (exit status 1) *)
| EndPrintQuery                (* print-query / accept-or-print-query on an empty list *)
| EndBecome                    (* become(...): the session hands over to another command *)
| EndAbort.                    (* abort (esc, ctrl-c, ctrl-g, ctrl-q), SIGINT / SIGTERM *)

Definition submits (e : ending) : bool := match e with EndAbort => false | _ => true end.

(* the entries stored in file p after a session run under configuration cfg that ended by e with query q,
   when E were stored before *)
Definition proc_step (cfg : option (str * nat)) (e : ending) (q : str) (p : str) (E : list str) : list str :=
  match cfg with
  | Some (p0, n) =>
      if str_eqb p p0 && submits e && nonemptyb q then strip_empty (last_n n (E ++ [q])) else E
  | None => E
  end.

(* the layers of one invocation in which a size is never given in an EARLIER layer than a file
   (the complement is the recorded finding c17-history-size-layering) *)
Fixpoint has_size (ws : list hopt) : bool :=
  match ws with [] => false | HSize _ :: _ => true | _ :: r => has_size r end.
Fixpoint has_file (ws : list hopt) : bool :=
  match ws with [] => false | HFile _ :: _ => true | _ :: r => has_file r end.
Fixpoint layered_ok (seen_size : bool) (ls : list (list hopt)) : bool :=
  match ls with
  | [] => true
  | l :: r => (negb seen_size || negb (has_file l)) && layered_ok (seen_size || has_size l) r
  end.
