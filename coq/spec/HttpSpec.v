(* C16 spec: the vocabulary of the --listen endpoint, written from the man page
   ("--listen", "FZF_API_KEY") and from HTTP/1.1 itself; it does not look at how
   server.go scans its socket.  Everything here talks about the COMPLETE byte
   stream a client sent (no buffers, no segmentation) and about response bytes. *)
From Fzf Require Import Prelude.
Open Scope Z_scope.

(* ---------- byte strings ---------- *)
Definition CRLF : str := [13; 10].

Fixpoint prefixb (p s : str) : bool :=
  match p, s with
  | [], _ => true
  | x :: p, y :: s => (x =? y) && prefixb p s
  | _ :: _, [] => false
  end.

Fixpoint infixb (p s : str) : bool :=
  prefixb p s || match s with [] => false | _ :: t => infixb p t end.

Definition infix (p s : str) : Prop := exists a b, s = a ++ p ++ b.

(* list reversal in linear time (= rev) *)
Definition frev (s : str) : str := rev_append s [].

(* index of the first CR LF pair *)
Fixpoint find_crlf (s : str) : option nat :=
  match s with
  | [] => None
  | c :: t =>
      match t with
      | [] => None
      | d :: _ => if (c =? 13) && (d =? 10) then Some O else option_map S (find_crlf t)
      end
  end.

(* the first line (terminator removed) and what follows it *)
Definition cut_line (s : str) : option (str * str) :=
  match find_crlf s with
  | Some i => Some (firstn i s, skipn (i + 2) s)
  | None => None
  end.

Fixpoint take_while (p : Z -> bool) (s : str) : str :=
  match s with
  | [] => []
  | c :: t => if p c then c :: take_while p t else []
  end.

(* strings.Split(s, sep) for a one-byte separator: always at least one piece *)
Fixpoint split_on_aux (sep : Z) (cur : str) (s : str) : list str :=
  match s with
  | [] => [frev cur]
  | c :: r => if c =? sep then frev cur :: split_on_aux sep [] r else split_on_aux sep (c :: cur) r
  end.
Definition split_on (sep : Z) (s : str) : list str := split_on_aux sep [] s.

(* strings.SplitN(s, sep, 2) when sep occurs: (before, after the first sep) *)
Fixpoint split_first (sep : Z) (s : str) : option (str * str) :=
  match s with
  | [] => None
  | c :: r => if c =? sep then Some ([], r)
              else match split_first sep r with Some (a, b) => Some (c :: a, b) | None => None end
  end.

(* ---------- numbers ---------- *)
Definition digit (c : Z) : bool := (48 <=? c) && (c <=? 57).

Fixpoint digits_val (s : str) (acc : Z) : option Z :=
  match s with
  | [] => Some acc
  | c :: t => if digit c then digits_val t (acc * 10 + (c - 48)) else None
  end.

(* strconv.Atoi: optional sign, at least one digit, decimal digits only, 64-bit range *)
Definition INT_MAX : Z := 9223372036854775807.
Definition atoi (s : str) : option Z :=
  let chk (v : Z) := if (- INT_MAX - 1 <=? v) && (v <=? INT_MAX) then Some v else None in
  match s with
  | [] => None
  | c :: t =>
      if (c =? 43) || (c =? 45) then
        match t with
        | [] => None
        | _ => match digits_val t 0 with
               | Some v => chk (if c =? 45 then - v else v)
               | None => None
               end
        end
      else match digits_val s 0 with Some v => chk v | None => None end
  end.

(* decimal representation of a length *)
Fixpoint print_dec_aux (fuel n : nat) (acc : str) : str :=
  match fuel with
  | O => acc
  | S f =>
      let acc' := (48 + Z.of_nat (n mod 10)) :: acc in
      if (n <? 10)%nat then acc' else print_dec_aux f (n / 10) acc'
  end.
Definition print_dec (n : nat) : str := print_dec_aux (S n) n [].

(* ---------- white space (Go strings.TrimSpace = Unicode White_Space, on UTF-8) ---------- *)
Definition ascii_space (c : Z) : bool :=
  (c =? 9) || (c =? 10) || (c =? 11) || (c =? 12) || (c =? 13) || (c =? 32).

(* UTF-8 encodings of U+0085 U+00A0 U+1680 U+2000..U+200A U+2028 U+2029 U+202F U+205F U+3000 *)
Definition uspace_seqs : list str :=
  [[194;133]; [194;160]; [225;154;128];
   [226;128;128]; [226;128;129]; [226;128;130]; [226;128;131]; [226;128;132]; [226;128;133];
   [226;128;134]; [226;128;135]; [226;128;136]; [226;128;137]; [226;128;138];
   [226;128;168]; [226;128;169]; [226;128;175]; [226;129;159]; [227;128;128]].

Fixpoint strip_any (seqs : list str) (s : str) : option str :=
  match seqs with
  | [] => None
  | q :: r => if prefixb q s then Some (skipn (length q) s) else strip_any r s
  end.

Fixpoint trim_left_f (seqs : list str) (fuel : nat) (s : str) : str :=
  match fuel with
  | O => s
  | S f =>
      match s with
      | [] => []
      | c :: t =>
          if ascii_space c then trim_left_f seqs f t
          else match strip_any seqs s with
               | Some r => trim_left_f seqs f r
               | None => s
               end
      end
  end.

Definition trim_left (s : str) : str := trim_left_f uspace_seqs (length s) s.
Definition trim_right (s : str) : str :=
  frev (trim_left_f (map frev uspace_seqs) (length s) (frev s)).
Definition trim_space (s : str) : str := trim_right (trim_left s).

(* strings.Trim(s, "\r\n") *)
Definition is_crlf_char (c : Z) : bool := (c =? 13) || (c =? 10).
Definition trim_crlf (s : str) : str := frev (drop_while is_crlf_char (frev (drop_while is_crlf_char s))).

(* ---------- header names: case-insensitive ---------- *)
(* Lower-casing as far as it matters for comparing with an ASCII name: ASCII letters, plus the two
   non-ASCII code points whose lower case is ASCII (U+0130 -> i, U+212A KELVIN SIGN -> k). *)
Fixpoint lower_name (s : str) : str :=
  match s with
  | [] => []
  | c :: t =>
      match t with
      | d :: t2 =>
          if (c =? 196) && (d =? 176) then 105 :: lower_name t2
          else match t2 with
               | e :: t3 =>
                   if (c =? 226) && (d =? 132) && (e =? 170) then 107 :: lower_name t3
                   else (if (65 <=? c) && (c <=? 90) then c + 32 else c) :: lower_name t
               | [] => (if (65 <=? c) && (c <=? 90) then c + 32 else c) :: lower_name t
               end
      | [] => [if (65 <=? c) && (c <=? 90) then c + 32 else c]
      end
  end.

Definition S_CONTENT_LENGTH : str := [99;111;110;116;101;110;116;45;108;101;110;103;116;104]. (* content-length *)
Definition S_X_API_KEY : str := [120;45;97;112;105;45;107;101;121].                          (* x-api-key *)
Definition MAX_CONTENT_LENGTH : Z := 1048576.                                                 (* 1 MiB *)

(* what the header block has told us so far *)
Record hstate := mkH { h_clen : Z; h_key : str }.
Definition h0 : hstate := mkH 0 [].

(* one header line (its text as sent, terminator included or not): name ":" value.
   None = the request must be rejected (unusable Content-Length). Lines without a colon and
   unknown names are ignored; a later header overrides an earlier one. *)
Definition header_line (h : hstate) (text : str) : option hstate :=
  match split_first 58 text with
  | None => Some h
  | Some (n, v) =>
      let ln := lower_name n in
      if str_eqb ln S_CONTENT_LENGTH then
        match atoi (trim_space v) with
        | Some z => if (1 <=? z) && (z <=? MAX_CONTENT_LENGTH) then Some (mkH z (h_key h)) else None
        | None => None
        end
      else if str_eqb ln S_X_API_KEY then Some (mkH (h_clen h) (trim_space v))
      else Some h
  end.

(* ---------- request line ---------- *)
Definition S_POST : str := [80;79;83;84;32;47;32;72;84;84;80].   (* "POST / HTTP" *)
Definition S_GET : str := [71;69;84;32;47].                      (* "GET /" *)
Definition S_HTTP : str := [32;72;84;84;80].                     (* " HTTP" *)

Definition qchar (c : Z) : bool :=
  ((97 <=? c) && (c <=? 122)) || digit c || (c =? 61) || (c =? 38).

(* ^GET /(?:\?([a-z0-9=&]+))? HTTP   -> the query string ("" when absent) *)
Definition get_match (text : str) : option str :=
  if prefixb S_GET text then
    let r := skipn 5 text in
    if prefixb S_HTTP r then Some []
    else match r with
         | c :: q =>
             if c =? 63 then
               let p := take_while qchar q in
               if nonemptyb p && prefixb S_HTTP (skipn (length p) q) then Some p else None
             else None
         | [] => None
         end
  else None.

(* GET /?limit=..&offset=..  (defaults 100 and 0; unparsable values ignored; later wins) *)
Definition S_LIMIT : str := [108;105;109;105;116].
Definition S_OFFSET : str := [111;102;102;115;101;116].
Definition get_params (q : str) : Z * Z :=
  fold_left (fun (acc : Z * Z) (pair : str) =>
               match split_first 61 pair with
               | None => acc
               | Some (k, v) =>
                   if str_eqb k S_LIMIT then match atoi v with Some z => (z, snd acc) | None => acc end
                   else if str_eqb k S_OFFSET then match atoi v with Some z => (fst acc, z) | None => acc end
                   else acc
               end) (split_on 38 q) (100, 0).

(* ---------- the action parser is an oracle ---------- *)
Inductive verdict := VAccept | VEmpty | VError (msg : str).

(* ---------- when is a complete stream an acceptable POST? ---------- *)
(* header lines up to the blank line; None = no blank line, an unusable Content-Length,
   or no Content-Length at all *)
Fixpoint spec_headers (fuel : nat) (s : str) (h : hstate) : option (hstate * str) :=
  match fuel with
  | O => None
  | S f =>
      match cut_line s with
      | None => None
      | Some (l, r) =>
          match l with
          | [] => if h_clen h =? 0 then None else Some (h, r)
          | _ => match header_line h (l ++ CRLF) with
                 | Some h' => spec_headers f r h'
                 | None => None
                 end
          end
      end
  end.

Definition key_ok (key provided : str) : bool :=
  match key with [] => true | _ => str_eqb provided key end.

(* Some b: the stream is a well-formed POST carrying the right key; b is its action list
   (the first Content-Length bytes after the blank line, line ends trimmed). *)
Definition spec_body (key : str) (s : str) : option str :=
  match cut_line s with
  | None => None
  | Some (l0, r0) =>
      if prefixb S_POST l0 then
        match spec_headers (length r0) r0 h0 with
        | Some (h, rest) =>
            if key_ok key (h_key h) && (h_clen h <=? Z.of_nat (length rest))
            then Some (trim_crlf (firstn (Z.to_nat (h_clen h)) rest))
            else None
        | None => None
        end
      else None
  end.

(* ... and the action parser accepts it *)
Definition spec_accepts (key : str) (parse : str -> verdict) (s : str) : option str :=
  match spec_body key s with
  | Some b => match parse b with VAccept => Some b | _ => None end
  | None => None
  end.

(* ---------- responses ---------- *)
Definition S_HTTP11 : str := [72;84;84;80;47;49;46;49;32].       (* "HTTP/1.1 " *)
Definition S_CLEN_HDR : str := [67;111;110;116;101;110;116;45;76;101;110;103;116;104;58;32]. (* "Content-Length: " *)

Definition reason (code : Z) : str :=
  if code =? 200 then [79;75]
  else if code =? 400 then [66;97;100;32;82;101;113;117;101;115;116]
  else if code =? 401 then [85;110;97;117;116;104;111;114;105;122;101;100]
  else [83;101;114;118;105;99;101;32;85;110;97;118;97;105;108;97;98;108;101].

Definition status_line_ok (l : str) : option Z :=
  if prefixb S_HTTP11 l then
    let code := firstn 3 (skipn 9 l) in
    match digits_val code 0 with
    | Some z => if (length code =? 3)%nat && prefixb [32] (skipn 12 l) && str_eqb (skipn 13 l) (reason z)
                   && ((z =? 200) || (z =? 400) || (z =? 401) || (z =? 503))
                then Some z else None
    | None => None
    end
  else None.

(* header lines of a response up to the blank line: (value of Content-Length if any, body) *)
Fixpoint resp_headers (fuel : nat) (s : str) (cl : option str) : option (option str * str) :=
  match fuel with
  | O => None
  | S f =>
      match cut_line s with
      | None => None
      | Some (l, r) =>
          match l with
          | [] => Some (cl, r)
          | _ =>
              if prefixb S_CLEN_HDR l then
                match cl with
                | Some _ => None
                | None => resp_headers f r (Some (skipn 16 l))
                end
              else match split_first 58 l with
                   | Some (_ :: _, _) => resp_headers f r cl
                   | _ => None
                   end
          end
      end
  end.

(* A well-formed answer: status line with one of the four codes and its reason phrase, header lines
   "name: value", a blank line, and a body whose length is exactly what Content-Length announces
   (no Content-Length: no body, the connection is closed right after). Returns the status code. *)
Definition wf_response (r : str) : option Z :=
  match cut_line r with
  | None => None
  | Some (sl, rest) =>
      match status_line_ok sl with
      | None => None
      | Some code =>
          match resp_headers (length rest) rest None with
          | Some (Some v, body) => if str_eqb v (print_dec (length body)) then Some code else None
          | Some (None, []) => Some code
          | _ => None
          end
      end
  end.

(* ---------- who may listen ---------- *)
Definition S_LOCALHOST : str := [108;111;99;97;108;104;111;115;116].
Definition S_LOOPBACK : str := [49;50;55;46;48;46;48;46;49].
Definition is_local (host : str) : bool := str_eqb host S_LOCALHOST || str_eqb host S_LOOPBACK.

(* ---------- the exact key ---------- *)
(* The configured key is the value of FZF_API_KEY, byte for byte: nothing is taken off it, nothing is
   folded.  The value of a header line, however, is what stands between the white space around it.
   A configured key that itself begins or ends with white space (a blank-only one included) can therefore
   never be presented: it is still a configured key, so every request has to be refused. *)
Definition key_presentable (key : str) : bool := str_eqb (trim_space key) key.

(* the key one header line presents (k: what the lines before it presented) *)
Definition key_of_line (k : str) (text : str) : str :=
  match split_first 58 text with
  | Some (n, v) => if str_eqb (lower_name n) S_X_API_KEY then trim_space v else k
  | None => k
  end.

(* over the lines that follow the request line, up to the blank line; a last line the client did not
   terminate counts too; a later header overrides an earlier one *)
Fixpoint spec_key_lines (fuel : nat) (s : str) (k : str) : str :=
  match fuel with
  | O => k
  | S f =>
      match cut_line s with
      | None => key_of_line k s
      | Some (l, r) =>
          match l with
          | [] => k
          | _ => spec_key_lines f r (key_of_line k (l ++ CRLF))
          end
      end
  end.

(* the key a complete request presents ([] = none) *)
Definition spec_presented_key (s : str) : str :=
  match cut_line s with
  | None => []
  | Some (_, r) => spec_key_lines (S (length r)) r []
  end.

(* may this request be served?  (no key configured: everybody; otherwise the exact key) *)
Definition spec_authorised (key : str) (s : str) : bool :=
  match key with [] => true | _ => str_eqb (spec_presented_key s) key end.

(* ---------- what a GET asks for and what it is shown ---------- *)
(* the parameters a GET request line asks for (None: not a GET request line) *)
Definition spec_get_request (line : str) : option (Z * Z) := option_map get_params (get_match line).

(* the part of a list (matches, or selected items) a GET with these parameters is shown:
   at most `limit` entries starting at position `offset` (positions count from 0) *)
Definition spec_window {A} (items : list A) (limit offset : Z) : list A :=
  firstn (Z.to_nat limit) (skipn (Z.to_nat offset) items).

(* the body of an answer: what follows the blank line *)
Definition response_body (r : str) : option str :=
  match cut_line r with
  | None => None
  | Some (_, rest) =>
      match resp_headers (length rest) rest None with
      | Some (_, body) => Some body
      | None => None
      end
  end.
