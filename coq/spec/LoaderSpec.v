(* C13, the LOADING side: several pushers feed one list (the parallel directory walker of reader.go calls the
   pusher from many goroutines at once).  Vocabulary only; does not look at how fzf does it.

   What must hold: loading by several pushers is indistinguishable from ONE reader that reads the lines in the
   order in which the pushes were committed.  That reader takes the first `h` lines as the header (--header-lines)
   and numbers the others 0, 1, 2, ... : the index of an item is its position among the accepted lines, which is what
   Merger.FindIndex / PassMerger.Get, --track and the selection map (keyed by index) rely on. *)
From Fzf Require Import Prelude SearchSpec.
Open Scope Z_scope.

Fixpoint zseq (a : Z) (n : nat) : list Z :=
  match n with O => [] | S k => a :: zseq (a + 1) k end.

(* a list of item indexes numbers its positions: every index is its predecessor's + 1 *)
Definition numbered (l : list Z) : Prop :=
  match l with [] => True | a :: _ => l = zseq a (length l) end.

(* the positions (from 1) at which that fails: evaluated on what the running program holds *)
Fixpoint gaps_from (pos prev : Z) (l : list Z) : list Z :=
  match l with
  | [] => []
  | x :: r => (if x =? prev + 1 then [] else [pos]) ++ gaps_from (pos + 1) x r
  end.
Definition numbering_gaps (l : list Z) : list Z :=
  match l with [] => [] | a :: r => gaps_from 1 a r end.

Fixpoint set_at {A} (l : list A) (n : nat) (v : A) : list A :=
  match l, n with
  | [], _ => []
  | _ :: t, O => v :: t
  | x :: t, S k => x :: set_at t k v
  end.

Section Loader.
  Variable D : Type.            (* a line of input *)

  Definition number_from (first : Z) (ds : list D) : list (Z * D) := combine (zseq first (length ds)) ds.

  (* what ONE reader makes of the lines ds: header, items *)
  Definition load_seq (h : nat) (ds : list D) : list D * list (Z * D) :=
    (firstn h ds, number_from 0 (skipn h ds)).

  (* a sequential trace: lines read one after the other, snapshots (with their --tail) taken in between *)
  Inductive sop := SLine (d : D) | SSnap (tail : nat).

  Fixpoint lines_of (tr : list sop) : list D :=
    match tr with
    | [] => []
    | SLine d :: r => d :: lines_of r
    | SSnap _ :: r => lines_of r
    end.

  (* the lines read before each snapshot of the trace *)
  Fixpoint snap_prefixes (done : list D) (tr : list sop) : list (list D) :=
    match tr with
    | [] => []
    | SLine d :: r => snap_prefixes (done ++ [d]) r
    | SSnap _ :: r => done :: snap_prefixes done r
    end.

  (* the list operations of that reader: nh header lines taken so far, next = the next item index *)
  Fixpoint reader_lops (h nh : nat) (next : Z) (tr : list sop) : list (lop (Z * D)) :=
    match tr with
    | [] => []
    | SLine d :: r =>
        if Nat.ltb nh h then LReject :: reader_lops h (S nh) next r
        else LPush (next, d) :: reader_lops h nh (next + 1) r
    | SSnap t :: r => LSnap t :: reader_lops h nh next r
    end.

  (* the list itself after the operations (SearchSpec.live gives the snapshots) *)
  Fixpoint live_end {item} (cur : list item) (ops : list (lop item)) : list item :=
    match ops with
    | [] => cur
    | LPush x :: r => live_end (cur ++ [x]) r
    | LReject :: r => live_end cur r
    | LClear :: r => live_end [] r
    | LSnap t :: r => live_end (trim t cur) r
    end.

  (* ---- several pushers ---- *)
  (* each pusher has its own queue of lines; a label says whose Push is committed next, or that a snapshot is taken.
     A label of a pusher whose queue is empty (or that does not exist) is a stutter. *)
  Inductive llabel := LdPush (p : nat) | LdSnap (tail : nat).

  Fixpoint linearise (qs : list (list D)) (sched : list llabel) : list sop :=
    match sched with
    | [] => []
    | LdSnap t :: r => SSnap t :: linearise qs r
    | LdPush p :: r =>
        match nth_error qs p with
        | Some (d :: rest) => SLine d :: linearise (set_at qs p rest) r
        | _ => linearise qs r
        end
    end.
End Loader.

Arguments number_from {D} first ds.
Arguments load_seq {D} h ds.
Arguments SLine {D} d.
Arguments SSnap {D} tail.
Arguments lines_of {D} tr.
Arguments snap_prefixes {D} done tr.
Arguments reader_lops {D} h nh next tr.
Arguments linearise {D} qs sched.
