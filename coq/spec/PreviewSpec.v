(* C20 spec: what a user expects of --preview, written without looking at how terminal.go
   schedules it.  A preview command template mentions the focused line ({} {n} {f} ...),
   optionally the selection ({+...}) and optionally the query ({q}).  The command that belongs to a
   UI state is the template with these values substituted (`expansion`).  The property: once
   everything has settled, the command that was started last is `expansion` of the current state
   and the preview window shows its output; superseded commands are dead; nothing outlives fzf. *)
From Fzf Require Import Prelude.
Open Scope Z_scope.

(* a template: an identity (which command text) and what it mentions.
   t_slot: it contains at least one placeholder; t_plus: a {+..} placeholder; t_q: {q} (or another
   placeholder that forces a re-run when the query changes).  Documented in the man page under
   --preview ("fzf will re-run the preview when the query changes if the command contains {q}"). *)
Record tmpl := mkT { t_id : Z; t_slot : bool; t_plus : bool; t_q : bool }.

(* the part of the UI state a preview can depend on.  u_focus: index of the line under the cursor
   (-1 when the list is empty); u_sel: indices of the selected lines in selection order. *)
Record uistate := mkU { u_focus : Z; u_query : str; u_sel : list Z }.

(* the values substituted into the template *)
Record args := mkA {
  a_id : Z;                      (* which template *)
  a_item : Z;                    (* {}  {n}  {f}: the focused line *)
  a_plus : option (list Z);      (* {+}: the selection, or the focused line when nothing is selected *)
  a_query : option str           (* {q} *)
}.

Definition expansion (t : tmpl) (u : uistate) : args :=
  mkA (t_id t) (u_focus u)
      (if t_plus t then Some (match u_sel u with [] => [u_focus u] | l => l end) else None)
      (if t_q t then Some (u_query u) else None).

Fixpoint zlist_eqb (a b : list Z) : bool :=
  match a, b with
  | [], [] => true
  | x :: a, y :: b => (x =? y) && zlist_eqb a b
  | _, _ => false
  end.

Definition opt_eqb {A} (f : A -> A -> bool) (a b : option A) : bool :=
  match a, b with
  | None, None => true
  | Some x, Some y => f x y
  | _, _ => false
  end.

Definition args_eqb (a b : args) : bool :=
  (a_id a =? a_id b) && (a_item a =? a_item b) && opt_eqb zlist_eqb (a_plus a) (a_plus b)
  && opt_eqb str_eqb (a_query a) (a_query b).

(* An observed session, as a user (or the harness) sees it: the sequence of commands that were
   started (their substituted values, whether each is still alive, what it printed), the current UI
   state, and what the preview window shows. *)
Record seen_cmd := mkSeen { sc_args : args; sc_alive : bool; sc_out : list str }.

Definition alive_count (cs : list seen_cmd) : nat := length (filter sc_alive cs).

(* at most one preview command is alive *)
Definition at_most_one (cs : list seen_cmd) : bool := Nat.leb (alive_count cs) 1.

Definition last_cmd (cs : list seen_cmd) : option seen_cmd :=
  match rev cs with [] => None | c :: _ => Some c end.

(* caught up: the last started command is the one for the current state *)
Definition caught_up (t : tmpl) (u : uistate) (cs : list seen_cmd) : bool :=
  match last_cmd cs with
  | None => false
  | Some c => args_eqb (sc_args c) (expansion t u)
  end.

(* no superseded command is alive: every live command is for the current state *)
Definition no_stale_alive (t : tmpl) (u : uistate) (cs : list seen_cmd) : bool :=
  forallb (fun c => negb (sc_alive c) || args_eqb (sc_args c) (expansion t u)) cs.

(* nothing survives the end of the session *)
Definition none_alive (cs : list seen_cmd) : bool := forallb (fun c => negb (sc_alive c)) cs.

(* The commands that get started form a subsequence of the requests made (a newer request replaces
   an older one that has not been picked up yet).  `explains reqs started`: greedy subsequence test. *)
Fixpoint explains (reqs started : list args) : bool :=
  match started with
  | [] => true
  | a :: rest =>
      (fix find (rs : list args) : bool :=
         match rs with
         | [] => false
         | r :: rs' => if args_eqb r a then explains rs' rest else find rs'
         end) reqs
  end.

(* ------------------------------------------------------------------------------------------------
   Which part of the output the window shows (--preview-window '+SCROLL[-OFFSET]' and '~HEADER').
   Man page: "+SCROLL[-OFFSET] determines the initial scroll offset of the preview window",
   "/DENOM" subtracts that fraction of the window height (e.g. +{2}-/2 centres line {2}), and
   "~HEADER_LINES keeps the top N lines as the fixed header".  The user's reading: after the command
   for the focused line has run (and nobody scrolled), the first row below the header shows line
   SCROLL - OFFSET - height/DENOM of the output (counting from 1), never a line above the first one
   below the header and never a line beyond the last one; the rows below show the lines that follow.
   Lines are numbered from 1; offsets count the lines above the first row (0 = top). *)

(* sum: the signed components of the expression after substituting the focused line's fields;
   denom: 0 when there is no /DENOM component; height: rows of the preview window; headers: ~N *)
Definition requested_offset (sum denom height headers : Z) : Z :=
  Z.max 0 (sum - 1 - (if denom =? 0 then 0 else Z.max 0 (height - headers) / denom)).

Definition constrain (v lo hi : Z) : Z := if v <? lo then lo else if v >? hi then hi else v.

(* the offset the window must end up with when the output has n lines *)
Definition final_offset (req headers n : Z) : Z := constrain req headers (n - 1).

(* header rows are shown only when they leave room: 0 < headers < min(n, height) *)
Definition header_rows (headers height n : Z) : Z :=
  if (0 <? headers) && (headers <? Z.min n height) then headers else 0.

Fixpoint zseq (from : Z) (len : nat) : list Z :=
  match len with O => [] | S k => from :: zseq (from + 1) k end.

(* the line numbers visible in the window, top to bottom, for an output of n lines shown at offset off *)
Definition visible_lines (n height headers off : Z) : list Z :=
  let h := header_rows headers height n in
  zseq 1 (Z.to_nat h) ++
  zseq (off + 1) (Z.to_nat (Z.min (height - h) (n - off))).

(* the window shows the output of the command at the requested place *)
Definition shows_requested_part (sum denom height headers n : Z) (seen : list Z) : bool :=
  zlist_eqb seen (visible_lines n height headers (final_offset (requested_offset sum denom height headers) headers n)).
