(* C18 spec, process level, the steps of ONE session of the program: besides editing and previous/next a user
   can trigger actions that end the session only if there is something to act on and are IGNORED otherwise
   (man page: become(...) with an item placeholder needs a current item; accept-non-empty needs a non-empty
   list).  An ignored action submits nothing; the session simply goes on.
   Written from the documentation, without looking at Terminal.Loop. *)
From Fzf Require Import Prelude HistorySpec HistoryProcSpec.
Open Scope Z_scope.

(* A = the plain steps (edit / previous / next) *)
Inductive pstep (A : Type) :=
| PDo (o : A)
| PTry (e : ending) (has_item : bool).   (* ends the session by e iff has_item *)
Arguments PDo {A} o.
Arguments PTry {A} e has_item.

(* what a session made of such steps, ended by e0 if no attempt fires before, AMOUNTS TO: the plain steps up
   to the first attempt that finds an item, and the ending of that attempt (what follows is never carried
   out); ignored attempts leave no trace. *)
Fixpoint amounts_to {A} (ps : list (pstep A)) (e0 : ending) : list A * ending :=
  match ps with
  | [] => ([], e0)
  | PDo o :: r => let x := amounts_to r e0 in (o :: fst x, snd x)
  | PTry e true :: _ => ([], e)
  | PTry _ false :: r => amounts_to r e0
  end.
