(* C06 spec, part 2: every record is its OWN item - whatever is derived from an item's content (the fields
   searched under --nth, the text shown under --with-nth) is derived from THAT record alone.
   Observed through `fzf --filter Q` with an exact, case-sensitive, literal query Q: an item is listed iff
   Q occurs in the searched text of its own record; the original record is printed.
   Fields and field index expressions are FieldSpec's (C10); nothing here looks at how fzf computes them. *)
From Fzf Require Import Prelude FieldSpec RecordSpec.
Open Scope Z_scope.

(* q occurs in s (literal substring; the empty q occurs everywhere) *)
Fixpoint contains (q s : str) : bool :=
  is_prefix q s || match s with [] => false | _ :: t => contains q t end.

(* the delimiters used here: AWK-style (default) or a literal string *)
Inductive fdelim := FAwk | FLit (sep : str).
Definition fields_of (d : fdelim) (r : str) : list str :=
  match d with FAwk => awk_fields r | FLit sep => split_after sep r end.
Definition dspec_of (d : fdelim) : dspec :=
  match d with FAwk => DSAwk | FLit sep => DSLiteral sep end.

(* how the searched text of a record is derived *)
Inductive scope :=
| SWhole                          (* no option: the record itself *)
| SNth (es : list fexpr)          (* --nth ES: one searched text per expression *)
| SWithNth (es : list fexpr).     (* --with-nth ES: the selected fields, joined, are the item's text *)

Definition searched (d : fdelim) (sc : scope) (r : str) : list str :=
  match sc with
  | SWhole => [r]
  | SNth es => search_texts (dspec_of d) es (fields_of d r)
  | SWithNth es => [fields_text es (fields_of d r)]
  end.

(* found: a function of the record's own content only *)
Definition found (d : fdelim) (sc : scope) (q : str) (r : str) : bool :=
  existsb (contains q) (searched d sc r).

(* what `fzf --filter Q -e +i --literal [--nth ES | --with-nth ES] [-d SEP]` lists when nothing is ranked
   (--no-sort; under sorting the same items in some order): the searchable items whose own record is found,
   in stream order (newest first under --tac), each printed as the original record *)
Definition query_listing (read0 tac : bool) (hl tail : nat) (d : fdelim) (sc : scope) (q : str) (s : str) : list item :=
  filter (fun it => found d sc q (snd it)) (filter_listing read0 tac hl tail s).
