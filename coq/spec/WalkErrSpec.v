(* C19 spec, third part: directory trees in which some directories CANNOT BE READ.

   A directory is listed by its parent (name and type come from the parent's directory stream), but opening or
   reading it may fail: no permission (mode 000 for an unprivileged user), a path longer than PATH_MAX, a directory
   removed after its parent was read.  Nothing below such a directory can be known, so nothing below it can be
   expected in the candidate list.  What a user expects - "each file under the given roots exactly once" - for
   everything that CAN be read is stated here:

     the listing of a tree with unreadable directories is the listing (WalkSpec.listing) of the VISIBLE tree:
     the same tree in which every unreadable directory (and every followed link to one) has no content.

   In particular the unreadable directory itself is listed like any other directory (it is an entry of its
   readable parent), every sibling of it, everything in other branches and every other root is listed exactly as
   if nothing had failed: one directory that cannot be read never costs more than its own content.
   This file does not look at how fzf / fastwalk compute anything. *)
From Fzf Require Import Prelude WalkSpec.
Open Scope Z_scope.

(* like WalkSpec.entry; rd = can the directory (the link's target directory) be read by the walker *)
Inductive uentry :=
| UFile (nm : str)
| UDir (nm : str) (rd : bool) (children : list uentry)
| USymFile (nm : str)
| USymDir (nm : str) (rd : bool) (target : list uentry).

Definition uname (e : uentry) : str :=
  match e with UFile n | UDir n _ _ | USymFile n | USymDir n _ _ => n end.

(* what a walker can see *)
Fixpoint visible (e : uentry) : entry :=
  match e with
  | UFile nm => File nm
  | USymFile nm => SymFile nm
  | UDir nm rd ch => Dir nm (if rd then map visible ch else [])
  | USymDir nm rd tg => SymDir nm (if rd then map visible tg else [])
  end.

(* the tree as it would be if every directory could be read *)
Fixpoint all_readable (e : uentry) : entry :=
  match e with
  | UFile nm => File nm
  | USymFile nm => SymFile nm
  | UDir nm _ ch => Dir nm (map all_readable ch)
  | USymDir nm _ tg => SymDir nm (map all_readable tg)
  end.

(* does every directory of the tree answer? *)
Fixpoint readable (e : uentry) : bool :=
  match e with
  | UFile _ | USymFile _ => true
  | UDir _ rd ch => rd && forallb readable ch
  | USymDir _ rd tg => rd && forallb readable tg
  end.

(* one root: the root string, whether the root directory itself can be read, its content *)
Definition uroot := (str * bool * list uentry)%type.

Definition visible_root (r : uroot) : str * list entry :=
  let '(root, rd, ch) := r in (root, if rd then map visible ch else []).

Definition listing_unreadable (o : wopts) (ig : list str) (roots : list uroot) : list str :=
  listing_roots o ig (map visible_root roots).
