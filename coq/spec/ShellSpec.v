(* C12 spec: how a POSIX shell splits a command line into words, restricted to the
   constructs an expansion is allowed to rely on (blanks, single quotes, backslash),
   and what "the template with every placeholder replaced by its words" means.
   Written from the POSIX shell grammar (XCU 2.2 Quoting, 2.3 Token Recognition),
   without looking at how fzf builds its command lines.  This reading of the shell
   is itself validated against the real /bin/sh (dash) and bash on every run. *)
From Fzf Require Import Prelude.
Open Scope Z_scope.

Definition c_sq : Z := 39.   (* ' *)
Definition c_bs : Z := 92.   (* \ *)
Definition c_sp : Z := 32.   (* blank *)
Definition c_nl : Z := 10.

(* Unquoted characters that are (or may start) shell syntax: NUL, dollar, backquote, double quote, ; & | < > ( )
   * ? [ ] { } ~ # ! newline tab.
   A command line that contains one of them outside quotes is outside the restricted language: no answer. *)
Definition is_meta (c : Z) : bool :=
  existsb (Z.eqb c) [0;36;96;34;59;38;124;60;62;40;41;42;63;91;93;123;125;126;35;33;10;9].

Inductive mode := Out | InWord | InSQ | Esc.   (* Esc: just after an unquoted backslash *)

(* lexer state: mode, current word (reversed), finished words (reversed) *)
Record lst := mkL { l_mode : mode; l_cur : str; l_acc : list str }.

Definition step (s : lst) (c : Z) : option lst :=
  match l_mode s with
  | InSQ => if c =? c_sq then Some (mkL InWord (l_cur s) (l_acc s))
            else Some (mkL InSQ (c :: l_cur s) (l_acc s))
  | Esc => if c =? c_nl then None                      (* line continuation: not in the restricted language *)
           else Some (mkL InWord (c :: l_cur s) (l_acc s))
  | Out => if c =? c_sp then Some (mkL Out [] (l_acc s))
           else if c =? c_sq then Some (mkL InSQ [] (l_acc s))
           else if c =? c_bs then Some (mkL Esc [] (l_acc s))
           else if is_meta c then None
           else Some (mkL InWord [c] (l_acc s))
  | InWord => if c =? c_sp then Some (mkL Out [] (rev (l_cur s) :: l_acc s))
           else if c =? c_sq then Some (mkL InSQ (l_cur s) (l_acc s))
           else if c =? c_bs then Some (mkL Esc (l_cur s) (l_acc s))
           else if is_meta c then None
           else Some (mkL InWord (c :: l_cur s) (l_acc s))
  end.

Fixpoint run (s : lst) (t : str) : option lst :=
  match t with
  | [] => Some s
  | c :: r => match step s c with Some s' => run s' r | None => None end
  end.

Definition finish (s : lst) : option (list str) :=
  match l_mode s with
  | Out => Some (rev (l_acc s))
  | InWord => Some (rev (rev (l_cur s) :: l_acc s))
  | InSQ | Esc => None                                  (* unterminated quote / dangling backslash *)
  end.

Definition l_init : lst := mkL Out [] [].

(* the words a shell would pass to a command for this line; None = the line uses syntax beyond blanks, '...' and \c *)
Definition sh_words (t : str) : option (list str) :=
  match run l_init t with Some s => finish s | None => None end.

(* ---- the template with every placeholder replaced by its words ---- *)

(* A template is literal text interleaved with placeholders; a placeholder stands for a list of words
   (one per item).  Adjacent literal text glues to the first / last word exactly as adjacent quoted
   strings glue in a shell; words of one placeholder are separate words. *)
Inductive seg := SLit (t : str) | SWords (ws : list str).

(* a whole word w supplied at this point; only meaningful outside quotes *)
Definition feed_word (s : lst) (w : str) : option lst :=
  match l_mode s with
  | Out => Some (mkL InWord (rev w) (l_acc s))
  | InWord => Some (mkL InWord (rev w ++ l_cur s) (l_acc s))
  | InSQ | Esc => None          (* a placeholder inside '...' or after \ : the template is not shell-neutral *)
  end.

Fixpoint feed_words (s : lst) (ws : list str) : option lst :=
  match ws with
  | [] => Some s
  | w :: r =>
      match feed_word s w with
      | None => None
      | Some s1 =>
          match r with
          | [] => Some s1
          | _ => match step s1 c_sp with Some s2 => feed_words s2 r | None => None end
          end
      end
  end.

Fixpoint feed_segs (s : lst) (gs : list seg) : option lst :=
  match gs with
  | [] => Some s
  | SLit t :: r => match run s t with Some s' => feed_segs s' r | None => None end
  | SWords ws :: r => match feed_words s ws with Some s' => feed_segs s' r | None => None end
  end.

Definition template_words (gs : list seg) : option (list str) :=
  match feed_segs l_init gs with Some s => finish s | None => None end.

(* decimal reading of an ordinal *)
Fixpoint dec_value_go (acc : Z) (s : str) : option Z :=
  match s with
  | [] => Some acc
  | c :: r => if (48 <=? c) && (c <=? 57) then dec_value_go (acc * 10 + (c - 48)) r else None
  end.
Definition dec_value (s : str) : option Z :=
  match s with [] => None | _ => dec_value_go 0 s end.

Fixpoint join_sp (ws : list str) : str :=     (* words separated by one blank *)
  match ws with [] => [] | [w] => w | w :: r => w ++ c_sp :: join_sp r end.

(* ---- fish (NOT part of the claim: fish is not installed, so this reading of its manual is not validated) ----
   fish, single quotes: the only escapes are \' and \\ ; any other backslash stays, followed by the character.
   Restricted to blanks and single-quoted strings; anything else outside quotes: no answer. *)
Inductive fmode := FOut | FWord | FSQ | FSQEsc.
Record fst_ := mkFL { fl_mode : fmode; fl_cur : str; fl_acc : list str }.

Definition fstep (s : fst_) (c : Z) : option fst_ :=
  match fl_mode s with
  | FSQ => if c =? c_sq then Some (mkFL FWord (fl_cur s) (fl_acc s))
           else if c =? c_bs then Some (mkFL FSQEsc (fl_cur s) (fl_acc s))
           else Some (mkFL FSQ (c :: fl_cur s) (fl_acc s))
  | FSQEsc => if (c =? c_sq) || (c =? c_bs) then Some (mkFL FSQ (c :: fl_cur s) (fl_acc s))
              else Some (mkFL FSQ (c :: c_bs :: fl_cur s) (fl_acc s))
  | FOut => if c =? c_sp then Some (mkFL FOut [] (fl_acc s))
            else if c =? c_sq then Some (mkFL FSQ [] (fl_acc s))
            else None
  | FWord => if c =? c_sp then Some (mkFL FOut [] (rev (fl_cur s) :: fl_acc s))
             else if c =? c_sq then Some (mkFL FSQ (fl_cur s) (fl_acc s))
             else None
  end.

Fixpoint frun (s : fst_) (t : str) : option fst_ :=
  match t with
  | [] => Some s
  | c :: r => match fstep s c with Some s' => frun s' r | None => None end
  end.

Definition fish_words (t : str) : option (list str) :=
  match frun (mkFL FOut [] []) t with
  | Some s => match fl_mode s with
              | FOut => Some (rev (fl_acc s))
              | FWord => Some (rev (rev (fl_cur s) :: fl_acc s))
              | _ => None
              end
  | None => None
  end.
