(* C13 spec, searching while a RELOADED input is still being appended, as seen from OUTSIDE a running fzf.
   Written without looking at core.go.

   The input of a session is a sequence of lists ("generations": the first input, then one per reload); each is
   append-only while its loader runs.  At any moment the items present are a PREFIX lines[:n] of the current generation.
   What fzf publishes at that moment for query q (the matches it lists, the texts it reports for them, matchCount,
   totalCount) must be the sequential filter of exactly that prefix - not of a list that was replaced, not of a longer or
   shorter prefix - and the counts must describe it.  The filter is DisplaySpec.substr_filter (one literal exact term). *)
From Fzf Require Import Prelude DisplaySpec.
Open Scope Z_scope.

Definition frozen_prefix (lines : list str) (n : Z) : list str := firstn (Z.to_nat n) lines.

Definition zmem (i : Z) (l : list Z) : bool := existsb (Z.eqb i) l.

(* the same indexes, in any order (the display order is the business of publish_view) *)
Definition same_indexes (got want : list Z) : bool :=
  (Nat.eqb (length got) (length want)) && forallb (fun i => zmem i got) want && forallb (fun i => zmem i want) got.

Definition published_filter (q : str) (lines : list str) (n : Z) : list Z := substr_filter q 0 (frozen_prefix lines n).
Definition published_changed (lines : list str) (n : Z) (reported : list (Z * str)) : list Z :=
  changed_items (frozen_prefix lines n) reported.

Definition published_ok (q : str) (lines : list str) (n total mcount : Z) (reported : list (Z * str)) : bool :=
  (0 <=? n) && (n <=? Z.of_nat (length lines)) && (total =? n) && (mcount =? Z.of_nat (length reported)) &&
  same_indexes (map fst reported) (published_filter q lines n) &&
  match published_changed lines n reported with [] => true | _ :: _ => false end.

(* What the coordinator must guarantee about the search requests it hands to the matcher (clause 1 of hist_ok in
   MatcherProofs: "within one revision equal counts mean equal contents"), in the vocabulary of generations:
   a request searches the first `count` items of generation `gen` and is labelled with revision `rev`.  Lists are
   append-only within a generation, so (gen, count) determines the contents. *)
Record sreq := mkSreq { sr_gen : nat; sr_count : nat; sr_rev : nat }.

Definition labels_separate (posted : list sreq) : Prop :=
  forall a b, In a posted -> In b posted -> sr_rev a = sr_rev b -> sr_gen a = sr_gen b.

Fixpoint labels_clash (posted : list sreq) : bool :=   (* executable: some two requests share a revision but not a list *)
  match posted with
  | [] => false
  | a :: r => existsb (fun b => Nat.eqb (sr_rev a) (sr_rev b) && negb (Nat.eqb (sr_gen a) (sr_gen b))) r || labels_clash r
  end.
