(* C20 spec, second part: states NO preview command belongs to, and what the preview window holds.

   The property says: at quiescence the command that ran last is the one for the line under the cursor, and its
   output is what the window shows.  When there is no line under the cursor (the query matches nothing, the list is
   empty) a template that mentions the line has nothing to be substituted with: no command belongs to the state
   (man page, --preview: the command is run "for the current line"; with {q} in the template it is re-run on every
   query change, also when nothing matches; a {+} placeholder can still be filled from the selection).  For such a
   state the user's reading of the property is: the command of the EARLIER state has been superseded by "no
   preview": it is terminated, and the window shows nothing of it (a window that keeps the previous line's output
   claims an output for a line that is not under the cursor). *)
From Fzf Require Import Prelude PreviewSpec.
Open Scope Z_scope.

(* a command belongs to the state: there is a line, or the template needs none (no placeholder at all), or it is
   forced by {q}, or {+} can be filled from the selection *)
Definition has_command (t : tmpl) (u : uistate) : bool :=
  (0 <=? u_focus u) || negb (t_slot t) || t_q t || (t_plus t && nonemptyb (u_sel u)).

(* rows = number of rows of the preview window that hold any text *)
Definition window_blank (rows : nat) : bool := Nat.eqb rows 0.

(* the state is as the property wants it: either a command belongs to it (then caught_up / no_stale_alive of
   PreviewSpec speak), or none does and nothing is alive and nothing is shown *)
Definition no_command_state_ok (t : tmpl) (u : uistate) (cs : list seen_cmd) (rows : nat) : bool :=
  has_command t u || (none_alive cs && window_blank rows).

(* ------------------------------------------------------------------------------------------------
   What the window holds.  A window of h rows standing at offset off over an output of lines ls shows, top to
   bottom, lines off, off+1, ... (None = a blank row).  "Its output is what the preview window shows": the rows
   are `view` of the lines of the result that was handed to the window last. *)
Definition view {A} (ls : list A) (off : nat) (h : nat) : list (option A) :=
  map (fun i => nth_error ls (off + i)%nat) (seq 0 h).

Definition blank_rows {A} (h : nat) : list (option A) := map (fun _ => None) (seq 0 h).
