(* C12 spec, second part: WHICH shell reads an expansion, and what re-launching fzf (fzf --tmux) must hand on.
   Written from the documentation (man fzf: --with-shell "Shell command and flags to start child processes with";
   $SHELL otherwise, sh when it is unset; --tmux "starts fzf in a tmux popup" with the same arguments and
   environment), without looking at how fzf computes it.

   1. running_shell: the program that runs a command template.  The quoting dialect of {} {q} {N} {+} has to be
      the one of THAT program: fish's when its file name is fish, the POSIX one otherwise (shell_reads).
   2. an environment is a list of entries NAME=value, the name being what precedes the FIRST '='.  A shell can
      hold the entries whose name is an identifier (exportable).  What an `export ...` line does is read through
      sh_words (export_effect): the word export followed by the assignment words. *)
From Fzf Require Import Prelude ShellSpec.
Open Scope Z_scope.

(* ---------- which shell runs the command ---------- *)

Definition c_slash : Z := 47.
Definition is_blank (c : Z) : bool := ((9 <=? c) && (c <=? 13)) || (c =? 32).   (* ASCII white space *)

Fixpoint take_word (s : str) : str :=
  match s with
  | [] => []
  | c :: r => if is_blank c then [] else c :: take_word r
  end.

(* the first blank-separated word of a string; [] when there is none *)
Definition first_word (s : str) : str := take_word (drop_while is_blank s).

Definition s_sh : str := [115;104].
Definition s_fish : str := [102;105;115;104].

(* the program named by --with-shell when it names one, else $SHELL, else sh *)
Definition running_shell (env_shell with_shell : str) : str :=
  match first_word with_shell with
  | [] => match env_shell with [] => s_sh | _ => env_shell end
  | w => w
  end.

(* file name of a path: what follows its last '/' *)
Fixpoint base_name_go (s cur : str) : str :=
  match s with
  | [] => rev cur
  | c :: r => if c =? c_slash then base_name_go r [] else base_name_go r (c :: cur)
  end.
Definition base_name (s : str) : str := base_name_go s [].

Definition runs_fish (env_shell with_shell : str) : bool :=
  str_eqb (base_name (running_shell env_shell with_shell)) s_fish.

(* how the shell that runs the command reads a line of words (fish_words: a reading of the fish manual) *)
Definition shell_reads (env_shell with_shell : str) (line : str) : option (list str) :=
  if runs_fish env_shell with_shell then fish_words line else sh_words line.

(* ---------- the environment ---------- *)

Definition c_eq : Z := 61.

Fixpoint entry_name (e : str) : str :=
  match e with
  | [] => []
  | c :: r => if c =? c_eq then [] else c :: entry_name r
  end.

(* None: the entry has no '=' (not an environment variable) *)
Fixpoint entry_value (e : str) : option str :=
  match e with
  | [] => None
  | c :: r => if c =? c_eq then Some r else entry_value r
  end.

(* names a shell variable can have: a letter or _ followed by letters, digits, _ *)
Definition name_start (c : Z) : bool := ((97 <=? c) && (c <=? 122)) || ((65 <=? c) && (c <=? 90)) || (c =? 95).
Definition name_char (c : Z) : bool := name_start c || ((48 <=? c) && (c <=? 57)).
Definition shell_name (s : str) : bool :=
  match s with c :: r => name_start c && forallb name_char r | [] => false end.

Definition s_tmux_pane : str := [84;77;85;88;95;80;65;78;69].       (* TMUX_PANE: by design not handed on to a popup *)

(* the entries the re-launched fzf must see unchanged *)
Definition exportable (e : str) : bool :=
  match entry_value e with
  | Some _ => shell_name (entry_name e) && negb (str_eqb (entry_name e) s_tmux_pane)
  | None => false
  end.

Definition w_export : str := [101;120;112;111;114;116].

(* what a line `export A=x B=y` puts into the environment: its assignment words; None: not such a line *)
Definition export_effect (line : str) : option (list str) :=
  match sh_words line with
  | Some (w :: asg) => if str_eqb w w_export then Some asg else None
  | _ => None
  end.
