(* C17 spec, part 4: the value of --marker-multi-line ("Multi-select marker for multi-line entries: 3 elements for
   top, middle, and bottom", default ╻┃╹).
   A value is read as a sequence of grapheme clusters, each with its display width in terminal columns.  Unicode text
   segmentation and the East-Asian-width tables are NOT specified here: they are an input (an oracle, supplied by the
   harness from the same library the implementation uses), like the file system is for --walker-root.
   Documented meaning: the empty value means "no marker"; otherwise the total width must be 3 or 6 columns and the
   value is cut, in order, into the three elements; nothing that can be seen is lost: what is not part of an element
   is a tail of clusters of width 0. *)
From Fzf Require Import Prelude Val.
Open Scope Z_scope.

Definition cluster : Type := (str * nat)%type.              (* text, display width *)

Definition widths (cs : list cluster) : nat := fold_right (fun c n => (snd c + n)%nat) 0%nat cs.
Definition text (cs : list cluster) : str := concat (map fst cs).

Definition marker_width_ok (cs : list cluster) : bool :=
  match cs with [] => true | _ => Nat.eqb (widths cs) 3 || Nat.eqb (widths cs) 6 end.

(* `parts` is an acceptable reading of the value cs *)
Definition marker_reading (cs : list cluster) (parts : list (list cluster)) : Prop :=
  length parts = 3%nat /\
  exists dropped, concat parts ++ dropped = cs /\ Forall (fun c => snd c = 0%nat) dropped.
