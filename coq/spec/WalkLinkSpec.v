(* C19 spec, second part: directory worlds in which symbolic links form CYCLES.

   WalkSpec.v speaks about trees (`entry`): a symlink to a directory carries the content a walker that
   follows it sees below it.  With a link that leads back to a directory the path has already gone through
   (the directory the link lives in, its parent, any ancestor, the walk root, or a round trip through other
   links) that content would be infinite, and "each file exactly once" would be meaningless.  What a user
   expects, and what the man page of the walker library promises ("Follow symbolic links ignoring
   directories that would lead to infinite loops"), is the FINITE UNFOLDING defined here:

     a symbolic link whose target is one of the directories on the way from the root down to the link
     (the link's textual ancestors, root included; for a root given by a relative path also the
     directories the root string goes through, starting at the current directory) is listed like any
     other followed link - once, with the trailing separator - but it is not entered: it is a leaf.

   The world is a graph: directories are numbered, an entry names a real sub-directory or the target of a
   link by its number.  `unfold` turns (graph, directories on the way so far, content of a directory) into
   the tree of WalkSpec.v; fuel bounds the depth only (unfold_fuel_irrelevant), the result does not depend
   on it.  This file does not look at how fzf / fastwalk compute anything. *)
From Fzf Require Import Prelude WalkSpec.
Open Scope Z_scope.

Inductive gent :=
| GFile (nm : str)                 (* a file *)
| GDir (nm : str) (id : nat)       (* a real sub-directory: directory number id *)
| GSymFile (nm : str)              (* a link to a file, or a dangling link *)
| GSymDir (nm : str) (id : nat).   (* a link whose target is directory number id *)

Definition gname (e : gent) : str :=
  match e with GFile n | GDir n _ | GSymFile n | GSymDir n _ => n end.

(* directory number -> its entries (first binding wins; an unbound number is an empty directory) *)
Definition gworld := list (nat * list gent).

Fixpoint content (g : gworld) (id : nat) : list gent :=
  match g with
  | [] => []
  | (i, l) :: r => if Nat.eqb i id then l else content r id
  end.

(* is directory id one of the directories the path has gone through? *)
Definition on_path (id : nat) (path : list nat) : bool := existsb (Nat.eqb id) path.

Fixpoint all_some {A} (l : list (option A)) : option (list A) :=
  match l with
  | [] => Some []
  | None :: _ => None
  | Some x :: r => match all_some r with Some t => Some (x :: t) | None => None end
  end.

(* one entry, given how to unfold the content of a directory that is entered (`below`) *)
Definition unfold_ent (below : list nat -> list gent -> option (list entry)) (g : gworld) (path : list nat)
  (e : gent) : option entry :=
  match e with
  | GFile nm => Some (File nm)
  | GSymFile nm => Some (SymFile nm)
  | GDir nm id => option_map (Dir nm) (below (id :: path) (content g id))
  | GSymDir nm id =>
      if on_path id path then Some (SymDir nm [])                   (* leads back: a leaf *)
      else option_map (SymDir nm) (below (id :: path) (content g id))
  end.

(* path: numbers of the directories gone through so far, the one whose content l is included *)
Fixpoint unfold (fuel : nat) (g : gworld) (path : list nat) (l : list gent) : option (list entry) :=
  match fuel with
  | O => None
  | S f => all_some (map (unfold_ent (unfold f g) g path) l)
  end.

(* ---- vocabulary of the theorems ---- *)

(* how many followed links with something below them are nested on the deepest branch *)
Fixpoint link_depth (e : entry) : nat :=
  match e with
  | File _ | SymFile _ => O
  | Dir _ ch => list_max (map link_depth ch)
  | SymDir _ tg => match tg with [] => O | _ => S (list_max (map link_depth tg)) end
  end.

(* directories of the world the path has not gone through yet *)
Definition fresh_dirs (g : gworld) (path : list nat) : nat :=
  length (filter (fun id => negb (on_path id path)) (map fst g)).

Definition gworld_ok (g : gworld) : Prop :=
  Forall (fun b => Forall (fun e => name_ok (gname e)) (snd b)) g.
