(* C09 spec: what a user expects of the query line, the list cursor and the selection,
   written from the man page (KEY/EVENT BINDINGS, AVAILABLE ACTIONS, --multi, --cycle, --layout),
   not from terminal.go.
   - the query line is a readline-style ZIPPER: (characters before the cursor, nearest first;
     characters after the cursor; kill buffer)
   - the list cursor is a position inside the current result list (0 when the list is empty)
   - the selection is an ORDERED finite set of items (order of selection) with a limit. *)
From Fzf Require Import Prelude.
Open Scope Z_scope.

Definition MAXQ : nat := 1000.        (* documented: the query is limited to 1000 characters *)
Definition NLc : Z := 10.
Definition PATHSEP : Z := 47.         (* --filepath-word: words are delimited by the path separator *)

Definition item := (Z * str)%type.    (* (index of the input line, its text) *)
Definition idx (it : item) : Z := fst it.

(* the vocabulary of the property: fzf's bindable editing / navigation / selection actions,
   plus the three things that happen to the interface from outside an action list:
   end of an event (query truncation), a redraw, a new result list *)
Inductive act :=
| AChar (c : Z) | APut (s : str)
| ABackwardDeleteChar | ADeleteChar | ABackwardChar | AForwardChar | ABeginningOfLine | AEndOfLine
| AKillLine | AUnixLineDiscard | AUnixWordRubout | ABackwardKillWord | ABackwardWord | AForwardWord | AKillWord
| AYank | AClearQuery | ACancel | AChangeQuery (s : str) | AReplaceQuery
| AUp | ADown | AFirst | ALast | APos (n : Z) | APageUp | APageDown | AHalfPageUp | AHalfPageDown
| AToggle | AToggleIn | AToggleOut
| ASelect | ADeselect | ASelectAll | ADeselectAll | AToggleAll | AClearSelection
| ATruncate                           (* end of an event: the query is cut to MAXQ characters *)
| ARender                             (* the list is redrawn *)
| AUpdate (rs : list item) (reload : bool).   (* a new result list arrives; reload = the input was re-read *)

(* ------------------------------------------------------------------ editor *)

Record zip := mkZip { zb : str (* before the cursor, nearest first *); za : str; zk : str (* kill buffer *) }.
Definition ztext (z : zip) : str := rev (zb z) ++ za z.
Definition zpos (z : zip) : nat := length (zb z).

Definition is_blank (c : Z) : bool := (c =? 32) || (c =? 9) || (c =? 10) || (c =? 12) || (c =? 13).

(* how far a word motion travels over l (the characters in travelling order):
   first the characters that are not part of a word, then one word *)
Definition word_span (isw : Z -> bool) (l : str) : nat :=
  (length l - length (drop_while isw (drop_while (fun c => negb (isw c)) l)))%nat.

Definition move_left (k : nat) (z : zip) : zip := mkZip (skipn k (zb z)) (rev (firstn k (zb z)) ++ za z) (zk z).
Definition move_right (k : nat) (z : zip) : zip := mkZip (rev (firstn k (za z)) ++ zb z) (skipn k (za z)) (zk z).
(* killing nothing leaves the kill buffer alone *)
Definition kill_left (k : nat) (z : zip) : zip :=
  match k with O => z | _ => mkZip (skipn k (zb z)) (za z) (rev (firstn k (zb z))) end.
Definition kill_right (k : nat) (z : zip) : zip :=
  match k with O => z | _ => mkZip (zb z) (skipn k (za z)) (firstn k (za z)) end.
Definition zinsert (s : str) (z : zip) : zip := mkZip (rev s ++ zb z) (za z) (zk z).

Inductive ecmd :=
| EInsert (s : str) | EBackDel | EDel | ELeft | ERight | EHome | EEnd
| EKillLine | ELineDiscard | EWordRubout | EBackKillWord | EBackWord | EFwdWord | EKillWord
| EYank | EClear | ECancel | ESet (s : str) | ETrunc | ENop.

Section Editor.
  Variable isw : Z -> bool.           (* "part of a word": letter or digit; under --filepath-word: not the path separator *)

  Definition zstep (z : zip) (c : ecmd) : zip :=
    match c with
    | EInsert s => zinsert s z
    | EBackDel => mkZip (tl (zb z)) (za z) (zk z)
    | EDel => mkZip (zb z) (tl (za z)) (zk z)
    | ELeft => move_left 1 z
    | ERight => move_right 1 z
    | EHome => move_left (length (zb z)) z
    | EEnd => move_right (length (za z)) z
    | EKillLine => kill_right (length (za z)) z
    | ELineDiscard => kill_left (length (zb z)) z
    | EWordRubout => kill_left (word_span (fun c => negb (is_blank c)) (zb z)) z
    | EBackKillWord => kill_left (word_span isw (zb z)) z
    | EBackWord => move_left (word_span isw (zb z)) z
    | EFwdWord => move_right (word_span isw (za z)) z
    | EKillWord => kill_right (word_span isw (za z)) z
    | EYank => zinsert (zk z) z
    | EClear => mkZip [] [] (zk z)
    | ECancel => match ztext z with [] => z | t => mkZip [] [] t end
    | ESet s => mkZip (rev s) [] (zk z)
    | ETrunc =>   (* keep the first MAXQ characters; the cursor stays inside *)
        let b := skipn (length (zb z) - MAXQ) (zb z) in
        mkZip b (firstn (MAXQ - length b) (za z)) (zk z)
    | ENop => z
    end.
End Editor.

(* ------------------------------------------------------------------ list cursor *)

Definition clampz (v lo hi : Z) : Z := if v <? lo then lo else if hi <? v then hi else v.
(* a position inside a list of count lines; 0 when the list is empty *)
Definition clamp_pos (count p : Z) : Z := clampz p 0 (Z.max 0 (count - 1)).

(* d = +1: towards higher positions ("up" in the default layout) *)
Definition cur_move (cycle : bool) (count pos d : Z) : Z :=
  let dest := pos + d in
  if cycle && (count - 1 <? dest) && (pos =? count - 1) then clamp_pos count 0
  else if cycle && (dest <? 0) && (pos =? 0) then clamp_pos count (count - 1)
  else clamp_pos count dest.

(* ------------------------------------------------------------------ selection *)

Definition sel_mem (i : Z) (sel : list item) : bool := existsb (fun it => idx it =? i) sel.
Definition sel_remove (i : Z) (sel : list item) : list item := filter (fun it => negb (idx it =? i)) sel.
(* adding respects the limit and keeps the order of selection; returns false when the limit is hit *)
Definition sel_add (limit : Z) (it : item) (sel : list item) : bool * list item :=
  if limit <=? Z.of_nat (length sel) then (false, sel)
  else if sel_mem (idx it) sel then (true, sel) else (true, sel ++ [it]).
Definition sel_toggle (limit : Z) (it : item) (sel : list item) : bool * list item :=
  if sel_mem (idx it) sel then (true, sel_remove (idx it) sel) else sel_add limit it sel.
(* add the lines of rs in order, stopping at the limit *)
Fixpoint sel_add_all (limit : Z) (rs : list item) (sel : list item) : list item :=
  match rs with
  | [] => sel
  | it :: r => let '(ok, sel') := sel_add limit it sel in if ok then sel_add_all limit r sel' else sel'
  end.
Definition sel_remove_all (rs : list item) (sel : list item) : list item :=
  filter (fun it => negb (sel_mem (idx it) rs)) sel.
(* toggle-all: the selected result lines become unselected, the others selected (as far as the limit allows) *)
Definition sel_toggle_all (limit : Z) (rs : list item) (sel : list item) : list item :=
  sel_add_all limit (filter (fun it => negb (sel_mem (idx it) sel)) rs) (sel_remove_all rs sel).

(* what accept prints: the selection in order of selection, or else the current line *)
Definition spec_output (sel : list item) (current : option item) : list item :=
  match sel with [] => match current with Some it => [it] | None => [] end | _ => sel end.

(* ------------------------------------------------------------------ the whole interface, as a user sees it *)

Record sparams := mkSP { sp_multi : Z; sp_cycle : bool; sp_flip : bool (* layout is not the default one *);
                         sp_page : Z (* lines of the list that fit the window *); sp_noinput : bool }.
Record sstate := mkSS { ss_zip : zip; ss_res : list item; ss_pos : Z; ss_sel : list item }.

Definition ss_count (s : sstate) : Z := Z.of_nat (length (ss_res s)).
Definition ss_current (s : sstate) : option item :=
  if (0 <=? ss_pos s) && (ss_pos s <? ss_count s) then nth_error (ss_res s) (Z.to_nat (ss_pos s)) else None.

Section Interface.
  Variable isw : Z -> bool.
  Variable p : sparams.

  Definition ecmd_of_spec (s : sstate) (a : act) : ecmd :=
    match a with
    | AChar c => EInsert [c] | APut t => EInsert t
    | ABackwardDeleteChar => EBackDel | ADeleteChar => EDel | ABackwardChar => ELeft | AForwardChar => ERight
    | ABeginningOfLine => EHome | AEndOfLine => EEnd | AKillLine => EKillLine | AUnixLineDiscard => ELineDiscard
    | AUnixWordRubout => EWordRubout | ABackwardKillWord => EBackKillWord | ABackwardWord => EBackWord
    | AForwardWord => EFwdWord | AKillWord => EKillWord | AYank => EYank | AClearQuery => EClear | ACancel => ECancel
    | AChangeQuery t => ESet t
    | AReplaceQuery => match ss_current s with Some it => ESet (snd it) | None => ENop end
    | ATruncate => ETrunc
    | _ => ENop
    end.

  Definition dirz (up : bool) : Z := if xorb up (sp_flip p) then 1 else -1.
  Definition with_pos (s : sstate) (q : Z) := mkSS (ss_zip s) (ss_res s) q (ss_sel s).
  Definition with_sel (s : sstate) (sel : list item) := mkSS (ss_zip s) (ss_res s) (ss_pos s) sel.
  Definition smove (s : sstate) (up : bool) : sstate :=
    with_pos s (cur_move (sp_cycle p) (ss_count s) (ss_pos s) (dirz up)).
  Definition stoggle (s : sstate) : bool * sstate :=
    match ss_current s with
    | Some it => if 0 <? sp_multi p then let '(ok, sel) := sel_toggle (sp_multi p) it (ss_sel s) in (ok, with_sel s sel)
                 else (false, s)
    | None => (false, s)
    end.

  Definition sstep_list (s : sstate) (a : act) : sstate :=
    let count := ss_count s in
    let multi := 0 <? sp_multi p in
    match a with
    | AUp => smove s true
    | ADown => smove s false
    | AFirst => with_pos s (clamp_pos count 0)
    | ALast => with_pos s (clamp_pos count (count - 1))
    | APos n => with_pos s (clamp_pos count (if 0 <? n then n - 1 else if n <? 0 then n + count else n))
    | APageUp => with_pos s (clamp_pos count (ss_pos s + dirz true * Z.max 1 (sp_page p - 1)))
    | APageDown => with_pos s (clamp_pos count (ss_pos s + dirz false * Z.max 1 (sp_page p - 1)))
    | AHalfPageUp => with_pos s (clamp_pos count (ss_pos s + dirz true * Z.max 1 (sp_page p / 2)))
    | AHalfPageDown => with_pos s (clamp_pos count (ss_pos s + dirz false * Z.max 1 (sp_page p / 2)))
    | AToggle => snd (stoggle s)
    (* man page: toggle-in = (--layout=reverse* ? toggle+up : toggle+down), toggle-out the other way round *)
    | AToggleIn => smove (snd (stoggle s)) (sp_flip p)
    | AToggleOut => smove (snd (stoggle s)) (negb (sp_flip p))
    | ASelect => match ss_current s with
                 | Some it => if multi then with_sel s (snd (sel_add (sp_multi p) it (ss_sel s))) else s
                 | None => s end
    | ADeselect => match ss_current s with
                   | Some it => if multi then with_sel s (sel_remove (idx it) (ss_sel s)) else s
                   | None => s end
    | ASelectAll => if multi then with_sel s (sel_add_all (sp_multi p) (ss_res s) (ss_sel s)) else s
    | ADeselectAll => if multi then with_sel s (sel_remove_all (ss_res s) (ss_sel s)) else s
    | AToggleAll => if multi then with_sel s (sel_toggle_all (sp_multi p) (ss_res s) (ss_sel s)) else s
    | AClearSelection => if multi then with_sel s [] else s
    | AUpdate rs reload =>
        (* selections survive a new result list and are dropped when the input is re-read;
           the cursor keeps its position as far as the new list allows *)
        mkSS (ss_zip s) rs (clamp_pos (Z.of_nat (length rs)) (ss_pos s)) (if reload then [] else ss_sel s)
    | _ => s
    end.

  Definition sstep (s : sstate) (a : act) : sstate :=
    let s1 := sstep_list s a in
    if sp_noinput p then s1    (* without an input section the query cannot be edited *)
    else mkSS (zstep isw (ss_zip s) (ecmd_of_spec s a)) (ss_res s1) (ss_pos s1) (ss_sel s1).

  Definition srun (s : sstate) (acts : list act) : sstate := fold_left sstep acts s.
End Interface.

(* ------------------------------------------------------------------ predicates on ONE observed state
   (what GET / reports: count of results, position, index of the current line or none, result indexes,
   selected indexes in order) *)
Definition obs_cursor_ok (count pos : Z) (current : option Z) (matches : list Z) : bool :=
  if count =? 0 then match current with None => true | Some _ => false end
  else (0 <=? pos) && (pos <? count) &&
       match current, nth_error matches (Z.to_nat pos) with
       | Some c, Some m => c =? m
       | _, _ => false
       end.
Fixpoint nodupz (l : list Z) : bool :=
  match l with [] => true | x :: r => negb (existsb (Z.eqb x) r) && nodupz r end.
Definition obs_sel_ok (multi : Z) (sel : list Z) : bool :=
  (Z.of_nat (length sel) <=? multi) && nodupz sel.
