(* C06 spec: what "every input record becomes exactly one item, in order, unaltered"
   means, written without looking at how reader.go / chunklist.go / core.go compute it.

   A stream is a byte string.  Its records are the pieces between delimiters
   (newline 10, or NUL 0 under --read0); a final piece without a terminating delimiter is a
   record iff it is non-empty.  Empty records in the middle are records.
   --header-lines=N diverts the first N records; items are numbered 0,1,2,.. in stream order
   after the header; --tail=N keeps the last N items, numbering unchanged. *)
From Fzf Require Import Prelude.
Open Scope Z_scope.

Definition NLB : Z := 10.
Definition NUL : Z := 0.
Definition delim_of (read0 : bool) : Z := if read0 then NUL else NLB.

(* cur = the bytes of the record being read, newest first; unrev = List.rev, linear time *)
Definition unrev (cur : str) : str := rev_append cur [].
Fixpoint split_acc (d : Z) (cur : str) (s : str) : list str :=
  match s with
  | [] => match cur with [] => [] | _ => [unrev cur] end
  | c :: r => if c =? d then unrev cur :: split_acc d [] r else split_acc d (c :: cur) r
  end.

Definition split_records (d : Z) (s : str) : list str := split_acc d [] s.

(* the inverse direction, used to state that split_records is THE reading of a stream:
   a stream written as terminated records followed by an unterminated tail *)
Definition terminated (d : Z) (rs : list str) : str := concat (map (fun r => r ++ [d]) rs).
Definition delim_free (d : Z) (r : str) : Prop := Forall (fun c => c <> d) r.

(* items: (index, content) *)
Definition item := (nat * str)%type.

Fixpoint number_from (k : nat) (rs : list str) : list item :=
  match rs with
  | [] => []
  | r :: t => (k, r) :: number_from (S k) t
  end.

Definition header_of (hl : nat) (recs : list str) : list str := firstn hl recs.
Definition items_of (hl : nat) (recs : list str) : list item := number_from 0 (skipn hl recs).

(* tail = 0 means no --tail *)
Definition keep_tail {A} (tail : nat) (l : list A) : list A :=
  match tail with O => l | _ => last_n tail l end.

(* what is searchable after the whole stream was read *)
Definition searchable (read0 : bool) (hl tail : nat) (s : str) : list item :=
  keep_tail tail (items_of hl (split_records (delim_of read0) s)).

(* what `fzf --filter ''` lists (the empty query matches every item and gives nothing to rank by): the
   searchable items in stream order, newest first under --tac.  Which of fzf's internal filter paths
   (--no-sort, --sync, ...) produces the listing must not matter. *)
Definition filter_listing (read0 tac : bool) (hl tail : nat) (s : str) : list item :=
  let l := searchable read0 hl tail s in if tac then rev l else l.

(* an interactive session that replaces its input (reload / reload-sync): once a stream has been read
   completely, the list is the reading of THAT stream alone - numbered from its own start - whatever
   was loaded before it *)
Definition session_views (read0 : bool) (hl tail : nat) (streams : list str) : list (list item) :=
  map (searchable read0 hl tail) streams.
