(* C11 spec: what --ansi removes from a line and which colour a terminal would
   give each remaining character.  Written from the terminal-control grammar
   (DESIGN §5 C11), not from how ansi.go scans.  Byte strings are [list Z]. *)
From Fzf Require Import Prelude.
Open Scope Z_scope.

(* ---------- bytes and classes (documented ASCII values) ---------- *)
Definition ESC : Z := 27.
Definition BS : Z := 8.
Definition SO : Z := 14.
Definition SI : Z := 15.
Definition BEL : Z := 7.
Definition LF : Z := 10.

Definition in_rng (lo hi c : Z) : bool := (lo <=? c) && (c <=? hi).
Definition is_digit (c : Z) : bool := in_rng 48 57 c.                       (* 0-9 *)
Definition is_sep (c : Z) : bool := (c =? 59) || (c =? 58).                 (* ; : *)
Definition is_param (c : Z) : bool := is_digit c || is_sep c || (c =? 63).  (* 0-9 ; : ? *)
Definition is_final (c : Z) : bool := in_rng 97 122 c || in_rng 65 90 c || (c =? 64). (* a-z A-Z @ *)
Definition is_intro (c : Z) : bool := (c =? 92) || (c =? 91) || (c =? 40) || (c =? 41). (* \ [ ( ) *)
Definition is_print (c : Z) : bool := in_rng 32 126 c.
Definition is_ctl (c : Z) : bool := (c =? ESC) || (c =? SO) || (c =? SI) || (c =? BS).
Definition control_free (s : str) : Prop := Forall (fun c => is_ctl c = false) s.

(* ---------- UTF-8 (documented meaning of Go's unicode/utf8: an ill-formed byte is a rune of width 1) ---------- *)
Definition is_cont (c : Z) : bool := in_rng 128 191 c.
Definition rune_len (s : str) : nat :=
  match s with
  | [] => 0%nat
  | b0 :: r =>
    if b0 <? 128 then 1%nat
    else if in_rng 194 223 b0 then
      match r with b1 :: _ => if is_cont b1 then 2%nat else 1%nat | _ => 1%nat end
    else if in_rng 224 239 b0 then
      match r with
      | b1 :: b2 :: _ =>
        if in_rng (if b0 =? 224 then 160 else 128) (if b0 =? 237 then 159 else 191) b1 && is_cont b2 then 3%nat else 1%nat
      | _ => 1%nat end
    else if in_rng 240 244 b0 then
      match r with
      | b1 :: b2 :: b3 :: _ =>
        if in_rng (if b0 =? 240 then 144 else 128) (if b0 =? 244 then 143 else 191) b1 && is_cont b2 && is_cont b3 then 4%nat else 1%nat
      | _ => 1%nat end
    else 1%nat
  end.

(* number of runes: [skip] bytes of the current rune still to pass *)
Fixpoint rune_count_aux (skip : nat) (s : str) : nat :=
  match s with
  | [] => 0%nat
  | _ :: r => match skip with
              | S k => rune_count_aux k r
              | O => S (rune_count_aux (rune_len s - 1) r)
              end
  end.
Definition rune_count (s : str) : nat := rune_count_aux 0 s.

(* ---------- the grammar of control sequences ---------- *)
Fixpoint take_while (p : Z -> bool) (s : str) : str :=
  match s with
  | c :: r => if p c then c :: take_while p r else []
  | [] => []
  end.

(* (1) CSI and friends:  ESC [\[()] [0-9;:?]* [A-Za-z@] *)
Definition m_csi (s : str) : option nat :=
  match s with
  | e :: c :: r =>
    if (e =? ESC) && is_intro c then
      let ps := take_while is_param r in
      match drop_while is_param r with
      | f :: _ => if is_final f then Some (3 + length ps)%nat else None
      | [] => None
      end
    else None
  | _ => None
  end.

(* (2) OSC:  ESC ] digit+ [;:] print+ ( BEL | ESC \ | ESC when the text so far is exactly ESC ] 8 ; ; ) *)
Definition osc8_close_head : str := [ESC; 93; 56; 59; 59].
Definition m_osc (s : str) : option nat :=
  match s with
  | e :: c :: r =>
    if (e =? ESC) && (c =? 93) then
      let ds := take_while is_digit r in
      match ds, drop_while is_digit r with
      | _ :: _, sep :: r2 =>
        if is_sep sep then
          let ps := take_while is_print r2 in
          match ps, drop_while is_print r2 with
          | _ :: _, t :: r3 =>
            let n := (3 + length ds + length ps)%nat in    (* bytes before the terminator *)
            if t =? BEL then Some (S n)
            else if t =? ESC then
              match r3 with
              | 92 :: _ => Some (S (S n))
              | _ => if str_eqb (e :: c :: ds ++ sep :: ps) osc8_close_head then Some (S n) else None
              end
            else None
          | _, _ => None
          end
        else None
      | _, _ => None
      end
    else None
  | _ => None
  end.

(* (3) ESC followed by any character except newline *)
Definition m_esc2 (s : str) : option nat :=
  match s with
  | e :: c :: r => if (e =? ESC) && negb (c =? LF) then Some (1 + rune_len (c :: r))%nat else None
  | _ => None
  end.

(* (4) shift out / shift in *)
Definition m_shift (s : str) : option nat :=
  match s with
  | c :: _ => if (c =? SO) || (c =? SI) then Some 1%nat else None
  | [] => None
  end.

(* (5) any character except newline, struck out by a following backspace *)
Definition m_bs (s : str) : option nat :=
  match s with
  | c :: _ =>
    if c =? LF then None
    else match skipn (rune_len s) s with
         | b :: _ => if b =? BS then Some (S (rune_len s)) else None
         | [] => None
         end
  | [] => None
  end.

Definition orelse {A} (a b : option A) : option A := match a with Some _ => a | None => b end.

(* length of the sequence that starts at the head of s: first alternative that applies *)
Definition match_at (s : str) : option nat :=
  orelse (m_csi s) (orelse (m_osc s) (orelse (m_esc2 s) (orelse (m_shift s) (m_bs s)))).

(* leftmost position with a match; (start, end) *)
Fixpoint first_match_from (off : nat) (s : str) : option (nat * nat) :=
  match s with
  | [] => None
  | _ :: r => match match_at s with
              | Some n => Some (off, (off + n)%nat)
              | None => first_match_from (S off) r
              end
  end.
Definition first_match (s : str) : option (nat * nat) := first_match_from 0 s.

(* delete matches left to right: [skip] = bytes of the current match still to delete *)
Fixpoint strip_aux (skip : nat) (s : str) : str :=
  match s with
  | [] => []
  | c :: r => match skip with
              | S k => strip_aux k r
              | O => match match_at s with
                     | Some n => strip_aux (n - 1) r
                     | None => c :: strip_aux 0 r
                     end
              end
  end.
Definition strip_spec (s : str) : str := strip_aux 0 s.

(* runes of text kept, counted piece by piece between matches, as a terminal's cursor would
   (= rune_count (strip_spec s) when every piece of text is whole UTF-8, e.g. ASCII) *)
Fixpoint kept_runes_aux (skip : nat) (cur : str) (s : str) : nat :=   (* cur: current piece, reversed *)
  match s with
  | [] => rune_count (rev cur)
  | c :: r => match skip with
              | S k => kept_runes_aux k cur r
              | O => match match_at s with
                     | Some n => (rune_count (rev cur) + kept_runes_aux (n - 1) [] r)%nat
                     | None => kept_runes_aux 0 (c :: cur) r
                     end
              end
  end.
Definition kept_runes (s : str) : nat := kept_runes_aux 0 [] s.

(* ---------- SGR: what a terminal does with ESC [ p1 ; p2 ; ... m ---------- *)
Inductive colour := CDefault | CIdx (n : Z) | CRGB (r g b : Z).
Record attrs := mkAttrs { a_bold : bool; a_dim : bool; a_italic : bool; a_underline : bool;
                          a_blink : bool; a_reverse : bool; a_strike : bool }.
Record sgr := mkSgr { s_fg : colour; s_bg : colour; s_at : attrs }.
Definition no_attrs := mkAttrs false false false false false false false.
Definition sgr_reset := mkSgr CDefault CDefault no_attrs.

Definition set_at (a : attrs) (k : Z) (v : bool) : attrs :=
  if k =? 1 then mkAttrs v (a_dim a) (a_italic a) (a_underline a) (a_blink a) (a_reverse a) (a_strike a)
  else if k =? 2 then mkAttrs (a_bold a) v (a_italic a) (a_underline a) (a_blink a) (a_reverse a) (a_strike a)
  else if k =? 3 then mkAttrs (a_bold a) (a_dim a) v (a_underline a) (a_blink a) (a_reverse a) (a_strike a)
  else if k =? 4 then mkAttrs (a_bold a) (a_dim a) (a_italic a) v (a_blink a) (a_reverse a) (a_strike a)
  else if k =? 5 then mkAttrs (a_bold a) (a_dim a) (a_italic a) (a_underline a) v (a_reverse a) (a_strike a)
  else if k =? 7 then mkAttrs (a_bold a) (a_dim a) (a_italic a) (a_underline a) (a_blink a) v (a_strike a)
  else if k =? 9 then mkAttrs (a_bold a) (a_dim a) (a_italic a) (a_underline a) (a_blink a) (a_reverse a) v
  else a.

Definition with_fg (s : sgr) (c : colour) := mkSgr c (s_bg s) (s_at s).
Definition with_bg (s : sgr) (c : colour) := mkSgr (s_fg s) c (s_at s).
Definition with_at (s : sgr) (a : attrs) := mkSgr (s_fg s) (s_bg s) a.

(* one simple parameter *)
Definition sgr_one (p : Z) (s : sgr) : sgr :=
  if p =? 0 then sgr_reset
  else if (p =? 1) || (p =? 2) || (p =? 3) || (p =? 4) || (p =? 5) || (p =? 7) || (p =? 9)
       then with_at s (set_at (s_at s) p true)
  else if p =? 22 then with_at s (set_at (set_at (s_at s) 1 false) 2 false)
  else if (p =? 23) || (p =? 24) || (p =? 25) || (p =? 27) || (p =? 29)
       then with_at s (set_at (s_at s) (p - 20) false)
  else if in_rng 30 37 p then with_fg s (CIdx (p - 30))
  else if p =? 39 then with_fg s CDefault
  else if in_rng 40 47 p then with_bg s (CIdx (p - 40))
  else if p =? 49 then with_bg s CDefault
  else if in_rng 90 97 p then with_fg s (CIdx (p - 90 + 8))
  else if in_rng 100 107 p then with_bg s (CIdx (p - 100 + 8))
  else s.    (* attributes fzf does not have (conceal, overline, ...) are ignored *)

(* parameter list; extended colours take 38/48 ; 5 ; n  or  38/48 ; 2 ; r ; g ; b *)
Fixpoint sgr_params (fuel : nat) (ps : list Z) (s : sgr) : sgr :=
  match fuel with
  | O => s
  | S fuel =>
    match ps with
    | [] => s
    | p :: r =>
      if (p =? 38) || (p =? 48) then
        match r with
        | 5 :: n :: r' => sgr_params fuel r' (if p =? 38 then with_fg s (CIdx n) else with_bg s (CIdx n))
        | 2 :: cr :: cg :: cb :: r' =>
            sgr_params fuel r' (if p =? 38 then with_fg s (CRGB cr cg cb) else with_bg s (CRGB cr cg cb))
        | _ => s                         (* ill-formed: outside the documented domain *)
        end
      else sgr_params fuel r (sgr_one p s)
    end
  end.
Definition sgr_apply (ps : list Z) (s : sgr) : sgr :=
  match ps with [] => sgr_reset | _ => sgr_params (length ps) ps s end.

(* the documented domain of the colouring equality *)
Definition byte_val (n : Z) : bool := in_rng 0 255 n.
Fixpoint sgr_wf_aux (fuel : nat) (ps : list Z) : bool :=
  match fuel with
  | O => match ps with [] => true | _ => false end
  | S fuel =>
    match ps with
    | [] => true
    | p :: r =>
      if (p =? 38) || (p =? 48) then
        match r with
        | 5 :: n :: r' => byte_val n && sgr_wf_aux fuel r'
        | 2 :: cr :: cg :: cb :: r' => byte_val cr && byte_val cg && byte_val cb && sgr_wf_aux fuel r'
        | _ => false
        end
      else (0 <=? p) && sgr_wf_aux fuel r
    end
  end.
Definition sgr_wf (ps : list Z) : bool := sgr_wf_aux (length ps) ps.

(* numbers fzf's tui layer uses for colours and attributes (documented in tui.go: -1 default,
   0..255 palette, 2^24 + 0xRRGGBB true colour; attribute bits 1,2,4,8,16,64,128) *)
Definition enc_colour (c : colour) : Z :=
  match c with
  | CDefault => -1
  | CIdx n => n
  | CRGB r g b => 16777216 + r * 65536 + g * 256 + b
  end.
Definition bit (b : bool) (v : Z) : Z := if b then v else 0.
Definition enc_attrs (a : attrs) : Z :=
  bit (a_bold a) 1 + bit (a_dim a) 2 + bit (a_italic a) 4 + bit (a_underline a) 8 +
  bit (a_blink a) 16 + bit (a_reverse a) 64 + bit (a_strike a) 128.

(* decimal text of the parameters: each parameter is a non-empty digit string *)
Definition dec_val (ds : str) : Z := fold_left (fun acc d => acc * 10 + (d - 48)) ds 0.
Definition all_digits (ds : str) : bool := nonemptyb ds && forallb is_digit ds.
Definition render_sgr (dss : list str) : str := ESC :: 91 :: concat_map_sep 59 dss ++ [109].

(* ---------- well-formedness of colour spans ---------- *)
(* spans (begin, end) in order, non-overlapping, inside [0, n] *)
Fixpoint spans_ok (lo : nat) (sp : list (nat * nat)) (n : nat) : Prop :=
  match sp with
  | [] => (lo <= n)%nat
  | (b, e) :: r => (lo <= b)%nat /\ (b <= e)%nat /\ spans_ok e r n
  end.
Fixpoint spans_okb (lo : nat) (sp : list (nat * nat)) (n : nat) : bool :=
  match sp with
  | [] => Nat.leb lo n
  | (b, e) :: r => Nat.leb lo b && Nat.leb b e && spans_okb e r n
  end.


(* ---------- omitted parameters and sub-parameters (ECMA-48 5.4.2, ITU T.416) ---------- *)
(* A parameter string is a list of parameters separated by ';'.  A parameter may be omitted: it then has its
   default value, which is 0 for SGR (so ESC[m, ESC[;m, ESC[;;m all reset).  A parameter may be split into
   sub-parameters by ':'; a sub-parameter may be omitted too.  xterm, VTE, kitty, foot, konsole, ... accept an
   extended colour written as ONE parameter with sub-parameters:
       38:5:n      38:2:r:g:b      38:2:<colour space>:r:g:b      (48 likewise)
   The colour-space identifier of the T.416 form is normally omitted, which gives 38:2::r:g:b; the five-part
   form without that slot is the one xterm and konsole introduced first.  Both mean rgb(r,g,b), exactly like
   38;2;r;g;b. *)
Definition xparam := list (option Z).          (* the sub-parameters of one parameter; None: omitted *)
Definition pnum (o : option Z) : Z := match o with Some v => v | None => 0 end.

Definition xcol_set (p : Z) (c : colour) (s : sgr) : sgr :=
  if p =? 38 then with_fg s c else if p =? 48 then with_bg s c else s.

(* one parameter that carries sub-parameters *)
Definition sgr_sub (subs : xparam) (s : sgr) : sgr :=
  match subs with
  | [Some p; Some m; Some n] => if m =? 5 then xcol_set p (CIdx n) s else s
  | [Some p; Some m; Some r; Some g; Some b] => if m =? 2 then xcol_set p (CRGB r g b) s else s
  | [Some p; Some m; _; Some r; Some g; Some b] => if m =? 2 then xcol_set p (CRGB r g b) s else s
  | _ => s      (* other sub-parameter forms (4:3 curly underline, 58:... underline colour) are not read here *)
  end.

(* ESC [ p1 ; ... ; pk ; <last> m : plain parameters (possibly omitted), then optionally one parameter with
   sub-parameters.  (A parameter with sub-parameters FOLLOWED by more parameters is outside this reading: fzf
   drops it, see DESIGN 5 C11.) *)
Record xsgr := mkX { x_ps : list (option Z); x_last : option xparam }.
Definition sgr_xapply (x : xsgr) (s : sgr) : sgr :=
  let ps := map pnum (x_ps x) in
  match x_last x with
  | None => sgr_apply ps s
  | Some subs => sgr_sub subs (sgr_params (length ps) ps s)
  end.

(* the part of it on which fzf is claimed to do what a terminal does: the plain parameters are all given and in
   the documented domain (sgr_wf), or all of them are omitted; the last parameter, when it has sub-parameters,
   is a complete extended colour with components 0..255 and no colour-space identifier *)
Definition is_given (o : option Z) : bool := match o with Some _ => true | None => false end.
Definition xcol_wf (subs : xparam) : bool :=
  match subs with
  | [Some p; Some m; Some n] => ((p =? 38) || (p =? 48)) && (m =? 5) && byte_val n
  | [Some p; Some m; Some r; Some g; Some b] =>
      ((p =? 38) || (p =? 48)) && (m =? 2) && byte_val r && byte_val g && byte_val b
  | [Some p; Some m; None; Some r; Some g; Some b] =>
      ((p =? 38) || (p =? 48)) && (m =? 2) && byte_val r && byte_val g && byte_val b
  | _ => false
  end.
Definition sgr_xwf (x : xsgr) : bool :=
  match x_last x with
  | None => (forallb is_given (x_ps x) && sgr_wf (map pnum (x_ps x)))
            || (nonemptyb (x_ps x) && forallb (fun o => negb (is_given o)) (x_ps x))
  | Some subs => forallb is_given (x_ps x) && sgr_wf (map pnum (x_ps x)) && xcol_wf subs
  end.

(* text of such a sequence: digit strings, [] for an omitted (sub-)parameter *)
Definition sub_val (ds : str) : option Z := match ds with [] => None | _ => Some (dec_val ds) end.
Definition render_sgr_x (dss : list str) (last : option (list str)) : str :=
  ESC :: 91 ::
    match last with
    | None => concat_map_sep 59 dss
    | Some tl => match dss with [] => [] | _ => concat_map_sep 59 dss ++ [59] end ++ concat_map_sep 58 tl
    end ++ [109].

(* ---------- what a terminal shows: a stream of text and sequences, colour per character ---------- *)
Inductive item := IText (t : str) | ISgr (ps : list Z) | IOther | ISgrX (x : xsgr).
Fixpoint term_chars (its : list item) (s : sgr) : list sgr :=
  match its with
  | [] => []
  | IText t :: r => repeat s (rune_count t) ++ term_chars r s
  | ISgr ps :: r => term_chars r (sgr_apply ps s)
  | IOther :: r => term_chars r s
  | ISgrX x :: r => term_chars r (sgr_xapply x s)
  end.

(* ---------- well-formed streams: text interleaved with complete sequences ---------- *)
(* one whole character, however it is followed *)
Definition whole_rune (w : str) : Prop := w <> [] /\ forall rest, rune_len (w ++ rest) = length w.
Definition all_true (p : Z -> bool) (s : str) : Prop := Forall (fun c => p c = true) s.

Inductive wf_seq : str -> Prop :=
| wf_csi i ps f : is_intro i = true -> all_true is_param ps -> is_final f = true ->
    wf_seq (ESC :: i :: ps ++ [f])
| wf_osc ds sep ps tm : ds <> [] -> all_true is_digit ds -> is_sep sep = true -> ps <> [] -> all_true is_print ps ->
    (tm = [BEL] \/ tm = [ESC; 92]) ->
    wf_seq (ESC :: 93 :: ds ++ sep :: ps ++ tm)
| wf_esc2 w : whole_rune w -> hd 0 w <> LF -> is_intro (hd 0 w) = false -> hd 0 w <> 93 ->
    wf_seq (ESC :: w)
| wf_shift c : c = SO \/ c = SI -> wf_seq [c]
| wf_bs w : whole_rune w -> hd 0 w <> LF -> is_ctl (hd 0 w) = false ->       (* a character and the backspace striking it out *)
    wf_seq (w ++ [BS]).

(* text whose characters do not reach beyond its end (whole UTF-8; in particular ASCII) *)
Definition self_contained (t : str) : Prop :=
  forall pre u rest, t = pre ++ u -> u <> [] -> (rune_len (u ++ rest) <= length u)%nat.

Inductive ipiece := TX (t : str) | SQ (q : str).
Definition piece_ok (p : ipiece) : Prop :=
  match p with TX t => control_free t /\ self_contained t | SQ q => wf_seq q end.
Definition render_pieces (ps : list ipiece) : str := concat (map (fun p => match p with TX t => t | SQ q => q end) ps).
Definition texts_of (ps : list ipiece) : str := concat (map (fun p => match p with TX t => t | SQ _ => [] end) ps).
