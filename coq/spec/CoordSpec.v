(* C08 spec: what "the interactive list has converged" means, written without looking at how
   core.go coordinates reader, terminal and matcher.

   An input line is identified by its index in the currently loaded input (fzf's item index);
   `filt` stands for a fresh `fzf --filter` run (query language, ranking, nth: properties C01-C04);
   it is a PARAMETER of every C08 theorem: the coordinator theorems hold whatever the filter computes. *)
From Fzf Require Import Prelude.
Open Scope Z_scope.

Definition item := Z.          (* index of a line within the loaded input *)
Definition nthv := Z.          (* names an --nth expression *)

Record cfg := mkCfg {
  f_query : str;               (* the query in effect *)
  f_sort : bool;               (* sorting on/off (toggle-sort) *)
  f_nth : nthv;                (* --nth / change-nth in effect *)
  f_deny : list Z              (* indices excluded by exclude / exclude-multi since the input was (re)loaded *)
}.

Definition not_denied (deny : list Z) (i : item) : bool := negb (existsb (Z.eqb i) deny).

(* what a fresh filter of the current state produces: the excluded lines are gone, the rest is filtered *)
Definition filter_model (filt : str -> bool -> nthv -> list item -> list item) (c : cfg) (loaded : list item) : list item :=
  filt (f_query c) (f_sort c) (f_nth c) (filter (not_denied (f_deny c)) loaded).

(* the user's view of exclusions: excluding lines of the list that is being shown adds them, provided that
   list belongs to the input that is loaded now (a list that a reload has already replaced is stale and its
   indices mean nothing for the new input); (re)loading forgets all exclusions *)
Definition deny_after_exclude (same_input : bool) (deny ixs : list Z) : list Z :=
  if same_input then deny ++ ixs else deny.
