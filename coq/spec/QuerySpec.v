(* C01 vocabulary: the documented search syntax (README "Search syntax", man page EXTENDED SEARCH MODE).
   A query is cut into tokens at unescaped blanks, tokens are arranged into AND-ed groups of OR-ed
   terms, each token is classified by its operators ('t' 't ^t t$ ^t$ !t), case and accent folding are
   decided per term, and a line satisfies the query when every group has a term whose verdict
   (AlgoSpec predicate of its kind, negated for !terms) is positive.
   Nothing here looks at how pattern.go computes anything; Unicode lower-casing / Latin normalisation
   are parameters (char_ops), as in AlgoSpec. *)
From Fzf Require Import Prelude AlgoSpec.
Open Scope Z_scope.

Definition chSP := 32.      (* ' '  *)
Definition chBS := 92.      (* '\'  *)
Definition chBAR := 124.    (* '|'  *)
Definition chBANG := 33.    (* '!'  *)
Definition chDOLLAR := 36.  (* '$'  *)
Definition chQUOTE := 39.   (* '''  *)
Definition chCARET := 94.   (* '^'  *)
Definition chTAB := 9.

Inductive kind := KFuzzy | KExact | KBoundary | KPrefix | KSuffix | KEqual.
Inductive case_mode := CaseSmart | CaseIgnore | CaseRespect.     (* default / -i / +i *)

Record qopts := mkQ {
  q_fuzzy : bool;        (* false under --exact *)
  q_extended : bool;     (* false under --no-extended (+x) *)
  q_case : case_mode;
  q_normalize : bool     (* false under --literal *)
}.

Record sterm := mkT { t_kind : kind; t_inv : bool; t_text : str; t_cs : bool; t_nm : bool }.

Definition is_some {A} (o : option A) : bool := match o with Some _ => true | None => false end.
Definition starts (c : Z) (s : str) : bool := match s with x :: _ => x =? c | [] => false end.
Definition ends (c : Z) (s : str) : bool := starts c (rev s).

(* ---- trimming: leading blanks go; trailing blanks go unless the last one is escaped ---- *)
Definition trim_left (q : str) : str := drop_while (fun c => c =? chSP) q.
Fixpoint trim_right_rev (r : str) : str :=          (* works on the reversed string *)
  match r with
  | c :: r' =>
      if c =? chSP then
        match r' with
        | b :: _ => if b =? chBS then r else trim_right_rev r'
        | [] => trim_right_rev r'
        end
      else r
  | [] => []
  end.
Definition trim (q : str) : str := rev (trim_right_rev (rev (trim_left q))).

(* ---- tokens: split at unescaped blanks; "\ " is a literal blank; empty tokens do not exist ---- *)
Definition emit {A} (cur : list A) (l : list (list A)) : list (list A) := match cur with [] => l | _ => cur :: l end.
Fixpoint tokens_aux (s : str) (cur : str) : list str :=     (* cur: current token, reversed *)
  match s with
  | [] => emit (rev cur) []
  | c :: r =>
      if c =? chSP then emit (rev cur) (tokens_aux r [])
      else match r with
           | b :: r' => if (c =? chBS) && (b =? chSP) then tokens_aux r' (chSP :: cur) else tokens_aux r (c :: cur)
           | [] => tokens_aux r (c :: cur)
           end
  end.
Definition tokens (s : str) : list str := tokens_aux s [].

Section Query.
Variable co : char_ops.
Variable sc : scheme.

Definition lower_str (s : str) : str := map (lower1 co) s.
Definition norm_str (s : str) : str := map (co_norm co) s.

(* smart case: a term is case-sensitive iff it contains an upper-case character (it differs from its
   lower-casing); -i never, +i always *)
Definition case_of (m : case_mode) (tok : str) : bool :=
  match m with
  | CaseRespect => true
  | CaseIgnore => false
  | CaseSmart => negb (str_eqb tok (lower_str tok))
  end.
(* accent folding applies to a term unless --literal or the (lower-cased) term itself carries an accent *)
Definition norm_of (normalize : bool) (tok : str) : bool :=
  normalize && str_eqb (lower_str tok) (norm_str (lower_str tok)).

(* ---- one token -> one term (None: nothing is left once the operators are removed) ---- *)
Definition classify (o : qopts) (tok : str) : option sterm :=
  let cs := case_of (q_case o) tok in
  let nm := norm_of (q_normalize o) tok in
  let t0 := if cs then tok else lower_str tok in
  (* !t *)
  let inv := starts chBANG t0 in
  let t1 := if inv then tl t0 else t0 in
  (* t$  (a bare $ is an ordinary character) *)
  let suf := negb (str_eqb t1 [chDOLLAR]) && ends chDOLLAR t1 in
  let t2 := if suf then removelast t1 else t1 in
  let plain := if negb (q_fuzzy o) || inv then KExact else KFuzzy in   (* --exact, and !t, are exact *)
  let flipped := if q_fuzzy o && negb inv then KExact else KFuzzy in   (* 't flips the default *)
  let '(k, t3) :=
    if Nat.ltb 2 (length t2) && starts chQUOTE t2 && ends chQUOTE t2 then (KBoundary, removelast (tl t2))
    else if starts chQUOTE t2 then (flipped, tl t2)
    else if starts chCARET t2 then ((if suf then KEqual else KPrefix), tl t2)
    else ((if suf then KSuffix else plain), t2) in
  match t3 with
  | [] => None
  | _ => Some (mkT k inv (if nm then norm_str t3 else t3) cs nm)
  end.

(* the OR operator: a token that is (after case folding, which leaves "|" alone) exactly "|" *)
Definition is_bar (o : qopts) (tok : str) : bool :=
  str_eqb (if case_of (q_case o) tok then tok else lower_str tok) [chBAR].

(* ---- groups: a lone "|" between two terms joins them into one OR group.
   cur  = the group being built;  join = the next term belongs to cur (start, or after a joining bar);
   bar  = the previous token was a joining bar (so another "|" right after it is an ordinary term). *)
Fixpoint groups_aux (o : qopts) (toks : list str) (cur : list sterm) (join bar : bool) : list (list sterm) :=
  match toks with
  | [] => emit cur []
  | t :: r =>
      if nonemptyb cur && negb bar && is_bar o t then groups_aux o r cur true true
      else
        match classify o t with
        | None => groups_aux o r cur join false
        | Some tm =>
            if join then groups_aux o r (cur ++ [tm]) false false
            else emit cur (groups_aux o r [tm] false false)
        end
  end.
Definition groups (o : qopts) (toks : list str) : list (list sterm) := groups_aux o toks [] true false.

Definition query_groups (o : qopts) (q : str) : list (list sterm) := groups o (tokens (trim q)).

(* ---- satisfaction ---- *)
Definition sat_term (t : sterm) (line : str) : bool :=
  let cs := t_cs t in let nm := t_nm t in let p := t_text t in
  match t_kind t with
  | KFuzzy => subseq_b co cs nm line p
  | KExact => substr_b co cs nm line p
  | KBoundary => boundary_substr_b co sc cs nm line p
  | KPrefix => is_some (prefix_spec co cs nm line p)
  | KSuffix => is_some (suffix_spec co cs nm line p)
  | KEqual => is_some (equal_spec co cs nm line p)
  end.

Definition sat_groups (gs : list (list sterm)) (line : str) : bool :=
  forallb (existsb (fun t => xorb (t_inv t) (sat_term t line))) gs.

(* --no-extended: the whole query, blanks and operators included, is one fuzzy (or exact) term *)
Definition sat_basic (o : qopts) (q line : str) : bool :=
  let cs := case_of (q_case o) q in
  let nm := norm_of (q_normalize o) q in
  let p := if cs then q else lower_str q in
  if q_fuzzy o then subseq_b co cs nm line p else substr_b co cs nm line p.

Definition sat_query (o : qopts) (q line : str) : bool :=
  if q_extended o then sat_groups (query_groups o q) line else sat_basic o q line.

End Query.
