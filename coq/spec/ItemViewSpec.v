(* C12 spec, part 4: what an input line IS to a placeholder.  From the property text ("evaluates back to exactly the
   original text") and the manual (--ansi: "enable processing of ANSI color codes": the text of an item is the line
   without its escape sequences - AnsiSpec.strip_spec, C11's reading of what --ansi removes).  Nothing else enters:
   which fields are shown (--with-nth), whether colours are in use (--no-color, --color=bw, $NO_COLOR) and any other
   display option decide what the list looks like, not what {} {N} {+} {f} stand for. *)
From Fzf Require Import Prelude AnsiSpec PlusSpec.
Open Scope Z_scope.

Definition item_text (ansi : bool) (line : str) : str := if ansi then strip_spec line else line.

(* an input line with its ordinal, as a placeholder sees it *)
Definition line_item (ansi : bool) (l : Z * str) : sitem := (fst l, item_text ansi (snd l)).
