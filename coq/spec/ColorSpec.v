(* C17 spec, part 3: the --color language as documented in the man page
   (--color=[BASE_SCHEME][,COLOR_NAME[:ANSI_COLOR][:ANSI_ATTRIBUTES]]...).
   A theme gives every colour name a colour and a set of text attributes.  Entries are read
   left to right; later entries for a name are applied on top of what earlier ones left:
   a colour replaces the colour, an attribute is added to the attributes, and `regular`
   "clears previously set attributes".  A base scheme name replaces the whole theme.
   Repeated --color options (options file, $FZF_DEFAULT_OPTS, command line, in that order)
   continue from the theme left by the previous one; --color without a value goes back to
   the empty theme, --no-color to the colourless one.
   Nothing here looks at options.go; the base schemes' tables are an input (read from the
   implementation by the harness). *)
From Coq Require Import String.
From Fzf Require Import Prelude BindSpec.
Open Scope Z_scope.

(* ---------------------------------------------------------------- colours and attributes *)

Definition C_UNDEFINED : Z := -2.     (* not set: inherited from a more general name *)
Definition C_DEFAULT : Z := -1.       (* the terminal's default colour *)

(* attribute sets as bit sets (this numbering is the spec's own; the harness translates) *)
Definition A_NONE : Z := 0.
Definition A_BOLD : Z := 1.
Definition A_DIM : Z := 2.
Definition A_ITALIC : Z := 4.
Definition A_UNDERLINE : Z := 8.
Definition A_BLINK : Z := 16.
Definition A_REVERSE : Z := 32.
Definition A_STRIKE : Z := 64.
Definition A_REGULAR : Z := 256.      (* "regular" was given: attributes explicitly cleared *)

Definition cattr := (Z * Z)%type.     (* colour, attributes *)

Inductive comp := CColor (c : Z) | CAttr (a : Z) | CRegular | CNone.

Definition apply_comp (ca : cattr) (c : comp) : cattr :=
  match c with
  | CColor x => (x, snd ca)
  | CAttr a => (fst ca, Z.lor (snd ca) a)
  | CRegular => (fst ca, A_REGULAR)
  | CNone => ca
  end.

Definition apply_comps (ca : cattr) (cs : list comp) : cattr := fold_left apply_comp cs ca.

(* ---------------------------------------------------------------- vocabulary *)

Definition attr_names : list (str * Z) := Eval vm_compute in
  [ (b "bold", A_BOLD); (b "strong", A_BOLD); (b "dim", A_DIM); (b "italic", A_ITALIC); (b "underline", A_UNDERLINE);
    (b "blink", A_BLINK); (b "reverse", A_REVERSE); (b "strikethrough", A_STRIKE) ].

Definition colour_names : list (str * Z) := Eval vm_compute in
  [ (b "black", 0); (b "red", 1); (b "green", 2); (b "yellow", 3); (b "blue", 4); (b "magenta", 5); (b "cyan", 6);
    (b "white", 7); (b "bright-black", 8); (b "gray", 8); (b "grey", 8); (b "bright-red", 9); (b "bright-green", 10);
    (b "bright-yellow", 11); (b "bright-blue", 12); (b "bright-magenta", 13); (b "bright-cyan", 14);
    (b "bright-white", 15) ].

(* colour names: spelling -> canonical name (input: accepted though the man page only lists query / input-fg) *)
Definition slot_names : list (str * str) := Eval vm_compute in
  [ (b "query", b "query"); (b "input", b "query"); (b "input-fg", b "query"); (b "disabled", b "disabled");
    (b "fg", b "fg"); (b "bg", b "bg"); (b "list-fg", b "list-fg"); (b "list-bg", b "list-bg");
    (b "preview-fg", b "preview-fg"); (b "preview-bg", b "preview-bg");
    (b "current-fg", b "current-fg"); (b "fg+", b "current-fg"); (b "current-bg", b "current-bg"); (b "bg+", b "current-bg");
    (b "selected-fg", b "selected-fg"); (b "selected-bg", b "selected-bg"); (b "nth", b "nth"); (b "gutter", b "gutter");
    (b "hl", b "hl"); (b "current-hl", b "current-hl"); (b "hl+", b "current-hl"); (b "selected-hl", b "selected-hl");
    (b "border", b "border"); (b "preview-border", b "preview-border"); (b "separator", b "separator");
    (b "scrollbar", b "scrollbar"); (b "preview-scrollbar", b "preview-scrollbar"); (b "label", b "label");
    (b "list-label", b "list-label"); (b "list-border", b "list-border"); (b "preview-label", b "preview-label");
    (b "prompt", b "prompt"); (b "input-bg", b "input-bg"); (b "input-border", b "input-border");
    (b "input-label", b "input-label"); (b "header-border", b "header-border"); (b "header-label", b "header-label");
    (b "spinner", b "spinner"); (b "info", b "info"); (b "pointer", b "pointer"); (b "marker", b "marker");
    (b "header", b "header"); (b "header-fg", b "header"); (b "header-bg", b "header-bg"); (b "gap-line", b "gap-line") ].

(* base schemes, as indices into the table of base themes handed in: dark light 16 bw *)
Definition base_names : list (str * nat) := Eval vm_compute in
  [ (b "dark", 0%nat); (b "light", 1%nat); (b "16", 2%nat); (b "bw", 3%nat); (b "no", 3%nat) ].
Definition BASE_BW : nat := 3.
Definition BASE_EMPTY : nat := 4.

Definition is_digit (c : Z) : bool := (48 <=? c) && (c <=? 57).
Definition is_hex (c : Z) : bool := is_digit c || ((97 <=? c) && (c <=? 102)).
Definition hex_val (c : Z) : Z := if is_digit c then c - 48 else c - 87.

Definition dec_value (ds : str) : Z := fold_left (fun acc d => acc * 10 + (d - 48)) ds 0.
Definition hex_value (ds : str) : Z := fold_left (fun acc d => acc * 16 + hex_val d) ds 0.

(* -1, 0 ~ 255 in decimal (an explicit sign is accepted) *)
Definition dec_colour (w : str) : option Z :=
  let '(neg, ds) := match w with
                    | 45 :: r => (true, r)
                    | 43 :: r => (false, r)
                    | _ => (false, w)
                    end in
  if nonemptyb ds && forallb is_digit ds then
    let v := if neg then - dec_value ds else dec_value ds in
    if (-1 <=? v) && (v <=? 255) then Some v else None
  else None.

(* #rrggbb : 2^24 + rgb *)
Definition hex_colour (w : str) : option Z :=
  match w with
  | 35 :: ds => if Nat.eqb (length ds) 6 && forallb is_hex ds then Some (16777216 + hex_value ds) else None
  | _ => None
  end.

Definition s_regular : str := Eval vm_compute in b "regular".

(* one component (lower case) after the colour name *)
Definition comp_of (w : str) : option comp :=
  match w with
  | [] => Some CNone
  | _ =>
    if str_eqb w s_regular then Some CRegular
    else match assoc_str w attr_names with
    | Some a => Some (CAttr a)
    | None =>
      match assoc_str w colour_names with
      | Some c => Some (CColor c)
      | None =>
        match hex_colour w with
        | Some c => Some (CColor c)
        | None => option_map CColor (dec_colour w)
        end
      end
    end
  end.

Fixpoint comps_of (ws : list str) : option (list comp) :=
  match ws with
  | [] => Some []
  | w :: r => match comp_of w, comps_of r with Some c, Some cs => Some (c :: cs) | _, _ => None end
  end.

(* ---------------------------------------------------------------- themes *)

Definition theme := (bool * list (str * cattr))%type.    (* coloured?, canonical name -> colour and attributes *)

Fixpoint slot_get (m : list (str * cattr)) (s : str) : cattr :=
  match m with
  | [] => (C_UNDEFINED, A_NONE)
  | (s', v) :: r => if str_eqb s s' then v else slot_get r s
  end.

Fixpoint slot_set (m : list (str * cattr)) (s : str) (v : cattr) : list (str * cattr) :=
  match m with
  | [] => [(s, v)]
  | (s', v') :: r => if str_eqb s s' then (s', v) :: r else (s', v') :: slot_set r s v
  end.

Definition theme_get (t : theme) (s : str) : cattr := slot_get (snd t) s.
Definition theme_set (t : theme) (s : str) (v : cattr) : theme := (fst t, slot_set (snd t) s v).

(* ---------------------------------------------------------------- denotation *)

(* one entry = its ':'-separated words as written *)
Definition centry := list str.

Definition entry_denote (bases : list theme) (t : theme) (e : centry) : option theme :=
  match map to_lower e with
  | [] => None
  | [w] => match assoc_str w base_names with Some i => Some (nth i bases t) | None => None end
  | n :: ws =>
    match assoc_str n slot_names, comps_of ws with
    | Some s, Some cs => Some (theme_set t s (apply_comps (theme_get t s) cs))
    | _, _ => None
    end
  end.

Fixpoint entries_denote (bases : list theme) (t : theme) (es : list centry) : option theme :=
  match es with
  | [] => Some t
  | e :: r => match entry_denote bases t e with Some t' => entries_denote bases t' r | None => None end
  end.

(* the colour-related options of a command line, in order *)
Inductive copt :=
| OColor (es : list centry)      (* --color=ENTRY,ENTRY,... (at least one entry) *)
| OColorEmpty                    (* --color without a value *)
| ONoColor.                      (* --no-color, +c *)

Definition copt_denote (bases : list theme) (t : theme) (o : copt) : option theme :=
  match o with
  | OColor es => match es with [] => None | _ => entries_denote bases t es end
  | OColorEmpty => Some (nth BASE_EMPTY bases t)
  | ONoColor => Some (nth BASE_BW bases t)
  end.

Fixpoint copts_denote (bases : list theme) (t : theme) (os : list copt) : option theme :=
  match os with
  | [] => Some t
  | o :: r => match copt_denote bases t o with Some t' => copts_denote bases t' r | None => None end
  end.

(* how it is written down *)
Definition render_entry (e : centry) : str := join COLON e.
Definition render_entries (es : list centry) : str := join COMMA (map render_entry es).

(* words that can be written inside an entry: no separator of the language *)
Definition word_ok (w : str) : bool := forallb (fun c => negb (c =? COMMA) && negb (c =? COLON)) w.
Definition entry_ok (e : centry) : bool := nonemptyb e && forallb word_ok e.
(* the value is not the empty string: that is --color without a value *)
Definition entries_ok (es : list centry) : bool :=
  nonemptyb es && forallb entry_ok es && nonemptyb (render_entries es).

(* an entry that settles its name completely: `regular` comes first among the components and a colour is given *)
Definition has_colour (cs : list comp) : bool := existsb (fun c => match c with CColor _ => true | _ => false end) cs.
Definition complete (cs : list comp) : bool :=
  match cs with CRegular :: r => has_colour r | _ => false end.
