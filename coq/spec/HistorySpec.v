(* C18 spec: what a user expects of --history / --history-size, written without
   looking at how history.go computes it. *)
From Fzf Require Import Prelude.
Open Scope Z_scope.

Definition NL : Z := 10.

(* split a byte string at every newline; always at least one piece *)
Fixpoint split_nl_aux (cur : str) (s : str) : list str :=
  match s with
  | [] => [rev cur]
  | c :: r => if c =? NL then rev cur :: split_nl_aux [] r else split_nl_aux (c :: cur) r
  end.
Definition split_nl (s : str) : list str := split_nl_aux [] s.

Definition is_nl (c : Z) : bool := c =? NL.
Definition trim_nl (s : str) : str := rev (drop_while is_nl (rev (drop_while is_nl s))).

(* the queries a history file stores: its lines, ignoring leading and trailing newlines *)
Definition entries (file : str) : list str :=
  match trim_nl file with
  | [] => []
  | t => split_nl t
  end.

(* a file written by fzf: every entry followed by a newline *)
Definition render (es : list str) : str := concat (map (fun e => e ++ [NL]) es).

Definition strip_empty (es : list str) : list str := drop_while (fun e => negb (nonemptyb e)) es.

(* The file after a run of sessions that submitted queries qs (one or none per session,
   in order), starting from a file whose stored entries are es0, under limit n:
   nothing submitted -> untouched; otherwise the last n of old entries ++ submitted. *)
Definition submitted (qs : list str) : list str := filter nonemptyb qs.
Definition stored_after (n : nat) (es0 : list str) (qs : list str) : list str :=
  strip_empty (last_n n (es0 ++ submitted qs)).

(* navigation spec: positions 0..|entries| where |entries| is the scratch line *)
Definition nav_prev (c : nat) : nat := Nat.pred c.
Definition nav_next (len c : nat) : nat := if Nat.ltb c len then S c else c.

(* ---- navigation spec: an array of texts (one per stored entry + the scratch line) and a cursor.
   Editing changes the text under the cursor; previous/next only move the cursor (clamped).
   "Coming back to an entry shows the edited text" is built in: texts are never lost. *)
Inductive nav_op := NEdit (s : str) | NPrev | NNext.
Record nav := mkNav { nv_text : nat -> str; nv_cur : nat; nv_last : nat (* index of the scratch line *) }.
Definition nav_step (n : nav) (o : nav_op) : nav :=
  match o with
  | NEdit s => mkNav (fun i => if Nat.eqb i (nv_cur n) then s else nv_text n i) (nv_cur n) (nv_last n)
  | NPrev => mkNav (nv_text n) (Nat.pred (nv_cur n)) (nv_last n)
  | NNext => mkNav (nv_text n) (if Nat.ltb (nv_cur n) (nv_last n) then S (nv_cur n) else nv_cur n) (nv_last n)
  end.
