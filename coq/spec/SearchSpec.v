(* C13 / C08 spec: what "a search over a frozen prefix of the input" means, written
   without looking at matcher.go, chunklist.go or cache.go.

   Matching itself is a PARAMETER here (`matchf p x = Some key` when item x matches
   pattern p with rank key `key`; the algorithm layer is the business of C01..C05):
   the spec only says which items a search must return and in which order. *)
From Fzf Require Import Prelude.
Open Scope Z_scope.

Section SearchSpec.
  Variable item pat : Type.
  Variable idx : item -> Z.                      (* the ordinal of an input line *)
  Variable matchf : pat -> item -> option Z.     (* Some rank-key  <->  the item matches *)
  Variable pempty : pat -> bool.                 (* the empty query: everything matches, nothing to rank *)
  Variable psortable : pat -> bool.              (* the query has at least one positive term *)

  Definition result := (item * Z)%type.

  (* the sequential filter: one pass over the items, in input order *)
  Fixpoint matches_of (p : pat) (xs : list item) : list result :=
    match xs with
    | [] => []
    | x :: r => match matchf p x with
                | Some k => (x, k) :: matches_of p r
                | None => matches_of p r
                end
    end.

  (* rank order: smaller key first; ties by input position, reversed under --tac *)
  Definition rank_before (tac : bool) (a b : result) : bool :=
    if snd a <? snd b then true
    else if snd b <? snd a then false
    else xorb (idx (fst a) <=? idx (fst b)) tac.

  Fixpoint rank_insert (tac : bool) (x : result) (l : list result) : list result :=
    match l with
    | [] => [x]
    | y :: r => if rank_before tac x y then x :: l else y :: rank_insert tac x r
    end.
  Definition rank_sort (tac : bool) (l : list result) : list result :=
    fold_right (rank_insert tac) [] l.

  (* what a search started on the items xs (the snapshot) with pattern p must show, top to bottom *)
  Definition oracle (sort tac : bool) (p : pat) (xs : list item) : list item :=
    if pempty p then (if tac then rev xs else xs)
    else
      let ms := matches_of p xs in
      map fst (if sort && psortable p then rank_sort tac ms
               else if tac then rev ms else ms).
End SearchSpec.

Arguments matches_of {item pat} matchf p xs.
Arguments rank_before {item} idx tac a b.
Arguments rank_insert {item} idx tac x l.
Arguments rank_sort {item} idx tac l.
Arguments oracle {item pat} idx matchf pempty psortable sort tac p xs.

(* ---- the input list as the loader and --tail define it ---- *)
Section LiveSpec.
  Variable item : Type.
  Inductive lop := LPush (x : item) | LReject | LClear | LSnap (tail : nat).

  (* items a snapshot taken now must contain: everything accepted since the last clear,
     cut down to the last `tail` whenever a --tail snapshot finds more than that *)
  Definition trim (tail : nat) (cur : list item) : list item :=
    if (Nat.ltb 0 tail && Nat.ltb tail (length cur))%bool then last_n tail cur else cur.

  Fixpoint live (cur : list item) (ops : list lop) : list (list item) :=
    match ops with
    | [] => []
    | LPush x :: r => live (cur ++ [x]) r
    | LReject :: r => live cur r
    | LClear :: r => live [] r
    | LSnap t :: r => trim t cur :: live (trim t cur) r
    end.
End LiveSpec.
Arguments LPush {item} x.
Arguments LReject {item}.
Arguments LClear {item}.
Arguments LSnap {item} tail.
Arguments live {item} cur ops.
Arguments trim {item} tail cur.
