(* C02/C03 vocabulary: characters, folding, witnesses, occurrences, and the documented
   scoring model (constants written out: 16, -3, -1, bonus 8/7/4, x2, 10/9/8 per scheme).
   Nothing here looks at how algo.go computes anything. *)
From Fzf Require Import Prelude.
Open Scope Z_scope.

(* ---- character operations: Go's unicode tables are parameters (the ASCII half is concrete) ---- *)
Record char_ops := mkOps {
  co_lower : Z -> Z;      (* unicode.To(unicode.LowerCase, r), used for r > 127 *)
  co_class : Z -> Z;      (* class of a non-ASCII rune, 0..6 *)
  co_norm  : Z -> Z;      (* normalizeRune r (Latin accent folding) *)
  co_space : Z -> bool    (* unicode.IsSpace r, used for r > 127 *)
}.

(* classes *)
Definition cWhite := 0. Definition cNonWord := 1. Definition cDelim := 2. Definition cLower := 3.
Definition cUpper := 4. Definition cLetter := 5. Definition cNumber := 6.

(* scoring scheme: default / path / history *)
Record scheme := mkScheme {
  s_bw : Z;                 (* bonus after whitespace / at start  (10 default, 8 path, 8 history) *)
  s_bd : Z;                 (* bonus after a delimiter             (9 default, 9 path, 8 history) *)
  s_delims : list Z;        (* delimiter characters  "/,:;|" or "/" *)
  s_init : Z                (* class assumed before the first character (white; delimiter for path) *)
}.
Definition scheme_default := mkScheme 10 9 [47; 44; 58; 59; 124] cWhite.
Definition scheme_path    := mkScheme 8 9 [47] cDelim.
Definition scheme_history := mkScheme 8 8 [47; 44; 58; 59; 124] cWhite.

Definition scoreMatch := 16.
Definition scoreGapStart := -3.
Definition scoreGapExt := -1.
Definition bonusBoundary := 8.
Definition bonusNonWord := 8.
Definition bonusCamel := 7.
Definition bonusConsecutive := 4.

Definition mem (c : Z) (l : list Z) : bool := existsb (Z.eqb c) l.

Definition ascii_white (c : Z) : bool := mem c [32; 9; 10; 11; 12; 13].

Section WithOps.
Variable co : char_ops.
Variable sc : scheme.

Definition ascii_class (c : Z) : Z :=
  if (97 <=? c) && (c <=? 122) then cLower
  else if (65 <=? c) && (c <=? 90) then cUpper
  else if (48 <=? c) && (c <=? 57) then cNumber
  else if ascii_white c then cWhite
  else if mem c (s_delims sc) then cDelim
  else cNonWord.

Definition class_of (c : Z) : Z := if c <=? 127 then ascii_class c else co_class co c.

Definition is_space (c : Z) : bool := if c <=? 127 then ascii_white c else co_space co c.

(* documented bonus of a character of class [cur] preceded by a character of class [prev] *)
Definition bonus_for (prev cur : Z) : Z :=
  if (cNonWord <? cur) && (prev =? cWhite) then s_bw sc
  else if (cNonWord <? cur) && (prev =? cDelim) then s_bd sc
  else if (cNonWord <? cur) && (prev =? cNonWord) then bonusBoundary
  else if ((prev =? cLower) && (cur =? cUpper)) || (negb (prev =? cNumber) && (cur =? cNumber)) then bonusCamel
  else if (cur =? cNonWord) || (cur =? cDelim) then bonusNonWord
  else if cur =? cWhite then s_bw sc
  else 0.

(* case / accent folding of one text character *)
Definition lower1 (c : Z) : Z :=
  if (65 <=? c) && (c <=? 90) then c + 32 else if 127 <? c then co_lower co c else c.
Definition fold (cs nm : bool) (c : Z) : Z :=
  let c := if cs then c else lower1 c in if nm then co_norm co c else c.

(* ---- witnesses ---- *)

(* [pos] is a witness that [pat] is a subsequence of the folded [text] *)
Fixpoint witness_from (cs nm : bool) (text : list Z) (lo : nat) (pat : list Z) (pos : list nat) : bool :=
  match pat, pos with
  | [], [] => true
  | p :: pat', i :: pos' =>
      Nat.leb lo i &&
      match nth_error text i with
      | Some c => (fold cs nm c =? p) && witness_from cs nm text (S i) pat' pos'
      | None => false
      end
  | _, _ => false
  end.
Definition witness cs nm text pat pos := witness_from cs nm text 0%nat pat pos.

(* decidable subsequence test *)
Fixpoint subseq_b (cs nm : bool) (text pat : list Z) : bool :=
  match pat with
  | [] => true
  | p :: pat' =>
      match text with
      | [] => false
      | c :: text' => if fold cs nm c =? p then subseq_b cs nm text' pat' else subseq_b cs nm text' pat
      end
  end.

(* [pat] occurs in folded [text] at offset [s] *)
Fixpoint prefix_b (cs nm : bool) (text pat : list Z) : bool :=
  match pat with
  | [] => true
  | p :: pat' => match text with [] => false | c :: t' => (fold cs nm c =? p) && prefix_b cs nm t' pat' end
  end.
Definition occurs_at cs nm text pat (s : nat) : bool := prefix_b cs nm (skipn s text) pat.

(* word-boundary occurrence: preceded by start or a white/non-word/delimiter character, followed by end or such a one *)
Definition edge_class (c : Z) : bool := class_of c <=? cDelim.
Definition left_ok (text : list Z) (s : nat) : bool :=
  match s with O => true | S s' => match nth_error text s' with Some c => edge_class c | None => false end end.
Definition right_ok (text : list Z) (e : nat) : bool :=
  match nth_error text e with Some c => edge_class c | None => true end.
Definition boundary_at cs nm text pat s : bool :=
  occurs_at cs nm text pat s && left_ok text s && right_ok text (s + length pat)%nat.

Fixpoint count_while (p : Z -> bool) (l : list Z) : nat :=
  match l with c :: r => if p c then S (count_while p r) else O | [] => O end.
Definition lead_ws (text : list Z) : nat := count_while is_space text.
Definition trail_ws (text : list Z) : nat := count_while is_space (rev text).

(* exists an offset in [0, n] satisfying f *)
Fixpoint exists_upto (f : nat -> bool) (n : nat) : bool :=
  match n with O => f O | S n' => f n || exists_upto f n' end.
Definition substr_b cs nm text pat : bool := exists_upto (occurs_at cs nm text pat) (length text).
Definition boundary_substr_b cs nm text pat : bool := exists_upto (boundary_at cs nm text pat) (length text).

(* anchored kinds, with the documented whitespace trimming (unless the term itself starts/ends with a blank) *)
Definition head_space (p : list Z) : bool := match p with c :: _ => is_space c | [] => false end.
Definition last_space (p : list Z) : bool := head_space (rev p).
Definition prefix_spec cs nm text pat : option nat :=
  let s := if head_space pat then O else lead_ws text in
  if occurs_at cs nm text pat s then Some s else None.
Definition suffix_spec cs nm text pat : option nat :=
  let e := if last_space pat then length text else (length text - trail_ws text)%nat in
  if Nat.leb (length pat) e && occurs_at cs nm text pat (e - length pat)%nat then Some (e - length pat)%nat else None.
Definition equal_spec cs nm text pat : option nat :=
  let s := if head_space pat then O else lead_ws text in
  let te := if last_space pat then O else trail_ws text in
  if Nat.eqb (s + length pat + te)%nat (length text) && occurs_at cs nm text pat s then Some s else None.

(* ---- scoring: documented model ---- *)

Definition class_before (text : list Z) (i : nat) : Z :=
  match i with O => s_init sc | S j => match nth_error text j with Some c => class_of c | None => s_init sc end end.
Definition bonus_at (text : list Z) (i : nat) : Z :=
  match nth_error text i with
  | Some c => bonus_for (class_before text i) (class_of c)
  | None => 0
  end.

(* score of one explicit alignment [pos] (strictly increasing positions), scanned from the first to
   the last matched position: 16 per match, bonus with the consecutive-run rule, first char doubled,
   gaps -3 then -1 each.  This is the V1 / exact-family meaning (no clamping at 0). *)
Fixpoint align_walk (text : list Z) (i : nat) (n : nat) (pos : list nat) (first : bool)
         (inGap : bool) (consecutive : nat) (firstBonus : Z) (score : Z) : Z :=
  match n with
  | O => score
  | S n' =>
    match pos with
    | [] => score
    | p :: pos' =>
      if Nat.eqb i p then
        let b := bonus_at text i in
        let fb := if Nat.eqb consecutive 0%nat then b else if (bonusBoundary <=? b) && (firstBonus <? b) then b else firstBonus in
        let b' := if Nat.eqb consecutive 0%nat then b else Z.max (Z.max b fb) bonusConsecutive in
        let score := score + scoreMatch + (if first then 2 * b' else b') in
        align_walk text (S i) n' pos' false false (S consecutive) fb score
      else
        let score := score + (if inGap then scoreGapExt else scoreGapStart) in
        align_walk text (S i) n' pos false true 0%nat 0 score
    end
  end.
Definition align_score (text : list Z) (pos : list nat) : Z :=
  match pos with
  | [] => 0
  | p0 :: _ => align_walk text p0 (S (last pos 0%nat) - p0)%nat pos true false 0%nat 0 0
  end.

(* The documented dynamic programme (header comment of algo.go), evaluated naively over the WHOLE
   line with unbounded integers: row i, column j holds the best score of an alignment of
   pat[0..i] inside text[0..j] whose last matched or skipped position is j; None = impossible. *)
Record cell := mkCell { c_h : option Z; c_cons : Z; c_gap : bool }.

Definition opt_add (o : option Z) (d : Z) : option Z := match o with Some z => Some (z + d) | None => None end.

(* row 0 *)
Fixpoint dp_row0 (cs nm : bool) (text : list Z) (p0 : Z) (j : nat) (full : list Z) (prev : option Z) (inGap : bool) : list cell :=
  match text with
  | [] => []
  | c :: rest =>
      if fold cs nm c =? p0 then
        let h := scoreMatch + 2 * bonus_at full j in
        mkCell (Some h) 1 false :: dp_row0 cs nm rest p0 (S j) full (Some h) false
      else
        let h := match prev with Some z => Some (Z.max (z + (if inGap then scoreGapExt else scoreGapStart)) 0) | None => None end in
        mkCell h 0 true :: dp_row0 cs nm rest p0 (S j) full h true
  end.

(* row i >= 1 from row i-1.  [diag] is the cell (i-1, j-1) (None-cell before the line starts),
   [left] the cell (i, j-1). *)
Definition none_cell := mkCell None 0 false.
Fixpoint dp_row (cs nm : bool) (text : list Z) (p : Z) (j : nat) (full : list Z)
         (prow : list cell) (diag : cell) (left : cell) : list cell :=
  match text with
  | [] => []
  | c :: rest =>
      let s2 := opt_add (c_h left) (if c_gap left then scoreGapExt else scoreGapStart) in
      let m : option (Z * Z) :=
        if fold cs nm c =? p then
          match c_h diag with
          | Some d =>
              let s1 := d + scoreMatch in
              let b := bonus_at full j in
              let cn := c_cons diag + 1 in
              let bc :=
                 if 1 <? cn then
                   let fb := bonus_at full (j + 1 - Z.to_nat cn)%nat in
                   if (bonusBoundary <=? b) && (fb <? b) then (b, 1) else (Z.max b (Z.max bonusConsecutive fb), cn)
                 else (b, cn) in
              match s2 with
              | Some g => if s1 + fst bc <? g then Some (s1 + b, 0) else Some (s1 + fst bc, snd bc)
              | None => Some (s1 + fst bc, snd bc)
              end
          | None => None
          end
        else None in
      let cellv :=
        match m, s2 with
        | Some (s1, cn), Some g => mkCell (Some (Z.max (Z.max s1 g) 0)) cn (s1 <? g)
        | Some (s1, cn), None => mkCell (Some (Z.max s1 0)) cn false
        | None, Some g => mkCell (Some (Z.max g 0)) 0 (0 <? g)
        | None, None => none_cell
        end in
      let diag' := match prow with d :: _ => d | [] => none_cell end in
      cellv :: dp_row cs nm rest p (S j) full (tl prow) diag' cellv
  end.

Fixpoint dp_rows (cs nm : bool) (text : list Z) (pat : list Z) (prow : list cell) : list cell :=
  match pat with
  | [] => prow
  | p :: pat' => dp_rows cs nm text pat' (dp_row cs nm text p 0%nat text prow none_cell none_cell)
  end.

Definition naive_last_row (cs nm : bool) (text pat : list Z) : list cell :=
  match pat with
  | [] => []
  | p0 :: pat' => dp_rows cs nm text pat' (dp_row0 cs nm text p0 0%nat text None false)
  end.

(* best cell of the last row: first maximum when scanning forward, last maximum when backward;
   result (score, end position = index + 1) *)
Fixpoint best_cell (fwd : bool) (row : list cell) (j : nat) (best : option (Z * nat)) : option (Z * nat) :=
  match row with
  | [] => best
  | c :: rest =>
      let best' :=
        match c_h c, best with
        | Some h, None => Some (h, S j)
        | Some h, Some (bh, _) => if (if fwd then bh <? h else bh <=? h) then Some (h, S j) else best
        | None, _ => best
        end in
      best_cell fwd rest (S j) best'
  end.
Definition naive_dp (cs nm fwd : bool) (text pat : list Z) : option (Z * nat) :=
  best_cell fwd (naive_last_row cs nm text pat) 0%nat None.

(* closed forms for the two kinds that have no other documentation *)
Definition equal_score (m : nat) : Z := (scoreMatch + s_bw sc) * Z.of_nat m + s_bw sc.

End WithOps.
