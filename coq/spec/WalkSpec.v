(* C19 spec: what a user expects of the built-in walker (--walker, --walker-root,
   --walker-skip), written from the man page and the validated reading
   "Walker listing (C19)"; does not look at how reader.go / fastwalk compute it.

   Byte constants: '/' = 47, '.' = 46, '\' = 92. *)
From Fzf Require Import Prelude.
Open Scope Z_scope.

Definition SLASH : Z := 47.
Definition DOT : Z := 46.
Definition BSLASH : Z := 92.

(* A directory's content.  A symlink whose target is a directory carries the
   content of the target (what a walker that follows it would see below it); a
   symlink to anything else (file, dangling) is SymFile. *)
Inductive entry :=
| File (nm : str)
| Dir (nm : str) (children : list entry)
| SymFile (nm : str)
| SymDir (nm : str) (target : list entry).

Definition name_of (e : entry) : str :=
  match e with File n | Dir n _ | SymFile n | SymDir n _ => n end.

Record wopts := mkOpts { o_file : bool; o_dir : bool; o_follow : bool; o_hidden : bool }.

(* ---- strings ---- *)
Fixpoint starts_with (p s : str) : bool :=
  match p, s with
  | [], _ => true
  | x :: p, y :: s => (x =? y) && starts_with p s
  | _ :: _, [] => false
  end.
Definition ends_with (p s : str) : bool := starts_with (rev p) (rev s).
Definition has_slash (s : str) : bool := existsb (fun c => c =? SLASH) s.

(* ---- printed paths ---- *)
(* a root is shown as typed, minus trailing separators and minus leading "./" *)
Fixpoint strip_dot_slash (s : str) : str :=
  match s with
  | a :: b :: r => if (a =? DOT) && (b =? SLASH) then strip_dot_slash r else s
  | _ => s
  end.
Definition drop_trailing_slashes (s : str) : str := rev (drop_while (fun c => c =? SLASH) (rev s)).
Definition display (root : str) : str :=
  match strip_dot_slash (drop_trailing_slashes root) with
  | [] => [DOT]
  | s => s
  end.

(* the printed path of entry nm inside the directory printed as d ("." = current directory: no prefix) *)
Definition child (d nm : str) : str :=
  if str_eqb d [DOT] then nm else d ++ SLASH :: nm.
(* directories are marked with a trailing separator *)
Definition with_sep (p : str) : str := p ++ [SLASH].

(* last component of a printed path (text after the last separator) *)
Fixpoint after_last_slash_aux (acc s : str) : str :=
  match s with
  | [] => rev acc
  | c :: r => if c =? SLASH then after_last_slash_aux [] r else after_last_slash_aux (c :: acc) r
  end.
Definition base_name (p : str) : str := after_last_slash_aux [] p.

(* ---- which directories are left out ---- *)
Definition hidden_name (b : str) : bool :=
  match b with
  | c :: _ => (c =? DOT) && negb (str_eqb b [DOT; DOT])
  | [] => false
  end.

(* The three kinds of --walker-skip entries, for a directory printed as p with base name b:
   no separator   : the base name equals the entry;
   starts with "/": the path ends with the entry;
   otherwise      : the path equals the entry, or ends with "/" ++ entry. *)
Definition skip_matches (p b s : str) : bool :=
  if has_slash s then
    if starts_with [SLASH] s then ends_with s p
    else str_eqb s p || ends_with (SLASH :: s) p
  else str_eqb s b.
Definition skipped (ig : list str) (p b : str) : bool := existsb (skip_matches p b) ig.

Definition pruned (o : wopts) (ig : list str) (p b : str) : bool :=
  (negb (o_hidden o) && hidden_name b) || skipped ig p b.

(* ---- the listing ---- *)
Definition emit (b : bool) (p : str) : list str := if b then [p] else [].

(* d: printed path of the containing directory.
   - a file, or a symlink that is not followed, is listed under `file`;
   - a directory is pruned (not listed, not entered) when hidden (unless `hidden`) or skipped;
     otherwise listed under `dir` with a trailing separator, and entered;
   - under `follow` a symlink to a directory is treated like a directory, but being a
     non-directory entry it is listed under `file` (with the trailing separator).
   Hidden FILES are always listed ("hidden: Include and follow hidden directories"). *)
Fixpoint list_entry (o : wopts) (ig : list str) (d : str) (e : entry) : list str :=
  match e with
  | File nm => emit (o_file o) (child d nm)
  | SymFile nm => emit (o_file o) (child d nm)
  | Dir nm ch =>
      let p := child d nm in
      if pruned o ig p nm then []
      else emit (o_dir o) (with_sep p) ++ flat_map (list_entry o ig p) ch
  | SymDir nm tg =>
      let p := child d nm in
      if o_follow o then
        if pruned o ig p nm then []
        else emit (o_file o) (with_sep p) ++ flat_map (list_entry o ig p) tg
      else emit (o_file o) p
  end.

(* one root: "." itself is never listed; any other root is a directory like any other
   (listed as ROOT/ under `dir`, pruned when hidden or skipped) *)
Definition listing (o : wopts) (ig : list str) (root : str) (ch : list entry) : list str :=
  let d := display root in
  if str_eqb d [DOT] then flat_map (list_entry o ig d) ch
  else if pruned o ig d (base_name d) then []
  else emit (o_dir o) (with_sep d) ++ flat_map (list_entry o ig d) ch.

Definition listing_roots (o : wopts) (ig : list str) (roots : list (str * list entry)) : list str :=
  flat_map (fun rc => listing o ig (fst rc) (snd rc)) roots.

(* ---- vocabulary of the theorems ---- *)
(* names the file system can hold *)
Definition name_ok (nm : str) : Prop :=
  nm <> [] /\ ~ In SLASH nm /\ nm <> [DOT].

Inductive entry_ok : entry -> Prop :=
| ok_file nm : name_ok nm -> entry_ok (File nm)
| ok_symfile nm : name_ok nm -> entry_ok (SymFile nm)
| ok_dir nm ch : name_ok nm -> Forall entry_ok ch -> entry_ok (Dir nm ch)
| ok_symdir nm tg : name_ok nm -> Forall entry_ok tg -> entry_ok (SymDir nm tg).
Definition entries_ok (l : list entry) : Prop := Forall entry_ok l.

(* sibling names are pairwise distinct, everywhere in the tree *)
Inductive entry_distinct : entry -> Prop :=
| di_file nm : entry_distinct (File nm)
| di_symfile nm : entry_distinct (SymFile nm)
| di_dir nm ch : NoDup (map name_of ch) -> Forall entry_distinct ch -> entry_distinct (Dir nm ch)
| di_symdir nm tg : NoDup (map name_of tg) -> Forall entry_distinct tg -> entry_distinct (SymDir nm tg).
Definition entries_distinct (l : list entry) : Prop := NoDup (map name_of l) /\ Forall entry_distinct l.

(* a root names something: it has a byte that is not a separator *)
Definition root_ok (root : str) : Prop := exists c, In c root /\ c <> SLASH.
