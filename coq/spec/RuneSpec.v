(* Characters of a byte string: the documented meaning of UTF-8 (RFC 3629) with Go's
   convention for ill-formed input (each byte that does not start a well-formed
   sequence is the character U+FFFD, width 1).  Used by the C17 spec for key names such
   as `alt-é`: "CHAR" in the man page is one character, not one byte. *)
From Fzf Require Import Prelude.
Open Scope Z_scope.

Definition RUNE_ERROR : Z := 65533.

Definition rng (lo hi c : Z) : bool := (lo <=? c) && (c <=? hi).
Definition cont (c : Z) : bool := rng 128 191 c.

(* first character of s and its width in bytes (0 only for the empty string) *)
Definition decode_rune (s : str) : Z * nat :=
  match s with
  | [] => (RUNE_ERROR, 0%nat)
  | b0 :: r =>
    if b0 <? 128 then (b0, 1%nat)
    else if rng 194 223 b0 then
      match r with
      | b1 :: _ => if cont b1 then ((b0 - 192) * 64 + (b1 - 128), 2%nat) else (RUNE_ERROR, 1%nat)
      | _ => (RUNE_ERROR, 1%nat)
      end
    else if rng 224 239 b0 then
      match r with
      | b1 :: b2 :: _ =>
        if rng (if b0 =? 224 then 160 else 128) (if b0 =? 237 then 159 else 191) b1 && cont b2
        then ((b0 - 224) * 4096 + (b1 - 128) * 64 + (b2 - 128), 3%nat) else (RUNE_ERROR, 1%nat)
      | _ => (RUNE_ERROR, 1%nat)
      end
    else if rng 240 244 b0 then
      match r with
      | b1 :: b2 :: b3 :: _ =>
        if rng (if b0 =? 240 then 144 else 128) (if b0 =? 244 then 143 else 191) b1 && cont b2 && cont b3
        then ((b0 - 240) * 262144 + (b1 - 128) * 4096 + (b2 - 128) * 64 + (b3 - 128), 4%nat) else (RUNE_ERROR, 1%nat)
      | _ => (RUNE_ERROR, 1%nat)
      end
    else (RUNE_ERROR, 1%nat)
  end.

(* the characters of s, in order; [skip] = bytes of the current character still to pass *)
Fixpoint utf8_runes_aux (skip : nat) (s : str) : list Z :=
  match s with
  | [] => []
  | _ :: r =>
    match skip with
    | S k => utf8_runes_aux k r
    | O => let '(x, w) := decode_rune s in x :: utf8_runes_aux (w - 1) r
    end
  end.
Definition utf8_runes (s : str) : list Z := utf8_runes_aux 0 s.

(* the UTF-8 spelling of a character (shortest form) *)
Definition utf8_encode (c : Z) : str :=
  if c <? 128 then [c]
  else if c <? 2048 then [192 + c / 64; 128 + c mod 64]
  else
    let k := c / 64 in
    if c <? 65536 then [224 + k / 64; 128 + k mod 64; 128 + c mod 64]
    else let j := k / 64 in [240 + j / 64; 128 + j mod 64; 128 + k mod 64; 128 + c mod 64].

(* a Unicode scalar value: in range and not a surrogate *)
Definition scalar (c : Z) : bool := (rng 0 55295 c) || (rng 57344 1114111 c).
