(* C04 vocabulary: sort keys per documented criterion, the rank order, the result list.
   Everything is in ONE unit (character = rune index).  Constants written out: 65535 (uint16 range),
   '/' = 47, '\' = 92, ASCII white space 9..13 and 32.  Nothing here looks at how result.go /
   merger.go compute anything: keys are closed formulas over take_while / firstn / skipn, the order
   is a lexicographic comparison of lists, the result list is an insertion sort. *)
From Fzf Require Import Prelude.
Open Scope Z_scope.

(* --tiebreak criteria (score is always the first one) *)
Inductive crit := ByScore | ByChunk | ByLength | ByBegin | ByEnd | ByPathname.

Definition zlen {A} (l : list A) : Z := Z.of_nat (length l).

Fixpoint take_while {A} (p : A -> bool) (l : list A) : list A :=
  match l with
  | [] => []
  | x :: t => if p x then x :: take_while p t else []
  end.

Definition clamp16 (z : Z) : Z := if z <? 0 then 0 else if 65535 <? z then 65535 else z.

Definition ascii_space (c : Z) : bool := ((9 <=? c) && (c <=? 13)) || (c =? 32).
Definition is_sep (c : Z) : bool := (c =? 47) || (c =? 92).

Section Keys.
Variable sp : Z -> bool.     (* unicode.IsSpace for runes above 127: a parameter, arbitrary in every theorem *)

Definition is_space (c : Z) : bool := if c <=? 127 then ascii_space c else sp c.
Definition not_space (c : Z) : bool := negb (is_space c).

Definition lead_ws (t : str) : Z := zlen (take_while is_space t).
Definition trail_ws (t : str) : Z := zlen (take_while is_space (rev t)).
(* length after trimming white space on both sides *)
Definition trim_len (t : str) : Z :=
  if lead_ws t =? zlen t then 0 else zlen t - lead_ws t - trail_ws t.

(* matched substrings: only offsets (b, e) with b < e count (a negated term contributes (0,0)) *)
Definition valid_offsets (offs : list (Z * Z)) : list (Z * Z) := filter (fun o => fst o <? snd o) offs.

(* (smallest begin, smallest end, largest end) of the matched substrings *)
Definition span (offs : list (Z * Z)) : option (Z * Z * Z) :=
  match valid_offsets offs with
  | [] => None
  | (b, e) :: r =>
      Some (fold_right Z.min b (map fst r), fold_right Z.min e (map snd r), fold_right Z.max e (map snd r))
  end.

(* start of the white-space delimited word containing position b; end of the word containing position e *)
Definition word_start (t : str) (b : Z) : Z := b - zlen (take_while not_space (rev (firstn (Z.to_nat b) t))).
Definition word_end (t : str) (e : Z) : Z := e + zlen (take_while not_space (skipn (Z.to_nat e) t)).

(* index of the last path separator, -1 when there is none *)
Definition last_sep (t : str) : Z := zlen t - 1 - zlen (take_while (fun c => negb (is_sep c)) (rev t)).

(* one sort key, smaller is better, always within 0..65535 *)
Definition key1 (c : crit) (t : str) (offs : list (Z * Z)) (score : Z) : Z :=
  match c with
  | ByScore => 65535 - clamp16 score
  | ByLength => clamp16 (trim_len t)
  | _ =>
      match span offs with
      | None => 65535
      | Some (min_begin, min_end, max_end) =>
          let wp := Z.min (lead_ws t) min_begin in
          match c with
          | ByChunk => clamp16 (word_end t max_end - word_start t min_begin)
          | ByPathname =>
              let ls := last_sep t in
              if ls <=? min_begin then clamp16 (min_begin - ls) else 65535
          | ByBegin => clamp16 (min_end - wp)
          | ByEnd => clamp16 (65535 - 65535 * (max_end - wp) / (clamp16 (trim_len t) + 1))
          | _ => 65535
          end
      end
  end.

(* the key of a line: one number per configured criterion, most significant first *)
Definition key (cs : list crit) (t : str) (offs : list (Z * Z)) (score : Z) : list Z :=
  map (fun c => key1 c t offs score) cs.

End Keys.

(* ---- the order ---- *)

Record ritem := mkRItem { ri_index : Z; ri_key : list Z }.

Fixpoint lex_ltb (a b : list Z) : bool :=
  match a, b with
  | [], [] => false
  | [], _ :: _ => true
  | _ :: _, [] => false
  | x :: a', y :: b' => (x <? y) || ((x =? y) && lex_ltb a' b')
  end.

(* lexicographic on keys, then input position (reversed under --tac) *)
Definition rank_ltb (tac : bool) (a b : ritem) : bool :=
  lex_ltb (ri_key a) (ri_key b)
  || (str_eqb (ri_key a) (ri_key b)
      && (if tac then ri_index b <? ri_index a else ri_index a <? ri_index b)).

Section Sort.
Context {A : Type}.
Variable ltb : A -> A -> bool.

Fixpoint insert (x : A) (l : list A) : list A :=
  match l with
  | [] => [x]
  | y :: t => if ltb y x then y :: insert x t else x :: l
  end.

Fixpoint isort (l : list A) : list A :=
  match l with
  | [] => []
  | x :: t => insert x (isort t)
  end.

(* the same list computed in n log n (bottom-up merge sort); RankProofs.msort_eq_isort shows msort = isort
   for every strict total order.  Used by the harness on lists of tens of thousands of lines. *)
Fixpoint merge (l1 : list A) : list A -> list A :=
  match l1 with
  | [] => fun l2 => l2
  | x :: t1 =>
      fix merge_aux (l2 : list A) : list A :=
        match l2 with
        | [] => l1
        | y :: t2 => if ltb y x then y :: merge_aux t2 else x :: merge t1 l2
        end
  end.

Fixpoint merge_pairs (ls : list (list A)) : list (list A) :=
  match ls with
  | a :: b :: r => merge a b :: merge_pairs r
  | _ => ls
  end.

Fixpoint merge_all (fuel : nat) (ls : list (list A)) : list A :=
  match ls with
  | [] => []
  | [l] => l
  | _ => match fuel with
         | O => concat ls
         | S f => merge_all f (merge_pairs ls)
         end
  end.

Definition msort (l : list A) : list A := merge_all (length l) (map (fun x => [x]) l).

End Sort.

(* the result list *)
Definition ranked (tac : bool) (l : list ritem) : list ritem := isort (rank_ltb tac) l.
Definition ranked_fast (tac : bool) (l : list ritem) : list ritem := msort (rank_ltb tac) l.
Definition input_order {A} (tac : bool) (l : list A) : list A := if tac then rev l else l.

(* [sorted] = sorting is on (no --no-sort) AND the query has at least one non-negated term (so it is not empty) *)
Definition result_order (sorted tac : bool) (l : list ritem) : list ritem :=
  if sorted then ranked tac l else input_order tac l.

(* A line as the property sees it: position, text, and - when it matches - the matched substrings and the score. *)
Record line := mkLine { ln_index : Z; ln_text : str; ln_match : option (list (Z * Z) * Z) }.

Definition matched_items (sp : Z -> bool) (cs : list crit) (ls : list line) : list ritem :=
  flat_map (fun l => match ln_match l with
                     | Some (offs, score) => [mkRItem (ln_index l) (key sp cs (ln_text l) offs score)]
                     | None => []
                     end) ls.

(* results of filtering [ls] (after --tail n has dropped all but the last n lines; n = 0: no limit) *)
Definition results (sp : Z -> bool) (cs : list crit) (sort_on has_positive_term tac : bool) (tail : nat)
           (ls : list line) : list Z :=
  let ls := match tail with O => ls | _ => last_n tail ls end in
  map ri_index (result_order (sort_on && has_positive_term) tac (matched_items sp cs ls)).

Definition results_fast (sp : Z -> bool) (cs : list crit) (sort_on has_positive_term tac : bool) (tail : nat)
           (ls : list line) : list Z :=
  let ls := match tail with O => ls | _ => last_n tail ls end in
  let ms := matched_items sp cs ls in
  map ri_index (if sort_on && has_positive_term then ranked_fast tac ms else input_order tac ms).
