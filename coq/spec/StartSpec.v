(* C14, commands that cannot be started: the vocabulary of the hand-shake between the coordinator (core.go: Run) and a
   reader goroutine (reader.go), and what "the coordinator is not held up" means.  Does not look at how fzf's reader
   is written (that is model/StartModel.v).

   core.go starts every source of the list with
        readyChan := make(chan bool)          (unbuffered)
        go reader.<ReadSource | restart>(..., readyChan)
        <-readyChan
   The coordinator is the goroutine that owns EvtReadNew / EvtReadFin / EvtSearchNew / EvtQuit: while it sits in
   `<-readyChan` no search result, no reload and no exit request is processed. *)
From Fzf Require Import Prelude.
Open Scope Z_scope.

(* what a reader goroutine does, in program order *)
Inductive rev :=
| RLock | RUnlock        (* r.mutex: also taken by reader.terminate(), which the coordinator calls *)
| RSend                  (* readyChan <- true: returns when the coordinator receives; blocks for ever when nobody does *)
| RFeed                  (* reads the output of the command / standard input / the channel to its end: unbounded time *)
| RFin (failed : bool)   (* r.fin: EvtReadFin is posted, with the command string when it failed *)
| RRemove.               (* removeFiles(command.tempFiles) *)

Definition is_send (e : rev) : bool := match e with RSend => true | _ => false end.
Definition is_feed (e : rev) : bool := match e with RFeed => true | _ => false end.
Definition is_fin (e : rev) : bool := match e with RFin _ => true | _ => false end.
Definition count (p : rev -> bool) (tr : list rev) : nat := length (filter p tr).

(* the part of the trace the coordinator has to sit through *)
Fixpoint before_send (tr : list rev) : list rev :=
  match tr with
  | [] => []
  | RSend :: _ => []
  | e :: t => e :: before_send t
  end.

Fixpoint after_fin (tr : list rev) : list rev :=
  match tr with
  | [] => []
  | RFin _ :: t => t
  | _ :: t => after_fin t
  end.

(* mutex discipline: None = a Lock while held (self-deadlock) or an Unlock while free (Go: fatal error) *)
Fixpoint lock_run (held : bool) (tr : list rev) : option bool :=
  match tr with
  | [] => Some held
  | RLock :: t => if held then None else lock_run true t
  | RUnlock :: t => if held then lock_run false t else None
  | _ :: t => lock_run held t
  end.

(* THE SPEC of one reader run.  `ready` = a coordinator is waiting on readyChan (false: --filter, readyChan == nil).
   - exactly one send when somebody waits, none otherwise (a second send has no receiver: the goroutine never
     reaches r.fin and the list stays "loading" for ever);
   - nothing of unbounded duration before the send;
   - the mutex is released as often as it is taken and is free at the end;
   - the end of input is announced exactly once, and nothing blocking comes after it. *)
Definition handshake_okb (ready : bool) (tr : list rev) : bool :=
  (count is_send tr =? (if ready then 1 else 0))%nat
  && negb (existsb is_feed (before_send tr) && ready)
  && match lock_run false tr with Some false => true | _ => false end
  && (count is_fin tr =? 1)%nat
  && negb (existsb (fun e => is_send e || is_feed e) (after_fin tr)).

(* ---- operational meaning: one reader goroutine next to a coordinator *)
Record rres := mkRres {
  rr_waiting : bool;   (* the coordinator is still in `<-readyChan` when the goroutine has ended or is stuck *)
  rr_held : bool;      (* r.mutex is held (for ever, when the goroutine is stuck or has ended) *)
  rr_stuck : bool      (* the goroutine blocks for ever (send without receiver, Lock of a held mutex) *)
}.

(* waiting: the coordinator sits in `<-readyChan`.  An RFeed while it waits counts as stuck: the command decides
   how long that takes (`reload(sleep 1000)` would freeze fzf for 1000 s). *)
Fixpoint run_reader (held waiting : bool) (tr : list rev) : rres :=
  match tr with
  | [] => mkRres waiting held false
  | RLock :: t => if held then mkRres waiting held true else run_reader true waiting t
  | RUnlock :: t => run_reader false waiting t
  | RSend :: t => if waiting then run_reader held false t else mkRres waiting held true
  | RFeed :: t => if waiting then mkRres waiting held true else run_reader held waiting t
  | _ :: t => run_reader held waiting t
  end.

(* what a harness can see of a real run (verif hook on Reader): number of values received on readyChan, whether
   the goroutine came to its end, whether EvtReadFin is in the event box, whether reader.terminate() returns *)
Definition observation (ready : bool) (tr : list rev) : list Z :=
  let r := run_reader false ready tr in
  [Z.of_nat (count is_send tr);
   if rr_stuck r then 0 else 1;
   if (0 <? count is_fin tr)%nat && negb (rr_stuck r) then 1 else 0;
   if rr_held r then 0 else 1].
Definition observation_okb (ready : bool) (o : list Z) : bool :=
  match o with
  | [s; e; f; m] => (s =? (if ready then 1 else 0)) && (e =? 1) && (f =? 1) && (m =? 1)
  | _ => false
  end.
