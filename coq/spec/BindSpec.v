(* C17 spec, part 1: the --bind language as documented in the man page
   (KEY/EVENT BINDINGS, AVAILABLE ACTIONS, ACTION ARGUMENT forms).
   Vocabulary tables, the abstract syntax of a bind expression, how it is written
   down with each documented delimiter form, the documented restriction on
   arguments, and the keymap it denotes.  Nothing here looks at options.go. *)
From Coq Require Import String Ascii.
From Fzf Require Import Prelude RuneSpec.
Open Scope Z_scope.

(* string literal -> bytes *)
Definition b (s : string) : str := map (fun a => Z.of_nat (nat_of_ascii a)) (list_ascii_of_string s).

Definition COLON : Z := 58.
Definition COMMA : Z := 44.
Definition PLUS : Z := 43.
Definition SPACE : Z := 32.
Definition DASH : Z := 45.

Definition is_upper (c : Z) : bool := (65 <=? c) && (c <=? 90).
Definition is_lower (c : Z) : bool := (97 <=? c) && (c <=? 122).
Definition lower (c : Z) : Z := if is_upper c then c + 32 else c.
Definition to_lower (s : str) : str := map lower s.
Definition is_sep (c : Z) : bool := (c =? COLON) || (c =? COMMA) || (c =? PLUS).

(* strings.Split on one byte: always at least one piece *)
Fixpoint split_aux (sep : Z) (cur : str) (s : str) : list str :=
  match s with
  | [] => [rev cur]
  | c :: r => if c =? sep then rev cur :: split_aux sep [] r else split_aux sep (c :: cur) r
  end.
Definition split_on (sep : Z) (s : str) : list str := split_aux sep [] s.

(* ---------------------------------------------------------------- keys *)

Inductive key :=
| KRune (r : Z)          (* a character (Unicode code point) *)
| KCtrl (i : Z)          (* ctrl-a .. ctrl-z as 0..25; tab = ctrl-i, enter = ctrl-m *)
| KNamed (name : str)    (* any other named key or event, canonical name *)
| KF (n : Z)             (* f1 .. f12 *)
| KAlt (r : Z)           (* alt-<char> *)
| KCtrlAlt (r : Z).      (* ctrl-alt-<char> *)

Definition key_eqb (x y : key) : bool :=
  match x, y with
  | KRune a, KRune c | KCtrl a, KCtrl c | KF a, KF c | KAlt a, KAlt c | KCtrlAlt a, KCtrlAlt c => a =? c
  | KNamed a, KNamed c => str_eqb a c
  | _, _ => false
  end.

Definition nk (s : string) : key := KNamed (b s).

(* named keys and events: spelling (lower case) -> key *)
Definition named_keys : list (str * key) := Eval vm_compute in
  [ (b "up", nk "up"); (b "down", nk "down"); (b "left", nk "left"); (b "right", nk "right");
    (b "enter", KCtrl 12); (b "return", KCtrl 12); (b "space", KRune 32);
    (b "backspace", nk "backspace"); (b "bspace", nk "backspace"); (b "bs", nk "backspace");
    (b "ctrl-space", nk "ctrl-space"); (b "ctrl-delete", nk "ctrl-delete");
    (b "ctrl-^", nk "ctrl-caret"); (b "ctrl-6", nk "ctrl-caret");
    (b "ctrl-/", nk "ctrl-slash"); (b "ctrl-_", nk "ctrl-slash");
    (b "ctrl-\", nk "ctrl-back-slash"); (b "ctrl-]", nk "ctrl-right-bracket");
    (b "change", nk "change"); (b "backward-eof", nk "backward-eof"); (b "start", nk "start");
    (b "load", nk "load"); (b "focus", nk "focus"); (b "result", nk "result"); (b "resize", nk "resize");
    (b "one", nk "one"); (b "zero", nk "zero"); (b "jump", nk "jump"); (b "jump-cancel", nk "jump-cancel");
    (b "click-header", nk "click-header");
    (b "alt-enter", KCtrlAlt 109); (b "alt-return", KCtrlAlt 109); (b "alt-space", KAlt 32);
    (b "alt-bs", nk "alt-backspace"); (b "alt-bspace", nk "alt-backspace"); (b "alt-backspace", nk "alt-backspace");
    (b "alt-up", nk "alt-up"); (b "alt-down", nk "alt-down"); (b "alt-left", nk "alt-left"); (b "alt-right", nk "alt-right");
    (b "tab", KCtrl 8); (b "btab", nk "shift-tab"); (b "shift-tab", nk "shift-tab");
    (b "esc", nk "esc"); (b "delete", nk "delete"); (b "del", nk "delete");
    (b "home", nk "home"); (b "end", nk "end"); (b "insert", nk "insert");
    (b "pgup", nk "page-up"); (b "page-up", nk "page-up"); (b "pgdn", nk "page-down"); (b "page-down", nk "page-down");
    (b "alt-shift-up", nk "alt-shift-up"); (b "shift-alt-up", nk "alt-shift-up");
    (b "alt-shift-down", nk "alt-shift-down"); (b "shift-alt-down", nk "alt-shift-down");
    (b "alt-shift-left", nk "alt-shift-left"); (b "shift-alt-left", nk "alt-shift-left");
    (b "alt-shift-right", nk "alt-shift-right"); (b "shift-alt-right", nk "alt-shift-right");
    (b "shift-up", nk "shift-up"); (b "shift-down", nk "shift-down"); (b "shift-left", nk "shift-left");
    (b "shift-right", nk "shift-right"); (b "shift-delete", nk "shift-delete");
    (b "left-click", nk "left-click"); (b "right-click", nk "right-click");
    (b "shift-left-click", nk "s-left-click"); (b "shift-right-click", nk "s-right-click");
    (b "double-click", nk "double-click"); (b "scroll-up", nk "scroll-up"); (b "scroll-down", nk "scroll-down");
    (b "shift-scroll-up", nk "s-scroll-up"); (b "shift-scroll-down", nk "s-scroll-down");
    (b "preview-scroll-up", nk "preview-scroll-up"); (b "preview-scroll-down", nk "preview-scroll-down");
    (b "f10", KF 10); (b "f11", KF 11); (b "f12", KF 12) ].

Fixpoint assoc_str {A} (k : str) (m : list (str * A)) : option A :=
  match m with
  | [] => None
  | (k', v) :: r => if str_eqb k k' then Some v else assoc_str k r
  end.

Definition has_prefix (p s : str) : bool := str_eqb p (firstn (length p) s).

Definition s_f : str := Eval vm_compute in b "f".
Definition s_alt : str := Eval vm_compute in b "alt-".
Definition s_ctrl : str := Eval vm_compute in b "ctrl-".
Definition s_ctrl_alt : str := Eval vm_compute in b "ctrl-alt-".

(* a key name that is one character, or alt- followed by one character.  "Character" is a
   character of the (UTF-8) spelling, not a byte: alt-é names ALT + U+00E9 *)
Definition rune_key (tok l : str) : option key :=
  match utf8_runes tok with
  | [r] => Some (KRune r)
  | [_; _; _; _; r] => if has_prefix s_alt l then Some (KAlt r) else None
  | _ => None
  end.

(* one key name (no comma handling here) -> key.  Names are case-insensitive (ASCII letters),
   the character of alt-X / ctrl-alt-X / a plain character keeps its case.
   Outside the domain: names containing U+0130 or U+212A (Go's ToLower maps them to the ASCII
   letters i and k, so e.g. U+212A inside "backspace" is accepted by fzf). *)
Definition key_of_token (tok : str) : option key :=
  let l := to_lower tok in
  match assoc_str l named_keys with
  | Some k => Some k
  | None =>
      match tok with
      | [_; d] => if has_prefix s_f l && (49 <=? d) && (d <=? 57) then Some (KF (d - 48)) else rune_key tok l
      | [_; _; _; _; _; c] =>
          if has_prefix s_ctrl l && is_lower (lower c) then Some (KCtrl (lower c - 97)) else rune_key tok l
      | [_; _; _; _; _; _; _; _; _; c] =>
          if has_prefix s_ctrl_alt l && is_lower (lower c) then Some (KCtrlAlt c) else rune_key tok l
      | _ => rune_key tok l
      end
  end.

(* ---------------------------------------------------------------- actions *)

(* an action as stored in the keymap: canonical action name and argument ("" when none) *)
Definition action := (str * str)%type.

Definition same (s : string) : str * list str := (b s, [b s]).

(* actions without argument: spelling -> the action(s) it stands for *)
Definition simple_actions : list (str * list str) := Eval vm_compute in
  [ same "ignore"; same "beginning-of-line"; same "abort"; same "accept"; same "accept-non-empty";
    same "accept-or-print-query"; same "print-query"; same "refresh-preview"; same "replace-query";
    same "backward-char"; same "backward-delete-char"; (b "backward-delete-char/eof", [b "backward-delete-char-eof"]);
    same "backward-word"; same "clear-screen"; same "delete-char"; (b "delete-char/eof", [b "delete-char-eof"]);
    same "deselect"; same "end-of-line"; same "cancel"; same "clear-query"; same "clear-selection";
    same "forward-char"; same "forward-word"; same "jump"; same "jump-accept"; same "kill-line"; same "kill-word";
    same "unix-line-discard"; (b "line-discard", [b "unix-line-discard"]);
    same "unix-word-rubout"; (b "word-rubout", [b "unix-word-rubout"]);
    same "yank"; same "backward-kill-word";
    (b "toggle-down", [b "toggle"; b "down"]); (b "toggle-up", [b "toggle"; b "up"]);
    same "toggle-in"; same "toggle-out"; same "toggle-all"; same "toggle-search"; same "toggle-track";
    same "toggle-track-current"; same "toggle-input"; same "hide-input"; same "show-input"; same "toggle-header";
    same "toggle-wrap"; same "toggle-multi-line"; same "toggle-hscroll"; same "show-header"; same "hide-header";
    (b "track", [b "track-current"]); same "track-current"; same "untrack-current";
    same "select"; same "select-all"; same "deselect-all"; same "close"; same "toggle"; same "down"; same "up";
    same "first"; (b "top", [b "first"]); same "last"; same "page-up"; same "page-down"; same "half-page-up";
    same "half-page-down"; same "prev-history"; (b "previous-history", [b "prev-history"]); same "next-history";
    same "prev-selected"; same "next-selected"; same "show-preview"; same "hide-preview"; same "toggle-preview";
    same "toggle-preview-wrap"; same "toggle-sort"; same "offset-up"; same "offset-down"; same "offset-middle";
    same "preview-top"; same "preview-bottom"; same "preview-up"; same "preview-down"; same "preview-page-up";
    same "preview-page-down"; same "preview-half-page-up"; same "preview-half-page-down";
    same "enable-search"; same "disable-search"; same "bell"; same "exclude"; same "exclude-multi";
    same "change-multi" ].

Definition samep (s : string) : str * str := (b s, b s).

(* actions that take an argument: spelling -> canonical name *)
Definition arg_actions : list (str * str) := Eval vm_compute in
  [ samep "become"; samep "reload"; samep "reload-sync"; samep "unbind"; samep "rebind"; samep "toggle-bind";
    samep "preview"; samep "change-header"; samep "change-list-label"; samep "change-border-label";
    samep "change-preview-label"; samep "change-input-label"; samep "change-header-label"; samep "change-ghost";
    samep "change-pointer"; samep "change-preview-window"; samep "change-preview"; samep "change-prompt";
    samep "change-query"; samep "change-multi"; samep "change-nth"; (b "pos", b "position");
    samep "execute"; samep "execute-silent"; samep "execute-multi"; samep "print"; samep "put";
    samep "transform"; samep "transform-list-label"; samep "transform-border-label"; samep "transform-preview-label";
    samep "transform-input-label"; samep "transform-header-label"; samep "transform-header"; samep "transform-ghost";
    samep "transform-nth"; samep "transform-pointer"; samep "transform-prompt"; samep "transform-query";
    samep "transform-search"; samep "search" ].

(* actions whose argument is itself parsed (key list / preview-window spec); outside the round-trip claim *)
Definition checked_arg_actions : list str := Eval vm_compute in
  [ b "unbind"; b "rebind"; b "toggle-bind"; b "change-preview-window" ].

Fixpoint mem_str (s : str) (l : list str) : bool :=
  match l with [] => false | x :: r => str_eqb s x || mem_str s r end.

(* ---------------------------------------------------------------- delimiter forms *)

(* action(arg) action[arg] action{arg} action<arg>, actionXargX for X in ~!@#$%^&*;/| , action:arg *)
Inductive aform := FPair (opener closer : Z) | FColon.

Definition closer_of (c : Z) : option Z :=
  if c =? 40 then Some 41 else if c =? 123 then Some 125 else if c =? 91 then Some 93
  else if c =? 60 then Some 62
  else if (c =? 126) || (c =? 33) || (c =? 64) || (c =? 35) || (c =? 36) || (c =? 37) || (c =? 94)
          || (c =? 38) || (c =? 42) || (c =? 59) || (c =? 47) || (c =? 124) then Some c
  else None.

Definition form_ok (f : aform) : bool :=
  match f with
  | FPair o c => match closer_of o with Some c' => c =? c' | None => false end
  | FColon => true
  end.

(* ---------------------------------------------------------------- abstract syntax *)

Inductive act :=
| ASimple (name : str)
| AArg (name : str) (f : aform) (arg : str).

Definition bpair := (list str * list act)%type.   (* key spellings, actions *)
Definition bind := list bpair.

Fixpoint join (sep : Z) (l : list str) : str :=
  match l with
  | [] => []
  | [x] => x
  | x :: r => x ++ sep :: join sep r
  end.

Definition render_act (a : act) : str :=
  match a with
  | ASimple n => n
  | AArg n (FPair o c) arg => n ++ o :: arg ++ [c]
  | AArg n FColon arg => n ++ COLON :: arg
  end.

Definition render_pair (p : bpair) : str :=
  join COMMA (fst p) ++ COLON :: join PLUS (map render_act (snd p)).

Definition render (bd : bind) : str := join COMMA (map render_pair bd).

(* ---------------------------------------------------------------- the documented restriction *)

(* "the argument may not contain the closing delimiter followed by + or ,"
   (man page: use a different delimiter or the trailing-colon form in that case) *)
Fixpoint arg_free (c : Z) (arg : str) : bool :=
  match arg with
  | [] => true
  | x :: r => negb ((x =? c) && match r with [] => false | y :: _ => (y =? PLUS) || (y =? COMMA) end)
              && arg_free c r
  end.

(* a key name: not one of the three punctuation keys , : + (they need the escaped spellings) and free
   of the control bytes 0-2 (never produced by a keyboard; fzf uses them internally as escape marks) *)
Definition key_spelling_ok (k : str) : bool :=
  nonemptyb k && forallb (fun c => negb (is_sep c) && (3 <=? c)) k
  && match key_of_token k with Some _ => true | None => false end.

Definition lowercase (s : str) : bool := forallb (fun c => negb (is_upper c)) s.

(* last = this action is the very last thing in the whole expression *)
Definition act_ok (last : bool) (a : act) : bool :=
  match a with
  | ASimple n => match assoc_str n simple_actions with Some _ => true | None => false end
  | AArg n f arg =>
      match assoc_str n arg_actions with Some _ => true | None => false end
      && negb (mem_str n checked_arg_actions)
      && form_ok f
      && match f with FPair _ c => arg_free c arg | FColon => last end
  end.

Fixpoint acts_ok (last : bool) (l : list act) : bool :=
  match l with
  | [] => true
  | [a] => act_ok last a
  | a :: r => act_ok false a && acts_ok last r
  end.

Definition pair_ok (last : bool) (p : bpair) : bool :=
  nonemptyb (fst p) && forallb key_spelling_ok (fst p) && nonemptyb (snd p) && acts_ok last (snd p).

Fixpoint wf_bind (bd : bind) : bool :=
  match bd with
  | [] => false
  | [p] => pair_ok true p
  | p :: r => pair_ok false p && wf_bind r
  end.

(* ---------------------------------------------------------------- denotation *)

Definition keymap := list (key * list action).

Fixpoint km_get (m : keymap) (k : key) : list action :=
  match m with
  | [] => []
  | (k', v) :: r => if key_eqb k k' then v else km_get r k
  end.

Fixpoint km_set (m : keymap) (k : key) (v : list action) : keymap :=
  match m with
  | [] => [(k, v)]
  | (k', v') :: r => if key_eqb k k' then (k', v) :: r else (k', v') :: km_set r k v
  end.

Definition act_denote (a : act) : list action :=
  match a with
  | ASimple n => match assoc_str n simple_actions with Some cs => map (fun c => (c, [])) cs | None => [] end
  | AArg n _ arg => match assoc_str n arg_actions with Some c => [(c, arg)] | None => [] end
  end.

Definition acts_denote (l : list act) : list action := flat_map act_denote l.

Definition key_denote (k : str) : key := match key_of_token k with Some x => x | None => KRune 0 end.

(* the SET of keys named by a comma-separated list of key names (--expect, unbind(...), ...) *)
Definition keys_denote (ks : list str) : list key :=
  fold_left (fun acc k => let x := key_denote k in if existsb (key_eqb x) acc then acc else acc ++ [x]) ks [].

(* every listed key receives exactly the listed actions, in order; later pairs override earlier ones *)
Definition pair_denote (m : keymap) (p : bpair) : keymap :=
  fold_left (fun m k => km_set m (key_denote k) (acts_denote (snd p))) (fst p) m.

Definition denote (m : keymap) (bd : bind) : keymap := fold_left pair_denote bd m.
