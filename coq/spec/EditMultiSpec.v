(* C09 spec, second part: the --multi limit can change during a session (action change-multi).
   Written from the man page ("change-multi: enable multi-select mode with no limit;
   change-multi(...): enable multi-select mode with a limit or disable it with 0") and the
   property text ("nothing is selectable without --multi, never more than the --multi limit"):
   - the limit in force is a part of what the user deals with, so the interface machine of EditSpec
     is run with parameters that change: a session state is (parameters, state);
   - a change of the limit starts a new selection (the old one was made under other rules and may
     not fit the new limit: with the limit 0 NOTHING may be selected); asking for the limit that is
     in force already changes nothing;
   - an argument that is not a non-negative number is not a limit: nothing changes.
   The one-state predicate obs_sel_ok of EditSpec is evaluated with the limit in force. *)
From Fzf Require Import Prelude EditSpec.
Open Scope Z_scope.

Definition UNLIMITED : Z := 2147483647.   (* "no limit": more lines than fzf can number (int32 indexes) *)

(* the argument of change-multi as written by the user *)
Inductive cm_arg :=
| CMNone                  (* change-multi, change-multi() *)
| CMNum (n : Z)           (* change-multi(NUM), NUM a decimal integer *)
| CMBad.                  (* anything else *)

Inductive xact :=
| XA (a : act)
| XChangeMulti (m : cm_arg).

Definition limit_after (old : Z) (m : cm_arg) : Z :=
  match m with
  | CMNone => UNLIMITED
  | CMNum n => if 0 <=? n then n else old
  | CMBad => old
  end.

Definition sp_with_multi (p : sparams) (m : Z) : sparams :=
  mkSP m (sp_cycle p) (sp_flip p) (sp_page p) (sp_noinput p).

Section Session.
  Variable isw : Z -> bool.

  Definition xsstep (ps : sparams * sstate) (x : xact) : sparams * sstate :=
    let '(p, s) := ps in
    match x with
    | XA a => (p, sstep isw p s a)
    | XChangeMulti m =>
        let n := limit_after (sp_multi p) m in
        (sp_with_multi p n, if n =? sp_multi p then s else mkSS (ss_zip s) (ss_res s) (ss_pos s) [])
    end.

  Definition xsrun (ps : sparams * sstate) (xs : list xact) : sparams * sstate := fold_left xsstep xs ps.
End Session.

(* what must hold of ONE session state whatever the history was: never more selected lines than the
   limit in force, in particular none when multi-select is off *)
Definition session_sel_ok (ps : sparams * sstate) : Prop :=
  Z.of_nat (length (ss_sel (snd ps))) <= sp_multi (fst ps).
