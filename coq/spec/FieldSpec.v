(* C10 spec: fields of a line and field index expressions, as the man page
   describes them (FIELD INDEX EXPRESSION, --delimiter, --nth, --with-nth),
   written without looking at how tokenizer.go computes them.
   Characters are runes (Z); positions are rune positions. *)
From Fzf Require Import Prelude.
Open Scope Z_scope.

(* ---------- AWK-style fields (the default) ---------- *)
(* blank = TAB or SPACE.  Leading blanks belong to no field; a field is a
   maximal run of non-blanks followed by the maximal run of blanks after it. *)
Definition is_blank (c : Z) : bool := (c =? 9) || (c =? 32).
Definition non_blank (c : Z) : bool := negb (is_blank c).

(* longest prefix satisfying p, and the rest *)
Fixpoint span {A} (p : A -> bool) (l : list A) : list A * list A :=
  match l with
  | [] => ([], [])
  | x :: t => if p x then let (a, b) := span p t in (x :: a, b) else ([], l)
  end.

Fixpoint awk_fields_from (fuel : nat) (s : str) : list str :=
  match fuel with
  | O => []
  | S k =>
      match s with
      | [] => []
      | _ :: _ =>
          let (w, r1) := span non_blank s in
          let (b, r2) := span is_blank r1 in
          (w ++ b) :: awk_fields_from k r2
      end
  end.

Definition awk_lead (line : str) : str := fst (span is_blank line).
Definition awk_fields (line : str) : list str :=
  let r := snd (span is_blank line) in awk_fields_from (length r) r.

(* ---------- literal-string delimiter ---------- *)
(* pieces end right after each (leftmost, non-overlapping) occurrence of sep; the
   rest of the line is the last piece (possibly empty).  Empty sep: one piece per
   character. *)
Fixpoint is_prefix (p s : str) : bool :=
  match p, s with
  | [], _ => true
  | x :: p', y :: s' => (x =? y) && is_prefix p' s'
  | _ :: _, [] => false
  end.

(* skip = number of characters of the current separator occurrence still to copy *)
Fixpoint split_after_go (sep : str) (skip : nat) (cur : str) (s : str) : list str :=
  match s with
  | [] => [rev cur]
  | c :: t =>
      match skip with
      | S O => rev (c :: cur) :: split_after_go sep 0 [] t
      | S k => split_after_go sep k (c :: cur) t
      | O =>
          if is_prefix sep s then
            match length sep with
            | S O => rev (c :: cur) :: split_after_go sep 0 [] t
            | n => split_after_go sep (n - 1) (c :: cur) t
            end
          else split_after_go sep 0 (c :: cur) t
      end
  end.

Definition split_after (sep : str) (line : str) : list str :=
  match sep with
  | [] => map (fun c => [c]) line
  | _ => split_after_go sep 0 [] line
  end.

(* ---------- regular-expression delimiter ---------- *)
(* the regexp engine is not specified here: the (start, end) positions of the
   delimiter occurrences are given; pieces end at each occurrence's end, the
   remainder (if not empty) is the last piece *)
Fixpoint split_by_from (begin : nat) (locs : list (nat * nat)) (line : str) : list str :=
  match locs with
  | [] => if Nat.ltb begin (length line) then [skipn begin line] else []
  | (_, e) :: r => firstn (e - begin) (skipn begin line) :: split_by_from e r line
  end.
Definition split_by (locs : list (nat * nat)) (line : str) : list str := split_by_from 0 locs line.

(* occurrences are ordered, do not overlap and lie inside the line *)
Fixpoint locs_wf (begin : nat) (len : nat) (locs : list (nat * nat)) : Prop :=
  match locs with
  | [] => True
  | (s, e) :: r => (begin <= s /\ s <= e /\ e <= len)%nat /\ locs_wf e len r
  end.
Fixpoint locs_wfb (begin : nat) (len : nat) (locs : list (nat * nat)) : bool :=
  match locs with
  | [] => true
  | (s, e) :: r => Nat.leb begin s && Nat.leb s e && Nat.leb e len && locs_wfb e len r
  end.

(* ---------- where a field starts ---------- *)
(* offset (in characters of the line) of field k when the first field starts at `start` *)
Fixpoint offsets (start : nat) (fields : list str) : list nat :=
  match fields with
  | [] => []
  | f :: r => start :: offsets (start + length f) r
  end.

(* The property's partition statement, executable so that it can be evaluated on
   the implementation's own output: lead ++ concat fields = line and the recorded
   start of each field is the length of everything before it. *)
Fixpoint nat_list_eqb (a b : list nat) : bool :=
  match a, b with
  | [], [] => true
  | x :: a, y :: b => Nat.eqb x y && nat_list_eqb a b
  | _, _ => false
  end.
Definition partition_ok (line lead : str) (fields : list str) (starts : list nat) : bool :=
  str_eqb (lead ++ concat fields) line && nat_list_eqb starts (offsets (length lead) fields).

(* ---------- field index expressions ---------- *)
(* N | -N | A..B | A.. | ..B | ..   (bounds are non-zero integers) *)
Inductive fexpr := FIdx (n : Z) | FRange (a b : option Z).

Definition fexpr_valid (e : fexpr) : Prop :=
  match e with
  | FIdx n => n <> 0
  | FRange a b =>
      match a with Some x => x <> 0 | None => True end /\
      match b with Some y => y <> 0 | None => True end
  end.

(* negative numbers count from the end: -1 is the last of n fields *)
Definition resolve (n i : Z) : Z := if i <? 0 then i + n + 1 else i.

(* 1-based inclusive bounds of the selection among n fields, clipped to 1..n;
   lo > hi means nothing is selected *)
Definition sel_bounds (e : fexpr) (n : Z) : Z * Z :=
  match e with
  | FIdx i => let k := resolve n i in if (1 <=? k) && (k <=? n) then (k, k) else (1, 0)
  | FRange a b =>
      (Z.max 1 (match a with None => 1 | Some x => resolve n x end),
       Z.min n (match b with None => n | Some y => resolve n y end))
  end.

Definition select_fields {A} (e : fexpr) (fields : list A) : list A :=
  let (lo, hi) := sel_bounds e (Z.of_nat (length fields)) in
  firstn (Z.to_nat (hi + 1 - lo)) (skipn (Z.to_nat (lo - 1)) fields).

(* 0-based position of the first selected field (meaningful when something is selected) *)
Definition select_first (e : fexpr) (n : nat) : nat :=
  Z.to_nat (fst (sel_bounds e (Z.of_nat n)) - 1).

(* the text a field index expression denotes, and where it starts in the line *)
Definition select_text (e : fexpr) (fields : list str) : str := concat (select_fields e fields).
Definition select_start (e : fexpr) (start : nat) (fields : list str) : nat :=
  start + length (concat (firstn (select_first e (length fields)) fields)).

(* ---------- concrete syntax of expressions ---------- *)
Fixpoint digits_of (fuel : nat) (n : Z) (acc : str) : str :=
  match fuel with
  | O => acc
  | S k => if n <? 10 then (48 + n) :: acc else digits_of k (n / 10) ((48 + n mod 10) :: acc)
  end.
(* decimal numeral of an integer *)
Definition digits (n : Z) : str := digits_of (S (Z.to_nat (Z.log2 n))) n [].
Definition itoa (z : Z) : str := if z <? 0 then 45 :: digits (- z) else digits z.
Definition DOT : Z := 46.
Definition print_fexpr (e : fexpr) : str :=
  match e with
  | FIdx n => itoa n
  | FRange a b =>
      (match a with Some x => itoa x | None => [] end) ++ [DOT; DOT] ++
      (match b with Some y => itoa y | None => [] end)
  end.

(* ---------- white space (Unicode White_Space, as unicode.IsSpace documents) ---------- *)
Definition is_space (c : Z) : bool :=
  ((9 <=? c) && (c <=? 13)) || (c =? 32) || (c =? 133) || (c =? 160) || (c =? 5760) ||
  ((8192 <=? c) && (c <=? 8202)) || (c =? 8232) || (c =? 8233) || (c =? 8239) || (c =? 8287) || (c =? 12288).

Definition trim_right (p : Z -> bool) (s : str) : str := rev (drop_while p (rev s)).
Definition trim_both (p : Z -> bool) (s : str) : str := drop_while p (trim_right p s).

(* ---------- searching inside selected fields only ---------- *)
(* a span [s, e) of the line lies inside the text selected by expression ex *)
Definition inside_selection (ex : fexpr) (start : nat) (fields : list str) (s e : nat) : bool :=
  Nat.leb (select_start ex start fields) s && Nat.leb s e &&
  Nat.leb e (select_start ex start fields + length (select_text ex fields)).

(* ---------- "the last delimiter is stripped from the output" ---------- *)
(* man page: --accept-nth "The last delimiter is stripped from the output"; templates of --with-nth /
   --accept-nth: "the trailing delimiter is stripped from each expression"; the same holds for {N} in
   commands.  ONE delimiter occurrence at the very end of the text goes away, nothing else of the text. *)

(* Some p iff s = p ++ sep *)
Fixpoint without_suffix (sep s : str) {struct s} : option str :=
  if str_eqb s sep then Some []
  else match s with
       | [] => None
       | c :: t => match without_suffix sep t with Some p => Some (c :: p) | None => None end
       end.

(* literal delimiter: s without ONE trailing sep, s itself when it does not end with sep *)
Definition strip_literal (sep s : str) : str :=
  match without_suffix sep s with Some p => p | None => s end.

(* regexp delimiter, occurrences in s given (ordered): the last occurrence goes when it ends the text *)
Definition strip_occurrence (locs : list (nat * nat)) (s : str) : str :=
  match locs with
  | [] => s
  | _ => let (b, e) := last locs (0, 0)%nat in if Nat.eqb e (length s) then firstn b s else s
  end.

(* the delimiter as far as stripping is concerned *)
Inductive dspec :=
| DSAwk                                         (* white space: removed by trimming, see output_text *)
| DSLiteral (sep : str)
| DSRegexp (occ : str -> list (nat * nat)).     (* occurrences of the regexp in a text *)

Definition strip_delim (d : dspec) (s : str) : str :=
  match d with
  | DSAwk => s
  | DSLiteral sep => strip_literal sep s
  | DSRegexp occ => strip_occurrence (occ s) s
  end.

(* what is printed / searched / substituted for a selected text: last delimiter, then trailing white space *)
Definition output_text (d : dspec) (s : str) : str := trim_right is_space (strip_delim d s).

(* the text an expression list denotes (--with-nth 1,3 / --accept-nth 2.. / {1,3}) *)
Definition fields_text (es : list fexpr) (fields : list str) : str :=
  concat (map (fun e => select_text e fields) es).

(* --nth: one searched text per expression; with a --delimiter the LAST one is searched without its
   trailing delimiter (so that a suffix term can match the last selected field) *)
Fixpoint map_last_pure {A} (f : A -> A) (l : list A) : list A :=
  match l with
  | [] => []
  | [x] => [f x]
  | x :: r => x :: map_last_pure f r
  end.
Definition search_texts (d : dspec) (es : list fexpr) (fields : list str) : list str :=
  let sels := map (fun e => select_text e fields) es in
  match d with DSAwk => sels | _ => map_last_pure (output_text d) sels end.

(* templates of --with-nth / --accept-nth: literal text, {n} = ordinal of the line, {EXPR,...} *)
Inductive tpart := TLit (s : str) | TIndex | TFields (es : list fexpr).
Definition render_part (d : dspec) (fields : list str) (index : Z) (p : tpart) : str :=
  match p with
  | TLit s => s
  | TIndex => if index <? 0 then [] else itoa index
  | TFields es => output_text d (fields_text es fields)
  end.
Definition render_template (d : dspec) (fields : list str) (index : Z) (parts : list tpart) : str :=
  concat (map (render_part d fields index) parts).

(* {EXPR,...} in a command (before quoting): the selected text without its last delimiter, white space
   trimmed on both sides unless the s flag asks to preserve it *)
Definition placeholder_text (d : dspec) (preserve : bool) (es : list fexpr) (fields : list str) : str :=
  let s := strip_delim d (fields_text es fields) in
  if preserve then s else trim_both is_space s.
