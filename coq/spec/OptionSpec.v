(* C17 spec, part 2: the command-line vocabulary (man page OPTIONS) for the options that
   take part in other properties: which fields an option sets, how its value is read
   (documented value grammars), and the documented precedence rule:
     options file, then $FZF_DEFAULT_OPTS, then the command line; a later occurrence
     overrides an earlier one.
   A configuration is a finite map field -> value plus the keymap and the --expect set. *)
From Coq Require Import String.
From Fzf Require Import Prelude Val BindSpec.
Open Scope Z_scope.

Definition field := nat.

Definition F_FUZZY : field := 0%nat.      Definition F_EXTENDED : field := 1%nat.   Definition F_PHONY : field := 2%nat.
Definition F_INPUTLESS : field := 3%nat.  Definition F_CASE : field := 4%nat.       Definition F_NORMALIZE : field := 5%nat.
Definition F_ALGO : field := 6%nat.       Definition F_SCHEME : field := 7%nat.     Definition F_CRITERIA : field := 8%nat.
Definition F_NTH : field := 9%nat.        Definition F_WITHNTH : field := 10%nat.   Definition F_ACCEPTNTH : field := 11%nat.
Definition F_DELIM : field := 12%nat.     Definition F_SORT : field := 13%nat.      Definition F_TRACK : field := 14%nat.
Definition F_TAC : field := 15%nat.       Definition F_TAIL : field := 16%nat.      Definition F_MULTI : field := 17%nat.
Definition F_ANSI : field := 18%nat.      Definition F_LAYOUT : field := 19%nat.    Definition F_CYCLE : field := 20%nat.
Definition F_HEIGHT : field := 21%nat.    Definition F_SELECT1 : field := 22%nat.   Definition F_EXIT0 : field := 23%nat.
Definition F_READ0 : field := 24%nat.     Definition F_PRINT0 : field := 25%nat.    Definition F_PRINTQUERY : field := 26%nat.
Definition F_QUERY : field := 27%nat.     Definition F_FILTER : field := 28%nat.    Definition F_SYNC : field := 29%nat.
Definition F_HISTORY : field := 30%nat.   Definition F_HISTMAX : field := 31%nat.   Definition F_HEADER : field := 32%nat.
Definition F_HEADERLINES : field := 33%nat. Definition F_LISTEN : field := 34%nat.  Definition F_UNSAFE : field := 35%nat.
Definition F_WALKER : field := 36%nat.    Definition F_WALKERROOT : field := 37%nat. Definition F_WALKERSKIP : field := 38%nat.
Definition F_PROMPT : field := 39%nat.    Definition F_GHOST : field := 40%nat.     Definition F_TABSTOP : field := 41%nat.
Definition F_HSCROLLOFF : field := 42%nat. Definition F_SCROLLOFF : field := 43%nat. Definition F_GAP : field := 44%nat.
Definition F_WRAP : field := 45%nat.      Definition F_MOUSE : field := 46%nat.     Definition F_BOLD : field := 47%nat.
Definition F_BLACK : field := 48%nat.     Definition F_EXITOPT : field := 49%nat.   Definition F_HEADERFIRST : field := 50%nat.
Definition F_HSCROLL : field := 51%nat.   Definition F_KEEPRIGHT : field := 52%nat. Definition F_MULTILINE : field := 53%nat.
Definition F_FILEWORD : field := 54%nat.  Definition F_CURSORLINE : field := 55%nat. Definition F_CLEAR : field := 56%nat.
Definition F_UNICODE : field := 57%nat.   Definition F_AMBIDOUBLE : field := 58%nat. Definition F_INFOCMD : field := 59%nat.
Definition F_WITHSHELL : field := 60%nat. Definition F_PREVIEW : field := 61%nat.   Definition F_FORCETTY : field := 62%nat.
(* display mode: the value of --tmux (none when absent / withdrawn by --no-tmux), and the POSITIONS at which the deciding
   --tmux and --height were read (position = number of words before it in: options file ++ $FZF_DEFAULT_OPTS ++ command line) *)
Definition F_TMUX : field := 63%nat.      Definition F_TMUXIDX : field := 64%nat.   Definition F_HEIGHTIDX : field := 65%nat.
(* spec-level bookkeeping of the display-mode rule (below); not a field of fzf's Options *)
Definition F_HAFTER : field := 66%nat.
Definition F_HMAXLOCAL : field := 67%nat.  (* the local variable historyMax of parseOptions; not an observable *)
Definition NFIELDS : nat := 68%nat.
Definition NOBSERVABLE : nat := 67%nat.    (* fields 0..66 go over the wire; F_HAFTER (66) has no counterpart in the implementation *)

Definition T : val := VI 1.
Definition Fv : val := VI 0.
Definition vnone : val := VL [].
Definition vsome (v : val) : val := VL [v].

(* ---------------------------------------------------------------- value grammars *)

Definition is_digit (c : Z) : bool := (48 <=? c) && (c <=? 57).

Fixpoint digits_val (acc : Z) (s : str) : option Z :=
  match s with
  | [] => Some acc
  | c :: r => if is_digit c then digits_val (acc * 10 + (c - 48)) r else None
  end.

(* a decimal integer with optional sign that fits 64 bits *)
Definition atoi (s : str) : option Z :=
  let '(neg, body) := match s with
                      | c :: r => if c =? 45 then (true, r) else if c =? 43 then (false, r) else (false, s)
                      | [] => (false, s)
                      end in
  match body with
  | [] => None
  | _ => match digits_val 0 body with
         | Some n => let v := if neg then - n else n in
                     if (- 9223372036854775808 <=? v) && (v <=? 9223372036854775807) then Some v else None
         | None => None
         end
  end.

Fixpoint sequence {A} (l : list (option A)) : option (list A) :=
  match l with
  | [] => Some []
  | None :: _ => None
  | Some x :: r => match sequence r with Some r' => Some (x :: r') | None => None end
  end.

(* criteria: score 0, chunk 1, length 2, begin 3, end 4, pathname 5 *)
Definition s_default : str := Eval vm_compute in b "default".
Definition s_path : str := Eval vm_compute in b "path".
Definition s_history : str := Eval vm_compute in b "history".
Definition s_v1 : str := Eval vm_compute in b "v1".
Definition s_v2 : str := Eval vm_compute in b "v2".
Definition s_reverse : str := Eval vm_compute in b "reverse".
Definition s_reverse_list : str := Eval vm_compute in b "reverse-list".
Definition s_localhost : str := Eval vm_compute in b "localhost".
Definition s_file : str := Eval vm_compute in b "file".
Definition s_dir : str := Eval vm_compute in b "dir".
Definition s_hidden : str := Eval vm_compute in b "hidden".
Definition s_follow : str := Eval vm_compute in b "follow".
Definition crit_names : list (str * Z) := Eval vm_compute in
  [(b "index", -1); (b "chunk", 1); (b "length", 2); (b "begin", 3); (b "end", 4); (b "pathname", 5)].

Definition scheme_criteria (s : str) : option (list Z) :=
  if str_eqb s s_history then Some [0]
  else if str_eqb s s_path then Some [0; 5; 2]
  else if str_eqb s s_default then Some [0; 2]
  else None.

Definition vints (l : list Z) : val := VL (map VI l).

(* ---------------------------------------------------------------- display mode: --tmux against --height

   "Later occurrences override earlier ones, with command-line arguments taking precedence over the environment",
   for the two options that select HOW fzf starts: --tmux (a tmux popup) and --height (inline, below the cursor).
   They override each other: whichever of the two is given LATER decides, where the order is
       options file, then $FZF_DEFAULT_OPTS, then the command line, each left to right;
   --no-tmux withdraws --tmux, --no-height withdraws --height.  As a rule on occurrences, with one boolean
   F_HAFTER = "a --height has been given since the last --tmux and has not been withdrawn":
       --tmux[=V]   : tmux := V,    hafter := false
       --no-tmux    : tmux := none
       --height H   : hafter := true
       --no-height  : hafter := false
   and fzf starts in the popup iff tmux is set and hafter is false.  No positions are involved. *)

Definition is_some (v : val) : bool := match v with VL (_ :: _) => true | _ => false end.

Definition popup_spec (fv : field -> val) : bool := is_some (fv F_TMUX) && negb (as_bool (fv F_HAFTER)).

(* the value of --tmux: [center|top|bottom|left|right][,SIZE[%]][,SIZE[%]][,border-native], default center,50%:
   (position, width, height, native border); a size is (number, is-percent) *)
Definition P_UP : Z := 0.  Definition P_DOWN : Z := 1.  Definition P_LEFT : Z := 2.  Definition P_RIGHT : Z := 3.  Definition P_CENTER : Z := 4.
Definition sz (v : Z) (percent : bool) : val := VL [VI v; vbool percent].
Definition mk_tmux (pos : Z) (w h : val) (border : bool) : val := VL [VI pos; w; h; vbool border].
Definition default_tmux : val := mk_tmux P_CENTER (sz 50 true) (sz 50 true) false.
