(* C11 spec, second part: the colour of the characters of a line when only SOME of its pieces are shown
   (the fields selected by --with-nth), and of the lines of a stream.  A terminal printing the whole input
   gives every character the state that all the sequences before it - in earlier fields, shown or not, and on
   earlier lines - have built up; that is the colour the character must have wherever fzf shows it.
   Also: the parameter list that re-creates a given state, which is what has to stand in front of a piece that
   is shown out of its context.  Written from what a terminal does, not from core.go. *)
From Fzf Require Import Prelude AnsiSpec.
Open Scope Z_scope.

(* the state a terminal is in after a stream *)
Fixpoint term_state (its : list item) (s : sgr) : sgr :=
  match its with
  | [] => s
  | IText _ :: r => term_state r s
  | ISgr ps :: r => term_state r (sgr_apply ps s)
  | IOther :: r => term_state r s
  | ISgrX x :: r => term_state r (sgr_xapply x s)
  end.

(* the input cut into consecutive pieces (fields of one line; lines of a stream): colours of the characters of
   each piece.  Piece k starts in the state left by pieces 0..k-1. *)
Fixpoint piece_chars (pcs : list (list item)) (s : sgr) : list (list sgr) :=
  match pcs with
  | [] => []
  | p :: r => term_chars p s :: piece_chars r (term_state p s)
  end.

(* the pieces numbered [sel] (0-based, any order, repetitions allowed, out of range = nothing) shown one after
   the other: colour of every character shown *)
Definition shown_chars (sel : list nat) (pcs : list (list item)) (s : sgr) : list sgr :=
  concat (map (fun k => nth k (piece_chars pcs s) []) sel).

(* ---------- re-creating a state ---------- *)
(* SGR parameters that select colour c: base 30 (foreground) or 40 (background) *)
Definition colour_params (base : Z) (c : colour) : list Z :=
  match c with
  | CDefault => [base + 9]
  | CIdx n => if n <? 8 then [base + n] else if n <? 16 then [base + 60 + (n - 8)] else [base + 8; 5; n]
  | CRGB r g b => [base + 8; 2; r; g; b]
  end.
Definition attr_params (a : attrs) : list Z :=
  (if a_bold a then [1] else []) ++ (if a_dim a then [2] else []) ++ (if a_italic a then [3] else []) ++
  (if a_underline a then [4] else []) ++ (if a_blink a then [5] else []) ++ (if a_reverse a then [7] else []) ++
  (if a_strike a then [9] else []).
(* the attributes that are ON, then both colours.  Nothing in it switches an attribute OFF: it re-creates the
   state only when it is applied to the reset state (restore_from_reset / restore_needs_reset in C11.v) *)
Definition restore_params (s : sgr) : list Z :=
  attr_params (s_at s) ++ colour_params 30 (s_fg s) ++ colour_params 40 (s_bg s).

(* colours a state can hold: palette 0..255, components 0..255 *)
Definition colour_ok (c : colour) : bool :=
  match c with
  | CDefault => true
  | CIdx n => byte_val n
  | CRGB r g b => byte_val r && byte_val g && byte_val b
  end.
Definition sgr_ok (s : sgr) : bool := colour_ok (s_fg s) && colour_ok (s_bg s).
