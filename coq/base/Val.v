(* Universal value used on the wire between the Go harness, the extracted OCaml
   driver and in-Coq evaluation (cases.v).  All op-specific decoding is done in
   Gallina (model/Dispatch.v) so that the same code runs under vm_compute and
   after extraction; the OCaml driver only parses/prints this type. *)
From Fzf Require Import Prelude.

Inductive val := VI (z : Z) | VL (l : list val).

Definition vnat (n : nat) : val := VI (Z.of_nat n).
Definition vbool (b : bool) : val := VI (if b then 1 else 0).
Definition vstr (s : str) : val := VL (map VI s).
Definition vstrs (l : list str) : val := VL (map vstr l).
Definition verr : val := VL [VI (-1); VI (-1); VI (-1)].   (* model returned Err: never equals an impl value *)

Definition as_int (v : val) : Z := match v with VI z => z | VL _ => 0 end.
Definition as_nat (v : val) : nat := Z.to_nat (as_int v).
Definition as_bool (v : val) : bool := negb (as_int v =? 0)%Z.
Definition as_list (v : val) : list val := match v with VL l => l | VI _ => [] end.
Definition as_str (v : val) : str := map as_int (as_list v).
Definition as_strs (v : val) : list str := map as_str (as_list v).
Definition arg (v : val) (n : nat) : val := nth n (as_list v) (VI 0).

Fixpoint val_eqb (a b : val) {struct a} : bool :=
  match a, b with
  | VI x, VI y => Z.eqb x y
  | VL l, VL m =>
      (fix go (l m : list val) : bool :=
         match l, m with
         | [], [] => true
         | x :: l, y :: m => val_eqb x y && go l m
         | _, _ => false
         end) l m
  | _, _ => false
  end.
