(* Prelude: result monad, checked list access, small list utilities shared by
   every spec/model file.  No proofs about fzf here. *)
From Coq Require Export List ZArith Lia Bool Arith.
Export ListNotations.

Inductive err := OutOfRange | OutOfFuel | BadInput | Panic.
Inductive res (A : Type) := Ok (a : A) | Err (e : err).
Arguments Ok {A} a.
Arguments Err {A} e.

Definition bind {A B} (r : res A) (f : A -> res B) : res B :=
  match r with Ok a => f a | Err e => Err e end.
Notation "'do' x <- r ; k" := (bind r (fun x => k)) (at level 200, x name, r at level 100, k at level 200).

Definition is_ok {A} (r : res A) : bool := match r with Ok _ => true | Err _ => false end.

(* checked access: never a default *)
Fixpoint get {A} (l : list A) (n : nat) : res A :=
  match l, n with
  | x :: _, O => Ok x
  | _ :: t, S n => get t n
  | [], _ => Err OutOfRange
  end.

Fixpoint set_nth {A} (l : list A) (n : nat) (v : A) : res (list A) :=
  match l, n with
  | _ :: t, O => Ok (v :: t)
  | x :: t, S n => do t' <- set_nth t n v; Ok (x :: t')
  | [], _ => Err OutOfRange
  end.

Definition str := list Z.   (* bytes or runes, context decides *)

Fixpoint str_eqb (a b : str) : bool :=
  match a, b with
  | [], [] => true
  | x :: a, y :: b => Z.eqb x y && str_eqb a b
  | _, _ => false
  end.

Lemma str_eqb_eq a b : str_eqb a b = true <-> a = b.
Proof.
  revert b; induction a as [|x a IH]; destruct b as [|y b]; cbn; split; intro H;
    try reflexivity; try discriminate.
  - apply andb_true_iff in H as [H1 H2]. apply Z.eqb_eq in H1. apply IH in H2. now subst.
  - inversion H; subst. rewrite Z.eqb_refl. cbn. now apply IH.
Qed.

Definition last_n {A} (n : nat) (l : list A) : list A := skipn (length l - n) l.

Definition nonemptyb {A} (l : list A) : bool := match l with [] => false | _ => true end.

Fixpoint drop_while {A} (p : A -> bool) (l : list A) : list A :=
  match l with
  | [] => []
  | x :: t => if p x then drop_while p t else l
  end.

Fixpoint concat_map_sep (sep : Z) (ls : list str) : str :=   (* strings.Join(ls, sep) *)
  match ls with
  | [] => []
  | [l] => l
  | l :: r => l ++ sep :: concat_map_sep sep r
  end.
