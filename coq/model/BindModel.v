(* C17 model, part 1: src/options.go maskActionContents / parseSingleActionList /
   parseActionList / parseKeymap / isExecuteAction / parseKeyChordsImpl restated.
   Strings are byte lists.  The three regular expressions involved are fixed and are
   re-implemented as scanners:
     executeRegexp     (?si)[:+](become|execute(?:-multi|-silent)?|...)   -> find_exec
     ^CS.*?(CE[+,]|CE$)                                                   -> find_close
     actionNameRegexp  (?i)^[a-z-]+                                       -> name_prefix
     (?i)(alt-),                                                          -> alt_comma
   Domain of faithfulness: any bytes inside action arguments; key names are read as UTF-8
   characters ([]rune(key): BindSpec.key_of_token / RuneSpec.utf8_runes), everything else
   bytewise with ASCII case folding (Go's (?i) also folds U+017F/U+212A and ToLower maps
   U+0130/U+212A to ASCII letters; text containing these three characters outside action
   arguments is outside the modelled domain; unicode.IsGraphic, asked for a bare `put`, is
   modelled for ASCII keys only).  Every slice access is checked; Err = the Go code would panic.
   A user-level error (Go returns err != nil) is `Ok (Bad code)`. *)
From Coq Require Import String.
From Fzf Require Import Prelude BindSpec.
Open Scope Z_scope.

Inductive outcome (A : Type) := Good (a : A) | Bad (code : Z).
Arguments Good {A} a.
Arguments Bad {A} code.

(* error codes (the message texts of options.go) *)
Definition E_KEY_REQUIRED : Z := 1.      (* "key name required" / "<x> target required" *)
Definition E_UNSUPPORTED_KEY : Z := 2.   (* "unsupported key: ..." *)
Definition E_UNKNOWN_ACTION : Z := 3.    (* "unknown action: ..." *)
Definition E_PUT : Z := 4.               (* "unable to put non-printable character" *)
Definition E_NO_ACTION : Z := 5.         (* "bind action not specified: ..." *)

(* ---------------------------------------------------------------- executeRegexp *)

(* alternatives in the regexp's priority order (leftmost-first semantics: the first
   alternative that matches at the position wins) *)
Definition ct (x : string) : list str :=
  map (fun s => b x ++ b "-" ++ b s)
      ["query"; "prompt"; "border-label"; "list-label"; "preview-label"; "input-label"; "header-label";
       "header"; "search"; "nth"; "pointer"; "ghost"]%string.

Definition exec_names : list str := Eval vm_compute in
  [b "become"; b "execute-multi"; b "execute-silent"; b "execute"; b "reload-sync"; b "reload"; b "preview"]
  ++ ct "change" ++ ct "transform"
  ++ [b "transform"; b "change-preview-window"; b "change-preview"; b "change-multi";
      b "rebind"; b "unbind"; b "toggle-bind"; b "pos"; b "put"; b "print"; b "search"].

(* case-insensitive prefix test; n is lower case *)
Fixpoint prefix_ci (n s : str) : bool :=
  match n, s with
  | [], _ => true
  | a :: n', c :: s' => (lower c =? a) && prefix_ci n' s'
  | _ :: _, [] => false
  end.

Fixpoint first_match (names : list str) (s : str) : option nat :=
  match names with
  | [] => None
  | n :: r => if prefix_ci n s then Some (length n) else first_match r s
  end.

Definition is_colon_plus (c : Z) : bool := (c =? COLON) || (c =? PLUS).

(* FindStringIndex: loc[1] of the leftmost match, if any *)
Fixpoint find_exec (s : str) : option nat :=
  match s with
  | [] => None
  | c :: t =>
      if is_colon_plus c then
        match first_match exec_names t with
        | Some n => Some (S n)
        | None => option_map S (find_exec t)
        end
      else option_map S (find_exec t)
  end.

(* (?s)^CS.*?(CE[+,]|CE$) on `action` (whose first byte is CS), followed by the
   "keep + or , at the end" adjustment: number of bytes to blank, CS and CE included *)
Fixpoint find_close_from (ce : Z) (s : str) : option nat :=
  match s with
  | [] => None
  | c :: t =>
      if (c =? ce) && match t with [] => true | d :: _ => (d =? PLUS) || (d =? COMMA) end
      then Some 1%nat
      else option_map S (find_close_from ce t)
  end.

Definition find_close (ce : Z) (action : str) : option nat :=
  match action with
  | [] => None
  | _ :: t => option_map S (find_close_from ce t)
  end.

Definition blanks (n : nat) : str := repeat SPACE n.

(* the Loop of maskActionContents; every iteration consumes at least one byte *)
Fixpoint mask_loop (fuel : nat) (action : str) : res str :=
  match fuel with
  | O => Err OutOfFuel
  | S f =>
      match find_exec action with
      | None => Ok action
      | Some e =>
          let pre := firstn e action in
          let rest := skipn e action in
          match rest with
          | [] => Ok pre
          | c :: _ =>
              if c =? COLON then Ok (pre ++ blanks (length rest))
              else match closer_of c with
                   | None => do m <- mask_loop f rest; Ok (pre ++ m)
                   | Some ce =>
                       match find_close ce rest with
                       | None => Ok (pre ++ rest)
                       | Some n => do m <- mask_loop f (skipn n rest); Ok (pre ++ blanks n ++ m)
                       end
                   end
          end
      end
  end.

(* strings.ReplaceAll for the five fixed patterns (non-overlapping, left to right) *)
Fixpoint rep2 (a c x y : Z) (s : str) : str :=
  match s with
  | c1 :: ((c2 :: t) as t1) => if (c1 =? a) && (c2 =? c) then x :: y :: rep2 a c x y t else c1 :: rep2 a c x y t1
  | _ => s
  end.

Fixpoint rep3 (a c d x y z : Z) (s : str) : str :=
  match s with
  | c1 :: ((c2 :: ((c3 :: t) as t2)) as t1) =>
      if (c1 =? a) && (c2 =? c) && (c3 =? d) then x :: y :: z :: rep3 a c d x y z t
      else c1 :: rep3 a c d x y z t1
  | _ => s
  end.

Definition ESC_COLON : Z := 0.
Definition ESC_COMMA : Z := 1.
Definition ESC_PLUS : Z := 2.

Definition escapes (m : str) : str :=
  let m := rep3 COMMA COMMA COMMA COMMA ESC_COMMA COMMA m in
  let m := rep3 COMMA COLON COMMA COMMA ESC_COLON COMMA m in
  let m := rep2 COLON COLON ESC_COLON COLON m in
  let m := rep2 COMMA COLON ESC_COMMA COLON m in
  rep2 PLUS COLON ESC_PLUS COLON m.

Definition mask_action_contents (action : str) : res str :=
  do m <- mask_loop (S (length action)) action; Ok (escapes m).

(* ---------------------------------------------------------------- key chords *)

Definition s_alt_comma : str := Eval vm_compute in b "alt-,".
Definition s_put : str := Eval vm_compute in b "put".
Definition s_char : str := Eval vm_compute in b "char".
Definition s_change_multi : str := Eval vm_compute in b "change-multi".
Definition key_arg_actions : list str := Eval vm_compute in [b "unbind"; b "rebind"; b "toggle-bind"].

(* (?i)(alt-), -> $1 + escapedComma *)
Fixpoint alt_comma (fuel : nat) (s : str) : str :=
  match fuel with
  | O => s
  | S f =>
      match s with
      | [] => []
      | c :: t =>
          if prefix_ci s_alt_comma s then firstn 4 s ++ ESC_COMMA :: alt_comma f (skipn 5 s)
          else c :: alt_comma f t
      end
  end.


Fixpoint contains (p s : str) : bool :=
  match s with
  | [] => match p with [] => true | _ => false end
  | _ :: t => has_prefix p s || contains p t
  end.
Definition has_suffix (p s : str) : bool := has_prefix (rev p) (rev s).

(* one token -> key, after undoing the escapes *)
Definition key_of_masked_token (tok : str) : option key :=
  let tok := map (fun c => if c =? ESC_COMMA then COMMA else c) tok in
  let tok := match tok with
             | [a; c; d; e; r] =>
                 if has_prefix s_alt (to_lower tok)
                 then [a; c; d; e; if r =? ESC_COLON then COLON else if r =? ESC_PLUS then PLUS else r]
                 else tok
             | _ => tok
             end in
  key_of_token tok.

Fixpoint add_key (k : key) (l : list key) : list key :=
  match l with
  | [] => [k]
  | x :: r => if key_eqb k x then l else x :: add_key k r
  end.

Fixpoint chords_loop (toks : list str) (acc : list key) : outcome (list key) :=
  match toks with
  | [] => Good acc
  | [] :: r => chords_loop r acc
  | t :: r =>
      match key_of_masked_token t with
      | Some k => chords_loop r (add_key k acc)
      | None => Bad E_UNSUPPORTED_KEY
      end
  end.

(* parseKeyChordsImpl: the SET of events named by a comma-separated list *)
Definition parse_key_chords (s : str) : outcome (list key) :=
  match s with
  | [] => Bad E_KEY_REQUIRED
  | _ =>
      let s := alt_comma (length s) s in
      let toks := split_on COMMA s in
      let toks := if str_eqb s [COMMA] || has_prefix [COMMA; COMMA] s || has_suffix [COMMA; COMMA] s
                     || contains [COMMA; COMMA; COMMA] s
                  then toks ++ [[COMMA]] else toks in
      chords_loop toks []
  end.

(* ---------------------------------------------------------------- action lists *)

Definition is_name_char (c : Z) : bool := is_lower c || is_upper c || (c =? DASH).

Fixpoint take_while (p : Z -> bool) (s : str) : str :=
  match s with
  | [] => []
  | c :: r => if p c then c :: take_while p r else []
  end.
Definition name_prefix (s : str) : str := take_while is_name_char s.

(* the big switch of parseActionList (all entries but change-multi, which is handled in its default branch) *)
Definition switch_table : list (str * list str) := Eval vm_compute in
  (b "put", [b "char"]) :: filter (fun e => negb (str_eqb (fst e) (b "change-multi"))) simple_actions.

(* isExecuteAction: None = actIgnore *)
Definition is_execute_action (low : str) : res (option str) :=
  do m <- mask_action_contents (COLON :: low);
  match m with
  | [] => Err OutOfRange                     (* [1:] of an empty string *)
  | _ :: masked => if str_eqb masked low then Ok None else Ok (assoc_str (name_prefix low) arg_actions)
  end.

Definition check_arg (canon arg : str) : outcome unit :=
  if mem_str canon key_arg_actions then
    match parse_key_chords arg with Good _ => Good tt | Bad e => Bad e end
  else Good tt.       (* change-preview-window: parsePreviewWindowImpl is not modelled (accepted) *)

(* the loop of parseActionList over originalStrings *)
Fixpoint pal_loop (specs : list str) (first : bool) (prev_spec : str) (acc : list action)
         (prev_actions : list action) (put_allowed : bool) : res (outcome (list action)) :=
  match specs with
  | [] => Ok (Good acc)
  | sp :: rest =>
      let spec := prev_spec ++ sp in
      let low := to_lower spec in
      match assoc_str low switch_table with
      | Some canon =>
          if str_eqb low s_put && negb put_allowed then Ok (Bad E_PUT)
          else pal_loop rest false [] (acc ++ map (fun c => (c, [])) canon) prev_actions put_allowed
      | None =>
          do t <- is_execute_action low;
          match t with
          | None =>
              if first && negb (nonemptyb low) then pal_loop rest false [] (prev_actions ++ acc) prev_actions put_allowed
              else if str_eqb low s_change_multi
                   then pal_loop rest false [] (acc ++ [(s_change_multi, [])]) prev_actions put_allowed
              else Ok (Bad E_UNKNOWN_ACTION)
          | Some canon =>
              let offset := length (name_prefix spec) in
              do c <- get spec offset;                                  (* spec[offset] *)
              if c =? COLON then
                match rest with
                | [] =>
                    let arg := skipn (S offset) spec in
                    match check_arg canon arg with
                    | Good _ => pal_loop rest false [] (acc ++ [(canon, arg)]) prev_actions put_allowed
                    | Bad e => Ok (Bad e)
                    end
                | _ => pal_loop rest false (spec ++ [PLUS]) acc prev_actions put_allowed   (* continue *)
                end
              else
                if Nat.leb (S offset) (length spec - 1) then             (* spec[offset+1 : len(spec)-1] *)
                  let arg := firstn (length spec - 1 - S offset) (skipn (S offset) spec) in
                  match check_arg canon arg with
                  | Good _ => pal_loop rest false [] (acc ++ [(canon, arg)]) prev_actions put_allowed
                  | Bad e => Ok (Bad e)
                  end
                else Err Panic
          end
      end
  end.

(* masked and original split at the same offsets: zip, split on the masked byte *)
Fixpoint split2_aux (sep : Z) (cur : list (Z * Z)) (s : list (Z * Z)) : list (list (Z * Z)) :=
  match s with
  | [] => [rev cur]
  | c :: r => if fst c =? sep then rev cur :: split2_aux sep [] r else split2_aux sep (c :: cur) r
  end.
Definition split2 (sep : Z) (s : list (Z * Z)) : list (list (Z * Z)) := split2_aux sep [] s.

Definition parse_action_list (masked original : str) (prev : list action) (put_allowed : bool)
  : res (outcome (list action)) :=
  if Nat.eqb (length masked) (length original) then
    pal_loop (map (map snd) (split2 PLUS (combine masked original))) true [] [] prev put_allowed
  else Err Panic.                                                         (* slice out of range *)

Definition parse_single_action_list (s : str) : res (outcome (list action)) :=
  do m <- mask_action_contents (COLON :: s);
  match m with
  | [] => Err OutOfRange
  | _ :: masked => parse_action_list masked s [] false
  end.

(* ---------------------------------------------------------------- keymap *)

(* strings.SplitN(pairStr, ":", 2) on the masked half of a zipped piece *)
Fixpoint break_colon (cur : list (Z * Z)) (s : list (Z * Z)) : list (Z * Z) * option (list (Z * Z)) :=
  match s with
  | [] => (rev cur, None)
  | c :: r => if fst c =? COLON then (rev cur, Some r) else break_colon (c :: cur) r
  end.

Definition key_of_name (name : str) : outcome key :=
  match name with
  | [c] => if c =? ESC_COLON then Good (KRune COLON)
           else if c =? ESC_COMMA then Good (KRune COMMA)
           else if c =? ESC_PLUS then Good (KRune PLUS)
           else match parse_key_chords name with
                | Good (k :: _) => Good k
                | Good [] => Bad E_UNSUPPORTED_KEY      (* unreachable: a one-byte name gives one chord *)
                | Bad e => Bad e
                end
  | _ => match parse_key_chords name with
         | Good (k :: _) => Good k
         | Good [] => Good (KRune 0)                    (* firstKey of an empty map: EventType(0) = Rune, char 0 *)
         | Bad e => Bad e
         end
  end.

Definition put_allowed_for (k : key) : bool :=
  match k with KRune r => (32 <=? r) && (r <=? 126) | _ => false end.    (* unicode.IsGraphic, ASCII *)

Fixpoint bind_keys (keys : list str) (m : keymap) (masked_acts orig_acts : str) : res (outcome keymap) :=
  match keys with
  | [] => Ok (Good m)
  | kn :: r =>
      match key_of_name kn with
      | Bad e => Ok (Bad e)
      | Good k =>
          do o <- parse_action_list masked_acts orig_acts (km_get m k) (put_allowed_for k);
          match o with
          | Bad e => Ok (Bad e)
          | Good acts => bind_keys r (km_set m k acts) masked_acts orig_acts
          end
      end
  end.

Fixpoint keymap_loop (pieces : list (list (Z * Z))) (keys : list str) (m : keymap) : res (outcome keymap) :=
  match pieces with
  | [] => match keys with [] => Ok (Good m) | _ => Ok (Bad E_NO_ACTION) end
  | p :: r =>
      let '(k, rest) := break_colon [] p in
      match k with
      | [] => Ok (Bad E_KEY_REQUIRED)
      | _ =>
          let keys := keys ++ [map fst k] in
          match rest with
          | None => keymap_loop r keys m
          | Some acts =>
              do o <- bind_keys keys m (map fst acts) (map snd acts);
              match o with
              | Bad e => Ok (Bad e)
              | Good m' => keymap_loop r [] m'
              end
          end
      end
  end.

Definition parse_keymap (m : keymap) (s : str) : res (outcome keymap) :=
  do masked <- mask_action_contents s;
  if Nat.eqb (length masked) (length s) then keymap_loop (split2 COMMA (combine masked s)) [] m
  else Err Panic.

(* repeated --bind *)
Fixpoint parse_keymaps (m : keymap) (ss : list str) : res (outcome keymap) :=
  match ss with
  | [] => Ok (Good m)
  | s :: r =>
      do o <- parse_keymap m s;
      match o with
      | Bad e => Ok (Bad e)
      | Good m' => parse_keymaps m' r
      end
  end.
