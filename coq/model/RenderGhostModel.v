(* C15 model, ghost text: Terminal.printPrompt and the shiftLen of Terminal.printInfoImpl restated with t.ghost
   (src/terminal.go):
     printPrompt     t.prompt(); before, after := t.updatePromptOffset()
                     if len(before) == 0 && len(after) == 0 && len(t.ghost) > 0 { print ghost (dim); return }
                     print before; print after            (before ++ after = the query, split at the cursor)
     printInfoImpl   shiftLen := queryLen[0] + queryLen[1] + 1
                     if shiftLen == 1 && len(t.ghost) > 0 { shiftLen = StringWidth(t.ghost) }
                     inline / inline-right: pos = promptLen + shiftLen
   The cursor position cx splits the query into before = firstn cx, after = skipn cx; it is part of the model state
   here because the branch of printPrompt looks at the two halves separately.
   Everything else is RenderModel's (print_list_at, print_header, physical). *)
From Fzf Require Import Prelude RenderSpec RenderGhostSpec RenderModel.
Open Scope nat_scope.

Definition is_nil {A} (l : list A) : bool := match l with [] => true | _ => false end.

(* printPrompt *)
Definition print_prompt_g (c : cfg) (g : str) (cx : nat) (t : term) : term :=
  let w := c_w c in
  let before := firstn cx (t_query t) in
  let after := skipn cx (t_query t) in
  let head := prompt_item_text (w - 2) (t_prompt t) in
  let shown := if is_nil before && is_nil after && negb (is_nil g) then g else before ++ after in
  set_draw t (upd_at 0 (fun r => put 0 (head ++ shown) (clear_from w 0 r)) (t_screen t)) (t_prev t).

(* printInfoImpl (RenderModel.print_info) with the column of the inline styles as a parameter *)
Definition print_info_at (c : cfg) (pos : nat) (t : term) : term :=
  let w := c_w c in
  let out := info_text c (t_view t) in
  let clr (x : nat) (r : row) := if c_sep c then r else clear_from w x r in
  let scr :=
    match c_info c with
    | IHidden => if c_sep c then upd_at 1 (put 0 (repeat DASH (w - 1) ++ [SP])) (t_screen t) else t_screen t
    | IDefault => upd_at 1 (fun r => put 0 ([SP; SP] ++ info_tail c (w - 3) out) (clr 0 r)) (t_screen t)
    | IInline =>
        upd_at 0 (fun r => put pos ([SP; LT; SP] ++ info_tail c (w - (pos + 3) - 1) out) (clr pos r)) (t_screen t)
    | IInlineRight =>
        let newpos := Nat.max pos (w - length out - 3) in
        let pos1 := if newpos <? w then S newpos else newpos in
        let pos2 := if pos1 <? w - 1 then S pos1 else pos1 in
        let s := repeat SP (newpos - pos) ++ (if newpos <? w then [SP] else []) ++ (if pos1 <? w - 1 then [SP] else [])
                 ++ trim_msg (w - pos2 - 1) out in
        let scr1 := upd_at 0 (put pos s) (t_screen t) in
        if c_sep c then upd_at 1 (put 0 (repeat DASH (w - 1) ++ [SP])) scr1 else scr1
    end in
  set_draw t scr (t_prev t).

Definition shift_len (g q : str) : nat :=
  let s := length q + 1 in
  if (s =? 1) && negb (is_nil g) then length g else s.
Definition print_info_g (c : cfg) (g : str) (t : term) : term :=
  print_info_at c (length (t_prompt t) + shift_len g (t_query t)) t.

(* printAll on an erased window *)
Definition paint_g (c : cfg) (g : str) (cx : nat) (t : term) : term :=
  let t0 := set_draw t (repeat (blank (c_w c)) (c_h c)) (repeat il_none (c_h c)) in
  print_header c (print_info_g c g (print_prompt_g c g cx (print_list_at c t0))).

(* the full render of a state with ghost text g and the cursor at position cx of the query *)
Definition render_g (c : cfg) (g : str) (cx : nat) (v : view) : list row :=
  physical c (t_screen (paint_g c g cx (term_of_view v))).
