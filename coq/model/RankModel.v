(* Executable restatement of src/result.go (buildResult, ByRelevance/ByRelevanceTac), src/result_x86.go and
   src/result_others.go (compareRanks), util.AsUint16 and Chars.TrimLength.  Same loops as the Go code
   (as fuelled recursion), every text access checked.  No proofs here.
   Not restated: `sort.Sort(ByOrder(offsets))` at the top of buildResult - it only permutes the offsets,
   and the three quantities read from them (two minima and a maximum) do not depend on their order. *)
From Fzf Require Import Prelude.
Open Scope Z_scope.

Definition zlength {A} (l : list A) : Z := Z.of_nat (length l).

(* s[i] with a Go int index: negative or too large = panic *)
Definition getz {A} (l : list A) (i : Z) : res A := if i <? 0 then Err OutOfRange else get l (Z.to_nat i).

(* util.AsUint16 *)
Definition as_uint16 (v : Z) : Z := if v >? 65535 then 65535 else if v <? 0 then 0 else v.

(* criterion (options.go): byScore = 0, byChunk, byLength, byBegin, byEnd, byPathname *)
Definition byScore := 0. Definition byChunk := 1. Definition byLength := 2.
Definition byBegin := 3. Definition byEnd := 4. Definition byPathname := 5.

Record item := mkItem { it_index : Z; it_text : str }.     (* Item: text.Index, text (Chars.Get i = i-th element) *)
Definition points := (Z * Z * Z * Z)%type.                 (* [4]uint16: (points[0], points[1], points[2], points[3]) *)
Record result := mkResult { r_index : Z; r_points : points }.  (* Result{item, points}; the item is identified by its index *)

Definition set_point (p : points) (i : Z) (v : Z) : res points :=
  let '(p0, p1, p2, p3) := p in
  if i =? 0 then Ok (v, p1, p2, p3)
  else if i =? 1 then Ok (p0, v, p2, p3)
  else if i =? 2 then Ok (p0, p1, v, p3)
  else if i =? 3 then Ok (p0, p1, p2, v)
  else Err OutOfRange.

Section Build.
Variable is_space : Z -> bool.     (* unicode.IsSpace *)

(* ---- Chars.TrimLength ---- *)
(* for i = len-1; i >= 0; i-- { if !IsSpace(Get(i)) break }  -> i *)
Fixpoint trim_back (t : str) (fuel : nat) (i : Z) : res Z :=
  match fuel with
  | O => Err OutOfFuel
  | S f => if i >=? 0 then (do c <- getz t i; if negb (is_space c) then Ok i else trim_back t f (i - 1)) else Ok i
  end.
(* for j = 0; j < len; j++ { if !IsSpace(Get(j)) break }  -> j *)
Fixpoint trim_front (t : str) (fuel : nat) (j : Z) : res Z :=
  match fuel with
  | O => Err OutOfFuel
  | S f => if j <? zlength t then (do c <- getz t j; if negb (is_space c) then Ok j else trim_front t f (j + 1)) else Ok j
  end.
Definition trim_length (t : str) : res Z :=
  do i <- trim_back t (S (length t)) (zlength t - 1);
  if i <? 0 then Ok 0
  else do j <- trim_front t (S (length t)) 0; Ok (as_uint16 (i - j + 1)).

(* ---- the loop over offsets ---- *)
Record span := mkSpan { min_begin : Z; min_end : Z; max_end : Z; valid_found : bool }.
Fixpoint scan_offsets (offs : list (Z * Z)) (s : span) : span :=
  match offs with
  | [] => s
  | (b, e) :: r =>
      if b <? e then scan_offsets r (mkSpan (Z.min b (min_begin s)) (Z.min e (min_end s)) (Z.max e (max_end s)) true)
      else scan_offsets r s
  end.

(* byChunk: for ; b >= 1; b-- { if IsSpace(Get(b-1)) break } *)
Fixpoint chunk_b (t : str) (fuel : nat) (b : Z) : res Z :=
  match fuel with
  | O => Err OutOfFuel
  | S f => if b >=? 1 then (do c <- getz t (b - 1); if is_space c then Ok b else chunk_b t f (b - 1)) else Ok b
  end.
(* for ; e < numChars; e++ { if IsSpace(Get(e)) break } *)
Fixpoint chunk_e (t : str) (fuel : nat) (e : Z) : res Z :=
  match fuel with
  | O => Err OutOfFuel
  | S f => if e <? zlength t then (do c <- getz t e; if is_space c then Ok e else chunk_e t f (e + 1)) else Ok e
  end.

(* byPathname: for i := numChars-1; i >= 0; i-- { if r == '/' || r == '\\' { lastDelim = i; break } } *)
Fixpoint last_delim (t : str) (fuel : nat) (i : Z) : res Z :=
  match fuel with
  | O => Err OutOfFuel
  | S f => if i >=? 0 then (do c <- getz t i; if (c =? 47) || (c =? 92) then Ok i else last_delim t f (i - 1)) else Ok (-1)
  end.

(* byBegin/byEnd: for idx := 0; idx < numChars; idx++ { whitePrefixLen = idx; if idx == minBegin || !IsSpace(r) break } *)
Fixpoint white_prefix (t : str) (fuel : nat) (idx : Z) (mb : Z) (wpl : Z) : res Z :=
  match fuel with
  | O => Err OutOfFuel
  | S f =>
      if idx <? zlength t then
        do c <- getz t idx;
        if (idx =? mb) || negb (is_space c) then Ok idx else white_prefix t f (idx + 1) mb idx
      else Ok wpl
  end.

Definition crit_val (c : Z) (t : str) (s : span) (score : Z) : res Z :=
  let numChars := zlength t in
  if c =? byScore then Ok (65535 - as_uint16 score)
  else if c =? byChunk then
    if valid_found s then
      do b <- chunk_b t (S (Z.to_nat (min_begin s))) (min_begin s);
      do e <- chunk_e t (S (length t)) (max_end s);
      Ok (as_uint16 (e - b))
    else Ok 65535
  else if c =? byLength then trim_length t
  else if c =? byPathname then
    if valid_found s then
      do ld <- last_delim t (S (length t)) (numChars - 1);
      if ld <=? min_begin s then Ok (as_uint16 (min_begin s - ld)) else Ok 65535
    else Ok 65535
  else if (c =? byBegin) || (c =? byEnd) then
    if valid_found s then
      do wpl <- white_prefix t (S (length t)) 0 (min_begin s) 0;
      if c =? byBegin then Ok (as_uint16 (min_end s - wpl))
      else do tl <- trim_length t;
           Ok (as_uint16 (65535 - Z.quot (65535 * (max_end s - wpl)) (tl + 1)))
    else Ok 65535
  else Ok 65535.

(* for idx, criterion := range sortCriteria { ...; result.points[3-idx] = val } *)
Fixpoint fill_points (crits : list Z) (idx : Z) (t : str) (s : span) (score : Z) (p : points) : res points :=
  match crits with
  | [] => Ok p
  | c :: r =>
      do v <- crit_val c t s score;
      do p' <- set_point p (3 - idx) v;
      fill_points r (idx + 1) t s score p'
  end.

Definition build_result (crits : list Z) (it : item) (offsets : list (Z * Z)) (score : Z) : res result :=
  let s := scan_offsets offsets (mkSpan 65535 65535 0 false) in
  do p <- fill_points crits 0 (it_text it) s score (0, 0, 0, 0);
  Ok (mkResult (it_index it) p).

End Build.

(* ---- compareRanks ---- *)

(* result_others.go: for idx := 3; idx >= 0; idx-- { left < right -> true; left > right -> false }; index *)
Definition compare_ranks (a b : result) (tac : bool) : bool :=
  let '(a0, a1, a2, a3) := r_points a in
  let '(b0, b1, b2, b3) := r_points b in
  if a3 <? b3 then true else if a3 >? b3 then false
  else if a2 <? b2 then true else if a2 >? b2 then false
  else if a1 <? b1 then true else if a1 >? b1 then false
  else if a0 <? b0 then true else if a0 >? b0 then false
  else xorb (r_index a <=? r_index b) tac.

(* result_x86.go: the four uint16 read as one little-endian uint64 *)
Definition pack64 (p : points) : Z :=
  let '(p0, p1, p2, p3) := p in p0 + 65536 * (p1 + 65536 * (p2 + 65536 * p3)).

Definition compare_ranks_x86 (a b : result) (tac : bool) : bool :=
  let left := pack64 (r_points a) in
  let right := pack64 (r_points b) in
  if left <? right then true else if left >? right then false
  else xorb (r_index a <=? r_index b) tac.

(* ---- sort.Sort(ByRelevance(xs)) / ByRelevanceTac: modelled as insertion sort with Less = compareRanks
   (justified by RankProofs: Less is a strict total order on lists with distinct item indexes, so the sorted
   permutation is unique; trusted: sort.Sort returns a sorted permutation) ---- *)
Section SortModel.
Context {A : Type}.
Variable less : A -> A -> bool.
Fixpoint sort_insert (x : A) (l : list A) : list A :=
  match l with
  | [] => [x]
  | y :: t => if less x y then x :: l else y :: sort_insert x t
  end.
Fixpoint sort_results (l : list A) : list A :=
  match l with
  | [] => []
  | x :: t => sort_insert x (sort_results t)
  end.
End SortModel.
