(* C18 model: src/history.go restated.  File system = one optional file
   (None = does not exist).  Every slice/index access is checked. *)
From Fzf Require Import Prelude HistorySpec.
Open Scope Z_scope.

Record hist := mkHist {
  h_lines : list str;            (* h.lines: entries ++ [scratch] *)
  h_modified : list (nat * str); (* h.modified (map): latest binding first *)
  h_max : nat;                   (* h.maxSize *)
  h_cursor : nat                 (* h.cursor *)
}.

Definition fs := option str.

(* strings.Trim(data, "\n") / strings.Split(_, "\n") *)
Definition go_trim_nl := trim_nl.
Definition go_split_nl := split_nl.

Definition last_str (ls : list str) : res str :=
  match ls with [] => Err OutOfRange | _ => get ls (length ls - 1) end.

(* NewHistory: a missing file is created empty *)
Definition new_history (file : fs) (max : nat) : res (hist * fs) :=
  let data := match file with None => [] | Some d => d end in
  let lines := go_split_nl (go_trim_nl data) in
  do l <- last_str lines;
  let lines := if nonemptyb l then lines ++ [[]] else lines in
  Ok (mkHist lines [] max (length lines - 1), Some data).

(* h.append(line) *)
Definition h_append (h : hist) (file : fs) (line : str) : res (hist * fs) :=
  match line with
  | [] => Ok (h, file)
  | _ =>
    match h_lines h with
    | [] => Err OutOfRange                     (* h.lines[:len-1] with len = 0 panics *)
    | _ =>
      let lines := removelast (h_lines h) ++ [line] in
      let lines := if Nat.ltb (h_max h) (length lines)
                   then skipn (length lines - h_max h) lines else lines in
      let lines := lines ++ [[]] in
      Ok (mkHist lines (h_modified h) (h_max h) (h_cursor h),
          Some (concat_map_sep NL lines))
    end
  end.

Fixpoint assoc (k : nat) (m : list (nat * str)) : option str :=
  match m with
  | [] => None
  | (k', v) :: r => if Nat.eqb k k' then Some v else assoc k r
  end.

(* h.override(str) *)
Definition h_override (h : hist) (s : str) : res hist :=
  let n := length (h_lines h) in
  if Nat.eqb (h_cursor h) (n - 1) then
    do ls <- set_nth (h_lines h) (h_cursor h) s;
    Ok (mkHist ls (h_modified h) (h_max h) (h_cursor h))
  else if Nat.ltb (h_cursor h) (n - 1) then
    Ok (mkHist (h_lines h) ((h_cursor h, s) :: h_modified h) (h_max h) (h_cursor h))
  else Ok h.

Definition h_current (h : hist) : res str :=
  match assoc (h_cursor h) (h_modified h) with
  | Some s => Ok s
  | None => get (h_lines h) (h_cursor h)
  end.

Definition h_previous (h : hist) : res (hist * str) :=
  let h' := if Nat.ltb 0 (h_cursor h)
            then mkHist (h_lines h) (h_modified h) (h_max h) (h_cursor h - 1) else h in
  do s <- h_current h'; Ok (h', s).

Definition h_next (h : hist) : res (hist * str) :=
  let h' := if Nat.ltb (h_cursor h) (length (h_lines h) - 1)
            then mkHist (h_lines h) (h_modified h) (h_max h) (S (h_cursor h)) else h in
  do s <- h_current h'; Ok (h', s).

(* --- the way terminal.go uses it: one session = load; (edit|prev|next)*; optional submit --- *)
Inductive sop := Edit (s : str) | Prev | Next.

Record sess := mkSess { s_hist : hist; s_input : str; s_seen : list str (* what prev/next showed, newest first *) }.

Definition sess_step (st : sess) (o : sop) : res sess :=
  match o with
  | Edit s => Ok (mkSess (s_hist st) s (s_seen st))
  | Prev =>
      do h <- h_override (s_hist st) (s_input st);
      do hs <- h_previous h;
      Ok (mkSess (fst hs) (snd hs) (snd hs :: s_seen st))
  | Next =>
      do h <- h_override (s_hist st) (s_input st);
      do hs <- h_next h;
      Ok (mkSess (fst hs) (snd hs) (snd hs :: s_seen st))
  end.

Fixpoint sess_steps (st : sess) (ops : list sop) : res sess :=
  match ops with
  | [] => Ok st
  | o :: r => do st' <- sess_step st o; sess_steps st' r
  end.

(* a session: ops, then either exit with the query submitted (accept) or abandoned (abort) *)
Record session := mkSession { ss_ops : list sop; ss_submit : bool }.

Definition run_session (max : nat) (file : fs) (s : session) : res (fs * list str * str) :=
  do hf <- new_history file max;
  do st <- sess_steps (mkSess (fst hf) [] []) (ss_ops s);
  if ss_submit s then
    do hf' <- h_append (s_hist st) (snd hf) (s_input st);
    Ok (snd hf', rev (s_seen st), s_input st)
  else Ok (snd hf, rev (s_seen st), s_input st).

Fixpoint run_sessions (max : nat) (file : fs) (ss : list session) : res fs :=
  match ss with
  | [] => Ok file
  | s :: r => do x <- run_session max file s; run_sessions max (fst (fst x)) r
  end.

(* same, also returning the queries that were submitted (one per submitting session, in order) *)
Fixpoint run_sessions_log (max : nat) (file : fs) (ss : list session) : res (fs * list str) :=
  match ss with
  | [] => Ok (file, [])
  | s :: r =>
      do x <- run_session max file s;
      do y <- run_sessions_log max (fst (fst x)) r;
      Ok (fst y, (if ss_submit s then [snd x] else []) ++ snd y)
  end.
