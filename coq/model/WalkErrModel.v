(* C19 model, second part: the walker of src/reader.go when DIRECTORIES CANNOT BE READ.

   reader.go, readFiles:
       fn := func(path string, de os.DirEntry, err error) error {
           if err != nil {
               return nil
           }
           ... (the callback of WalkModel.walk_fn)
       }
       noerr := true
       for _, root := range roots {
           noerr = noerr && (fastwalk.Walk(&conf, root, fn) == nil)
       }
       return noerr

   INTERFACE ASSUMED OF fastwalk v1.0.10 IN ADDITION TO THE ONE AT THE TOP OF WalkModel.v (trusted, read off
   fastwalk.go: Walk, doWork, walk; fastwalk_unix.go: readDir):
   * walk(dir): fn(dir, de, nil) as before (first call; SkipDir: nothing else happens for dir).  Then readDir(dir).
     If the directory cannot be opened or read, fn(dir, de, err) is called a SECOND time with the error, and what
     it returns is the result of walk(dir): it goes unchanged through resc to Walk, and `if err != nil { return err }`
     ends the whole Walk.  Only nil lets the walk go on: filepath.SkipDir is NOT understood here (it is only on the
     first call and on symlinks), it ends the Walk like any other error.
   * when Walk ends with an error the directories that are queued or being read by other workers are dropped.
     Which these are depends on the schedule; here: siblings are visited in list order, depth first, and
     everything after the failing directory is dropped (with a callback that answers nil - walk_unreadable below -
     nothing is ever dropped, so the order does not matter for what is proved).
   * a link to a directory that is entered under Follow is read by the link's path; a failure is reported the
     same way (second call with the link's DirEntry).
   * the root: os.Stat(root) is done first; this model speaks about roots that exist (a root that cannot be stat'ed
     makes Walk return the error without any call, which also switches off all later roots: `noerr && ...` does not
     evaluate Walk once noerr is false.  Reported as a finding; not in the model).
   A read that fails half way through a directory (readdirent error after some entries) is outside the model. *)
From Fzf Require Import Prelude WalkSpec WalkModel WalkErrSpec.
Open Scope Z_scope.

Definition ukind (e : uentry) : kind :=
  match e with UFile _ => KFile | UDir _ _ _ => KDir | USymFile _ => KSymFile | USymDir _ _ _ => KSymDir end.

(* the callback with its third argument: err = true is the second call that reports a ReadDir error *)
Definition callback_e := str -> kind -> bool -> res (list str * action).

(* `if err != nil { return nil }`, then the callback of WalkModel *)
Definition walk_fn_e (o : wopts) (ign : list str * list str * list str) (path : str) (k : kind) (err : bool)
  : res (list str * action) :=
  if err then Ok ([], Continue) else walk_fn o ign path k.

(* result of walking something: the items pushed and whether the Walk was ended by an error *)
Definition wres := (list str * bool)%type.

(* second call for directory `joined` of kind k after the items `first` of the first call *)
Definition report_error (fn : callback_e) (joined : str) (k : kind) (first : list str) : res wres :=
  do r2 <- fn joined k true;
  match snd r2 with
  | Continue => Ok (first ++ fst r2, false)
  | SkipDir => Ok (first ++ fst r2, true)         (* any non-nil answer ends the Walk *)
  end.

Fixpoint fwe_entry (fn : callback_e) (follow : bool) (dir : str) (e : uentry) : res wres :=
  let joined := join_paths dir (uname e) in
  let read (l : list uentry) : res wres :=
    (fix go (l : list uentry) : res wres :=
       match l with
       | [] => Ok ([], false)
       | x :: r =>
           do a <- fwe_entry fn follow joined x;
           if snd a then Ok a else do b <- go r; Ok (fst a ++ fst b, snd b)
       end) l in
  do r <- fn joined (ukind e) false;
  match e with
  | UFile _ => match snd r with Continue => Ok (fst r, false) | SkipDir => Err BadInput end
  | USymFile _ => Ok (fst r, false)
  | UDir _ rd ch =>
      match snd r with
      | SkipDir => Ok (fst r, false)
      | Continue =>
          if rd then do rest <- read ch; Ok (fst r ++ fst rest, snd rest)
          else report_error fn joined KDir (fst r)
      end
  | USymDir _ rd tg =>
      match snd r with
      | SkipDir => Ok (fst r, false)
      | Continue =>
          if follow then
            if rd then do rest <- read tg; Ok (fst r ++ fst rest, snd rest)
            else report_error fn joined KSymDir (fst r)
          else Ok (fst r, false)
      end
  end.

Definition fwe_read (fn : callback_e) (follow : bool) (dir : str) : list uentry -> res wres :=
  fix go (l : list uentry) : res wres :=
    match l with
    | [] => Ok ([], false)
    | x :: r =>
        do a <- fwe_entry fn follow dir x;
        if snd a then Ok a else do b <- go r; Ok (fst a ++ fst b, snd b)
    end.

(* fastwalk.Walk for a root that exists *)
Definition fwe_walk (fn : callback_e) (follow : bool) (root : str) (rd : bool) (ch : list uentry) : res wres :=
  let root := clean_root_path root in
  do r <- fn root KDir false;
  match snd r with
  | SkipDir => Ok (fst r, false)
  | Continue =>
      if rd then do rest <- fwe_read fn follow root ch; Ok (fst r ++ fst rest, snd rest)
      else report_error fn root KDir (fst r)
  end.

(* the loop of readFiles: items pushed and noerr; `noerr && Walk(...)` does not walk once noerr is false *)
Fixpoint walk_roots_e (fn : callback_e) (follow : bool) (noerr : bool) (roots : list uroot) : res (list str * bool) :=
  match roots with
  | [] => Ok ([], noerr)
  | (root, rd, ch) :: r =>
      if noerr then
        do a <- fwe_walk fn follow root rd ch;
        do b <- walk_roots_e fn follow (negb (snd a)) r;
        Ok (fst a ++ fst b, snd b)
      else walk_roots_e fn follow false r
  end.

(* readFiles: (items pushed, return value) *)
Definition read_files_e (o : wopts) (ignores : list str) (roots : list uroot) : res (list str * bool) :=
  walk_roots_e (walk_fn_e o (split_ignores ignores)) (o_follow o) true roots.
