(* C12 model, second part: restatement of
     util.NewExecutor (src/util/util_unix.go): which shell, which arguments, which escaper;
     the loop of runProxy (src/proxy.go) that turns os.Environ() into the lines of the re-launch script
     (export NAME='value'; exported bash functions), and WriteTemporaryFile of those lines and the command.
   strings.Fields is modelled for ASCII white space (a --with-shell value holding U+0085 / U+00A0 or another
   non-ASCII Unicode space is outside the model), strings.Split / SplitN / HasPrefix / HasSuffix by their
   documented meaning, the regexp ^[a-zA-Z_][a-zA-Z0-9_]*$ as a scanner.  Every index / slice expression of
   the Go code is a checked access here (Err = the Go code panics).  No proofs in this file. *)
From Fzf Require Import Prelude ShellSpec PlaceholderModel.
Open Scope Z_scope.

(* ---------- NewExecutor ---------- *)

Definition go_space (c : Z) : bool := ((9 <=? c) && (c <=? 13)) || (c =? 32).

Fixpoint field_word (s : str) : str :=
  match s with
  | [] => []
  | c :: r => if go_space c then [] else c :: field_word r
  end.

(* strings.Fields *)
Fixpoint fields_fuel (fuel : nat) (s : str) : list str :=
  match fuel with
  | O => []
  | S f =>
      match drop_while go_space s with
      | [] => []
      | s1 => let w := field_word s1 in w :: fields_fuel f (skipn (length w) s1)
      end
  end.
Definition fields (s : str) : list str := fields_fuel (S (length s)) s.

(* strings.Split(s, string(sep)) for a one-byte separator *)
Fixpoint split_on (sep : Z) (s cur : str) : list str :=
  match s with
  | [] => [rev cur]
  | c :: r => if c =? sep then rev cur :: split_on sep r [] else split_on sep r (c :: cur)
  end.

Record executor := mkX { x_shell : str; x_args : list str; x_fish : bool }.

Definition m_sh : str := [115;104].
Definition m_dash_c : str := [45;99].
Definition m_fish : str := [102;105;115;104].

(* shell := os.Getenv("SHELL"); args := strings.Fields(withShell)
   if len(args) > 0 { shell = args[0]; args = args[1:] } else { if len(shell) == 0 { shell = "sh" }; args = []string{"-c"} }
   tokens := strings.Split(shell, "/"); if tokens[len(tokens)-1] == "fish" { fish escaper } else { sh escaper } *)
Definition new_executor (env_shell with_shell : str) : res executor :=
  let '(shell, args) :=
    match fields with_shell with
    | a :: r => (a, r)
    | [] => ((match env_shell with [] => m_sh | _ => env_shell end), [m_dash_c])
    end in
  let tokens := split_on 47 shell [] in
  do last <- get tokens (length tokens - 1);
  Ok (mkX shell args (str_eqb last m_fish)).

(* Executor.QuoteEntry of the executor NewExecutor(withShell) builds under $SHELL = env_shell *)
Definition executor_quote (env_shell with_shell s : str) : res str :=
  do x <- new_executor env_shell with_shell; Ok (quote_entry (x_fish x) s).

(* ---------- runProxy: the lines of the re-launch script ---------- *)

(* strings.SplitN(s, "=", 2) *)
Fixpoint split_n2 (s cur : str) : list str :=
  match s with
  | [] => [rev cur]
  | c :: r => if c =? 61 then [rev cur; r] else split_n2 r (c :: cur)
  end.

(* regexp ^[a-zA-Z_][a-zA-Z0-9_]*$ *)
Definition re_start (c : Z) : bool := ((97 <=? c) && (c <=? 122)) || ((65 <=? c) && (c <=? 90)) || (c =? 95).
Definition re_char (c : Z) : bool := re_start c || ((48 <=? c) && (c <=? 57)).
Definition re_identifier (s : str) : bool :=
  match s with c :: r => re_start c && forallb re_char r | [] => false end.

Definition m_tmux_pane : str := [84;77;85;88;95;80;65;78;69].                 (* TMUX_PANE *)
Definition m_bash_func : str := [66;65;83;72;95;70;85;78;67;95].              (* BASH_FUNC_ *)
Definition m_pct2 : str := [37;37].                                           (* %% *)
Definition m_export_f : str := [101;120;112;111;114;116;32;45;102;32].        (* "export -f " *)

(* s[a:b], checked like the Go slice expression *)
Definition slice (s : str) (a b : nat) : res str :=
  if Nat.leb a b && Nat.leb b (length s) then Ok (firstn (b - a) (skipn a s)) else Err OutOfRange.

(* one turn of the loop over os.Environ(): the lines appended to exports, and whether needBash was set *)
Definition proxy_entry (pair_str : str) : res (list str * bool) :=
  let pair := split_n2 pair_str [] in
  do p0 <- get pair 0;
  if re_identifier p0 && negb (str_eqb p0 m_tmux_pane) then
    do p1 <- get pair 1;
    Ok ([export_line p0 p1], false)
  else if has_prefix m_bash_func p0 && has_suffix m_pct2 p0 then
    do name <- slice p0 10 (length p0 - 2);
    do p1 <- get pair 1;
    Ok ([name ++ p1; m_export_f ++ name], true)
  else Ok ([], false).

(* exports := []string{"FZF_DEFAULT_COMMAND=", "FZF_DEFAULT_OPTS=", "FZF_DEFAULT_OPTS_FILE="} *)
Definition proxy_header : list str :=
  [[70;90;70;95;68;69;70;65;85;76;84;95;67;79;77;77;65;78;68;61];
   [70;90;70;95;68;69;70;65;85;76;84;95;79;80;84;83;61];
   [70;90;70;95;68;69;70;65;85;76;84;95;79;80;84;83;95;70;73;76;69;61]].

Fixpoint proxy_exports_go (environ : list str) (exports : list str) (need_bash : bool) : res (list str * bool) :=
  match environ with
  | [] => Ok (exports, need_bash)
  | e :: r => do x <- proxy_entry e; proxy_exports_go r (exports ++ fst x) (need_bash || snd x)
  end.

Definition proxy_exports (environ : list str) : res (list str * bool) :=
  proxy_exports_go environ proxy_header false.

(* WriteTemporaryFile(append(exports, command), "\n"): strings.Join(data, "\n") + "\n" *)
Definition proxy_script (environ : list str) (command : str) : res (str * bool) :=
  do x <- proxy_exports environ;
  Ok (concat_map_sep 10 (fst x ++ [command]) ++ [10], snd x).
