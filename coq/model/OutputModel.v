(* C07 model: what fzf writes to stdout and its exit status, restated from
     src/core.go      Run: the --filter block (streaming and non-streaming paths), the -1/-0 block
     src/item.go      Item.AsString, Item.acceptNth
     src/terminal.go  output, sortSelected, selectItem/deselectItem/toggleItem, the actions that touch the
                      selection or end the program (doAction), the reqClose/reqPrintQuery/reqQuit/reqFatal exits
     src/tokenizer.go awkTokenizer, Tokenize (AWK / string delimiter), Transform, JoinTokens, StripLastDelimiter
     src/options.go   nthTransformer (the closure it returns), the --print0 printer
     main.go          exit
   Not modelled here but taken as Section variables: the ANSI stripper (C11), the util.Chars round trip,
   the --with-nth display transformer (C10), the matcher (C01/C02), the rank order (C04).
   No proofs in this file. *)
From Fzf Require Import Prelude.
Open Scope Z_scope.

(* constants.go *)
Definition ExitOk : Z := 0.
Definition ExitNoMatch : Z := 1.
Definition ExitError : Z := 2.
Definition ExitInterrupt : Z := 130.

(* Item: text (what is displayed and searched), origText (set only under --with-nth) *)
Record item := mkItem { it_index : nat; it_text : str; it_orig : option str }.

(* options that reach the output code *)
Record oopts := mkOopts {
  o_ansi : bool;          (* --ansi *)
  o_with_nth : bool;      (* --with-nth given *)
  o_print0 : bool;        (* --print0 *)
  o_print_query : bool;   (* --print-query *)
  o_sort : bool;          (* opts.Sort > 0 *)
  o_tac : bool;           (* --tac *)
  o_sync : bool           (* --sync *)
}.

(* ---- fields, for --accept-nth ---------------------------------------------------------------- *)
Inductive delim := DAwk | DStr (s : str).          (* a regex delimiter is outside the model *)
Record range := mkRange { r_begin : Z; r_end : Z }. (* rangeEllipsis = 0 *)
Inductive nth_part := PStr (s : str) | PIndex | PNth (rs : list range).
Inductive nth_fn := NthRanges (rs : list range) | NthTemplate (ps : list nth_part).

(* tokenizer.go newRange *)
Definition new_range (b e : Z) : range :=
  let b := if (b =? 1) && negb (e =? 1) then 0 else b in
  let e := if e =? -1 then 0 else e in
  mkRange b e.

Inductive awk_state := AwkNil | AwkBlack | AwkWhite.
(* awkTokenizer: input[begin:end] is kept as the accumulator `cur` (reversed) *)
Fixpoint awk_loop (st : awk_state) (cur : str) (acc : list str) (s : str) : list str :=
  match s with
  | [] => rev (match cur with [] => acc | _ => rev cur :: acc end)
  | r :: t =>
    let white := (r =? 9) || (r =? 32) in
    match st with
    | AwkNil => if white then awk_loop AwkNil cur acc t else awk_loop AwkBlack [r] acc t
    | AwkBlack => awk_loop (if white then AwkWhite else AwkBlack) (r :: cur) acc t
    | AwkWhite => if white then awk_loop AwkWhite (r :: cur) acc t
                  else awk_loop AwkBlack [r] (rev cur :: acc) t
    end
  end.
Definition awk_tokenizer (s : str) : list str := awk_loop AwkNil [] [] s.

Fixpoint is_prefix (p s : str) : bool :=
  match p, s with
  | [], _ => true
  | x :: p', y :: s' => (x =? y) && is_prefix p' s'
  | _ :: _, [] => false
  end.

(* strings.SplitAfter(text, sep), sep non-empty: `skip` counts the bytes of a matched separator still to copy *)
Fixpoint split_after_go (sep : str) (skip : nat) (cur : str) (s : str) : list str :=
  match s with
  | [] => [rev cur]
  | c :: t =>
    let skip' := match skip with O => if is_prefix sep s then length sep else O | _ => skip end in
    match skip' with
    | O => split_after_go sep O (c :: cur) t
    | S O => rev (c :: cur) :: split_after_go sep O [] t
    | S k => split_after_go sep k (c :: cur) t
    end
  end.
Definition split_after (sep : str) (s : str) : list str := split_after_go sep O [] s.

(* Tokenize (token texts only; prefix lengths do not reach the output) *)
Definition tokenize (d : delim) (s : str) : list str :=
  match d with
  | DAwk => awk_tokenizer s
  | DStr sep => split_after sep s
  end.

(* the `for idx := begin; idx <= end; idx++` loop of Transform *)
Fixpoint collect_range (fuel : nat) (idx : Z) (tokens : list str) : res (list str) :=
  match fuel with
  | O => Ok []
  | S f =>
    let n := Z.of_nat (length tokens) in
    do rest <- collect_range f (idx + 1) tokens;
    if (1 <=? idx) && (idx <=? n)
    then do t <- get tokens (Z.to_nat (idx - 1)); Ok (t :: rest)
    else Ok rest
  end.

(* Transform, one Range -> text of the merged token *)
Definition transform_one (tokens : list str) (r : range) : res str :=
  let n := Z.of_nat (length tokens) in
  let adj := fun i => if i <? 0 then i + n + 1 else i in
  if r_begin r =? r_end r then
    let idx := r_begin r in
    if idx =? 0 then Ok (concat tokens)
    else
      let idx := adj idx in
      if (1 <=? idx) && (idx <=? n) then get tokens (Z.to_nat (idx - 1)) else Ok []
  else
    let be :=
      if r_begin r =? 0 then (1, adj (r_end r))
      else if r_end r =? 0 then (adj (r_begin r), n)
      else (adj (r_begin r), adj (r_end r)) in
    do parts <- collect_range (Z.to_nat (snd be - fst be + 1)) (fst be) tokens;
    Ok (concat parts).

Fixpoint map_res {A B} (f : A -> res B) (l : list A) : res (list B) :=
  match l with
  | [] => Ok []
  | x :: t => do y <- f x; do r <- map_res f t; Ok (y :: r)
  end.

(* JoinTokens(Transform(tokens, nth)) *)
Definition join_transform (tokens : list str) (rs : list range) : res str :=
  do ts <- map_res (transform_one tokens) rs; Ok (concat ts).

Fixpoint strip_suffix_rev (rsuf rs : str) : option str :=   (* both reversed *)
  match rsuf, rs with
  | [], _ => Some rs
  | x :: a, y :: b => if x =? y then strip_suffix_rev a b else None
  | _ :: _, [] => None
  end.
(* strings.TrimSuffix *)
Definition trim_suffix (s suf : str) : str :=
  match strip_suffix_rev (rev suf) (rev s) with Some r => rev r | None => s end.

(* unicode.IsSpace on the one-byte code points; a multi-byte space (U+0085, U+00A0, U+2000 ...) at the
   end of a field is outside the model's domain *)
Definition is_space_byte (c : Z) : bool := (c =? 32) || ((9 <=? c) && (c <=? 13)).
Definition trim_right_space (s : str) : str := rev (drop_while is_space_byte (rev s)).

(* StripLastDelimiter *)
Definition strip_last_delimiter (d : delim) (s : str) : str :=
  trim_right_space (match d with DStr sep => trim_suffix s sep | DAwk => s end).

(* strconv.Itoa for a non-negative int32 *)
Fixpoint itoa_fuel (fuel : nat) (n : Z) (acc : str) : str :=
  match fuel with
  | O => acc
  | S f => let acc' := (48 + n mod 10) :: acc in
           if n / 10 =? 0 then acc' else itoa_fuel f (n / 10) acc'
  end.
Definition itoa (n : Z) : str := itoa_fuel 20 n [].

(* the closure returned by nthTransformer(str)(delimiter) *)
Fixpoint template_loop (d : delim) (tokens : list str) (index : Z) (ps : list nth_part) (acc : str) : res str :=
  match ps with
  | [] => Ok acc
  | PNth rs :: r => do s <- join_transform tokens rs; template_loop d tokens index r (acc ++ strip_last_delimiter d s)
  | PIndex :: r => template_loop d tokens index r (if 0 <=? index then acc ++ itoa index else acc)
  | PStr s :: r => template_loop d tokens index r (acc ++ s)
  end.
Definition apply_nth (d : delim) (f : nth_fn) (tokens : list str) (index : Z) : res str :=
  match f with
  | NthRanges rs => join_transform tokens rs
  | NthTemplate ps => template_loop d tokens index ps []
  end.

Section Model.
  (* ---- parameters ---- *)
  Variable strip : str -> str.              (* extractColor(s, nil, nil) trimmed text: property C11 *)
  Variable rt : str -> str.                 (* util.ToChars(b).ToString(): the identity on valid UTF-8 *)
  Variable nth_transform : nat -> str -> str. (* --with-nth transformer + TrimTrailingWhitespaces: display only (C10) *)
  Variable matches : item -> bool.          (* pattern.MatchItem(item, ...) != nil  (C01/C02) *)
  Variable rank_sort : list item -> list item. (* the order the sorting merger yields (C04) *)
  Variable sortable : bool.                 (* pattern.sortable *)

  (* ansiProcessor of Run *)
  Definition ansi_processor (o : oopts) (data : str) : str := if o_ansi o then strip data else data.

  (* the two chunkList transformers of Run (header lines: C06) *)
  Definition trans (o : oopts) (idx : nat) (data : str) : item :=
    if o_with_nth o
    then mkItem idx (ansi_processor o (nth_transform idx data)) (Some data)
    else mkItem idx (ansi_processor o data) None.

  (* Item.AsString *)
  Definition as_string (strip_ansi : bool) (it : item) : str :=
    match it_orig it with
    | Some orig => if strip_ansi then strip orig else orig
    | None => rt (it_text it)
    end.

  (* opts.Printer: fmt.Println(str) or fmt.Print(str, "\x00"), appended to what stdout holds *)
  Definition printer (print0 : bool) (out : str) (s : str) : str := out ++ s ++ [if print0 then 0 else 10].

  (* streaming filter: each record is turned into an item, matched and printed as it is read *)
  Fixpoint stream_loop (o : oopts) (idx : nat) (rs : list str) (out : str) (found : bool) : str * bool :=
    match rs with
    | [] => (out, found)
    | r :: t =>
      let it := trans o idx r in
      if matches it
      then stream_loop o (S idx) t (printer (o_print0 o) out (as_string (o_ansi o) it)) true
      else stream_loop o (S idx) t out found
    end.

  (* chunkList.Push for every record *)
  Fixpoint build_items (o : oopts) (idx : nat) (rs : list str) : list item :=
    match rs with
    | [] => []
    | r :: t => trans o idx r :: build_items o (S idx) t
    end.

  (* matcher.scan + Merger.Get order: matcher.sort = sort && pattern.sortable *)
  Definition scan (o : oopts) (items : list item) : list item :=
    let matched := filter matches items in
    if o_sort o && sortable then rank_sort matched
    else if o_tac o then rev matched else matched.

  Fixpoint print_loop (o : oopts) (m : list item) (out : str) (found : bool) : str * bool :=
    match m with
    | [] => (out, found)
    | it :: t => print_loop o t (printer (o_print0 o) out (as_string (o_ansi o) it)) true
    end.

  (* Run, `if opts.Filter != nil { ... }` *)
  Definition filter_mode (o : oopts) (query : str) (rs : list str) : str * Z :=
    let out0 := if o_print_query o then printer (o_print0 o) [] query else [] in
    let streaming := negb (o_sort o) && negb (o_tac o) && negb (o_sync o) in
    let r := if streaming then stream_loop o 0 rs out0 false
             else print_loop o (scan o (build_items o 0 rs)) out0 false in
    (fst r, if snd r then ExitOk else ExitNoMatch).

  (* ---- interactive ---- *)
  Record topts := mkTopts {
    to_ansi : bool; to_print0 : bool; to_print_query : bool;
    to_expect : bool;                 (* len(t.expect) > 0 *)
    to_multi : nat;                   (* t.multi *)
    to_accept_nth : option nth_fn;    (* t.acceptNth *)
    to_delim : delim                  (* t.delimiter *)
  }.

  (* t.selected : map[int32]selectedItem{at, item}; time.Now() is a counter (assumed strictly increasing) *)
  Definition smap := list (nat * (nat * item)).
  Definition sstate := (smap * nat)%type.     (* the map, the clock *)

  Fixpoint m_find (k : nat) (m : smap) : option (nat * item) :=
    match m with
    | [] => None
    | (k', v) :: r => if Nat.eqb k k' then Some v else m_find k r
    end.
  Fixpoint m_delete (k : nat) (m : smap) : smap :=
    match m with
    | [] => []
    | (k', v) :: r => if Nat.eqb k k' then m_delete k r else (k', v) :: m_delete k r
    end.

  (* selectItem *)
  Definition select_item (multi : nat) (it : item) (s : sstate) : sstate * bool :=
    if Nat.leb multi (length (fst s)) then (s, false)
    else match m_find (it_index it) (fst s) with
         | Some _ => (s, true)
         | None => (((it_index it, (snd s, it)) :: fst s, S (snd s)), true)
         end.
  (* deselectItem *)
  Definition deselect_item (it : item) (s : sstate) : sstate := (m_delete (it_index it) (fst s), snd s).
  (* toggleItem *)
  Definition toggle_item (multi : nat) (it : item) (s : sstate) : sstate * bool :=
    match m_find (it_index it) (fst s) with
    | None => select_item multi it s
    | Some _ => (deselect_item it s, true)
    end.

  (* sort.Sort(byTimeOrder(sels)) as insertion sort on `at` *)
  Fixpoint insert_by_time (e : nat * item) (l : list (nat * item)) : list (nat * item) :=
    match l with
    | [] => [e]
    | x :: r => if Nat.ltb (fst x) (fst e) then x :: insert_by_time e r else e :: l
    end.
  Definition sort_selected (m : smap) : list item :=
    map snd (fold_right insert_by_time [] (map snd m)).

  Record term := mkTerm {
    t_merger : list item;   (* t.merger, in list order *)
    t_cy : Z;               (* t.cy *)
    t_sel : sstate;         (* t.selected + clock *)
    t_queue : list str;     (* t.printQueue *)
    t_input : str;          (* t.input *)
    t_pressed : str;        (* t.pressed *)
    t_reading : bool;       (* t.reading *)
    t_count : nat           (* t.count *)
  }.

  Definition with_sel (t : term) (s : sstate) : term :=
    mkTerm (t_merger t) (t_cy t) s (t_queue t) (t_input t) (t_pressed t) (t_reading t) (t_count t).
  Definition with_cy (t : term) (cy : Z) : term :=
    mkTerm (t_merger t) cy (t_sel t) (t_queue t) (t_input t) (t_pressed t) (t_reading t) (t_count t).

  (* currentItem *)
  Definition current_item (t : term) : res (option item) :=
    let cnt := Z.of_nat (length (t_merger t)) in
    if (0 <=? t_cy t) && (0 <? cnt) && (t_cy t <? cnt)
    then do it <- get (t_merger t) (Z.to_nat (t_cy t)); Ok (Some it)
    else Ok None.

  (* util.Constrain, vset, vmove (layout default, no --cycle) *)
  Definition constrain (v lo hi : Z) : Z := if v <? lo then lo else if hi <? v then hi else v.
  Definition vset (t : term) (o : Z) : term := with_cy t (constrain o 0 (Z.of_nat (length (t_merger t)) - 1)).
  Definition vmove (t : term) (o : Z) : term := vset t (t_cy t + o).

  (* Item.acceptNth *)
  Definition accept_nth (o : topts) (f : nth_fn) (it : item) : res str :=
    let tokens := tokenize (to_delim o) (as_string (to_ansi o) it) in
    do s <- apply_nth (to_delim o) f tokens (Z.of_nat (it_index it));
    Ok (strip_last_delimiter (to_delim o) s).

  (* the `transform` closure of output() and of the -1/-0 block *)
  Definition out_transform (o : topts) (it : item) : res str :=
    match to_accept_nth o with
    | Some f => accept_nth o f it
    | None => Ok (as_string (to_ansi o) it)
    end.

  Fixpoint print_items (o : topts) (its : list item) (out : str) : res str :=
    match its with
    | [] => Ok out
    | it :: r => do s <- out_transform o it; print_items o r (printer (to_print0 o) out s)
    end.

  (* Terminal.output: returns stdout and `found` *)
  Definition output (o : topts) (t : term) : res (str * bool) :=
    let out := if to_print_query o then printer (to_print0 o) [] (t_input t) else [] in
    let out := if to_expect o then printer (to_print0 o) out (t_pressed t) else out in
    let out := fold_left (printer (to_print0 o)) (t_queue t) out in
    match fst (t_sel t) with
    | [] =>
      do cur <- current_item t;
      match cur with
      | Some it => do out <- print_items o [it] out; Ok (out, true)
      | None => Ok (out, false)
      end
    | _ => do out <- print_items o (sort_selected (fst (t_sel t))) out; Ok (out, true)
    end.

  Inductive action :=
  | AToggle | ASelect | ADeselect | ASelectAll | ADeselectAll | AToggleAll | AClearSelection
  | AToggleDown | AToggleUp
  | AUp | ADown | AFirst | ALast | APos (n : Z)
  | APrint (s : str)
  (* environment: the query was edited and UpdateList delivered a new list (selection is kept) *)
  | AUpdate (q : str) (merger : list item) (cy : Z)
  (* actions that can end the program *)
  | AAccept | AAcceptNonEmpty | AAcceptOrPrintQuery | APrintQuery | AAbort | AFatal
  | AExpect (key : str).   (* a key listed in --expect was pressed *)

  Inductive outcome := Running (t : term) | Exited (out : str) (code : Z).

  Fixpoint select_all_loop (multi : nat) (its : list item) (s : sstate) : sstate :=
    match its with
    | [] => s
    | it :: r => let x := select_item multi it s in
                 if snd x then select_all_loop multi r (fst x) else fst x
    end.
  Fixpoint deselect_all_loop (its : list item) (s : sstate) : sstate :=
    match its with
    | [] => s
    | it :: r => match fst s with [] => s | _ => deselect_all_loop r (deselect_item it s) end
    end.
  (* toggle-all, first loop: remember the positions of the selected ones and deselect them *)
  Fixpoint toggle_all_1 (i : nat) (its : list item) (s : sstate) (prev : list nat) : sstate * list nat :=
    match its with
    | [] => (s, prev)
    | it :: r =>
      match fst s with
      | [] => (s, prev)
      | _ => match m_find (it_index it) (fst s) with
             | Some _ => toggle_all_1 (S i) r (deselect_item it s) (i :: prev)
             | None => toggle_all_1 (S i) r s prev
             end
      end
    end.
  (* second loop: select the others until the limit refuses *)
  Fixpoint toggle_all_2 (multi : nat) (i : nat) (its : list item) (s : sstate) (prev : list nat) : sstate :=
    match its with
    | [] => s
    | it :: r =>
      if existsb (Nat.eqb i) prev then toggle_all_2 multi (S i) r s prev
      else let x := select_item multi it s in
           if snd x then toggle_all_2 multi (S i) r (fst x) prev else fst x
    end.

  (* the `toggle` closure of Loop *)
  Definition toggle_current (o : topts) (t : term) : res (term * bool) :=
    do cur <- current_item t;
    match cur with
    | Some it => let x := toggle_item (to_multi o) it (t_sel t) in Ok (with_sel t (fst x), snd x)
    | None => Ok (t, false)
    end.

  (* exit paths of the render loop: reqClose, reqPrintQuery, reqQuit, reqFatal; then Run returns the code
     and main.exit passes it to os.Exit *)
  Definition req_close (o : topts) (t : term) : res outcome :=
    do r <- output o t; Ok (Exited (fst r) (if snd r then ExitOk else ExitNoMatch)).
  Definition req_print_query (o : topts) (t : term) : outcome :=
    Exited (printer (to_print0 o) [] (t_input t)) ExitOk.

  (* doAction *)
  Definition do_action (o : topts) (t : term) (a : action) : res outcome :=
    let multi := to_multi o in
    let nonempty := negb (Nat.eqb (length (t_merger t)) 0) in
    match a with
    | AToggle =>
      if Nat.ltb 0 multi && nonempty then do x <- toggle_current o t; Ok (Running (fst x)) else Ok (Running t)
    | AToggleDown =>
      if Nat.ltb 0 multi && nonempty
      then do x <- toggle_current o t; Ok (Running (if snd x then vmove (fst x) (-1) else fst x))
      else Ok (Running t)
    | AToggleUp =>
      if Nat.ltb 0 multi && nonempty
      then do x <- toggle_current o t; Ok (Running (if snd x then vmove (fst x) 1 else fst x))
      else Ok (Running t)
    | ASelect =>
      do cur <- current_item t;
      match cur with
      | Some it => if Nat.ltb 0 multi
                   then match m_find (it_index it) (fst (t_sel t)) with
                        | Some _ => Ok (Running t)
                        | None => Ok (Running (with_sel t (fst (select_item multi it (t_sel t)))))
                        end
                   else Ok (Running t)
      | None => Ok (Running t)
      end
    | ADeselect =>
      do cur <- current_item t;
      match cur with
      | Some it => if Nat.ltb 0 multi
                   then match m_find (it_index it) (fst (t_sel t)) with
                        | Some _ => Ok (Running (with_sel t (deselect_item it (t_sel t))))
                        | None => Ok (Running t)
                        end
                   else Ok (Running t)
      | None => Ok (Running t)
      end
    | ASelectAll =>
      if Nat.ltb 0 multi then Ok (Running (with_sel t (select_all_loop multi (t_merger t) (t_sel t))))
      else Ok (Running t)
    | ADeselectAll =>
      if Nat.ltb 0 multi then Ok (Running (with_sel t (deselect_all_loop (t_merger t) (t_sel t))))
      else Ok (Running t)
    | AToggleAll =>
      if Nat.ltb 0 multi then
        let x := toggle_all_1 0 (t_merger t) (t_sel t) [] in
        Ok (Running (with_sel t (toggle_all_2 multi 0 (t_merger t) (fst x) (snd x))))
      else Ok (Running t)
    | AClearSelection =>
      if Nat.ltb 0 multi then Ok (Running (with_sel t ([], snd (t_sel t)))) else Ok (Running t)
    | AUp => Ok (Running (vmove t 1))
    | ADown => Ok (Running (vmove t (-1)))
    | AFirst => Ok (Running (vset t 0))
    | ALast => Ok (Running (vset t (Z.of_nat (length (t_merger t)) - 1)))
    | APos n =>
      let n := if 0 <? n then n - 1 else if n <? 0 then n + Z.of_nat (length (t_merger t)) else n in
      Ok (Running (vset t n))
    | APrint s =>
      Ok (Running (mkTerm (t_merger t) (t_cy t) (t_sel t) (t_queue t ++ [s]) (t_input t) (t_pressed t)
                          (t_reading t) (t_count t)))
    | AUpdate q m cy =>
      Ok (Running (mkTerm m cy (t_sel t) (t_queue t) q (t_pressed t) (t_reading t) (t_count t)))
    | AAccept => req_close o t
    | AAcceptNonEmpty =>
      if negb (Nat.eqb (length (fst (t_sel t))) 0) || nonempty || (negb (t_reading t) && Nat.eqb (t_count t) 0)
      then req_close o t else Ok (Running t)
    | AAcceptOrPrintQuery =>
      if negb (Nat.eqb (length (fst (t_sel t))) 0) || nonempty then req_close o t
      else Ok (req_print_query o t)
    | APrintQuery => Ok (req_print_query o t)
    | AAbort => Ok (Exited [] ExitInterrupt)
    | AFatal => Ok (Exited [] ExitError)
    | AExpect key =>
      req_close o (mkTerm (t_merger t) (t_cy t) (t_sel t) (t_queue t) (t_input t) key (t_reading t) (t_count t))
    end.

  (* the event loop: actions in order until one ends the program *)
  Fixpoint run_actions (o : topts) (t : term) (acts : list action) : res outcome :=
    match acts with
    | [] => Ok (Running t)
    | a :: r =>
      do x <- do_action o t a;
      match x with
      | Running t' => run_actions o t' r
      | Exited out code => Ok (Exited out code)
      end
    end.

  (* Run, EvtSearchFin with `deferred` (-1 / -0 / --sync), on the final merger:
     Some = fzf prints and stops without going interactive; None = the finder starts *)
  Definition select1_exit0 (o : topts) (select1 exit0 : bool) (query : str) (merger : list item)
    : res (option (str * Z)) :=
    let count := length merger in
    if (select1 && Nat.ltb 1 count) || (exit0 && negb select1 && Nat.ltb 0 count) then Ok None
    else if (exit0 && Nat.eqb count 0) || (select1 && Nat.eqb count 1) then
      let out := if to_print_query o then printer (to_print0 o) [] query else [] in
      let out := if to_expect o then printer (to_print0 o) out [] else out in
      do out <- print_items o merger out;
      Ok (Some (out, if Nat.eqb count 0 then ExitNoMatch else ExitOk))
    else Ok None.

  (* a whole interactive run: option parsing (C17) is an input; then -1/-0; then the event loop *)
  Definition interactive (parse_ok : bool) (o : topts) (select1 exit0 : bool) (query : str)
             (merger : list item) (count : nat) (acts : list action) : res outcome :=
    if negb parse_ok then Ok (Exited [] ExitError)
    else
      do s <- select1_exit0 o select1 exit0 query merger;
      match s with
      | Some (out, code) => Ok (Exited out code)
      | None => run_actions o (mkTerm merger 0 ([], O) [] query [] false count) acts
      end.
End Model.
