(* C20 model: the preview machinery of src/terminal.go restated as a labelled transition system.

   Parties (all inside Terminal.Loop):
     main loop     executes user actions under t.mutex (doAction): moves the cursor, edits the query,
                   toggles selections (t.version++), and the "direct" preview actions change-preview,
                   refresh-preview, toggle-preview which call refreshPreview / previewBox.Set themselves;
     render loop   goroutine handling reqBox events; on reqList it compares its memo
                   (focusedIndex, version) with (currentIndex, t.version) and calls refreshPreview;
                   on reqPreviewDisplay it copies the result into t.previewer.lines;
     previewer     goroutine: previewBox.Wait (one slot per event type, a newer reqPreviewEnqueue
                   overwrites), version++, replacePlaceholder, cmd.Start, then waits for EOF, cmd.Wait,
                   and for its helpers; only then does it look at the mailbox again;
     goroutine 2   collects output lines, publishes them (reqBox.Set(reqPreviewDisplay, {version, lines}))
                   on a 100 ms ticker and once more at EOF;
     goroutine 3   ("watcher") receives from the UNBUFFERED killChan: true = kill now (killPreview),
                   false = cancel (cancelPreview): kill after previewCancelWait (500 ms) unless output has
                   already been rendered, then at once.  Both senders use a non-blocking send, so a
                   cancellation made while nobody is receiving is dropped.  Since the fix b3cab5f it also
                   polls the mailbox every 100 ms (label LPoll): quit pending -> kill, newer request
                   pending -> same as a received cancel.
     session end   render loop: previewBox.Set(reqQuit), leaves its loop, running=false, t.killPreview(),
                   cancel() (goroutine 3 kills on ctx.Done, also inside the grace period), waits for
                   <-previewerDone (closed when the previewer goroutine returns; 5b17ce0), then
                   eventBox.Set(EvtQuit): core.go returns and the OS process ends.  (Before 268c349 EvtQuit came
                   first; between 268c349 and 5b17ce0 the wait was only `for previewing.Get()`.)  The wait is
                   bounded by previewCancelWait; the model takes SIGKILL to the process group as reliable, so
                   the bound never cuts the wait short (trusted).  The wait is skipped when the previewer never
                   became ready (reqActivate not yet seen): the model starts with the previewer ready.
                   The session context being done is the same moment as reqQuit, so s_quit stands for both;
                   a watcher in its grace period can always go on to kill (LTimer), which covers ctx.Done.

     preview command  prints lines (LOutput), may close or redirect its output while it goes on running (LCloseOut:
                   output EOF and process exit are different events; cmd.Wait() returns only at the exit), ends
                   (LChildExit) or is killed (LKill).  The previewer sends finishChan only after cmd.Wait(), so
                   goroutine 3 keeps listening for cancel / kill / quit for as long as the process lives.

   A state holds the shared variables and each party's control point; a label is one atomic step of one
   party (or of the environment: the user, the preview command).  `step` returns None when the label is
   not enabled.  A schedule is a list of labels; `run` skips labels that are not enabled, so every list
   is a schedule.  s_tab lists every command ever started, newest first: its head is the command the
   previewer is running (alive flag, lines printed so far), its tail is history kept only for the theorems.
   s_gen and s_clean are ghost components; they influence no transition.

   Scope: command templates are non-empty; the focused item is an index (-1 = minItem when the list is
   empty), i.e. the `items[0] == nil` branch (empty list and a template without {q}) is not modelled;
   preview window options other than hidden/visible, scrolling, follow, clearCode, reqPreviewDelayed
   (blanking after 500 ms) are not modelled.  Of change-preview-window only the hidden/visible transition is
   modelled in this machine (LHideWin / LShowWin); the scroll offset of a request and the rule by which partial
   output is rendered are modelled separately, per command, by the scroll machine at the end of this file. *)
From Fzf Require Import Prelude PreviewSpec.
Open Scope Z_scope.

(* previewRequest{template, list, query}: list = buildPlusList's result *)
Record request := mkR { r_t : tmpl; r_items : list Z; r_query : str }.

(* buildPlusList (current item never nil, see Scope) *)
Definition build_list (t : tmpl) (u : uistate) : list Z :=
  let cur := u_focus u in
  if negb (negb (t_slot t) || t_q t || (t_plus t && nonemptyb (u_sel u)))
  then [cur; cur]
  else match u_sel u with
       | [] => [cur; cur]
       | sels => cur :: sels
       end.

Definition build_req (t : tmpl) (u : uistate) : request := mkR t (build_list t u) (u_query u).

(* replacePlaceholder's view of a request: {} = items[0], {+} = items[1:], {q} = query *)
Definition expand_req (r : request) : res args :=
  match r_items r with
  | [] => Err OutOfRange                       (* items[0] on an empty list panics *)
  | cur :: rest =>
      Ok (mkA (t_id (r_t r)) cur
              (if t_plus (r_t r) then Some rest else None)
              (if t_q (r_t r) then Some (r_query r) else None))
  end.

Inductive watcher := WListen | WGrace | WKill | WDone.
  (* goroutine 3: in its outer select | got cancel, waiting for the grace timer | about to KillCommand | left *)

Inductive phase :=
| PIdle                                        (* previewer blocked in previewBox.Wait *)
| PTaken (r : request)                         (* request taken, version bumped, command not started yet *)
| PRun (w : watcher) (rendered dirty : bool)   (* command started; dirty = lines not yet published *)
| PStop.                                       (* previewer loop left after reqQuit *)

(* p_alive: the process exists (cmd.Wait has not returned and would block); p_open: the pipe fzf reads its output from
   is still open (goroutine 1 has not seen EOF).  The two are independent while the command lives: a command may close
   or redirect its stdout/stderr and keep running (LCloseOut), e.g. `echo summary; exec >/dev/null 2>&1; sleep 600`. *)
Record proc := mkP { p_ver : nat; p_req : request; p_alive : bool; p_open : bool; p_out : list str }.

(* which machine: pol_poll = goroutine 3 polls the mailbox (b3cab5f); pol_exit = what the session end
   waits for before the process ends. *)
Inductive exit_mode :=
| ExitNoWait        (* before 268c349: EvtQuit is published at once; the kill races with the end of the process *)
| ExitWaitsRunning  (* 268c349: waits while `previewing` (a command started and not yet cleaned up) *)
| ExitWaitsStopped. (* 5b17ce0: waits until the previewer goroutine has left its loop (<-previewerDone) *)
(* pol_early: the previewer tells goroutine 3 to stop (finishChan) as soon as the OUTPUT has ended, before cmd.Wait()
   has returned.  false = the tree: `<-eofChan; cmd.Wait(); finishChan <- true`.  true = regression witness (seed
   C20-5): with a command that closes its output and lives on, nobody is left to kill it. *)
Record policy := mkPol { pol_poll : bool; pol_exit : exit_mode; pol_early : bool }.

Record state := mkS {
  s_ui : uistate; s_tmpl : tmpl; s_visible : bool;
  s_version : nat;                 (* t.version *)
  s_seen : option (Z * nat);       (* render loop memo (focusedIndex, version); None = (minItem, -1) *)
  s_pending : bool;                (* reqList waiting in reqBox *)
  s_box : option request;          (* previewBox[reqPreviewEnqueue] *)
  s_quit : bool;                   (* previewBox[reqQuit] *)
  s_pver : nat;                    (* previewer's version counter *)
  s_ph : phase;
  s_disp : option (nat * list str);(* reqBox[reqPreviewDisplay] *)
  s_shown_ver : nat; s_shown : list str;   (* t.previewer.version / .lines *)
  s_running : bool;                (* render loop still in its loop *)
  s_evtquit : bool;                (* EvtQuit published: core.go is about to return *)
  s_ended : bool;                  (* the OS process is gone *)
  s_tab : list proc;               (* ghost: every command ever started, newest first *)
  s_gen : option (Z * nat);        (* ghost: (focus, version) when the newest request was built *)
  s_clean : bool                   (* ghost: no direct refresh happened while reqList was pending *)
}.

Definition init (t : tmpl) (u : uistate) : state :=
  mkS u t true 0 None true None false 0 PIdle None 0 [] true false false [] None true.

(* record updates *)
Definition set_ui (s : state) (u : uistate) (ver : nat) : state :=
  mkS u (s_tmpl s) (s_visible s) ver (s_seen s) true (s_box s) (s_quit s) (s_pver s) (s_ph s) (s_disp s)
      (s_shown_ver s) (s_shown s) (s_running s) (s_evtquit s) (s_ended s) (s_tab s) (s_gen s) (s_clean s).
Definition set_ph (s : state) (ph : phase) : state :=
  mkS (s_ui s) (s_tmpl s) (s_visible s) (s_version s) (s_seen s) (s_pending s) (s_box s) (s_quit s) (s_pver s) ph
      (s_disp s) (s_shown_ver s) (s_shown s) (s_running s) (s_evtquit s) (s_ended s) (s_tab s) (s_gen s) (s_clean s).
Definition set_tab_ph_disp (s : state) (tab : list proc) (ph : phase) (d : option (nat * list str)) : state :=
  mkS (s_ui s) (s_tmpl s) (s_visible s) (s_version s) (s_seen s) (s_pending s) (s_box s) (s_quit s) (s_pver s) ph
      d (s_shown_ver s) (s_shown s) (s_running s) (s_evtquit s) (s_ended s) tab (s_gen s) (s_clean s).

(* cancelPreview(): non-blocking send of false; received only if goroutine 3 is in its outer select *)
Definition cancel_ph (ph : phase) : phase :=
  match ph with
  | PRun WListen rend d => PRun (if rend then WKill else WGrace) rend d
  | _ => ph
  end.
(* killPreview(): non-blocking send of true *)
Definition killnow_ph (ph : phase) : phase :=
  match ph with
  | PRun WListen rend d => PRun WKill rend d
  | _ => ph
  end.

(* refreshPreview(command) / the body of toggle-preview when the window becomes visible:
   cancelPreview(); previewBox.Set(reqPreviewEnqueue, request built from the state NOW) *)
Definition refresh (direct : bool) (s : state) : state :=
  if s_visible s then
    mkS (s_ui s) (s_tmpl s) true (s_version s) (s_seen s) (s_pending s)
        (Some (build_req (s_tmpl s) (s_ui s))) (s_quit s) (s_pver s) (cancel_ph (s_ph s)) (s_disp s)
        (s_shown_ver s) (s_shown s) (s_running s) (s_evtquit s) (s_ended s) (s_tab s)
        (Some (u_focus (s_ui s), s_version s))
        (s_clean s && negb (direct && s_pending s))
  else s.

Definition tmpl_eqb (a b : tmpl) : bool :=
  (t_id a =? t_id b) && Bool.eqb (t_slot a) (t_slot b) && Bool.eqb (t_plus a) (t_plus b) && Bool.eqb (t_q a) (t_q b).

Definition seen_eqb (a : option (Z * nat)) (f : Z) (v : nat) : bool :=
  match a with Some (f', v') => (f' =? f) && Nat.eqb v' v | None => false end.

Inductive label :=
(* user (main loop) *)
| LMove (f : Z)                 (* cursor now on item f (also: the result list changed under it) *)
| LQuery (q : str)
| LSel (sel : list Z)
| LChangePreview (t : tmpl)
| LRefresh                      (* refresh-preview *)
| LToggle                       (* toggle-preview (also show-preview / hide-preview when they apply) *)
| LHideWin                      (* change-preview-window(..hidden..): the window goes away, its content is kept *)
| LShowWin                      (* change-preview-window(..) with a layout that is not hidden *)
(* render loop *)
| LRender                       (* ui_enqueue: handles reqList *)
| LDisplay                      (* handles reqPreviewDisplay *)
(* previewer *)
| LTake | LSpawn | LReap
(* goroutine 2 *)
| LTick
(* goroutine 3 *)
| LTimer                        (* grace period over *)
| LKill                         (* util.KillCommand *)
| LPoll                         (* mailbox poll (b3cab5f) *)
(* preview command *)
| LOutput (l : str) | LChildExit
| LCloseOut                     (* the LIVE command closes / redirects its stdout and stderr: goroutine 1 reads EOF,
                                   goroutine 2 publishes the final result and ends; the process goes on *)
(* session end *)
| LExit                         (* render loop ends: reqQuit, killPreview(), cancel() of the session context *)
| LQuitPub                      (* the exit path stops waiting and publishes EvtQuit *)
| LProcEnd.                     (* core.go returned: the process is gone *)

Definition hd_alive (tab : list proc) : bool := match tab with p :: _ => p_alive p | [] => false end.
Definition any_alive (tab : list proc) : bool := existsb p_alive tab.

Definition upd_hd (tab : list proc) (f : proc -> proc) : list proc :=
  match tab with p :: r => f p :: r | [] => [] end.
Definition hd_open (tab : list proc) : bool := match tab with p :: _ => p_open p | [] => false end.
Definition kill_p (p : proc) : proc := mkP (p_ver p) (p_req p) false (p_open p) (p_out p).
Definition out_p (l : str) (p : proc) : proc := mkP (p_ver p) (p_req p) (p_alive p) (p_open p) (p_out p ++ [l]).
Definition close_p (p : proc) : proc := mkP (p_ver p) (p_req p) (p_alive p) false (p_out p).
(* finishChan is received by goroutine 3 in its outer select and inside the grace period of cancel(false) *)
Definition finish_w (w : watcher) : watcher := match w with WListen | WGrace => WDone | _ => w end.
Definition hd_out (tab : list proc) : list str := match tab with p :: _ => p_out p | [] => [] end.

Definition is_stop (ph : phase) : bool := match ph with PStop => true | _ => false end.

Definition is_run (ph : phase) : bool := match ph with PRun _ _ _ => true | _ => false end.
Definition exit_ready (m : exit_mode) (ph : phase) : bool :=
  match m with
  | ExitNoWait => true
  | ExitWaitsRunning => negb (is_run ph)
  | ExitWaitsStopped => is_stop ph
  end.

Definition step (pol : policy) (l : label) (s : state) : option state :=
  if s_ended s then None else
  match l with
  | LMove f =>
      if s_running s then Some (set_ui s (mkU f (u_query (s_ui s)) (u_sel (s_ui s))) (s_version s)) else None
  | LQuery q =>
      if s_running s then
        if str_eqb q (u_query (s_ui s)) then Some s
        else Some (set_ui s (mkU (u_focus (s_ui s)) q (u_sel (s_ui s)))
                          (if s_visible s && t_q (s_tmpl s) then S (s_version s) else s_version s))
      else None
  | LSel sel =>
      if s_running s then
        if zlist_eqb sel (u_sel (s_ui s)) then Some s
        else Some (set_ui s (mkU (u_focus (s_ui s)) (u_query (s_ui s)) sel) (S (s_version s)))
      else None
  | LChangePreview t =>
      if s_running s then
        if tmpl_eqb t (s_tmpl s) then Some s
        else Some (refresh true
               (mkS (s_ui s) t (s_visible s) (s_version s) (s_seen s) (s_pending s) (s_box s) (s_quit s) (s_pver s)
                    (s_ph s) (s_disp s) (s_shown_ver s) (s_shown s) (s_running s) (s_evtquit s) (s_ended s)
                    (s_tab s) (s_gen s) (s_clean s)))
      else None
  | LRefresh => if s_running s then Some (refresh true s) else None
  | LToggle =>
      if s_running s then
        if s_visible s then   (* hide: t.previewer.lines = nil; cancelPreview() *)
          Some (mkS (s_ui s) (s_tmpl s) false (s_version s) (s_seen s) (s_pending s) (s_box s) (s_quit s) (s_pver s)
                    (cancel_ph (s_ph s)) (s_disp s) (s_shown_ver s) [] (s_running s) (s_evtquit s) (s_ended s)
                    (s_tab s) (s_gen s) (s_clean s))
        else
          Some (refresh true
               (mkS (s_ui s) (s_tmpl s) true (s_version s) (s_seen s) (s_pending s) (s_box s) (s_quit s) (s_pver s)
                    (s_ph s) (s_disp s) (s_shown_ver s) (s_shown s) (s_running s) (s_evtquit s) (s_ended s)
                    (s_tab s) (s_gen s) (s_clean s)))
      else None
  | LHideWin =>
      (* actChangePreviewWindow, previewOptsDifferentLayout, the new layout is hidden: updatePreviewWindow;
         t.cancelPreview().  Unlike toggle-preview the lines are kept.  Already hidden: options compare equal. *)
      if s_running s then
        if s_visible s then
          Some (mkS (s_ui s) (s_tmpl s) false (s_version s) (s_seen s) (s_pending s) (s_box s) (s_quit s) (s_pver s)
                    (cancel_ph (s_ph s)) (s_disp s) (s_shown_ver s) (s_shown s) (s_running s) (s_evtquit s) (s_ended s)
                    (s_tab s) (s_gen s) (s_clean s))
        else Some s
      else None
  | LShowWin =>
      (* actChangePreviewWindow with a visible layout: wasHidden := currentPreviewOpts.hidden; if it was hidden and
         there is a window now: refreshPreview (restart); otherwise only reqPreviewRefresh (a redraw) *)
      if s_running s then
        if s_visible s then Some s
        else
          Some (refresh true
               (mkS (s_ui s) (s_tmpl s) true (s_version s) (s_seen s) (s_pending s) (s_box s) (s_quit s) (s_pver s)
                    (s_ph s) (s_disp s) (s_shown_ver s) (s_shown s) (s_running s) (s_evtquit s) (s_ended s)
                    (s_tab s) (s_gen s) (s_clean s)))
      else None
  | LRender =>
      if s_running s && s_pending s then
        let s1 := mkS (s_ui s) (s_tmpl s) (s_visible s) (s_version s) (s_seen s) false (s_box s) (s_quit s) (s_pver s)
                      (s_ph s) (s_disp s) (s_shown_ver s) (s_shown s) (s_running s) (s_evtquit s) (s_ended s)
                      (s_tab s) (s_gen s) (s_clean s) in
        if seen_eqb (s_seen s) (u_focus (s_ui s)) (s_version s) then Some s1
        else Some (refresh false
               (mkS (s_ui s) (s_tmpl s) (s_visible s) (s_version s) (Some (u_focus (s_ui s), s_version s)) false
                    (s_box s) (s_quit s) (s_pver s) (s_ph s) (s_disp s) (s_shown_ver s) (s_shown s) (s_running s)
                    (s_evtquit s) (s_ended s) (s_tab s) (s_gen s) (s_clean s)))
      else None
  | LDisplay =>
      if s_running s then
        match s_disp s with
        | Some (v, ls) =>
            Some (mkS (s_ui s) (s_tmpl s) (s_visible s) (s_version s) (s_seen s) (s_pending s) (s_box s) (s_quit s)
                      (s_pver s) (s_ph s) None v ls (s_running s) (s_evtquit s) (s_ended s) (s_tab s) (s_gen s) (s_clean s))
        | None => None
        end
      else None
  | LTake =>
      match s_ph s with
      | PIdle =>
          if s_quit s then Some (set_ph s PStop)
          else match s_box s with
               | Some r =>
                   Some (mkS (s_ui s) (s_tmpl s) (s_visible s) (s_version s) (s_seen s) (s_pending s) None (s_quit s)
                             (S (s_pver s)) (PTaken r) (s_disp s) (s_shown_ver s) (s_shown s) (s_running s)
                             (s_evtquit s) (s_ended s) (s_tab s) (s_gen s) (s_clean s))
               | None => None
               end
      | _ => None
      end
  | LSpawn =>
      match s_ph s with
      | PTaken r => Some (set_tab_ph_disp s (mkP (s_pver s) r true true [] :: s_tab s) (PRun WListen false false) (s_disp s))
      | _ => None
      end
  | LReap =>
      match s_ph s with
      | PRun _ _ _ =>
          (* the process is gone: its end closes the pipe if the command had not closed it before (goroutine 2
             publishes the final result at EOF), cmd.Wait() returns, the helpers are told to stop and are reaped *)
          if hd_alive (s_tab s) then None
          else Some (set_tab_ph_disp s (s_tab s) PIdle
                       (if hd_open (s_tab s) then Some (s_pver s, hd_out (s_tab s)) else s_disp s))
      | _ => None
      end
  | LTick =>
      match s_ph s with
      | PRun w _ true =>
          if hd_open (s_tab s) then Some (set_tab_ph_disp s (s_tab s) (PRun w true false) (Some (s_pver s, hd_out (s_tab s))))
          else None               (* goroutine 2 has ended at EOF *)
      | _ => None
      end
  | LTimer =>
      match s_ph s with
      | PRun WGrace rend d => Some (set_ph s (PRun WKill rend d))
      | _ => None
      end
  | LKill =>
      match s_ph s with
      | PRun WKill rend d => Some (set_tab_ph_disp s (upd_hd (s_tab s) kill_p) (PRun WDone rend d) (s_disp s))
      | _ => None
      end
  | LPoll =>
      if pol_poll pol then
        match s_ph s with
        | PRun WListen rend d =>
            if s_quit s then Some (set_ph s (PRun WKill rend d))
            else match s_box s with
                 | Some _ => Some (set_ph s (cancel_ph (s_ph s)))
                 | None => None
                 end
        | _ => None
        end
      else None
  | LOutput ln =>
      match s_ph s with
      | PRun w rend _ =>
          if hd_alive (s_tab s) && hd_open (s_tab s)
          then Some (set_tab_ph_disp s (upd_hd (s_tab s) (out_p ln)) (PRun w rend true) (s_disp s))
          else None
      | _ => None
      end
  | LChildExit =>
      match s_ph s with
      | PRun w rend d =>
          if hd_alive (s_tab s) then Some (set_tab_ph_disp s (upd_hd (s_tab s) kill_p) (PRun w rend d) (s_disp s))
          else None
      | _ => None
      end
  | LCloseOut =>
      (* EOF on the pipe while the process lives: goroutine 2 publishes {version, lines} and sets `rendered`; the
         previewer is now blocked in cmd.Wait() and goroutine 3 keeps listening (the tree), or has been told to stop
         already (pol_early) *)
      match s_ph s with
      | PRun w _ _ =>
          if hd_alive (s_tab s) && hd_open (s_tab s)
          then Some (set_tab_ph_disp s (upd_hd (s_tab s) close_p)
                       (PRun (if pol_early pol then finish_w w else w) true false)
                       (Some (s_pver s, hd_out (s_tab s))))
          else None
      | _ => None
      end
  | LExit =>
      (* exit(): previewBox.Set(reqQuit); the loop ends; running=false; killPreview(); cancel() *)
      if s_running s then
        Some (mkS (s_ui s) (s_tmpl s) (s_visible s) (s_version s) (s_seen s) (s_pending s) (s_box s) true (s_pver s)
                  (killnow_ph (s_ph s)) (s_disp s) (s_shown_ver s) (s_shown s) false (s_evtquit s) (s_ended s) (s_tab s) (s_gen s) (s_clean s))
      else None
  | LQuitPub =>
      (* the exit path has waited as long as its policy says: eventBox.Set(EvtQuit) *)
      if negb (s_running s) && negb (s_evtquit s) && exit_ready (pol_exit pol) (s_ph s) then
        Some (mkS (s_ui s) (s_tmpl s) (s_visible s) (s_version s) (s_seen s) (s_pending s) (s_box s) (s_quit s) (s_pver s)
                  (s_ph s) (s_disp s) (s_shown_ver s) (s_shown s) (s_running s) true (s_ended s)
                  (s_tab s) (s_gen s) (s_clean s))
      else None
  | LProcEnd =>
      (* core.go returned *)
      if s_evtquit s then
        Some (mkS (s_ui s) (s_tmpl s) (s_visible s) (s_version s) (s_seen s) (s_pending s) (s_box s) (s_quit s) (s_pver s)
                  (s_ph s) (s_disp s) (s_shown_ver s) (s_shown s) (s_running s) (s_evtquit s) true
                  (s_tab s) (s_gen s) (s_clean s))
      else None
  end.

(* every list of labels is a schedule: labels that are not enabled are skipped *)
Definition step' (pol : policy) (l : label) (s : state) : state :=
  match step pol l s with Some s' => s' | None => s end.
Fixpoint run (pol : policy) (sched : list label) (s : state) : state :=
  match sched with
  | [] => s
  | l :: r => run pol r (step' pol l s)
  end.
(* strict variant for trace validation: None when some label of the schedule is not enabled *)
Fixpoint run_strict (pol : policy) (sched : list label) (s : state) : option state :=
  match sched with
  | [] => Some s
  | l :: r => match step pol l s with Some s' => run_strict pol r s' | None => None end
  end.

Definition enabled (pol : policy) (l : label) (s : state) : bool :=
  match step pol l s with Some _ => true | None => false end.

(* the steps of fzf's own goroutines (everything except the user and the preview command) *)
Definition internal_labels : list label :=
  [LRender; LDisplay; LTake; LSpawn; LReap; LTick; LTimer; LKill; LPoll; LQuitPub].

(* stable: no goroutine of fzf can take a step (only the user or the preview command can change anything) *)
Definition stable (pol : policy) (s : state) : bool :=
  forallb (fun l => negb (enabled pol l s)) internal_labels.

Definition box_empty (s : state) : bool := match s_box s with None => true | Some _ => false end.

(* quiescent: stable, session alive, mailbox empty *)
Definition quiescent (pol : policy) (s : state) : bool :=
  stable pol s && s_running s && negb (s_ended s) && box_empty s.

Definition alive_procs (s : state) : list proc := filter p_alive (s_tab s).

(* the machine of the code as it is now, the one before b3cab5f, and one whose exit waits *)
Definition coded : policy := mkPol true ExitWaitsStopped false.         (* the tree with b3cab5f, 268c349, 5b17ce0 *)
Definition after_268c349 : policy := mkPol true ExitWaitsRunning false. (* regression: waited only while `previewing` *)
Definition old_machine : policy := mkPol false ExitNoWait false.        (* regression: the tree before the three fixes *)
Definition finish_at_eof : policy := mkPol true ExitWaitsStopped true.  (* regression witness: finishChan before cmd.Wait() *)

(* ================================================================================================
   The scroll machine: goroutine 2 of ONE preview command together with the render loop's handling of
   reqPreviewDisplay, restricted to what decides WHICH PART of the output the window shows.

     request      previewRequest.scrollOffset = evaluateScrollOffset() (spec: requested_offset), copied to
                  initialOffset; goroutine 2 starts with offset := initialOffset, spinnerIndex := -1, lines := []
     GLine        a line arrives from goroutine 1: lines = append(lines, line)
     GTick        the 100 ms ticker: if len(lines) > 0 && len(lines) > initialOffset { if spinnerIndex >= 0
                  { reqBox.Set(reqPreviewDisplay, {version, lines, offset, spin}); offset = -1 }; spinnerIndex++ }
     GEof         the read error: reqBox.Set(reqPreviewDisplay, {version, lines, offset, ""}); the goroutine ends
     RDisplay     render loop: t.previewer.lines = result.lines; if result.offset >= 0 (no follow):
                  t.previewer.offset = Constrain(result.offset, headerLines, len(lines)-1)
   reqBox keeps ONE value per event type: a result that is published before the previous one was handled
   replaces it (and with it the offset the previous one carried).

   The condition on initialOffset in GTick is a policy: GateGt `len(lines) > initialOffset` is the tree (since
   01c8ad4); GateGe `len(lines) >= initialOffset` is the tree before 01c8ad4 (regression witness); GateNone is the
   machine without the condition (regression witness).
   Ghost flags (they influence no transition): k_lost = a pending result that carried the offset was replaced;
   k_edge = a partial result was published when len(lines) = initialOffset exactly (the requested line is not
   there yet, the offset is clamped one line short: the defect repaired by 01c8ad4; impossible under GateGt). *)

Inductive gate := GateNone | GateGe | GateGt.
Definition gate_open (g : gate) (req n : Z) : bool :=
  match g with GateNone => true | GateGe => req <=? n | GateGt => req <? n end.

Record sstate := mkK {
  k_n : Z;                          (* len(lines) in goroutine 2 *)
  k_spin : option nat;              (* spinnerIndex; None = -1 *)
  k_off : option Z;                 (* offset still to be sent; None = -1 *)
  k_box : option (Z * option Z);    (* reqBox[reqPreviewDisplay]: (len(lines), offset) *)
  k_wn : Z; k_woff : Z;             (* len(t.previewer.lines), t.previewer.offset *)
  k_eof : bool;
  k_lost : bool; k_edge : bool
}.

Inductive slabel := GLine | GTick | GEof | RDisplay.

Definition sinit (req w0 : Z) : sstate := mkK 0 None (Some req) None 0 w0 false false false.

Definition carries_offset (b : option (Z * option Z)) : bool :=
  match b with Some (_, Some _) => true | _ => false end.

Definition sstep (g : gate) (req headers : Z) (l : slabel) (s : sstate) : option sstate :=
  match l with
  | GLine =>
      if k_eof s then None
      else Some (mkK (k_n s + 1) (k_spin s) (k_off s) (k_box s) (k_wn s) (k_woff s) false (k_lost s) (k_edge s))
  | GTick =>
      if k_eof s then None
      else if (0 <? k_n s) && gate_open g req (k_n s) then
        match k_spin s with
        | Some i =>
            Some (mkK (k_n s) (Some (S i)) None (Some (k_n s, k_off s)) (k_wn s) (k_woff s) false
                      (k_lost s || carries_offset (k_box s))
                      (k_edge s || (match k_off s with Some _ => k_n s =? req | None => false end)))
        | None => Some (mkK (k_n s) (Some O) (k_off s) (k_box s) (k_wn s) (k_woff s) false (k_lost s) (k_edge s))
        end
      else Some s
  | GEof =>
      if k_eof s then None
      else Some (mkK (k_n s) (k_spin s) None (Some (k_n s, k_off s)) (k_wn s) (k_woff s) true
                     (k_lost s || carries_offset (k_box s)) (k_edge s))
  | RDisplay =>
      match k_box s with
      | Some (m, o) =>
          Some (mkK (k_n s) (k_spin s) (k_off s) None m
                    (match o with Some v => constrain v headers (m - 1) | None => k_woff s end)
                    (k_eof s) (k_lost s) (k_edge s))
      | None => None
      end
  end.

Fixpoint srun (g : gate) (req headers : Z) (sched : list slabel) (s : sstate) : sstate :=
  match sched with
  | [] => s
  | l :: r => srun g req headers r (match sstep g req headers l s with Some s' => s' | None => s end)
  end.

(* the command has ended and the render loop has nothing left to handle *)
Definition sdone (s : sstate) : bool := k_eof s && match k_box s with None => true | Some _ => false end.
