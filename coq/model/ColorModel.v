(* C17 model, part 3: src/options.go parseTheme and the three option cases that assign
   opts.Theme (--color [SPEC], --no-color / +c) restated.  Strings are byte lists (ASCII:
   strings.ToLower also maps U+0130 / U+212A to ASCII letters; such text is outside the
   modelled domain).  parseTheme keeps going after fail() and returns (theme, err); its only
   caller drops the theme when err != nil, so the model stops at the first failure.
   The four base themes and the empty theme are tables of package tui; they are an input here
   (read from the implementation by the harness), index: 0 dark 1 light 2 16 3 bw 4 empty. *)
From Coq Require Import String.
From Fzf Require Import Prelude BindSpec BindModel ColorSpec.
Open Scope Z_scope.

Definition E_COLOR : Z := 6.             (* "invalid color specification: ..." *)

(* mergeAttr: the loop over components[1:]; None = fail() *)
Fixpoint merge_attr (ws : list str) (ca : cattr) : option cattr :=
  match ws with
  | [] => Some ca
  | w :: r =>
    if str_eqb w s_regular then merge_attr r (fst ca, A_REGULAR)
    else match assoc_str w attr_names with
    | Some a => merge_attr r (fst ca, Z.lor (snd ca) a)
    | None =>
      match assoc_str w colour_names with
      | Some c => merge_attr r (c, snd ca)
      | None =>
        match w with
        | [] => merge_attr r ca
        | _ =>
          match hex_colour w with                       (* rrggbb.MatchString / HexToColor *)
          | Some c => merge_attr r (c, snd ca)
          | None =>
            match dec_colour w with                     (* strconv.Atoi, -1 <= n <= 255 *)
            | Some c => merge_attr r (c, snd ca)
            | None => None
            end
          end
        end
      end
    end
  end.

Fixpoint theme_loop (bases : list theme) (t : theme) (pieces : list str) : res (outcome theme) :=
  match pieces with
  | [] => Ok (Good t)
  | p :: r =>
    match assoc_str p base_names with
    | Some i => do bt <- get bases i; theme_loop bases bt r
    | None =>
      match split_on COLON p with
      | n :: ((_ :: _) as ws) =>
        match assoc_str n slot_names with
        | Some s =>
          match merge_attr ws (theme_get t s) with
          | Some ca => theme_loop bases (theme_set t s ca) r
          | None => Ok (Bad E_COLOR)
          end
        | None => Ok (Bad E_COLOR)
        end
      | _ => Ok (Bad E_COLOR)                            (* len(components) < 2 *)
      end
    end
  end.

Definition parse_theme (bases : list theme) (t : theme) (s : str) : res (outcome theme) :=
  theme_loop bases t (split_on COMMA (to_lower s)).

(* the option loop, restricted to the options that assign opts.Theme:
   (0, spec) = --color with its (possibly empty) value, (1, _) = --no-color / +c *)
Fixpoint color_opts (bases : list theme) (t : theme) (os : list (Z * str)) : res (outcome theme) :=
  match os with
  | [] => Ok (Good t)
  | (k, s) :: r =>
    do o <- (if k =? 0 then
               match s with
               | [] => do e <- get bases BASE_EMPTY; Ok (Good e)
               | _ => parse_theme bases t s
               end
             else do e <- get bases BASE_BW; Ok (Good e));
    match o with
    | Good t' => color_opts bases t' r
    | Bad e => Ok (Bad e)
    end
  end.
