(* C09 model, second part: `case actChangeMulti` of doAction in src/terminal.go restated.
   t.multi is a field of the terminal that this action assigns, so the configuration of EditModel
   (where c_multi is fixed) becomes a part of the state: a session state is (cfg, st) and every other
   action runs EditModel.do_action under the cfg of the moment.

       multi := t.multi
       if a.a == "" { multi = maxMulti } else if n, e := strconv.Atoi(a.a); e == nil && n >= 0 { multi = n }
       if t.multi > 0 && multi != t.multi { t.selected = make(map[int32]selectedItem); t.version++ }
       t.multi = multi

   followed, as for every action, by the inputless "always just discard the change" of doAction.
   strconv.Atoi itself is not modelled: the argument arrives classified (EditMultiSpec.cm_arg).
   No proofs here. *)
From Fzf Require Import Prelude EditSpec EditModel EditMultiSpec.
Open Scope Z_scope.

Definition MAXMULTI : Z := 2147483647.    (* constants.go: maxMulti = math.MaxInt32 *)

Definition with_multi (c : cfg) (m : Z) : cfg :=
  mkCfg m (c_cycle c) (c_default_layout c) (c_inputless c) (c_track c) (c_maxitems c) (c_scrolloff c) (c_fileword c).

Definition change_multi (c : cfg) (s : st) (m : cm_arg) : cfg * st :=
  let multi :=
    match m with
    | CMNone => MAXMULTI
    | CMNum n => if 0 <=? n then n else c_multi c
    | CMBad => c_multi c
    end in
  let s1 := if (0 <? c_multi c) && negb (multi =? c_multi c) then set_sel s [] else s in
  (with_multi c multi,
   if c_inputless c then set_edit s1 (s_input s) (length (s_input s)) (s_yanked s1) else s1).

Section Session.
  Variable is_alnum : Z -> bool.

  Definition xdo (cs : cfg * st) (x : xact) : res (cfg * st) :=
    match x with
    | XA a => do s' <- do_action is_alnum (fst cs) (snd cs) a; Ok (fst cs, s')
    | XChangeMulti m => Ok (change_multi (fst cs) (snd cs) m)
    end.

  Fixpoint xrun (cs : cfg * st) (xs : list xact) : res (cfg * st) :=
    match xs with
    | [] => Ok cs
    | x :: r => do cs' <- xdo cs x; xrun cs' r
    end.
End Session.
