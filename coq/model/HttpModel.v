(* C16 model: src/server.go restated.
     handleHttpRequest  = handle        (bufio.Scanner + the split closure + the section switch + the tail)
     parseGetParams     = get_params    (HttpSpec)
     parseListenAddress = parse_listen_address ; the refusal in startHttpServer = start_decision
   The connection is the list of successive writes of the client followed by end of input
   (close or the read deadline: both make Read fail, bufio treats them alike).  A Read returns
   min(free buffer space, rest of the current write) bytes, as net.Pipe does.
   Oracles (arguments): the JSON the getHandler returns (`state`, "" = timeout), the verdict of
   parseSingleActionList on the trimmed body (`parse`), whether the action channel takes the
   actions within channelTimeout (`ready`). *)
From Fzf Require Import Prelude HttpSpec.
Open Scope Z_scope.

(* ---------- bufio.Scanner over the connection ---------- *)
Definition START_BUF : Z := 4096.      (* bufio startBufSize *)
Definition MAX_TOKEN : Z := 65536.     (* bufio.MaxScanTokenSize *)

Record scanner := mkSc {
  sc_cap : Z;             (* len(s.buf) *)
  sc_start : Z;           (* s.start *)
  sc_data : str;          (* s.buf[s.start:s.end] *)
  sc_rest : list str;     (* writes not yet read (the head may be partly consumed) *)
  sc_eof : bool           (* s.err != nil *)
}.

Definition sc_init (chunks : list str) : scanner := mkSc 0 0 [] chunks false.

(* the split closure; blen = len(body), clen = contentLength at the time of the call *)
Inductive tokres := Tok (adv : nat) (t : str) | Final (t : str) | NoTok.

Definition split_fn (data : str) (at_eof : bool) (blen : nat) (clen : Z) : tokres :=
  match find_crlf data with
  | Some i => Tok (i + 2) (firstn (i + 2) data)
  | None => if at_eof || (clen <=? Z.of_nat (blen + length data)) then Final data else NoTok
  end.

Inductive sres :=
| STok (t : str) (s : scanner)   (* Scan() = true, more may follow *)
| SFinal (t : str)               (* Scan() = true with ErrFinalToken: the scanner is done *)
| SStop                          (* Scan() = false: input exhausted, or ErrTooLong *)
| SMore (s : scanner).           (* one Read happened; go round the loop again *)

Definition do_read (cap start : Z) (data : str) (rest : list str) : sres :=
  match rest with
  | [] => SMore (mkSc cap start data [] true)                          (* Read fails: EOF / deadline *)
  | c :: r =>
      let n := Z.min (Z.of_nat (length c)) (cap - (start + Z.of_nat (length data))) in
      if n <=? 0 then
        match c with
        | [] => SMore (mkSc cap start data r false)                    (* zero-length write: Read = 0, nil; retried *)
        | _ => SMore (mkSc cap start data rest true)                   (* no room: io.ErrNoProgress (unreachable) *)
        end
      else if n =? Z.of_nat (length c) then SMore (mkSc cap start (data ++ c) r false)
      else SMore (mkSc cap start (data ++ firstn (Z.to_nat n) c) (skipn (Z.to_nat n) c :: r) false)
  end.

Definition refill (s : scanner) : sres :=
  if sc_eof s then SStop
  else
    let len := Z.of_nat (length (sc_data s)) in
    let cap := sc_cap s in
    let start :=
      if (0 <? sc_start s) && ((sc_start s + len =? cap) || (cap / 2 <? sc_start s)) then 0 else sc_start s in
    if start + len =? cap then
      if MAX_TOKEN <=? cap then SStop                                  (* ErrTooLong *)
      else
        let cap' := Z.min (if cap =? 0 then START_BUF else cap * 2) MAX_TOKEN in
        do_read cap' 0 (sc_data s) (sc_rest s)
    else do_read cap start (sc_data s) (sc_rest s).

(* one round of the loop inside Scan() *)
Definition scan_step (s : scanner) (blen : nat) (clen : Z) : sres :=
  if nonemptyb (sc_data s) || sc_eof s then
    match split_fn (sc_data s) (sc_eof s) blen clen with
    | Tok adv t => STok t (mkSc (sc_cap s) (sc_start s + Z.of_nat adv) (skipn adv (sc_data s)) (sc_rest s) (sc_eof s))
    | Final t => SFinal t
    | NoTok => refill s
    end
  else refill s.

(* ---------- the section switch ---------- *)
Record pstate := mkP {
  p_section : nat;          (* 0 request line, 1 headers, 2 body *)
  p_get : option str;       (* getRequest *)
  p_h : hstate;             (* contentLength, apiKey *)
  p_body : str
}.
Definition p_init : pstate := mkP 0 None h0 [].

Definition M_INVALID_METHOD : str := [105;110;118;97;108;105;100;32;114;101;113;117;101;115;116;32;109;101;116;104;111;100].
Definition M_CL_MISSING : str := [99;111;110;116;101;110;116;45;108;101;110;103;116;104;32;104;101;97;100;101;114;32;109;105;115;115;105;110;103].
Definition M_INVALID_CL : str := [105;110;118;97;108;105;100;32;99;111;110;116;101;110;116;32;108;101;110;103;116;104].
Definition M_INVALID_KEY : str := [105;110;118;97;108;105;100;32;97;112;105;32;107;101;121].
Definition M_INCOMPLETE : str := [105;110;99;111;109;112;108;101;116;101;32;114;101;113;117;101;115;116].
Definition M_NO_ACTION : str := [110;111;32;97;99;116;105;111;110;32;115;112;101;99;105;102;105;101;100].
Definition M_TIMEOUT_JSON : str := [123;34;101;114;114;111;114;34;58;34;116;105;109;101;111;117;116;34;125].
Definition S_CTYPE : str := [67;111;110;116;101;110;116;45;84;121;112;101;58;32;97;112;112;108;105;99;97;116;105;111;110;47;106;115;111;110;13;10].

Inductive pres := PCont (p : pstate) | PBreak (p : pstate) | PEarly (msg : str).

Definition process (p : pstate) (text : str) : pres :=
  match p_section p with
  | O =>
      match get_match text with
      | Some q => PCont (mkP 1 (Some q) (p_h p) (p_body p))
      | None => if prefixb S_POST text then PCont (mkP 1 None (p_h p) (p_body p))
                else PEarly M_INVALID_METHOD
      end
  | S O =>
      if str_eqb text CRLF then
        match p_get p with
        | Some _ => PBreak p
        | None => if h_clen (p_h p) =? 0 then PEarly M_CL_MISSING
                  else PCont (mkP 2 (p_get p) (p_h p) (p_body p))
        end
      else
        match header_line (p_h p) text with
        | Some h' => PCont (mkP 1 (p_get p) h' (p_body p))
        | None => PEarly M_INVALID_CL
        end
  | _ => PCont (mkP (p_section p) (p_get p) (p_h p) (p_body p ++ text))
  end.

(* for scanner.Scan() { ... }: inl = fell out of the loop, inr = returned bad(msg) from inside.
   The flag tells whether a Read had failed by then (end of input / deadline): if so the handler has
   waited for the client to close (or for the 10 s deadline) before answering. *)
Fixpoint run (fuel : nat) (s : scanner) (p : pstate) : res ((pstate + str) * bool) :=
  match fuel with
  | O => Err OutOfFuel
  | S f =>
      match scan_step s (length (p_body p)) (h_clen (p_h p)) with
      | SMore s' => run f s' p
      | SStop => Ok (inl p, sc_eof s)
      | SFinal t =>
          match process p t with
          | PCont p' | PBreak p' => Ok (inl p', sc_eof s)
          | PEarly m => Ok (inr m, sc_eof s)
          end
      | STok t s' =>
          match process p t with
          | PCont p' => run f s' p'
          | PBreak p' => Ok (inl p', sc_eof s')
          | PEarly m => Ok (inr m, sc_eof s')
          end
      end
  end.

Definition total_len (chunks : list str) : nat := length (concat chunks).
Definition fuel_of (chunks : list str) : nat := 2 * total_len chunks + length chunks + 2.

(* ---------- the tail of handleHttpRequest ---------- *)
Record outcome := mkO {
  o_code : Z;                   (* status code of the answer *)
  o_resp : str;                 (* the bytes written back *)
  o_actions : option str;       (* Some b: parseSingleActionList(b) was sent on the action channel *)
  o_get : option (Z * Z)        (* Some (limit, offset): getHandler was called with these *)
}.

Definition code_digits (code : Z) : str :=
  if code =? 200 then [50;48;48] else if code =? 400 then [52;48;48]
  else if code =? 401 then [52;48;49] else [53;48;51].
Definition status_line (code : Z) : str := S_HTTP11 ++ code_digits code ++ [32] ++ reason code ++ CRLF.

(* answer(code, message): message gets a newline; Content-Length counts it *)
Definition answer (code : Z) (extra : str) (msg : str) : str :=
  status_line code ++ extra ++ S_CLEN_HDR ++ print_dec (length msg + 1) ++ CRLF ++ CRLF ++ msg ++ [10].

Definition bad (msg : str) : outcome := mkO 400 (answer 400 [] msg) None None.
Definition unauthorized : outcome := mkO 401 (answer 401 [] M_INVALID_KEY) None None.

Inductive decision := DOut (o : outcome) | DGet (q : str) | DParse (b : str).

Definition decide (key : str) (r : pstate + str) : decision :=
  match r with
  | inr m => DOut (bad m)
  | inl p =>
      if nonemptyb key && negb (str_eqb (h_key (p_h p)) key) then DOut unauthorized
      else match p_get p with
           | Some q => DGet q
           | None =>
               if Z.of_nat (length (p_body p)) <? h_clen (p_h p) then DOut (bad M_INCOMPLETE)
               else DParse (trim_crlf (firstn (Z.to_nat (h_clen (p_h p))) (p_body p)))
           end
  end.

Definition finish (state : str) (parse : str -> verdict) (ready : bool) (d : decision) : outcome :=
  match d with
  | DOut o => o
  | DGet q =>
      let gp := get_params q in
      if nonemptyb state then mkO 200 (answer 200 S_CTYPE state) None (Some gp)
      else mkO 503 (answer 503 S_CTYPE M_TIMEOUT_JSON) None (Some gp)
  | DParse b =>
      match parse b with
      | VError m => bad m
      | VEmpty => bad M_NO_ACTION
      | VAccept => if ready then mkO 200 (status_line 200 ++ CRLF) (Some b) None
                   else mkO 503 (status_line 503 ++ CRLF) None None
      end
  end.

Definition scan_eof (chunks : list str) : res ((pstate + str) * bool) :=
  run (fuel_of chunks) (sc_init chunks) p_init.

Definition scan_all (chunks : list str) : res (pstate + str) :=
  do x <- scan_eof chunks; Ok (fst x).

(* did the handler have to see the end of the input before it answered? *)
Definition waits_for_close (chunks : list str) : res bool :=
  do x <- scan_eof chunks; Ok (snd x).

Definition handle (key state : str) (parse : str -> verdict) (ready : bool) (chunks : list str) : res outcome :=
  do r <- scan_all chunks;
  Ok (finish state parse ready (decide key r)).

(* the body the action parser will be asked about, if the request gets that far *)
Definition pending_body (key : str) (chunks : list str) : res (option str) :=
  do r <- scan_all chunks;
  Ok (match decide key r with DParse b => Some b | _ => None end).

(* ---------- --listen address and the start decision ---------- *)
Inductive listen_res :=
| LAddrInvalid                      (* "invalid listen address" *)
| LPortInvalid                      (* "invalid listen port" *)
| LOk (host : str) (port : Z).

Definition parse_listen_address (a : str) : listen_res :=
  let '(host, port) :=
    match split_first 58 a with
    | None => (Some S_LOCALHOST, a)
    | Some (h, p) => match split_first 58 p with
                     | None => (Some h, p)
                     | Some _ => (None, p)        (* three parts *)
                     end
    end in
  match host with
  | None => LAddrInvalid
  | Some h =>
      match atoi port with
      | Some n => if (0 <=? n) && (n <=? 65535) then LOk (match h with [] => S_LOCALHOST | _ => h end) n
                  else LPortInvalid
      | None => LPortInvalid
      end
  end.

Inductive start_res := StartRefusedNoKey | StartListen (host : str) (port : Z) | StartBadAddress (r : listen_res).

Definition start_decision (a : str) (key : str) : start_res :=
  match parse_listen_address a with
  | LOk host port => if negb (is_local host) && negb (nonemptyb key) then StartRefusedNoKey
                     else StartListen host port
  | r => StartBadAddress r
  end.

(* ---------- startHttpServer as a whole: from FZF_API_KEY to the answers of the listener ---------- *)
(* apiKey := os.Getenv("FZF_API_KEY"); the guard looks at apiKey; server := httpServer{apiKey: []byte(apiKey), ...}:
   the key the listener holds is the value of the variable, byte for byte. *)
Definition stored_key (envkey : str) : str := envkey.

(* one connection to the listener that `--listen a` starts with FZF_API_KEY = envkey
   (None: no listener - refused, or the address is unusable) *)
Definition serve (a envkey state : str) (parse : str -> verdict) (ready : bool) (chunks : list str)
  : res (option outcome) :=
  match start_decision a envkey with
  | StartListen _ _ => do o <- handle (stored_key envkey) state parse ready chunks; Ok (Some o)
  | _ => Ok None
  end.

(* ---------- Terminal.dumpStatus (src/terminal.go): the two copy loops ---------- *)
(* selected := make([]StatusItem, util.Max(0, util.Min(params.limit, len(selectedItems)-params.offset)))
   for i := range selected { selected[i] = t.dumpItem(selectedItems[i+params.offset].item) }
   and the same over t.merger.Get(i + params.offset).  Every access is checked: an index outside the list
   (a negative one included) is the Go panic that would take the whole process down, since the server
   goroutine has no recover. *)
Definition window_count (n limit offset : Z) : Z := Z.max 0 (Z.min limit (n - offset)).

Definition get_z {A} (l : list A) (i : Z) : res A :=
  if i <? 0 then Err OutOfRange else get l (Z.to_nat i).

Fixpoint dump_loop {A} (items : list A) (offset : Z) (i cnt : nat) : res (list A) :=
  match cnt with
  | O => Ok []
  | S c =>
      do x <- get_z items (Z.of_nat i + offset);
      do r <- dump_loop items offset (S i) c;
      Ok (x :: r)
  end.

Definition dump_items {A} (items : list A) (limit offset : Z) : res (list A) :=
  dump_loop items offset 0 (Z.to_nat (window_count (Z.of_nat (length items)) limit offset)).
