(* C12 model, part 4: from an input line to the string a placeholder works on.
     core.go        the two ChunkList closures (without / with --with-nth) and the three ansiProcessor closures
     item.go        Item.AsString(stripAnsi)
     terminal.go    Terminal.replacePlaceholder: stripAnsi = t.ansi
   The text SHOWN for a --with-nth item (nthTransformer, colour processing of the shown fields, trailing blanks trimmed)
   is C10's / C11's subject and enters as a parameter [shown]; no placeholder reads it. *)
From Fzf Require Import Prelude AnsiSpec AnsiModel ShellSpec PlaceholderModel PlusListModel.
Open Scope Z_scope.

Record ritem := mkR { r_index : Z; r_text : str; r_orig : option str }.   (* item.text.Index, item.text, item.origText *)

Definition trimmed_of (r : str * option (list aoff) * option astate) : str := fst (fst r).

(* ansiProcessor: opts.Ansi, opts.Theme.Colored, lineAnsiState (the state carried from the line before) *)
Definition ansi_processor (ansi col : bool) (carried : option astate) (data : str) : res str :=
  if ansi then
    if col then do r <- extract_color data carried; Ok (trimmed_of r)
    else do r <- extract_color data None; Ok (trimmed_of r)
  else Ok data.

(* the ChunkList closure.  shown = None: opts.WithNth == nil.  shown = Some d: --with-nth, d = the text of the fields
   shown as the closure computed it; item.origText = &data *)
Definition read_item (ansi col : bool) (carried : option astate) (shown : option str) (index : Z) (data : str) : res ritem :=
  match shown with
  | None => do t <- ansi_processor ansi col carried data; Ok (mkR index t None)
  | Some d => Ok (mkR index d (Some data))
  end.

(* Item.AsString *)
Definition as_string (strip_ansi : bool) (it : ritem) : res str :=
  match r_orig it with
  | Some o => if strip_ansi then do r <- extract_color o None; Ok (trimmed_of r) else Ok o
  | None => Ok (r_text it)
  end.

(* Terminal.replacePlaceholder: stripAnsi: t.ansi  (t.theme.Colored is not consulted) *)
Definition terminal_strip_ansi (ansi col : bool) : bool := ansi.

(* the item as replacePlaceholder's closures see it: item.text.Index and item.AsString(params.stripAnsi) (a pure function
   of the item, so evaluating it once per item instead of once per use changes nothing) *)
Definition seen_item (strip_ansi : bool) (it : ritem) : res item :=
  do t <- as_string strip_ansi it; Ok (r_index it, t).

Definition seen_opt (strip_ansi : bool) (o : option ritem) : res (option item) :=
  match o with
  | None => Ok None
  | Some it => do x <- seen_item strip_ansi it; Ok (Some x)
  end.

(* buildPlusList ; Terminal.replacePlaceholder on a finder started with --ansi / a coloured theme or not *)
Definition view_terminal_expand (ansi col : bool) (p : params) (cur : option ritem) (sel : list ritem)
                                (template : str) (temps : list str) : res (bool * (str * list str)) :=
  let strip := terminal_strip_ansi ansi col in
  do c <- seen_opt strip cur;
  do s <- map_res (seen_item strip) sel;
  terminal_expand p c s template temps.

(* a line as the reader met it: (state carried into it, text shown under --with-nth), (ordinal, bytes of the line) *)
Definition rline := ((option astate * option str) * (Z * str))%type.
Definition read_line (ansi col : bool) (l : rline) : res ritem :=
  read_item ansi col (fst (fst l)) (snd (fst l)) (fst (snd l)) (snd (snd l)).
