(* C20 model, second machine: the preview WINDOW as the render loop draws it (src/terminal.go: the reqPreviewDisplay
   case of the render loop, printPreview, renderPreviewArea, renderPreviewText), and the previewer's answer for a
   request whose list has no current item (the `items[0] == nil` branch of the previewer loop).

     previewer     for every request it takes it bumps its `version` and either starts the command or -- when there is
                   no current item -- publishes previewResult{version, nil, 0, ""} at once (blank_result).
     render loop   on reqPreviewDisplay: a result with a version other than t.previewer.version makes it adopt the
                   version, re-arm `following` from the window option and, when following, reset the offset; it copies the
                   lines; the offset becomes max(offset, len(lines) - height) when following, else the result's offset
                   constrained to [0, len(lines) - 1] when the result carries one (>= 0), else it stays; printPreview.
     printPreview  unchanged := (previewed.filled || len(lines) == previewed.numLines) && version == previewed.version
                   && offset == previewed.offset.  unchanged: only the first row is cleared and redrawn (the scroll
                   indicator lives there), the loop leaves after the first visible line.  Otherwise the window is erased
                   and every visible line is drawn; previewed.filled is set when the window is full.  Then the memo
                   (numLines, version, offset) is updated.

   Scope: a window of h > 0 rows, no header lines (~N), no wrapping (one row per line), no images, no scrolling by the
   user, no change of the window's size or options while the machine runs.  A negative offset arises only from
   constrain(.., 0, -1) on an empty output, where nothing is drawn whatever the offset. *)
From Fzf Require Import Prelude PreviewSpec PreviewWindowSpec.
Open Scope Z_scope.

Record presult := mkPR { pr_ver : nat; pr_lines : list str; pr_off : Z }.

Record wstate := mkW {
  w_ver : nat; w_lines : list str; w_off : Z; w_follow : bool;   (* t.previewer.version / lines / offset / following *)
  m_ver : nat; m_off : Z; m_num : nat; m_filled : bool;          (* t.previewed.version / offset / numLines / filled *)
  w_rows : list (option str)                                     (* the rows of the window on the terminal *)
}.

Definition winit (h : nat) : wstate := mkW 0 [] 0 false 0 0 0 false (blank_rows h).

Definition zlen {A} (l : list A) : Z := Z.of_nat (length l).

(* the previewer's answer when the request has no current item.  bump = the version counter is advanced for every
   request taken (the tree); bump = false: only when a command is started (refuted witness) *)
Definition blank_result (bump : bool) (pver : nat) : presult := mkPR (if bump then S pver else pver) [] 0.

Definition d_fresh (s : wstate) (r : presult) : bool := negb (Nat.eqb (w_ver s) (pr_ver r)).
Definition d_foll (optf : bool) (s : wstate) (r : presult) : bool := if d_fresh s r then optf else w_follow s.
Definition d_off (h : nat) (optf : bool) (s : wstate) (r : presult) : Z :=
  let foll := d_foll optf s r in
  let off0 := if d_fresh s r && foll then 0 else w_off s in
  let n := zlen (pr_lines r) in
  if foll then Z.max off0 (n - Z.of_nat h)
  else if 0 <=? pr_off r then constrain (pr_off r) 0 (n - 1) else off0.
Definition d_unchanged (h : nat) (optf : bool) (s : wstate) (r : presult) : bool :=
  (m_filled s || Nat.eqb (length (pr_lines r)) (m_num s)) && Nat.eqb (pr_ver r) (m_ver s)
  && (d_off h optf s r =? m_off s).

(* unchanged: MoveAndClear(0, 0), the first visible line is drawn again, the other rows are left as they are *)
Definition redraw_top (ls : list str) (off : nat) (rows : list (option str)) : list (option str) :=
  match rows with [] => [] | _ :: rest => nth_error ls off :: rest end.

Definition on_display (h : nat) (optf : bool) (s : wstate) (r : presult) : wstate :=
  let off := d_off h optf s r in
  let n := zlen (pr_lines r) in
  let unch := d_unchanged h optf s r in
  mkW (pr_ver r) (pr_lines r) off (d_foll optf s r)
      (pr_ver r) off (length (pr_lines r))
      (if unch then m_filled s else (0 <? n) && (Z.of_nat h <=? n - off))
      (if unch then redraw_top (pr_lines r) (Z.to_nat off) (w_rows s) else view (pr_lines r) (Z.to_nat off) h).

Fixpoint wrun (h : nat) (optf : bool) (rs : list presult) (s : wstate) : wstate :=
  match rs with [] => s | r :: rest => wrun h optf rest (on_display h optf s r) end.
