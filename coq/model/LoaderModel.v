(* C13 model of the loading side with SEVERAL pushers: ChunkList.Push (chunklist.go) running the ItemBuilder of
   core.go, called concurrently by the workers of the directory walker (reader.go: readFiles hands r.pusher to
   fastwalk).

   core.go's builder is a closure over shared variables:
       if len(header) < opts.HeaderLines { header = append(header, line); return false }
       item.text = ...; item.text.Index = itemIndex; itemIndex++; return true
   ChunkList.Push runs it on the next free slot of the last chunk WHILE HOLDING cl.mutex: one Push is one atomic step
   of the transition system below (ld_step), whoever makes it.  The chunk list is the store model of
   ChunkStoreModel.v, unchanged (push_gen, snapshot through cstep).

   The second half (the ub_ steps) is NOT how the code works: it is the same loader with the builder run outside the lock
   (read the counter, write the counter, append under the lock as three steps); kept for the refuted witnesses. *)
From Fzf Require Import Prelude SearchSpec LoaderSpec ChunkStoreModel.
Open Scope Z_scope.

Section LoaderModel.
  Variable D : Type.
  Notation itemT := (Z * D)%type.

  Record bstate := mkB { b_header : list D; b_next : Z }.     (* header, itemIndex *)
  Definition b_init : bstate := mkB [] 0.

  (* the ItemBuilder: None = it returned false (the line went to the header) *)
  Definition build (h : nat) (b : bstate) (d : D) : option itemT * bstate :=
    if Nat.ltb (length (b_header b)) h then (None, mkB (b_header b ++ [d]) (b_next b))
    else (Some (b_next b, d), mkB (b_header b) (b_next b + 1)).

  Record lstate := mkLd {
    ls_cl : clist itemT; ls_snaps : list (snap_result itemT);   (* snapshots handed out, newest first *)
    ls_b : bstate; ls_q : list (list D)                         (* what each pusher still has to push *)
  }.
  Definition ld_init (qs : list (list D)) : lstate := mkLd cl_empty [] b_init qs.

  Definition ld_step (h : nat) (st : lstate) (l : llabel) : res lstate :=
    match l with
    | LdPush p =>
        match nth_error (ls_q st) p with
        | Some (d :: rest) =>
            let (it, b') := build h (ls_b st) d in
            do x <- cstep (ls_cl st, ls_snaps st) (match it with Some v => CPush v | None => CReject end);
            Ok (mkLd (fst x) (snd x) b' (set_at (ls_q st) p rest))
        | _ => Ok st
        end
    | LdSnap t =>
        do x <- cstep (ls_cl st, ls_snaps st) (CSnap t);
        Ok (mkLd (fst x) (snd x) (ls_b st) (ls_q st))
    end.

  Fixpoint ld_run (h : nat) (st : lstate) (sched : list llabel) : res lstate :=
    match sched with
    | [] => Ok st
    | l :: r => do st' <- ld_step h st l; ld_run h st' r
    end.

  (* ---- the builder outside the lock (not the code; see the refuted witnesses) ---- *)
  Inductive ulabel := UbRead (p : nat) | UbWrite (p : nat) | UbAppend (p : nat).
  (* per pusher: nothing in hand | the counter value it read | the item it built *)
  Inductive hand := HNone | HRead (i : Z) | HBuilt (it : itemT).
  Record ustate := mkUb { us_cl : clist itemT; us_next : Z; us_q : list (list D); us_hand : list hand }.
  Definition ub_init (qs : list (list D)) : ustate := mkUb cl_empty 0 qs (map (fun _ => HNone) qs).

  Definition ub_step (st : ustate) (l : ulabel) : res ustate :=
    match l with
    | UbRead p =>
        match nth_error (us_hand st) p, nth_error (us_q st) p with
        | Some HNone, Some (_ :: _) => Ok (mkUb (us_cl st) (us_next st) (us_q st) (set_at (us_hand st) p (HRead (us_next st))))
        | _, _ => Ok st
        end
    | UbWrite p =>
        match nth_error (us_hand st) p, nth_error (us_q st) p with
        | Some (HRead i), Some (d :: rest) =>
            Ok (mkUb (us_cl st) (i + 1) (set_at (us_q st) p rest) (set_at (us_hand st) p (HBuilt (i, d))))
        | _, _ => Ok st
        end
    | UbAppend p =>
        match nth_error (us_hand st) p with
        | Some (HBuilt it) =>
            do cl' <- push (us_cl st) it;
            Ok (mkUb cl' (us_next st) (us_q st) (set_at (us_hand st) p HNone))
        | _ => Ok st
        end
    end.

  Fixpoint ub_run (st : ustate) (sched : list ulabel) : res ustate :=
    match sched with
    | [] => Ok st
    | l :: r => do st' <- ub_step st l; ub_run st' r
    end.
End LoaderModel.

Arguments mkB {D} b_header b_next.
Arguments b_header {D} b.
Arguments b_next {D} b.
Arguments b_init {D}.
Arguments build {D} h b d.
Arguments mkLd {D} ls_cl ls_snaps ls_b ls_q.
Arguments ls_cl {D} l.
Arguments ls_snaps {D} l.
Arguments ls_b {D} l.
Arguments ls_q {D} l.
Arguments ld_init {D} qs.
Arguments ld_step {D} h st l.
Arguments ld_run {D} h st sched.
Arguments HNone {D}.
Arguments HRead {D} i.
Arguments HBuilt {D} it.
Arguments mkUb {D} us_cl us_next us_q us_hand.
Arguments us_cl {D} u.
Arguments us_next {D} u.
Arguments us_q {D} u.
Arguments us_hand {D} u.
Arguments ub_init {D} qs.
Arguments ub_step {D} st l.
Arguments ub_run {D} st sched.
