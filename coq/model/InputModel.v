(* C06 model, part 3: the two places of core.go's Run that decide how reader, item builder and chunk list
   are put together.

   (a) --filter mode.  `streamingFilter := opts.Filter != nil && !sort && !opts.Tac && !opts.Sync` chooses
       between two Readers, each built by its own NewReader call with its own delimiter argument:
       the collecting one (pusher = chunkList.Push; after EvtReadFin ONE Snapshot(opts.Tail), scanned and
       printed, newest first under --tac) and the streaming one (pusher = chunkList.trans + match + print,
       nothing is pushed, no snapshot, hence no --tail).  The query is the empty one: every item matches
       and the pattern is not sortable, so the merger is the snapshot in order (reversed under --tac).
   (b) the interactive coordinator.  restart() (reload / reload-sync) clears the chunk list, resets
       itemIndex and the header; EvtReadNew / EvtReadFin take Snapshot(opts.Tail) unless the previous
       snapshot is being kept (useSnapshot: reload-sync, until EvtReadFin).
   Records reach the builder in batches (what the reader pushed between two EvtReadNew).  No proofs here. *)
From Fzf Require Import Prelude RecordSpec ReaderModel ChunkModel.
Open Scope Z_scope.

(* ---- (a) filter mode ---- *)
Record fopts := mkF { f_read0 : bool; f_sort : bool; f_tac : bool; f_sync : bool; f_hl : nat; f_tail : nat }.

(* core.go: streamingFilter := opts.Filter != nil && !sort && !opts.Tac && !opts.Sync && opts.Tail == 0.  The last
   conjunct is fix d7ddb0d; before it `--filter --no-sort --tail N` took the streaming path, which never takes a
   snapshot and so listed every record (streaming_rule_old is kept as the regression witness). *)
Definition streaming_rule_old (o : fopts) : bool := negb (f_sort o) && negb (f_tac o) && negb (f_sync o).
Definition streaming_filter (o : fopts) : bool := streaming_rule_old o && Nat.eqb (f_tail o) 0.

(* chunkList.trans applied to every record in turn; accepted items are printed at once *)
Fixpoint build_all (hl : nat) (st : bstate) (recs : list str) : bstate * list item :=
  match recs with
  | [] => (st, [])
  | r :: t =>
      let '(st1, it) := build hl st r in
      let '(st2, its) := build_all hl st1 t in
      (st2, match it with Some x => x :: its | None => its end)
  end.

(* header lines and the printed items, in print order *)
Definition filter_run_with (rule : fopts -> bool) (bufsz slabsz chunk_size : nat) (o : fopts) (s : str) (cuts : list nat)
  : res (list str * list item) :=
  if rule o then
    do recs <- feed_records bufsz slabsz (delim_of (f_read0 o)) false s cuts;
    let '(st, its) := build_all (f_hl o) (mkB [] O) recs in
    Ok (b_header st, its)
  else
    do p <- pipeline bufsz slabsz chunk_size (f_read0 o) (f_hl o) (f_tail o) s cuts;
    Ok (fst p, if f_tac o then rev (snd p) else snd p).
Definition filter_run := filter_run_with streaming_filter.

(* ---- (b) interactive coordinator ---- *)
(* builder state (itemIndex, header), chunk list, the snapshot last handed to the matcher, useSnapshot *)
Record cstate := mkC { c_b : bstate; c_cs : @chunklist item; c_snap : list item; c_keep : bool }.

Definition cinit : cstate := mkC (mkB [] O) [] [] false.

(* restart(): chunkList.Clear(); itemIndex = 0; header = fresh; the old snapshot stays on display *)
Definition restart (st : cstate) (sync : bool) : cstate := mkC (mkB [] O) [] (c_snap st) sync.

(* EvtReadNew *)
Definition on_read_new (chunk_size tail : nat) (st : cstate) : res cstate :=
  if c_keep st then Ok st
  else
    do sn <- snapshot chunk_size tail (c_cs st);
    let '(cs', ret, _, _) := sn in
    Ok (mkC (c_b st) cs' (concat ret) false).

(* EvtReadFin: `useSnapshot = false` first *)
Definition on_read_fin (chunk_size tail : nat) (st : cstate) : res cstate :=
  on_read_new chunk_size tail (mkC (c_b st) (c_cs st) (c_snap st) false).

(* news = how many records the reader pushes before each EvtReadNew; the rest arrives before EvtReadFin *)
Fixpoint run_batches (chunk_size hl tail : nat) (st : cstate) (recs : list str) (news : list nat) : res cstate :=
  match news with
  | [] =>
      do bc <- ingest chunk_size hl (c_b st) (c_cs st) recs;
      on_read_fin chunk_size tail (mkC (fst bc) (snd bc) (c_snap st) (c_keep st))
  | k :: r =>
      do bc <- ingest chunk_size hl (c_b st) (c_cs st) (firstn k recs);
      do st' <- on_read_new chunk_size tail (mkC (fst bc) (snd bc) (c_snap st) (c_keep st));
      run_batches chunk_size hl tail st' (skipn k recs) r
  end.

(* one input source: the initial one, or a reload (sync = reload-sync) *)
Record load := mkL { l_sync : bool; l_stream : str; l_cuts : list nat; l_news : list nat }.

Definition run_load (bufsz slabsz chunk_size : nat) (read0 : bool) (hl tail : nat) (st : cstate) (l : load)
  : res cstate :=
  do recs <- feed_records bufsz slabsz (delim_of read0) false (l_stream l) (l_cuts l);
  run_batches chunk_size hl tail (restart st (l_sync l)) recs (l_news l).

(* the list on display after each source has been read completely *)
Fixpoint run_session (bufsz slabsz chunk_size : nat) (read0 : bool) (hl tail : nat) (st : cstate) (ls : list load)
  : res (list (list item)) :=
  match ls with
  | [] => Ok []
  | l :: r =>
      do st' <- run_load bufsz slabsz chunk_size read0 hl tail st l;
      do vs <- run_session bufsz slabsz chunk_size read0 hl tail st' r;
      Ok (c_snap st' :: vs)
  end.
