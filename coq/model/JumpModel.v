(* C14, jump mode: executable restatement of (a) the label part of Terminal.printItem (src/terminal.go)
       if t.jumping != jumpDisabled { if index < len(t.jumpLabels) { label = t.jumpLabels[index:index+1] + ... } }
   for the rows 0 .. visible-1 of a frame, every slice checked, and (b) the index test of the key handler of
   Terminal.Loop  `idx := strings.IndexRune(t.jumpLabels, ch); idx >= 0 && idx < t.maxItems() && idx < t.merger.Length()`
   followed by `t.cy = idx + t.offset`.  No proofs here. *)
From Fzf Require Import Prelude JumpSpec.
Open Scope Z_scope.

(* s[lo:hi], checked as the Go runtime checks it *)
Fixpoint take_res (l : str) (n : nat) {struct n} : res str :=
  match n, l with
  | O, _ => Ok []
  | S n, x :: t => do r <- take_res t n; Ok (x :: r)
  | S _, [] => Err Panic
  end.

Fixpoint drop_res (l : str) (n : nat) {struct n} : res str :=
  match n, l with
  | O, _ => Ok l
  | S n, _ :: t => drop_res t n
  | S _, [] => Err Panic
  end.

Definition slice (l : str) (lo hi : nat) : res str :=
  if (hi <? lo)%nat then Err Panic else do d <- drop_res l lo; take_res d (hi - lo).

(* the label of visible row `index`; `guard` is the comparison of the index with the number of labels *)
Definition jump_label_with (guard : nat -> nat -> bool) (labels : str) (pointerLen index : nat) : res (option str) :=
  if guard index (length labels)
  then do c <- slice labels index (index + 1); Ok (Some (c ++ repeat 32 (pointerLen - 1)))
  else Ok None.

Definition jump_label := jump_label_with Nat.ltb.       (* fzf: index < len(t.jumpLabels) *)
Definition jump_label_le := jump_label_with Nat.leb.    (* what a careless edit produces *)

Fixpoint rows_res {A} (f : nat -> res A) (from n : nat) : res (list A) :=
  match n with
  | O => Ok []
  | S n => do x <- f from; do r <- rows_res f (S from) n; Ok (x :: r)
  end.

(* the labels of one frame: `visible` rows hold an item *)
Definition jump_frame_with guard (labels : str) (pointerLen visible : nat) : res (list (option str)) :=
  rows_res (jump_label_with guard labels pointerLen) 0 visible.
Definition jump_frame := jump_frame_with Nat.ltb.
Definition jump_frame_le := jump_frame_with Nat.leb.

(* what the frame reads of the label string *)
Definition jump_reads_with (guard : nat -> nat -> bool) (nlabels visible : nat) : list jread :=
  map (fun i => if guard i nlabels then JSlice i (i + 1) else JNone) (seq 0 visible).

Fixpoint index_of (c : Z) (l : str) (i : nat) : option nat :=
  match l with
  | [] => None
  | x :: t => if x =? c then Some i else index_of c t (S i)
  end.

(* the key handler: Some cy when the key is a label that picks a row, None for jump-cancel *)
Definition jump_pick (labels : str) (key : Z) (rows count offset : nat) : option nat :=
  match index_of key labels 0 with
  | Some idx => if (idx <? rows)%nat && (idx <? count)%nat then Some (idx + offset)%nat else None
  | None => None
  end.
