(* Executable restatement of the part of options.go that decides the sort criteria:
   defaultOptions (Scheme "", Criteria [] "unknown", Sort 1000, Tac false), parseScheme, parseTiebreak (the six has*
   flags and the `check` closure), the --scheme / --tiebreak / --sort / --no-sort / --tac / --no-tac cases of
   parseOptions, and step 4 of ParseOptions (default scheme; `path` when the built-in walker is used).
   Criteria are the numeric constants of result.go: byScore 0, byChunk 1, byLength 2, byBegin 3, byEnd 4, byPathname 5.
   No proofs here. *)
From Fzf Require Import Prelude RankSpec CriteriaSpec.
Open Scope Z_scope.

Definition crit_code (c : crit) : Z :=
  match c with ByScore => 0 | ByChunk => 1 | ByLength => 2 | ByBegin => 3 | ByEnd => 4 | ByPathname => 5 end.

(* parseScheme: (lower-cased name, criteria) *)
Definition parse_scheme (s : str) : res (str * list Z) :=
  let s := map lower_ascii s in
  if str_eqb s w_history then Ok (s, [0])
  else if str_eqb s w_path then Ok (s, [0; 5; 2])
  else if str_eqb s w_default then Ok (s, [0; 2])
  else Err BadInput.

Record tbflags := mkFlags { has_index : bool; has_chunk : bool; has_length : bool; has_begin : bool;
                            has_end : bool; has_pathname : bool }.
Definition no_flags := mkFlags false false false false false false.

Definition flag_of (n : tbname) (f : tbflags) : bool :=
  match n with
  | TIndex => has_index f | TChunk => has_chunk f | TLength => has_length f | TBegin => has_begin f
  | TEnd => has_end f | TPathname => has_pathname f
  end.
Definition set_flag (n : tbname) (f : tbflags) : tbflags :=
  match n with
  | TIndex => mkFlags true (has_chunk f) (has_length f) (has_begin f) (has_end f) (has_pathname f)
  | TChunk => mkFlags (has_index f) true (has_length f) (has_begin f) (has_end f) (has_pathname f)
  | TLength => mkFlags (has_index f) (has_chunk f) true (has_begin f) (has_end f) (has_pathname f)
  | TBegin => mkFlags (has_index f) (has_chunk f) (has_length f) true (has_end f) (has_pathname f)
  | TEnd => mkFlags (has_index f) (has_chunk f) (has_length f) (has_begin f) true (has_pathname f)
  | TPathname => mkFlags (has_index f) (has_chunk f) (has_length f) (has_begin f) (has_end f) true
  end.

(* the closure `check(notExpected *bool, name)`: duplicate -> error; anything after index -> error; else set *)
Definition check (n : tbname) (f : tbflags) : res tbflags :=
  if flag_of n f then Err BadInput
  else if has_index f then Err BadInput
  else Ok (set_flag n f).

(* the `switch str` of the loop: which flag is checked and which constant is appended *)
Definition tb_case (w : str) : res (tbname * list Z) :=
  if str_eqb w w_index then Ok (TIndex, [])
  else if str_eqb w w_chunk then Ok (TChunk, [1])
  else if str_eqb w w_pathname then Ok (TPathname, [5])
  else if str_eqb w w_length then Ok (TLength, [2])
  else if str_eqb w w_begin then Ok (TBegin, [3])
  else if str_eqb w w_end then Ok (TEnd, [4])
  else Err BadInput.

Fixpoint tb_loop (ws : list str) (f : tbflags) (criteria : list Z) : res (list Z) :=
  match ws with
  | [] => Ok criteria
  | w :: r =>
      do c <- tb_case w;
      do f' <- check (fst c) f;
      tb_loop r f' (criteria ++ snd c)
  end.

Definition parse_tiebreak (s : str) : res (list Z) :=
  do criteria <- tb_loop (split_on 44 (map lower_ascii s)) no_flags [0];
  if (4 <? Z.of_nat (length criteria)) then Err BadInput else Ok criteria.

Record opts := mkOpts { o_scheme : str; o_criteria : list Z; o_sort : Z; o_tac : bool }.

Definition default_options : opts := mkOpts [] [] 1000 false.

(* one case of the big switch in parseOptions *)
Definition apply_opt (o : copt) (st : opts) : res opts :=
  match o with
  | OScheme s => do r <- parse_scheme s; Ok (mkOpts (fst r) (snd r) (o_sort st) (o_tac st))
  | OTiebreak s => do c <- parse_tiebreak s; Ok (mkOpts (o_scheme st) c (o_sort st) (o_tac st))
  | OSort true => Ok (mkOpts (o_scheme st) (o_criteria st) 1 (o_tac st))      (* optionalNumeric(1), no number given *)
  | OSort false => Ok (mkOpts (o_scheme st) (o_criteria st) 0 (o_tac st))
  | OTac b => Ok (mkOpts (o_scheme st) (o_criteria st) (o_sort st) b)
  end.

Fixpoint parse_all (os : list copt) (st : opts) : res opts :=
  match os with
  | [] => Ok st
  | o :: r => do st' <- apply_opt o st; parse_all r st'
  end.

(* ParseOptions: steps 1-3 are one pass over the concatenated words; then step 4 *)
Definition parse_options (walker : bool) (os : list copt) : res opts :=
  do st <- parse_all os default_options;
  if (length (o_scheme st) =? 0)%nat then
    let st1 := mkOpts w_default (o_criteria st) (o_sort st) (o_tac st) in
    if (length (o_criteria st1) =? 0)%nat then
      let st2 := if walker then mkOpts w_path (o_criteria st1) (o_sort st1) (o_tac st1) else st1 in
      do r <- parse_scheme (o_scheme st2);
      Ok (mkOpts (o_scheme st2) (snd r) (o_sort st2) (o_tac st2))
    else Ok st1
  else Ok st.
