(* Executable restatement of src/merger.go (NewMerger, PassMerger, Length, Get, mergedGet),
   Matcher.sliceChunks and the data flow of Matcher.scan (src/matcher.go), and the printing loop of
   filter mode (src/core.go).  Generic in the item type I, the result type A, Result{item: &x} (mk) and
   the comparison used for sorting/merging (less = compareRanks(., ., tac)); chunkSize is a parameter.
   Indexes are Go ints (Z): a negative or too large index is a panic (Err).  No proofs here.

   A chunk is modelled by the list of its first `count` items (Chunk.items[0:count]); reading a slot at or
   beyond `count` is an error in the model (in Go it would silently yield a stale Item).
   The sentinel minRank() of mergedGet is never compared (guarded by minIdx < 0): it is modelled by None.
   Worker goroutines of scan: each one writes only partialResults[its own index], so the schedule cannot
   influence the lists handed to NewMerger; modelled as a pure map over the slices. *)
From Fzf Require Import Prelude RankModel.
Open Scope Z_scope.

Definition slicez {A} (l : list A) (a b : Z) : res (list A) :=     (* l[a:b] *)
  if (0 <=? a) && (a <=? b) && (b <=? zlength l) then Ok (firstn (Z.to_nat (b - a)) (skipn (Z.to_nat a) l))
  else Err OutOfRange.

Definition setz {A} (l : list A) (i : Z) (v : A) : res (list A) :=
  if i <? 0 then Err OutOfRange else set_nth l (Z.to_nat i) v.

Fixpoint sum_lengths {A} (ls : list (list A)) : Z :=
  match ls with [] => 0 | l :: r => zlength l + sum_lengths r end.

Section Merger.
Variable I A : Type.
Variable mk : I -> A.                (* Result{item: &chunk.items[k]} *)
Variable less : A -> A -> bool.      (* compareRanks(a, b, mg.tac) *)
Variable chunk_size : Z.             (* chunkSize = 100 *)

Record merger := mkMerger {
  mg_lists : list (list A);
  mg_merged : list A;
  mg_chunks : option (list (list I));   (* nil for NewMerger *)
  mg_cursors : list Z;
  mg_sorted : bool;
  mg_tac : bool;
  mg_count : Z
}.

Definition new_merger (lists : list (list A)) (sorted tac : bool) : merger :=
  mkMerger lists [] None (map (fun _ => 0) lists) sorted tac (sum_lengths lists).

Definition pass_merger (chunks : list (list I)) (tac : bool) : merger :=
  mkMerger [] [] (Some chunks) [] false tac (sum_lengths chunks).

Definition merger_length (mg : merger) : Z := mg_count mg.

(* one round of the inner loop of mergedGet over (list, cursor) pairs:
   returns the updated cursors, minIdx and minRank *)
Fixpoint scan_heads (lists : list (list A)) (cursors : list Z) (listIdx : Z) (minIdx : Z) (minRank : option A)
  : res (list Z * Z * option A) :=
  match lists, cursors with
  | [], _ => Ok ([], minIdx, minRank)
  | list :: ls, cursor :: cs =>
      if (cursor <? 0) || (cursor =? zlength list) then
        do r <- scan_heads ls cs (listIdx + 1) minIdx minRank;
        let '(cs', mi, mr) := r in Ok (-1 :: cs', mi, mr)
      else
        do rank <- getz list cursor;
        let take := if minIdx <? 0 then true
                    else match minRank with Some m => less rank m | None => true end in
        do r <- (if take then scan_heads ls cs (listIdx + 1) listIdx (Some rank)
                 else scan_heads ls cs (listIdx + 1) minIdx minRank);
        let '(cs', mi, mr) := r in Ok (cursor :: cs', mi, mr)
  | _ :: _, [] => Err OutOfRange
  end.

(* for i := len(mg.merged); i <= idx; i++ { ... } *)
Fixpoint extend (fuel : nat) (lists : list (list A)) (merged : list A) (cursors : list Z) : res (list A * list Z) :=
  match fuel with
  | O => Ok (merged, cursors)
  | S f =>
      do r <- scan_heads lists cursors 0 (-1) None;
      let '(cursors1, minIdx, _) := r in
      if minIdx >=? 0 then
        do chosen <- getz lists minIdx;
        do c <- getz cursors1 minIdx;
        do x <- getz chosen c;
        do cursors2 <- setz cursors1 minIdx (c + 1);
        extend f lists (merged ++ [x]) cursors2
      else Err Panic                       (* "Index out of bounds (sorted, i/count)" *)
  end.

Definition merged_get (mg : merger) (idx : Z) : res (A * merger) :=
  let n := zlength (mg_merged mg) in
  do r <- extend (Z.to_nat (idx + 1 - n)) (mg_lists mg) (mg_merged mg) (mg_cursors mg);
  let '(merged, cursors) := r in
  do x <- getz merged idx;
  Ok (x, mkMerger (mg_lists mg) merged (mg_chunks mg) cursors (mg_sorted mg) (mg_tac mg) (mg_count mg)).

(* for _, list := range mg.lists { if idx < len(list) { return list[idx] }; idx -= len(list) }; panic *)
Fixpoint unsorted_get (lists : list (list A)) (idx : Z) : res A :=
  match lists with
  | [] => Err Panic
  | list :: r => if idx <? zlength list then getz list idx else unsorted_get r (idx - zlength list)
  end.

Definition merger_get (mg : merger) (idx : Z) : res (A * merger) :=
  match mg_chunks mg with
  | Some chunks =>
      let idx := if mg_tac mg then mg_count mg - idx - 1 else idx in
      do first <- getz chunks 0;
      if (zlength first <? chunk_size) && (idx >=? zlength first) then
        let idx := idx - zlength first in
        do chunk <- getz chunks (Z.quot idx chunk_size + 1);
        do it <- getz chunk (Z.rem idx chunk_size);
        Ok (mk it, mg)
      else
        do chunk <- getz chunks (Z.quot idx chunk_size);
        do it <- getz chunk (Z.rem idx chunk_size);
        Ok (mk it, mg)
  | None =>
      if mg_sorted mg then merged_get mg idx
      else
        let idx := if mg_tac mg then mg_count mg - idx - 1 else idx in
        do x <- unsorted_get (mg_lists mg) idx; Ok (x, mg)
  end.

(* any sequence of probes, answers in order *)
Fixpoint probes (mg : merger) (idxs : list Z) : res (list A) :=
  match idxs with
  | [] => Ok []
  | i :: r => do xm <- merger_get mg i; do xs <- probes (snd xm) r; Ok (fst xm :: xs)
  end.

(* core.go, filter mode: for i := 0; i < merger.Length(); i++ { print(merger.Get(i)) } *)
Fixpoint read_from (fuel : nat) (mg : merger) (i : Z) : res (list A) :=
  match fuel with
  | O => Ok []
  | S f => do xm <- merger_get mg i; do xs <- read_from f (snd xm) (i + 1); Ok (fst xm :: xs)
  end.
Definition read_all (mg : merger) : res (list A) := read_from (Z.to_nat (merger_length mg)) mg 0.

(* ---- Matcher.sliceChunks ---- *)
Fixpoint slices_from {C} (chunks : list C) (fuel : nat) (i partitions perSlice : Z) : res (list (list C)) :=
  match fuel with
  | O => Ok []
  | S f =>
      let start := i * perSlice in
      let stop := if i =? partitions - 1 then zlength chunks else start + perSlice in
      do s <- slicez chunks start stop;
      do r <- slices_from chunks f (i + 1) partitions perSlice;
      Ok (s :: r)
  end.

Definition slice_chunks {C} (partitions : Z) (chunks : list C) : res (list (list C)) :=
  if partitions <=? 0 then Err BadInput                  (* division by zero / negative make: never (>= 1 by NewMatcher) *)
  else
    let perSlice := Z.quot (zlength chunks) partitions in
    let '(partitions, perSlice) := if perSlice =? 0 then (zlength chunks, 1) else (partitions, perSlice) in
    slices_from chunks (Z.to_nat partitions) 0 partitions perSlice.

(* ---- Matcher.scan ---- *)
Variable mt : I -> option A.          (* Pattern.MatchItem: Some result when the item matches *)

(* Pattern.matchChunk without a search space: the matches of a chunk, in item order *)
Fixpoint match_chunk (c : list I) : list A :=
  match c with
  | [] => []
  | x :: r => match mt x with Some m => m :: match_chunk r | None => match_chunk r end
  end.

Definition scan (partitions : Z) (m_sort tac pat_empty pat_sortable : bool) (chunks : list (list I)) : res merger :=
  match chunks with
  | [] => Ok (new_merger [] false false)                      (* EmptyMerger *)
  | _ =>
      if pat_empty then Ok (pass_merger chunks tac)
      else
        do slices <- slice_chunks partitions chunks;
        let sorted := m_sort && pat_sortable in
        let partial := map (fun sl => let ms := concat (map match_chunk sl) in
                                      if sorted then sort_results less ms else ms) slices in
        Ok (new_merger partial sorted tac)
  end.

(* filter mode end to end: what is printed, in order *)
Definition filter_output (partitions : Z) (m_sort tac pat_empty pat_sortable : bool) (chunks : list (list I)) : res (list A) :=
  do mg <- scan partitions m_sort tac pat_empty pat_sortable chunks;
  read_all mg.

End Merger.
